#!/bin/bash
# Entry point of the verification machinery (DESIGN.md §8).
#   ./verif.sh setup
#   ./verif.sh check <Cxx> [quick|thorough] [extra harness flags]
#   ./verif.sh replay <path>
#   ./verif.sh build <Cxx>
# Environment: VERIF_REPO (default /repo) selects the tree that is rebuilt and
# explored; VERIF_TIER, VERIF_SEED as in MANIFEST.schema.json.
set -u
ROOT="$(cd "$(dirname "${BASH_SOURCE[0]}")" && pwd)"
export VERIF_ROOT="$ROOT"
export VERIF_REPO="${VERIF_REPO:-/repo}"
export GOPROXY=off GOSUMDB=off GOTOOLCHAIN=local GOFLAGS=-mod=mod
export CGO_ENABLED=0
BUILD="$ROOT/.build"
mkdir -p "$BUILD/bin"

overlay() { # writes $BUILD/overlay.<hash>.json for $VERIF_REPO, prints its path
  local tag
  tag=$(echo "$VERIF_REPO" | sha256sum | cut -c1-10)
  python3 "$ROOT/tools/mkoverlay.py" "$ROOT/harness" "$VERIF_REPO" > "$BUILD/overlay.$tag.json.tmp.$$" || exit 2
  mv "$BUILD/overlay.$tag.json.tmp.$$" "$BUILD/overlay.$tag.json"
  [ "$VERIF_REPO" = /repo ] && cp "$BUILD/overlay.$tag.json" "$BUILD/overlay.json"
  echo "$BUILD/overlay.$tag.json"
}

instrument() { # runs the range-over-map rewriter on $VERIF_REPO (cached by source hash); prints the dir
  local tag key rwbin dir
  tag=$(echo "$VERIF_REPO" | sha256sum | cut -c1-10)
  key=$( (cd "$VERIF_REPO" && find . -name '*.go' -not -name '*_test.go' -not -path './.git/*' -print0 | sort -z | xargs -0 sha256sum; sha256sum "$ROOT/harness/rewriter/main.go") | sha256sum | cut -c1-12)
  dir="$BUILD/rw.$tag.$key"
  if [ ! -f "$dir/overlay.json" ]; then
    rwbin=$(build rewriter) || exit 2
    rm -rf "$BUILD"/rw."$tag".* "$dir.tmp.$$"
    "$rwbin" "$VERIF_REPO" "$dir.tmp.$$" >&2 || { echo "HARNESS-ERROR: rewriter failed" >&2; exit 2; }
    mv "$dir.tmp.$$" "$dir"
    # rewritten files were written under the tmp name: fix the paths in the overlay
    sed -i "s#$dir.tmp.$$#$dir#g" "$dir/overlay.json"
  fi
  echo "$dir"
}

build() { # build <pkgdir-name> -> $BUILD/bin/<name>.<tag>
  local id="$1" ov tag out rw
  ov=$(overlay) || exit 2
  tag=$(echo "$VERIF_REPO" | sha256sum | cut -c1-10)
  out="$BUILD/bin/$id.$tag"
  if [ -f "$ROOT/harness/$id/INSTRUMENT" ]; then
    rw=$(instrument) || exit 2
    python3 - "$ov" "$rw/overlay.json" > "$BUILD/overlay.$tag.$id.json" <<'PY' || exit 2
import json, sys
a = json.load(open(sys.argv[1])); b = json.load(open(sys.argv[2]))
a["Replace"].update(b["Replace"]); json.dump(a, sys.stdout, indent=1)
PY
    ov="$BUILD/overlay.$tag.$id.json"
    export GODEBUG=goindex=0
    echo "$rw/report.json" > "$BUILD/rwreport.$id.$tag"
  fi
  if ! (cd "$VERIF_REPO" && go build -tags verif -overlay "$ov" -o "$out" "./verifx/$id") 2> "$BUILD/build.$id.$tag.log"; then
    echo "HARNESS-ERROR: build of harness $id against $VERIF_REPO failed:" >&2
    head -40 "$BUILD/build.$id.$tag.log" >&2
    # A tree that no longer compiles is not a property violation; exit 2.
    exit 2
  fi
  echo "$out"
}

cmd="${1:-}"; shift || true
case "$cmd" in
  setup)
    for d in "$ROOT"/harness/c[0-9][0-9]; do
      id=$(basename "$d")
      build "$id" > /dev/null || exit 2
    done
    echo "setup ok"
    ;;
  build)
    id=$(echo "$1" | tr 'A-Z' 'a-z'); build "$id"
    ;;
  check)
    ID="$1"; shift
    id=$(echo "$ID" | tr 'A-Z' 'a-z')
    tier="${1:-${VERIF_TIER:-quick}}"; [ $# -gt 0 ] && shift
    bin=$(build "$id") || exit 2
    tag=$(echo "$VERIF_REPO" | sha256sum | cut -c1-10)
    [ -f "$BUILD/rwreport.$id.$tag" ] && export VERIF_REWRITE_REPORT=$(cat "$BUILD/rwreport.$id.$tag")
    exec "$bin" --tier "$tier" "$@"
    ;;
  replay)
    path="$1"; shift
    ID=$(python3 -c 'import json,sys; print(json.load(open(sys.argv[1]))["property"])' "$path") || exit 2
    id=$(echo "$ID" | tr 'A-Z' 'a-z')
    bin=$(build "$id") || exit 2
    tag=$(echo "$VERIF_REPO" | sha256sum | cut -c1-10)
    [ -f "$BUILD/rwreport.$id.$tag" ] && export VERIF_REWRITE_REPORT=$(cat "$BUILD/rwreport.$id.$tag")
    exec "$bin" --replay "$path" "$@"
    ;;
  *)
    echo "usage: $0 setup | check <Cxx> [quick|thorough] | replay <path> | build <Cxx>" >&2; exit 2;;
esac
