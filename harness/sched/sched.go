//go:build verif

// Package verifsched is the controlled scheduler of engine E2 (DESIGN §2.3):
// every instrumented `range <map>` asks it for the iteration order.
package verifsched

import (
	"fmt"
	"iter"
	"sort"
)

// Point is one dynamic choice point: a range over a map with >= 2 keys.
type Point struct {
	Site   string `json:"site"`
	N      int    `json:"n"`
	Choice int    `json:"choice"`
	Alts   int    `json:"alts"`
	Capped bool   `json:"capped,omitempty"` // n > 4: only rotations, reversal and adjacent transpositions are offered
}

const (
	PolicyNone    = 0
	PolicyReverse = 1
	PolicyRotate  = 2
)

var (
	prefix  []int
	policy  map[string]int
	Trace   []Point
	Enabled bool
	// MaxN records, per static site, the largest map seen (also with < 2 keys).
	MaxN = map[string]int{}
)

// Begin starts one execution: choices[i] is forced at the i-th dynamic point,
// the default (canonical sorted order) is taken afterwards unless the site has
// a uniform policy.
func Begin(choices []int, sitePolicy map[string]int) {
	prefix = choices
	policy = sitePolicy
	Trace = nil
	Enabled = true
}

func End() []Point {
	Enabled = false
	t := Trace
	Trace = nil
	return t
}

func fact(n int) int {
	r := 1
	for i := 2; i <= n; i++ {
		r *= i
	}
	return r
}

// Alternatives returns the number of orders offered for a map of n keys.
func Alternatives(n int) (alts int, capped bool) {
	if n < 2 {
		return 1, false
	}
	if n <= 4 {
		return fact(n), false
	}
	return 2 * n, true
}

// perm returns the permutation of 0..n-1 selected by choice.
func perm(n, choice int) []int {
	p := make([]int, n)
	for i := range p {
		p[i] = i
	}
	if choice == 0 {
		return p
	}
	if n <= 4 {
		elems := append([]int(nil), p...)
		out := make([]int, 0, n)
		idx := choice
		for i := n; i >= 1; i-- {
			f := fact(i - 1)
			k := idx / f
			idx %= f
			out = append(out, elems[k])
			elems = append(elems[:k], elems[k+1:]...)
		}
		return out
	}
	switch {
	case choice < n: // rotation by choice
		for i := range p {
			p[i] = (i + choice) % n
		}
	case choice == n: // reversal
		for i := range p {
			p[i] = n - 1 - i
		}
	default: // adjacent transposition (choice-n-1, choice-n)
		i := choice - n - 1
		p[i], p[i+1] = p[i+1], p[i]
	}
	return p
}

func policyChoice(n, pol int) int {
	switch pol {
	case PolicyReverse:
		if n <= 4 {
			return fact(n) - 1
		}
		return n
	case PolicyRotate:
		if n <= 4 {
			// rotation by one: [1,2,..,n-1,0]
			want := make([]int, n)
			for i := range want {
				want[i] = (i + 1) % n
			}
			for c := 0; c < fact(n); c++ {
				if fmt.Sprint(perm(n, c)) == fmt.Sprint(want) {
					return c
				}
			}
		}
		return 1
	}
	return 0
}

func less(a, b any) bool {
	switch x := a.(type) {
	case string:
		return x < b.(string)
	case int:
		return x < b.(int)
	}
	return fmt.Sprint(a) < fmt.Sprint(b)
}

// Map iterates m in the order chosen by the scheduler.
func Map[M ~map[K]V, K comparable, V any](m M, site string) iter.Seq2[K, V] {
	return func(yield func(K, V) bool) {
		keys := make([]K, 0, len(m))
		for k := range m {
			keys = append(keys, k)
		}
		sort.Slice(keys, func(i, j int) bool { return less(any(keys[i]), any(keys[j])) })
		n := len(keys)
		if Enabled {
			if n > MaxN[site] {
				MaxN[site] = n
			}
		}
		if Enabled && n >= 2 {
			alts, capped := Alternatives(n)
			idx := len(Trace)
			choice := 0
			if idx < len(prefix) {
				choice = prefix[idx]
				if choice < 0 || choice >= alts {
					panic(fmt.Sprintf("verifsched: choice %d out of range [0,%d) at point %d (%s): replay diverged", choice, alts, idx, site))
				}
			} else if pol := policy[site]; pol != PolicyNone {
				choice = policyChoice(n, pol)
			}
			Trace = append(Trace, Point{Site: site, N: n, Choice: choice, Alts: alts, Capped: capped})
			if choice != 0 {
				p := perm(n, choice)
				permuted := make([]K, n)
				for i, j := range p {
					permuted[i] = keys[j]
				}
				keys = permuted
			}
		}
		for _, k := range keys {
			v, ok := m[k]
			if !ok {
				continue
			}
			if !yield(k, v) {
				return
			}
		}
	}
}
