//go:build verif

// Package irgen is grammar I of DESIGN.md §3.2: a value-typed description of
// ast.Type terms (Term) and of schemas (SchemaSpec) that can be enumerated
// exhaustively up to a depth, built freshly (no sharing between two builds),
// printed canonically and reduced one step at a time.
package irgen

import (
	"fmt"
	"sort"
	"strings"

	"github.com/grafana/cog/internal/ast"
)

// Term describes one ast.Type.
type Term struct {
	K string // scalar const enum struct array map ref constref disj inter slot
	A string // scalar kind | const flavour | enum flavour | ref target "pkg.Name" | slot variant
	// children: array [elem]; map [index, value]; disj/inter branches; struct field types
	Sub      []Term
	Fields   []Field // struct only, parallel to Sub
	Nullable bool
	Default  string // "" | scalar | list | map | zero | emptylist | emptymap
	Hints    int    // number of hint entries (0..2)
	Constr   bool   // scalar constraints
	Disc     bool   // disjunction: discriminator + mapping set
}

type Field struct {
	Name     string
	Required bool
}

func S(kind string) Term         { return Term{K: "scalar", A: kind} }
func Const(flavour string) Term  { return Term{K: "const", A: flavour} }
func Enum(flavour string) Term   { return Term{K: "enum", A: flavour} }
func Ref(target string) Term     { return Term{K: "ref", A: target} }
func ConstRef(target string) Term { return Term{K: "constref", A: target} }
func Slot() Term                 { return Term{K: "slot", A: "dataquery"} }
func Null() Term                 { return Term{K: "scalar", A: "null"} }
func Array(e Term) Term          { return Term{K: "array", Sub: []Term{e}} }
func Map(v Term) Term            { return Term{K: "map", Sub: []Term{S("string"), v}} }
func MapIdx(i, v Term) Term      { return Term{K: "map", Sub: []Term{i, v}} }
func Disj(b ...Term) Term        { return Term{K: "disj", Sub: b} }
func Inter(b ...Term) Term       { return Term{K: "inter", Sub: b} }
func Nullable(t Term) Term       { t.Nullable = true; return t }
func Struct1(name string, required bool, t Term) Term {
	return Term{K: "struct", Sub: []Term{t}, Fields: []Field{{name, required}}}
}
func StructN(fields []Field, types []Term) Term {
	return Term{K: "struct", Sub: types, Fields: fields}
}

func (t Term) String() string {
	var b strings.Builder
	switch t.K {
	case "scalar":
		b.WriteString(t.A)
		if t.Constr {
			b.WriteString("[c]")
		}
	case "const", "enum", "ref", "constref", "slot":
		b.WriteString(t.K + "(" + t.A + ")")
	case "array":
		b.WriteString("array(" + t.Sub[0].String() + ")")
	case "map":
		if t.Sub[0].String() == "string" {
			b.WriteString("map(" + t.Sub[1].String() + ")")
		} else {
			b.WriteString("map[" + t.Sub[0].String() + "](" + t.Sub[1].String() + ")")
		}
	case "disj", "inter":
		var parts []string
		for _, s := range t.Sub {
			parts = append(parts, s.String())
		}
		sep := "|"
		if t.K == "inter" {
			sep = "&"
		}
		b.WriteString("(" + strings.Join(parts, sep) + ")")
		if t.Disc {
			b.WriteString("@disc")
		}
	case "struct":
		var parts []string
		for i, s := range t.Sub {
			n := t.Fields[i].Name
			if !t.Fields[i].Required {
				n += "?"
			}
			parts = append(parts, n+":"+s.String())
		}
		b.WriteString("{" + strings.Join(parts, ",") + "}")
	}
	if t.Nullable {
		b.WriteString("?")
	}
	if t.Default != "" {
		b.WriteString("=" + t.Default)
	}
	if t.Hints > 0 {
		fmt.Fprintf(&b, "#h%d", t.Hints)
	}
	return b.String()
}

func (t Term) Size() int {
	n := 1
	for _, s := range t.Sub {
		n += s.Size()
	}
	if t.Nullable {
		n++
	}
	if t.Default != "" {
		n++
	}
	n += t.Hints
	if t.Constr || t.Disc {
		n++
	}
	return n
}

func (t Term) Depth() int {
	d := 0
	for _, s := range t.Sub {
		if x := s.Depth(); x > d {
			d = x
		}
	}
	return d + 1
}

func splitRef(a string) (string, string) {
	i := strings.Index(a, ".")
	if i < 0 {
		return "", a
	}
	return a[:i], a[i+1:]
}

// Build constructs a fresh ast.Type (nothing is shared between two calls).
func (t Term) Build() ast.Type {
	var out ast.Type
	switch t.K {
	case "scalar":
		out = ast.NewScalar(ast.ScalarKind(t.A))
		if t.Constr {
			switch t.A {
			case "string":
				out.Scalar.Constraints = []ast.TypeConstraint{{Op: ast.MinLengthOp, Args: []any{int64(1)}}, {Op: ast.MaxLengthOp, Args: []any{int64(3)}}}
			default:
				out.Scalar.Constraints = []ast.TypeConstraint{{Op: ast.GreaterThanEqualOp, Args: []any{int64(0)}}, {Op: ast.LessThanOp, Args: []any{int64(5)}}}
			}
		}
	case "const":
		switch t.A {
		case "str":
			out = ast.NewScalar(ast.KindString, ast.Value("k"))
		case "int":
			out = ast.NewScalar(ast.KindInt64, ast.Value(int64(7)))
		case "bool":
			out = ast.NewScalar(ast.KindBool, ast.Value(true))
		case "float":
			out = ast.NewScalar(ast.KindFloat64, ast.Value(1.5))
		case "digits": // string constants made of digits only (member names are derived from such values)
			out = ast.NewScalar(ast.KindString, ast.Value("5"))
		case "digits2":
			out = ast.NewScalar(ast.KindString, ast.Value("10"))
		default:
			panic("irgen: const flavour " + t.A)
		}
	case "enum":
		switch t.A {
		case "str":
			out = ast.NewEnum([]ast.EnumValue{{Type: ast.String(), Name: "a", Value: "a"}, {Type: ast.String(), Name: "b", Value: "b"}})
		case "int":
			out = ast.NewEnum([]ast.EnumValue{{Type: ast.NewScalar(ast.KindInt64), Name: "one", Value: int64(1)}, {Type: ast.NewScalar(ast.KindInt64), Name: "two", Value: int64(2)}})
		case "numname": // purely numeric member names
			out = ast.NewEnum([]ast.EnumValue{{Type: ast.NewScalar(ast.KindInt64), Name: "1", Value: int64(1)}, {Type: ast.NewScalar(ast.KindInt64), Name: "-2", Value: int64(-2)}})
		case "odd": // names needing sanitising
			out = ast.NewEnum([]ast.EnumValue{{Type: ast.String(), Name: "a-b c", Value: "a-b c"}, {Type: ast.String(), Name: "", Value: ""}})
		case "space":
			out = ast.NewEnum([]ast.EnumValue{{Type: ast.String(), Name: " a ", Value: " a "}, {Type: ast.String(), Name: "b", Value: "b "}})
		case "strnum": // STRING enum whose member names are purely numeric (names derived from digit-only string values)
			out = ast.NewEnum([]ast.EnumValue{{Type: ast.String(), Name: "2", Value: "2"}, {Type: ast.String(), Name: "3", Value: "3"}, {Type: ast.String(), Name: "-4", Value: "-4"}})
		case "plus": // explicitly signed numeric member names
			out = ast.NewEnum([]ast.EnumValue{{Type: ast.NewScalar(ast.KindInt64), Name: "+1", Value: int64(1)}, {Type: ast.NewScalar(ast.KindInt64), Name: "p", Value: int64(2)}})
		case "noname": // a member without a name whose value is not the empty string
			out = ast.NewEnum([]ast.EnumValue{{Type: ast.String(), Name: "", Value: "x"}, {Type: ast.String(), Name: "b", Value: "b"}})
		default:
			if vals, ok := seqEnum(t.A); ok {
				out = ast.NewEnum(vals)
				break
			}
			panic("irgen: enum flavour " + t.A)
		}
	case "ref":
		p, n := splitRef(t.A)
		out = ast.NewRef(p, n)
	case "constref":
		p, n := splitRef(t.A)
		out = ast.NewConstantReferenceType(p, n, "a")
	case "slot":
		out = ast.NewComposableSlot(ast.SchemaVariant(t.A))
	case "array":
		out = ast.NewArray(t.Sub[0].Build())
	case "map":
		out = ast.NewMap(t.Sub[0].Build(), t.Sub[1].Build())
	case "disj":
		var bs ast.Types
		for _, s := range t.Sub {
			bs = append(bs, s.Build())
		}
		out = ast.NewDisjunction(bs)
		if t.Disc {
			out.Disjunction.Discriminator = "kind"
			for _, s := range t.Sub {
				if s.K == "ref" {
					_, n := splitRef(s.A)
					out.Disjunction.DiscriminatorMapping[strings.ToLower(n)] = n
				}
			}
		}
	case "inter":
		var bs []ast.Type
		for _, s := range t.Sub {
			bs = append(bs, s.Build())
		}
		out = ast.NewIntersection(bs)
	case "struct":
		var fs []ast.StructField
		for i, s := range t.Sub {
			f := ast.NewStructField(t.Fields[i].Name, s.Build())
			f.Required = t.Fields[i].Required
			fs = append(fs, f)
		}
		out = ast.NewStruct(fs...)
	default:
		panic("irgen: kind " + t.K)
	}
	out.Nullable = t.Nullable
	switch t.Default {
	case "scalar":
		out.Default = t.scalarDefault()
	case "list":
		out.Default = []any{"x", "y"}
	case "map":
		out.Default = map[string]any{"a": "x"}
	case "zero": // a declared default that is the zero value of its Go representation
		out.Default = t.zeroDefault()
	case "emptylist": // declared, empty but non-nil
		out.Default = []any{}
	case "emptymap":
		out.Default = map[string]any{}
	}
	for i := 0; i < t.Hints; i++ {
		if i == 0 {
			out.Hints["h0"] = "v0"
		} else {
			out.Hints["h1"] = []any{"v1"}
		}
	}
	return out
}

// seqEnum builds the parametric enum flavours "seq:m1,m2,..." (string-typed:
// every member's value is its name) and "iseq:m1,m2,..." (int64-typed: a
// member whose name parses as an integer has that value, any other member the
// value 100+index). Member tokens are used verbatim as names, so sequences
// such as "auto,1,5" (a non-numeric member before numeric ones) can be
// enumerated member by member.
func seqEnum(flavour string) ([]ast.EnumValue, bool) {
	var names []string
	intTyped := false
	switch {
	case strings.HasPrefix(flavour, "seq:"):
		names = strings.Split(strings.TrimPrefix(flavour, "seq:"), ",")
	case strings.HasPrefix(flavour, "iseq:"):
		names = strings.Split(strings.TrimPrefix(flavour, "iseq:"), ",")
		intTyped = true
	default:
		return nil, false
	}
	var out []ast.EnumValue
	for i, n := range names {
		if !intTyped {
			out = append(out, ast.EnumValue{Type: ast.String(), Name: n, Value: n})
			continue
		}
		var v int64
		if _, err := fmt.Sscanf(n, "%d", &v); err != nil || fmt.Sprint(v) != strings.TrimPrefix(n, "+") {
			v = int64(100 + i)
		}
		out = append(out, ast.EnumValue{Type: ast.NewScalar(ast.KindInt64), Name: n, Value: v})
	}
	return out, true
}

// zeroDefault is the default flavour "zero": false, 0, 0.0 or "" depending on the type.
func (t Term) zeroDefault() any {
	switch v := t.scalarDefault().(type) {
	case bool:
		return false
	case float64:
		return float64(0)
	case int64:
		return int64(0)
	default:
		_ = v
		return ""
	}
}

func (t Term) scalarDefault() any {
	switch t.K {
	case "scalar":
		switch t.A {
		case "string":
			return "d"
		case "bool":
			return true
		case "float32", "float64":
			return 1.5
		case "any":
			return "d"
		case "bytes":
			return "d"
		default:
			return int64(1)
		}
	case "enum":
		if t.A == "str" || t.A == "odd" || t.A == "space" || t.A == "noname" || t.A == "strnum" || strings.HasPrefix(t.A, "seq:") {
			return "b"
		}
		return int64(2)
	case "ref":
		return "b"
	}
	return "d"
}

// Reductions returns the one-step reductions of t (DESIGN §5.1): hoist a
// child, drop a branch/field, reset an attribute.
func (t Term) Reductions() []Term {
	var out []Term
	for i, s := range t.Sub {
		if t.K == "map" && i == 0 {
			continue // the index type is not a reduction of a map
		}
		if s.A == "null" {
			continue
		}
		out = append(out, s)
	}
	if (t.K == "disj" || t.K == "inter") && len(t.Sub) > 2 {
		for i := range t.Sub {
			c := t
			c.Sub = append(append([]Term{}, t.Sub[:i]...), t.Sub[i+1:]...)
			out = append(out, c)
		}
	}
	if t.K == "struct" && len(t.Sub) > 1 {
		for i := range t.Sub {
			c := t
			c.Sub = append(append([]Term{}, t.Sub[:i]...), t.Sub[i+1:]...)
			c.Fields = append(append([]Field{}, t.Fields[:i]...), t.Fields[i+1:]...)
			out = append(out, c)
		}
	}
	for i, s := range t.Sub {
		for _, r := range s.Reductions() {
			c := t
			c.Sub = append([]Term{}, t.Sub...)
			c.Sub[i] = r
			out = append(out, c)
		}
	}
	if t.Nullable {
		c := t
		c.Nullable = false
		out = append(out, c)
	}
	if t.Default != "" {
		c := t
		c.Default = ""
		out = append(out, c)
	}
	if t.Hints > 0 {
		c := t
		c.Hints--
		out = append(out, c)
	}
	if t.Constr {
		c := t
		c.Constr = false
		out = append(out, c)
	}
	if t.Disc {
		c := t
		c.Disc = false
		out = append(out, c)
	}
	if t.K == "scalar" && t.A != "string" && !t.Constr {
		out = append(out, S("string"))
	}
	return out
}

// Config selects the enumerated sub-grammar.
type Config struct {
	Depth    int
	Leaves   []Term // default: DefaultLeaves()
	Wrappers []string
	// DisjWith: second branches used to form binary disjunctions (default: a few leaves + null)
	DisjWith []Term
	// Decorate adds, for every term, variants with Nullable / Default / Hints set at the top.
	Decorate bool
	// InnerLeaves, when set, replaces Leaves below the top two levels (reduced leaf set at depth).
	InnerLeaves []Term
}

// Pkg is the package name every generated reference points into.
const Pkg = "p"

func DefaultLeaves() []Term {
	return []Term{
		S("string"), S("int64"), S("bool"), S("float64"), S("any"), S("bytes"),
		{K: "scalar", A: "string", Constr: true}, {K: "scalar", A: "int64", Constr: true},
		Const("str"), Const("int"),
		Enum("str"), Enum("int"),
		Ref(Pkg + ".S"), Ref(Pkg + ".E"), Ref(Pkg + ".A"), Ref(Pkg + ".K"),
		ConstRef(Pkg + ".E"), Slot(),
	}
}

func AllScalarKinds() []Term {
	var out []Term
	for _, k := range []string{"string", "bytes", "bool", "any", "float32", "float64", "uint8", "uint16", "uint32", "uint64", "int8", "int16", "int32", "int64"} {
		out = append(out, S(k))
	}
	return out
}

var defaultWrappers = []string{"array", "map", "struct-req", "struct-opt", "nullable", "disj-null", "disj", "inter", "mapidx"}

// Types enumerates every term of the configured grammar up to Depth,
// smallest first, without duplicates.
func Types(cfg Config) []Term {
	if cfg.Leaves == nil {
		cfg.Leaves = DefaultLeaves()
	}
	if cfg.Wrappers == nil {
		cfg.Wrappers = defaultWrappers
	}
	if cfg.DisjWith == nil {
		cfg.DisjWith = []Term{S("string"), S("int64"), Ref(Pkg + ".S"), Ref(Pkg + ".T"), Const("str"), Array(S("string"))}
	}
	if cfg.Depth < 1 {
		cfg.Depth = 1
	}
	seen := map[string]bool{}
	var all []Term
	add := func(dst *[]Term, t Term) {
		k := t.String()
		if seen[k] {
			return
		}
		seen[k] = true
		*dst = append(*dst, t)
		all = append(all, t)
	}
	var level []Term
	for _, l := range cfg.Leaves {
		add(&level, l)
	}
	for d := 2; d <= cfg.Depth; d++ {
		prev := level
		if cfg.InnerLeaves != nil && d > 2 {
			// keep only terms built over the reduced leaf set
			var f []Term
			inner := map[string]bool{}
			for _, l := range cfg.InnerLeaves {
				inner[l.String()] = true
			}
			for _, t := range prev {
				if onlyLeaves(t, inner) {
					f = append(f, t)
				}
			}
			prev = f
		}
		var next []Term
		for _, t := range prev {
			for _, w := range cfg.Wrappers {
				switch w {
				case "array":
					add(&next, Array(t))
				case "map":
					add(&next, Map(t))
				case "mapidx":
					add(&next, MapIdx(Enum("str"), t))
				case "struct-req":
					add(&next, Struct1("a", true, t))
				case "struct-opt":
					add(&next, Struct1("a", false, t))
				case "nullable":
					if !t.Nullable {
						add(&next, Nullable(t))
					}
				case "disj-null":
					add(&next, Disj(t, Null()))
				case "disj":
					for _, o := range cfg.DisjWith {
						if o.String() == t.String() {
							continue
						}
						dj := Disj(t, o)
						add(&next, dj)
						if t.K == "ref" && o.K == "ref" {
							dd := dj
							dd.Disc = true
							add(&next, dd)
						}
					}
				case "inter":
					add(&next, Inter(Ref(Pkg+".S"), t))
				}
			}
		}
		level = next
	}
	if cfg.Decorate {
		base := append([]Term{}, all...)
		for _, t := range base {
			for _, def := range []string{"scalar", "list", "map"} {
				c := t
				c.Default = def
				add(&level, c)
			}
			for h := 1; h <= 2; h++ {
				c := t
				c.Hints = h
				add(&level, c)
			}
			if !t.Nullable {
				c := t
				c.Nullable = true
				c.Default = "scalar"
				c.Hints = 2
				add(&level, c)
			}
		}
	}
	sort.SliceStable(all, func(i, j int) bool { return all[i].Size() < all[j].Size() })
	return all
}

func onlyLeaves(t Term, ok map[string]bool) bool {
	if len(t.Sub) == 0 {
		c := t
		c.Nullable = false
		return ok[c.String()]
	}
	for _, s := range t.Sub {
		if s.A == "null" {
			continue
		}
		if !onlyLeaves(s, ok) {
			return false
		}
	}
	return true
}
