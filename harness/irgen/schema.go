//go:build verif

package irgen

import (
	"github.com/grafana/cog/internal/ast"
)

type ObjSpec struct {
	Name     string
	T        Term
	Comments []string
}

type PkgSpec struct {
	Pkg        string
	Objects    []ObjSpec
	EntryPoint string
	Identifier string
	Kind       string
	Variant    string
}

// SchemaSpec describes a set of schemas (one per package).
type SchemaSpec struct {
	Name string
	Pkgs []PkgSpec
}

func (s SchemaSpec) Build() ast.Schemas {
	var out ast.Schemas
	for _, p := range s.Pkgs {
		sch := ast.NewSchema(p.Pkg, ast.SchemaMeta{Identifier: p.Identifier, Kind: ast.SchemaKind(p.Kind), Variant: ast.SchemaVariant(p.Variant)})
		for _, o := range p.Objects {
			obj := ast.NewObject(p.Pkg, o.Name, o.T.Build())
			obj.Comments = append([]string(nil), o.Comments...)
			sch.AddObject(obj)
		}
		if p.EntryPoint != "" {
			sch.EntryPoint = p.EntryPoint
			sch.EntryPointType = ast.NewRef(p.Pkg, p.EntryPoint)
		}
		out = append(out, sch)
	}
	return out
}

// Size is the number of type constructors in the spec.
func (s SchemaSpec) Size() int {
	n := 0
	for _, p := range s.Pkgs {
		for _, o := range p.Objects {
			n += o.T.Size()
		}
	}
	return n
}

// Support returns the objects every generated reference can point to:
// S and T (structs with a constant discriminator `kind`), E (string enum),
// A (alias of a scalar), K (string constant).
func Support(pkg string) []ObjSpec {
	return []ObjSpec{
		{Name: "S", T: StructN([]Field{{"kind", true}, {"x", true}}, []Term{Const("str"), S("string")})},
		{Name: "T", T: StructN([]Field{{"kind", true}, {"y", false}}, []Term{Const("int"), S("int64")})},
		{Name: "E", T: Enum("str")},
		{Name: "A", T: S("string")},
		{Name: "K", T: Const("str")},
	}
}

// WithRoot is package p = support objects + an object Root of type t.
func WithRoot(t Term) SchemaSpec {
	objs := append([]ObjSpec{{Name: "Root", T: t}}, Support(Pkg)...)
	return SchemaSpec{Name: "root:" + t.String(), Pkgs: []PkgSpec{{Pkg: Pkg, Objects: objs, EntryPoint: "Root"}}}
}

// WithField is package p = support objects + a struct Root{f: t} with the given requiredness.
func WithField(t Term, required bool) SchemaSpec {
	name := "field"
	if !required {
		name = "optfield"
	}
	objs := append([]ObjSpec{{Name: "Root", T: Struct1("f", required, t)}}, Support(Pkg)...)
	return SchemaSpec{Name: name + ":" + t.String(), Pkgs: []PkgSpec{{Pkg: Pkg, Objects: objs, EntryPoint: "Root"}}}
}

// SeedSchemas are hand-picked multi-package IRs used as initial states by the
// sequence explorers (C05, C07, C15, C16, C17, C18): names differing only in
// case, one name in two packages, cross-package references, aliases and
// alias chains, constant references, discriminated unions, entry points.
func SeedSchemas() []SchemaSpec {
	sup := Support(Pkg)
	rootStruct := StructN(
		[]Field{{"name", true}, {"opt", false}, {"s", true}, {"e", false}, {"list", false}, {"m", false}, {"k", true}},
		[]Term{{K: "scalar", A: "string", Constr: true, Default: "scalar"}, S("int64"), Ref(Pkg + ".S"), Ref(Pkg + ".E"), Array(Ref(Pkg + ".S")), Map(Ref(Pkg + ".T")), Ref(Pkg + ".K")},
	)
	seeds := []SchemaSpec{
		{Name: "basic", Pkgs: []PkgSpec{{Pkg: Pkg, EntryPoint: "Root", Objects: append([]ObjSpec{{Name: "Root", T: rootStruct, Comments: []string{"root object"}}}, sup...)}}},
		{Name: "union", Pkgs: []PkgSpec{{Pkg: Pkg, EntryPoint: "Root", Objects: append([]ObjSpec{
			{Name: "Root", T: StructN([]Field{{"u", true}, {"v", false}, {"w", false}}, []Term{
				{K: "disj", Sub: []Term{Ref(Pkg + ".S"), Ref(Pkg + ".T")}, Disc: true},
				Disj(S("string"), S("bool")),
				Disj(Ref(Pkg+".S"), Null()),
			})},
			{Name: "U", T: Term{K: "disj", Sub: []Term{Ref(Pkg + ".S"), Ref(Pkg + ".T")}, Disc: true}},
		}, sup...)}}},
		{Name: "case", Pkgs: []PkgSpec{{Pkg: Pkg, EntryPoint: "thing", Objects: []ObjSpec{
			{Name: "Thing", T: Struct1("a", true, S("string"))},
			{Name: "thing", T: StructN([]Field{{"a", true}, {"A", false}, {"r", true}}, []Term{S("int64"), S("bool"), Ref(Pkg + ".Thing")})},
			{Name: "User", T: StructN([]Field{{"t", true}, {"T", false}}, []Term{Ref(Pkg + ".thing"), Ref(Pkg + ".Thing")})},
		}}}},
		{Name: "twopkg", Pkgs: []PkgSpec{
			{Pkg: Pkg, EntryPoint: "Root", Objects: append([]ObjSpec{
				{Name: "Root", T: StructN([]Field{{"local", true}, {"remote", false}, {"both", false}}, []Term{Ref(Pkg + ".S"), Ref("q.S"), Array(Ref("q.Only"))})},
			}, sup...)},
			{Pkg: "q", Objects: []ObjSpec{
				{Name: "S", T: Struct1("z", true, S("bool"))},
				{Name: "Only", T: StructN([]Field{{"back", false}, {"e", true}}, []Term{Ref(Pkg + ".S"), ConstRef(Pkg + ".E")})},
			}},
		}},
		{Name: "aliases", Pkgs: []PkgSpec{{Pkg: Pkg, Objects: append([]ObjSpec{
			{Name: "Alias1", T: Ref(Pkg + ".S")},
			{Name: "Alias2", T: Ref(Pkg + ".Alias1")},
			{Name: "AliasE", T: Ref(Pkg + ".E")},
			{Name: "Holder", T: StructN([]Field{{"k", true}, {"ko", false}, {"kn", true}, {"ce", true}, {"al", false}},
				[]Term{Ref(Pkg + ".K"), Ref(Pkg + ".K"), Nullable(Ref(Pkg + ".K")), ConstRef(Pkg + ".E"), Ref(Pkg + ".Alias2")})},
		}, sup...)}}},
		{Name: "spec", Pkgs: []PkgSpec{{Pkg: Pkg, Identifier: "Dash", EntryPoint: "spec", Objects: []ObjSpec{
			{Name: "metadata", T: Struct1("name", true, S("string"))},
			{Name: "spec", T: StructN([]Field{{"title", true}, {"self", false}}, []Term{S("string"), Ref(Pkg + ".spec")})},
			{Name: "Uses", T: StructN([]Field{{"s", true}, {"m", false}}, []Term{Ref(Pkg + ".spec"), Ref(Pkg + ".metadata")})},
		}}}},
		{Name: "enums", Pkgs: []PkgSpec{{Pkg: Pkg, Objects: []ObjSpec{
			{Name: "E", T: Enum("str")},
			{Name: "N", T: Enum("numname")},
			{Name: "O", T: Enum("space")},
			{Name: "Holder", T: StructN([]Field{{"e", true}, {"anon", false}, {"ce", true}, {"byE", false}},
				[]Term{{K: "ref", A: Pkg + ".E", Default: "scalar"}, Enum("str"), ConstRef(Pkg + ".E"), MapIdx(Ref(Pkg+".E"), S("string"))})},
		}}}},
		{Name: "nested", Pkgs: []PkgSpec{{Pkg: Pkg, EntryPoint: "Root", Objects: append([]ObjSpec{
			{Name: "Root", T: StructN([]Field{{"inner", true}, {"arr", false}, {"deep", false}},
				[]Term{Struct1("a", true, Struct1("b", false, Enum("str"))), Array(Struct1("c", true, S("string"))), Map(Array(Nullable(Ref(Pkg + ".S"))))})},
		}, sup...)}}},
	}
	return seeds
}
