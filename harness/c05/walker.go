//go:build verif

package main

import (
	"reflect"
	"sort"
	"strings"

	"github.com/grafana/cog/internal/ast"
)

// Part 0: a complete reference walker, written from the IR type definitions
// (internal/ast/types.go, schema.go, builder.go) and deliberately independent
// of compiler.Visitor, whose blind spots (map index types, hints, mappings,
// entry points) are part of what C05 checks.

// Site is one place of the IR that names an object.
type Site struct {
	// Kind is the ref-kind: selfref | ref | constant-ref | mapping-target |
	// entrypoint, optionally prefixed by where it sits ("map-index ", "hint ",
	// "entrypoint-type ", "builder <field path> ").
	Kind string
	// Pkgs are the candidate packages (one, except for mapping targets of a
	// disjunction whose branches point into several packages).
	Pkgs []string
	Name string
	// Pos is the normalised constructor path from the owner to the site.
	Pos string
	// Owner is "pkg.Object" ("" for schema-level sites).
	Owner string
	// Inconsistent marks a SelfRef that does not name its own object.
	Inconsistent bool
}

func (s Site) Target() string { return strings.Join(s.Pkgs, "|") + "." + s.Name }

type walker struct {
	sites []Site
}

type wctx struct {
	owner     string
	schemaPkg string
	prefix    string
	pos       []string
}

func (c wctx) push(p string) wctx {
	n := c
	n.pos = append(append([]string{}, c.pos...), p)
	return n
}

func (c wctx) withPrefix(p string) wctx {
	n := c
	if !strings.Contains(c.prefix, p) {
		n.prefix = c.prefix + p
	}
	return n
}

func (w *walker) add(c wctx, kind string, pkgs []string, name string) {
	w.sites = append(w.sites, Site{Kind: c.prefix + kind, Pkgs: pkgs, Name: name, Pos: strings.Join(append(append([]string{}, c.pos...), kind), ">"), Owner: c.owner})
}

// typ walks every non-nil component of the type, whatever t.Kind says.
func (w *walker) typ(t ast.Type, c wctx) {
	if t.Ref != nil {
		w.add(c, "ref", []string{t.Ref.ReferredPkg}, t.Ref.ReferredType)
	}
	if t.ConstantReference != nil {
		w.add(c, "constant-ref", []string{t.ConstantReference.ReferredPkg}, t.ConstantReference.ReferredType)
	}
	if t.Array != nil {
		w.typ(t.Array.ValueType, c.push("array"))
	}
	if t.Map != nil {
		w.typ(t.Map.IndexType, c.push("map-index").withPrefix("map-index "))
		w.typ(t.Map.ValueType, c.push("map"))
	}
	if t.Enum != nil {
		for _, v := range t.Enum.Values {
			w.typ(v.Type, c.push("enum-member"))
		}
	}
	if t.Struct != nil {
		for _, f := range t.Struct.Fields {
			w.typ(f.Type, c.push("struct"))
		}
	}
	if t.Disjunction != nil {
		w.disjunction(*t.Disjunction, c)
	}
	if t.Intersection != nil {
		for _, b := range t.Intersection.Branches {
			w.typ(b, c.push("intersection"))
		}
	}
	if len(t.Hints) > 0 {
		keys := make([]string, 0, len(t.Hints))
		for k := range t.Hints {
			keys = append(keys, k)
		}
		sort.Strings(keys)
		for _, k := range keys {
			w.hint(t.Hints[k], c.push("hint").withPrefix("hint "))
		}
	}
}

func (w *walker) disjunction(d ast.DisjunctionType, c wctx) {
	for _, b := range d.Branches {
		w.typ(b, c.push("disjunction"))
	}
	if len(d.DiscriminatorMapping) == 0 {
		return
	}
	// A mapping value is a bare object name; it names an object in the
	// package(s) the disjunction's reference branches point into (the
	// enclosing schema's package when there is no reference branch).
	var pkgs []string
	seen := map[string]bool{}
	for _, b := range d.Branches {
		if b.Ref != nil && !seen[b.Ref.ReferredPkg] {
			seen[b.Ref.ReferredPkg] = true
			pkgs = append(pkgs, b.Ref.ReferredPkg)
		}
	}
	// lenience: the statement does not say which package a bare mapping value
	// lives in when the disjunction sits in another package than its branches
	// (only duplicate_object into another package produces that); cog's own
	// passes read it in the enclosing schema's package, so either is accepted.
	if !seen[c.schemaPkg] && c.schemaPkg != "" {
		pkgs = append(pkgs, c.schemaPkg)
	}
	keys := make([]string, 0, len(d.DiscriminatorMapping))
	for k := range d.DiscriminatorMapping {
		keys = append(keys, k)
	}
	sort.Strings(keys)
	for _, k := range keys {
		w.add(c.push("disjunction"), "mapping-target", pkgs, d.DiscriminatorMapping[k])
	}
}

// hint walks the values jennies hints can hold.
func (w *walker) hint(v any, c wctx) {
	switch x := v.(type) {
	case ast.DisjunctionType:
		w.disjunction(x, c)
	case *ast.DisjunctionType:
		if x != nil {
			w.disjunction(*x, c)
		}
	case ast.Type:
		w.typ(x, c)
	case *ast.Type:
		if x != nil {
			w.typ(*x, c)
		}
	case ast.RefType:
		w.add(c, "ref", []string{x.ReferredPkg}, x.ReferredType)
	case []any:
		for _, e := range x {
			w.hint(e, c)
		}
	case map[string]any:
		keys := make([]string, 0, len(x))
		for k := range x {
			keys = append(keys, k)
		}
		sort.Strings(keys)
		for _, k := range keys {
			w.hint(x[k], c)
		}
	}
}

func (w *walker) object(schemaPkg, key string, o ast.Object) {
	owner := schemaPkg + "." + key
	s := Site{Kind: "selfref", Pkgs: []string{o.SelfRef.ReferredPkg}, Name: o.SelfRef.ReferredType, Pos: "selfref", Owner: owner}
	if o.SelfRef.ReferredPkg != schemaPkg || o.SelfRef.ReferredType != key || o.Name != key {
		s.Inconsistent = true
	}
	w.sites = append(w.sites, s)
	w.typ(o.Type, wctx{owner: owner, schemaPkg: schemaPkg})
}

func (w *walker) schemas(schemas ast.Schemas) {
	for _, s := range schemas {
		if s == nil {
			continue
		}
		if s.EntryPoint != "" {
			w.sites = append(w.sites, Site{Kind: "entrypoint", Pkgs: []string{s.Package}, Name: s.EntryPoint, Pos: "entrypoint"})
		}
		w.typ(s.EntryPointType, wctx{schemaPkg: s.Package, prefix: "entrypoint-type ", pos: []string{"entrypoint-type"}})
		if s.Objects != nil {
			s.Objects.Iterate(func(k string, o ast.Object) { w.object(s.Package, k, o) })
		}
	}
}

var (
	typeOfType   = reflect.TypeOf(ast.Type{})
	typeOfObject = reflect.TypeOf(ast.Object{})
)

// builders walks every ast.Type reachable from a builder by reflection (so a
// field added to the builder IR tomorrow is covered), plus the SelfRef of the
// object the builder is for.
func (w *walker) builders(bs ast.Builders) {
	for _, b := range bs {
		owner := "builder:" + b.Package + "." + b.Name
		w.reflectWalk(reflect.ValueOf(b), "builder", owner, b.Package, 0)
	}
}

func (w *walker) reflectWalk(v reflect.Value, path, owner, pkg string, depth int) {
	if depth > 40 {
		return
	}
	switch v.Kind() {
	case reflect.Ptr, reflect.Interface:
		if !v.IsNil() {
			w.reflectWalk(v.Elem(), path, owner, pkg, depth+1)
		}
	case reflect.Slice, reflect.Array:
		for i := 0; i < v.Len(); i++ {
			w.reflectWalk(v.Index(i), path, owner, pkg, depth+1)
		}
	case reflect.Map:
		keys := v.MapKeys()
		sort.Slice(keys, func(i, j int) bool { return keys[i].String() < keys[j].String() })
		for _, k := range keys {
			w.reflectWalk(v.MapIndex(k), path, owner, pkg, depth+1)
		}
	case reflect.Struct:
		switch v.Type() {
		case typeOfType:
			w.typ(v.Interface().(ast.Type), wctx{owner: owner, schemaPkg: pkg, prefix: path + " ", pos: []string{path}})
			return
		case typeOfObject:
			o := v.Interface().(ast.Object)
			w.sites = append(w.sites, Site{Kind: path + " selfref", Pkgs: []string{o.SelfRef.ReferredPkg}, Name: o.SelfRef.ReferredType, Pos: path + ">selfref", Owner: owner})
			w.typ(o.Type, wctx{owner: owner, schemaPkg: pkg, prefix: path + "-type ", pos: []string{path + "-type"}})
			return
		}
		for i := 0; i < v.NumField(); i++ {
			f := v.Type().Field(i)
			if !f.IsExported() {
				continue
			}
			w.reflectWalk(v.Field(i), path+" "+f.Name, owner, pkg, depth+1)
		}
	}
}

// Index is the set of loaded objects: package -> object keys.
type Index map[string]map[string]bool

func indexOf(schemas ast.Schemas) Index {
	idx := Index{}
	for _, s := range schemas {
		if s == nil {
			continue
		}
		if idx[s.Package] == nil {
			idx[s.Package] = map[string]bool{}
		}
		if s.Objects != nil {
			s.Objects.Iterate(func(k string, _ ast.Object) { idx[s.Package][k] = true })
		}
	}
	return idx
}

// Judged: the site points into a loaded package (references into packages
// that were not loaded are outside the claim).
func (idx Index) Judged(s Site) bool {
	for _, p := range s.Pkgs {
		if _, ok := idx[p]; ok {
			return true
		}
	}
	return false
}

func (idx Index) Resolves(s Site) bool {
	if s.Inconsistent {
		return false
	}
	for _, p := range s.Pkgs {
		if idx[p][s.Name] {
			return true
		}
	}
	return false
}

func (idx Index) Has(pkg, name string) bool { return idx[pkg][name] }

// audit walks schemas (+ builders) and returns all sites, the judged ones
// that dangle, and per-kind judged counters.
type auditResult struct {
	sites    []Site
	dangling []Site
	judged   map[string]int
}

func audit(schemas ast.Schemas, builders ast.Builders) auditResult {
	w := &walker{}
	w.schemas(schemas)
	w.builders(builders)
	idx := indexOf(schemas)
	res := auditResult{sites: w.sites, judged: map[string]int{}}
	for _, s := range w.sites {
		if !idx.Judged(s) && !s.Inconsistent {
			continue
		}
		res.judged[kindClass(s.Kind)]++
		if !idx.Resolves(s) {
			res.dangling = append(res.dangling, s)
		}
	}
	return res
}

// kindClass folds the long builder field paths for the evidence counters.
func kindClass(k string) string {
	if strings.HasPrefix(k, "builder") {
		f := strings.Fields(k)
		return "builder …" + f[len(f)-1]
	}
	return k
}

// danglingTargets is the set of targets that dangle (used to exempt
// references that were already dangling before a transformation).
func danglingTargets(a auditResult) map[string]bool {
	out := map[string]bool{}
	for _, s := range a.dangling {
		out[s.Kind+"→"+s.Target()] = true
		out["*→"+s.Target()] = true
	}
	return out
}

// edges returns, for the closure oracle of allowed_objects, the objects each
// object names: owner "pkg.Name" -> list of (kind, pkg, name) that resolve.
type edge struct {
	kind, pkg, name string
}

func edgesOf(schemas ast.Schemas) map[string][]edge {
	w := &walker{}
	w.schemas(schemas)
	idx := indexOf(schemas)
	out := map[string][]edge{}
	for _, s := range w.sites {
		if s.Owner == "" || s.Kind == "selfref" {
			continue
		}
		for _, p := range s.Pkgs {
			if idx.Has(p, s.Name) {
				out[s.Owner] = append(out[s.Owner], edge{s.Kind, p, s.Name})
				break
			}
		}
	}
	return out
}
