//go:build verif

package main

import (
	"context"
	"crypto/sha256"
	"encoding/json"
	"fmt"
	"os"
	"path/filepath"
	"reflect"
	"regexp"
	"sort"
	"strings"
	"sync"
	"sync/atomic"
	"time"

	"github.com/grafana/cog/internal/ast"
	"github.com/grafana/cog/internal/ast/compiler"
	"github.com/grafana/cog/internal/codegen"
	"github.com/grafana/cog/internal/jennies/golang"
	"github.com/grafana/cog/internal/jennies/java"
	jsjenny "github.com/grafana/cog/internal/jennies/jsonschema"
	oajenny "github.com/grafana/cog/internal/jennies/openapi"
	"github.com/grafana/cog/internal/jennies/php"
	"github.com/grafana/cog/internal/jennies/python"
	"github.com/grafana/cog/internal/jennies/typescript"
	"github.com/grafana/cog/internal/languages"
	"github.com/grafana/cog/internal/veneers/rewrite"
	cogyaml "github.com/grafana/cog/internal/yaml"
	"github.com/grafana/cog/verifx/irgen"
	"github.com/grafana/cog/verifx/refl"
	"github.com/grafana/cog/verifx/vx"
)

func hashOf(s string) [16]byte {
	h := sha256.Sum256([]byte(s))
	var out [16]byte
	copy(out[:], h[:16])
	return out
}

func canonHash(schemas ast.Schemas) [16]byte { return hashOf(refl.Canon(schemas)) }

var reNum = regexp.MustCompile(`0x[0-9a-f]+|\d+`)

func msgClass(v any) string {
	s := fmt.Sprint(v)
	if len(s) > 120 {
		s = s[:120]
	}
	return reNum.ReplaceAllString(s, "N")
}

// parentConstruct is the constructor directly enclosing the site.
func parentConstruct(s Site) string {
	p := strings.Split(s.Pos, ">")
	if len(p) < 2 {
		return "object"
	}
	return p[len(p)-2]
}

// =============================================================================
// part 1: parse
// =============================================================================

var tmpCounter int64

// loadG renders the schema, writes it below the scratch directory and loads
// it the way cog does: codegen.Input.LoadSchemas (which applies
// allowed_objects when given).
func loadG(s GSchema, format string, allowed []string) (schemas ast.Schemas, status string) {
	return loadGAs(s, format, allowed, "p")
}

// loadGAs loads the rendered document under the given package name (the
// `package:` option of the input).
func loadGAs(s GSchema, format string, allowed []string, mainPkg string) (schemas ast.Schemas, status string) {
	rd, err := s.render(format)
	if err != nil {
		if u, ok := err.(unsupported); ok {
			return nil, "unsupported: " + u.construct
		}
		return nil, "render error: " + err.Error()
	}
	dir := filepath.Join(tmpRoot, fmt.Sprintf("g%d", atomic.AddInt64(&tmpCounter, 1)))
	defer os.RemoveAll(dir)
	for name, content := range rd.files {
		p := filepath.Join(dir, name)
		if err := os.MkdirAll(filepath.Dir(p), 0o755); err != nil {
			vx.Fatalf("scratch: %v", err)
		}
		if err := os.WriteFile(p, []byte(content), 0o644); err != nil {
			vx.Fatalf("scratch: %v", err)
		}
	}
	base := codegen.InputBase{AllowedObjects: append([]string(nil), allowed...)}
	var inputs []*codegen.Input
	switch format {
	case "jsonschema":
		inputs = append(inputs, &codegen.Input{JSONSchema: &codegen.JSONSchemaInput{InputBase: base, Path: filepath.Join(dir, rd.main), Package: mainPkg}})
	case "openapi":
		inputs = append(inputs, &codegen.Input{OpenAPI: &codegen.OpenAPIInput{InputBase: base, Path: filepath.Join(dir, rd.main), Package: mainPkg}})
		var pkgs []string
		for pkg := range rd.extra {
			pkgs = append(pkgs, pkg)
		}
		sort.Strings(pkgs)
		for _, pkg := range pkgs {
			inputs = append(inputs, &codegen.Input{OpenAPI: &codegen.OpenAPIInput{Path: filepath.Join(dir, rd.extra[pkg]), Package: pkg}})
		}
	case "cue":
		inputs = append(inputs, &codegen.Input{Cue: &codegen.CueInput{InputBase: base, Entrypoint: filepath.Join(dir, rd.main), Package: mainPkg}})
	}
	status = "ok"
	if p := vx.Catch(func() {
		for _, in := range inputs {
			ss, err := in.LoadSchemas(context.Background())
			if err != nil {
				status = "parser error: " + msgClass(err)
				schemas = nil
				return
			}
			schemas = append(schemas, ss...)
		}
	}); p != nil {
		return nil, "parser panic (C04): " + msgClass(p)
	}
	stats.add("executions", "parse", 1)
	return schemas, status
}

type parseCase struct {
	format string
	s      GSchema
	// out receives the parsed IR (enumerated cases only)
	out *ast.Schemas
}

func (c parseCase) ID() string { return "parse/" + c.format + ":" + c.s.String() }
func (c parseCase) Size() int  { return c.s.Size() }
func (c parseCase) Parents() []Case {
	var out []Case
	for _, r := range c.s.Reductions() {
		out = append(out, parseCase{format: c.format, s: r})
	}
	return out
}

func (c parseCase) Eval() []vx.Failure {
	schemas, status := loadG(c.s, c.format, nil)
	if strings.HasPrefix(status, "unsupported") {
		stats.add("parse_skipped", c.format+": "+strings.TrimPrefix(status, "unsupported: "), 1)
		stats.add("parse_outcome", c.format+": skipped (not expressible)", 1)
		return nil
	}
	if status != "ok" {
		stats.add("parse_outcome", c.format+": "+status, 1)
		stats.add("parse_error_inputs", c.ID(), 1)
		return nil
	}
	if c.out != nil {
		*c.out = schemas
	}
	noteState(canonHash(schemas))
	a := audit(schemas, nil)
	for k, n := range a.judged {
		stats.add("judged_parse", c.format+": "+k, n)
	}
	if len(a.dangling) == 0 {
		stats.add("parse_outcome", c.format+": all references resolve", 1)
		return nil
	}
	stats.add("parse_outcome", c.format+": dangling reference", 1)
	samples.Add(map[string]any{"part": "parse", "case": c.ID()})
	byKind := map[string]vx.Failure{}
	for _, s := range a.dangling {
		kind := fmt.Sprintf("parse/%s: dangling %s @ %s", c.format, s.Kind, parentConstruct(s))
		if _, ok := byKind[kind]; ok {
			continue
		}
		byKind[kind] = vx.Failure{Kind: kind,
			What:   fmt.Sprintf("%s input %s: after parsing, %s %q (at %s of %s) names no object of the loaded package", c.format, c.s.String(), s.Kind, s.Target(), s.Pos, s.Owner),
			Detail: detail("parse", map[string]any{"format": c.format, "schema": c.s})}
	}
	return sortedFailures(byKind)
}

func sortedFailures(m map[string]vx.Failure) []vx.Failure {
	keys := make([]string, 0, len(m))
	for k := range m {
		keys = append(keys, k)
	}
	sort.Strings(keys)
	out := make([]vx.Failure, 0, len(m))
	for _, k := range keys {
		out = append(out, m[k])
	}
	return out
}

type gIR struct {
	format  string
	s       GSchema
	schemas ast.Schemas
}

func partParse(d *driver, gs []GSchema) ([]Case, []gIR) {
	var cases []Case
	var irs []*gIR
	for _, s := range gs {
		for _, f := range formats {
			ir := &gIR{format: f, s: s}
			irs = append(irs, ir)
			cases = append(cases, parseCase{format: f, s: s, out: &ir.schemas})
		}
	}
	d.evalAll(cases)
	var out []gIR
	for _, ir := range irs {
		if ir.schemas != nil {
			out = append(out, *ir)
		}
	}
	if len(out) > 0 {
		samples.Add(map[string]any{"part": "parse", "case": "parse/" + out[0].format + ":" + out[0].s.String()})
	}
	return cases, out
}

// =============================================================================
// part 2: language chains
// =============================================================================

type langDef struct {
	name string
	mk   func() languages.Language
	// final: passes the pipeline applies after the language's own ones, in
	// the same run (Transforms.FinalPasses; the public API puts
	// PrefixObjectsNames there). prefix: the prefix they add to names.
	final  func() compiler.Passes
	prefix string
}

func (l langDef) finalPasses() compiler.Passes {
	if l.final == nil {
		return nil
	}
	return l.final()
}

// allLanguages: every output language, alone and followed by each
// name-changing final pass.
func allLanguages() []langDef {
	var out []langDef
	for _, l := range baseLanguages() {
		out = append(out, l)
		out = append(out, langDef{name: l.name + "+final PrefixObjectNames(X)", mk: l.mk, prefix: "X",
			final: func() compiler.Passes { return compiler.Passes{&compiler.PrefixObjectNames{Prefix: "X"}} }})
		out = append(out, langDef{name: l.name + "+final rename_object(p.S→Zed)", mk: l.mk,
			final: func() compiler.Passes {
				return compiler.Passes{&compiler.RenameObject{From: compiler.ObjectReference{Package: "p", Object: "S"}, To: "Zed"}}
			}})
	}
	return out
}

func langByName(name string) (langDef, bool) {
	for _, l := range allLanguages() {
		if l.name == name {
			return l, true
		}
	}
	return langDef{}, false
}

func baseLanguages() []langDef {
	return []langDef{
		{name: "go", mk: func() languages.Language { return golang.New(golang.Config{}) }},
		{name: "java", mk: func() languages.Language { return java.New(java.Config{}) }},
		{name: "jsonschema", mk: func() languages.Language { return jsjenny.New(jsjenny.Config{}) }},
		{name: "openapi", mk: func() languages.Language { return oajenny.New(oajenny.Config{}) }},
		{name: "php", mk: func() languages.Language { return php.New(php.Config{}) }},
		{name: "python", mk: func() languages.Language { return python.New(python.Config{}) }},
		{name: "typescript", mk: func() languages.Language { return typescript.New(typescript.Config{}) }},
	}
}

func passName(p compiler.Pass) string {
	t := reflect.TypeOf(p)
	for t.Kind() == reflect.Ptr {
		t = t.Elem()
	}
	return t.Name()
}

func siteKey(s Site) string { return s.Kind + "→" + s.Target() }

// derivativeFiltered drops builder sites whose target already dangles in the
// schemas of the same context: builders copy the types of the schema, so
// these are the same dangling reference seen a second time.
func derivativeFiltered(dangling []Site) []Site {
	schemaLevel := map[string]bool{}
	for _, s := range dangling {
		if !strings.HasPrefix(s.Kind, "builder") {
			schemaLevel[s.Target()] = true
		}
	}
	var out []Site
	for _, s := range dangling {
		if strings.HasPrefix(s.Kind, "builder") && schemaLevel[s.Target()] {
			stats.add("chain_outcome", "builder site repeating a schema-level dangling reference (not reported twice)", 1)
			continue
		}
		out = append(out, s)
	}
	return out
}

// stagewise re-runs the chain one stage at a time (exactly the stages of
// Pipeline.ContextForLanguage) and attributes every newly dangling site to
// the first stage after which it dangles.
func stagewise(in ast.Schemas, lang languages.Language, final compiler.Passes, pre map[string]bool) (attributed map[string]string, last map[string]Site, stopped string) {
	attributed = map[string]string{}
	last = map[string]Site{}
	judge := func(stage string, schemas ast.Schemas, builders ast.Builders) {
		a := audit(schemas, builders)
		last = map[string]Site{}
		for _, s := range derivativeFiltered(a.dangling) {
			if pre[s.Target()] {
				continue
			}
			k := siteKey(s)
			last[k] = s
			if _, ok := attributed[k]; !ok {
				attributed[k] = stage
			}
		}
	}
	cur := ast.Schemas(in.DeepCopy()) // Passes.Process starts from a deep copy
	ownPasses := len(lang.CompilerPasses())
	for i, pass := range lang.CompilerPasses().Concat(final) {
		var err error
		name := passName(pass)
		if i >= ownPasses {
			name += " (final pass)"
		}
		if p := vx.Catch(func() { cur, err = pass.Process(cur) }); p != nil {
			return attributed, last, "panic in " + name
		}
		if err != nil {
			return attributed, last, "error in " + name
		}
		judge(name, cur, nil)
	}
	var builders ast.Builders
	if p := vx.Catch(func() { builders = (&ast.BuilderGenerator{}).FromAST(cur) }); p != nil {
		return attributed, last, "panic in BuilderGenerator"
	}
	judge("BuilderGenerator", cur, builders)
	rewriter, err := cogyaml.NewVeneersLoader().RewriterFrom(nil, rewrite.Config{})
	if err != nil {
		return attributed, last, "error in veneers"
	}
	if p := vx.Catch(func() { builders, err = rewriter.ApplyTo(cur, builders, lang.Name()) }); p != nil || err != nil {
		return attributed, last, "veneers failed"
	}
	judge("veneers", cur, builders)
	ctx := languages.Context{Schemas: cur, Builders: builders}
	if p := vx.Catch(func() { ctx, err = languages.GenerateBuilderNilChecks(lang, ctx) }); p != nil || err != nil {
		return attributed, last, "nil-checks failed"
	}
	judge("GenerateBuilderNilChecks", ctx.Schemas, ctx.Builders)
	return attributed, last, ""
}

// evalChainLang: baseDangling holds the targets that dangle after the
// language's chain WITHOUT final pass (nil for that run itself): a final-pass
// variant only reports what the final pass adds. The targets dangling at the
// end of this run are returned.
func evalChainLang(inputID string, in ast.Schemas, l langDef, det replayDetail, baseDangling map[string]bool) ([]vx.Failure, map[string]bool) {
	fails, dangling := evalChainLang0(inputID, in, l, det, baseDangling)
	return fails, dangling
}

func evalChainLang0(inputID string, in ast.Schemas, l langDef, det replayDetail, baseDangling map[string]bool) ([]vx.Failure, map[string]bool) {
	a0 := audit(in, nil)
	pre := map[string]bool{}
	for t := range baseDangling {
		pre[t] = true
		if i := strings.LastIndex(t, "."); i >= 0 {
			if l.prefix != "" {
				pre[t[:i+1]+l.prefix+t[i+1:]] = true
			}
			if t[i+1:] == "S" {
				pre[t[:i+1]+"Zed"] = true
			}
		}
	}
	for _, s := range a0.dangling {
		pre[s.Target()] = true
		if l.prefix != "" { // the same dangling reference, once prefixed
			p := s
			p.Name = l.prefix + s.Name
			pre[p.Target()] = true
		}
	}
	idx0 := indexOf(in)
	var ctx languages.Context
	var err error
	pan := vx.Catch(func() {
		pl, perr := codegen.NewPipeline()
		if perr != nil {
			vx.Fatalf("NewPipeline: %v", perr)
		}
		pl.Output.Builders = true
		pl.Transforms.FinalPasses = l.finalPasses()
		ctx, err = pl.ContextForLanguage(l.mk(), in)
	})
	stats.add("executions", "chain", 1)
	if pan == nil && err != nil {
		stats.add("chain_outcome", l.name+": pipeline error (allowed)", 1)
		return nil, nil
	}
	final := map[string]Site{}
	if pan == nil {
		a1 := audit(ctx.Schemas, ctx.Builders)
		for k, n := range a1.judged {
			stats.add("judged_chain", k, n)
		}
		for _, s := range derivativeFiltered(a1.dangling) {
			if !pre[s.Target()] {
				final[siteKey(s)] = s
			}
		}
		if len(final) == 0 {
			stats.add("chain_outcome", l.name+": all references resolve", 1)
			return nil, nil
		}
	}
	attributed, last, stopped := stagewise(in, l.mk(), l.finalPasses(), pre)
	if pan != nil {
		stats.add("chain_outcome", l.name+": panic (C04), schema stages judged: "+msgClass(pan), 1)
		stats.add("chain_panic_inputs", inputID, 1)
		final = last
		if len(final) == 0 {
			return nil, nil
		}
	} else if stopped != "" {
		// the real run succeeded but the staged one did not: harness bug
		vx.Fatalf("chain %s %s: staged re-run stopped (%s) although ContextForLanguage succeeded", inputID, l.name, stopped)
	}
	stats.add("chain_outcome", l.name+": dangling reference", 1)
	byKind := map[string]vx.Failure{}
	keys := make([]string, 0, len(final))
	for k := range final {
		keys = append(keys, k)
	}
	sort.Strings(keys)
	for _, k := range keys {
		s := final[k]
		stage, ok := attributed[k]
		if !ok {
			stage = "(unattributed)"
		}
		verb := "created dangling"
		for _, p := range s.Pkgs {
			if idx0.Has(p, s.Name) {
				verb = "made dangling"
			}
		}
		if s.Inconsistent {
			verb = "made inconsistent"
		}
		kind := fmt.Sprintf("chain/%s: %s @ %s %s by %s", l.name, s.Kind, parentConstruct(s), verb, stage)
		if _, ok := byKind[kind]; ok {
			continue
		}
		byKind[kind] = vx.Failure{Kind: kind,
			What:   fmt.Sprintf("%s chain on %s: %s %q (at %s of %s) resolves before and dangles after %s", l.name, inputID, s.Kind, s.Target(), s.Pos, s.Owner, stage),
			Detail: det}
	}
	danglingTargets := map[string]bool{}
	for _, s := range final {
		danglingTargets[s.Target()] = true
	}
	return sortedFailures(byKind), danglingTargets
}

// chain inputs ---------------------------------------------------------------

func discOverNonStruct(t irgen.Term) bool {
	if t.K == "disj" && t.Disc {
		for _, b := range t.Sub {
			if b.K == "ref" && b.A != irgen.Pkg+".S" && b.A != irgen.Pkg+".T" {
				return true
			}
		}
	}
	for _, s := range t.Sub {
		if discOverNonStruct(s) {
			return true
		}
	}
	return false
}

type chainCase struct {
	kind string // I | seed | G
	// I
	form string // root | field | optfield
	term irgen.Term
	// seed
	seed irgen.SchemaSpec
	// G
	format string
	g      GSchema
	cached ast.Schemas
	// mirror: the same schema is loaded a second time as package q, so every
	// name (objects, and whatever the passes derive from field names and
	// shapes) exists in two packages.
	mirror bool
	// users: the root's type is also the type of three more objects (Aa1, Aa2
	// right after the root, Zz1 after the support objects).
	users bool
}

func (c chainCase) spec() irgen.SchemaSpec {
	var s irgen.SchemaSpec
	switch c.form {
	case "root":
		s = irgen.WithRoot(c.term)
	case "field":
		s = irgen.WithField(c.term, true)
	default:
		s = irgen.WithField(c.term, false)
	}
	// aliases that nest another alias (Labels: []Label, Label: string): what
	// the extra leaves ref(p.LA) / ref(p.MA) point to
	pk := &s.Pkgs[0]
	pk.Objects = append(pk.Objects,
		irgen.ObjSpec{Name: "LA", T: irgen.Array(irgen.Ref(irgen.Pkg + ".A"))},
		irgen.ObjSpec{Name: "MA", T: irgen.Map(irgen.Ref(irgen.Pkg + ".A"))})
	if c.users {
		// the same type used by several objects, some walked before the
		// support objects and one after them (passes keep state across the
		// objects of one run)
		root := pk.Objects[0]
		var objs []irgen.ObjSpec
		objs = append(objs, root, irgen.ObjSpec{Name: "Aa1", T: root.T}, irgen.ObjSpec{Name: "Aa2", T: root.T})
		objs = append(objs, pk.Objects[1:]...)
		objs = append(objs, irgen.ObjSpec{Name: "Zz1", T: root.T})
		pk.Objects = objs
		s.Name += "+users"
	}
	if c.mirror {
		return mirrorSpec(s)
	}
	return s
}

func retarget(t irgen.Term, from, to string) irgen.Term {
	if (t.K == "ref" || t.K == "constref") && strings.HasPrefix(t.A, from+".") {
		t.A = to + strings.TrimPrefix(t.A, from)
	}
	if len(t.Sub) > 0 {
		sub := make([]irgen.Term, len(t.Sub))
		for i, s := range t.Sub {
			sub[i] = retarget(s, from, to)
		}
		t.Sub = sub
	}
	return t
}

// mirrorSpec adds, to a single-package spec, a package q holding the same
// objects (references retargeted to q).
func mirrorSpec(s irgen.SchemaSpec) irgen.SchemaSpec {
	if len(s.Pkgs) != 1 {
		return s
	}
	p := s.Pkgs[0]
	q := p
	q.Pkg = "q"
	q.Objects = nil
	for _, o := range p.Objects {
		o.T = retarget(o.T, p.Pkg, "q")
		q.Objects = append(q.Objects, o)
	}
	return irgen.SchemaSpec{Name: s.Name + "+mirror(q)", Pkgs: []irgen.PkgSpec{p, q}}
}

func (c chainCase) ID() string {
	switch c.kind {
	case "I":
		return "chain/I/" + c.spec().Name
	case "seed":
		return "chain/seed/" + c.seed.Name
	default:
		if c.mirror {
			return "chain/G/" + c.format + ":" + c.g.String() + "+mirror(q)"
		}
		return "chain/G/" + c.format + ":" + c.g.String()
	}
}

func (c chainCase) Size() int {
	if c.mirror {
		c.mirror = false
		return c.Size() + 1
	}
	if c.users {
		c.users = false
		return c.Size() + 1
	}
	switch c.kind {
	case "I":
		n := c.term.Size()
		if c.form != "root" {
			n++
		}
		if c.form == "optfield" {
			n++
		}
		return n
	case "seed":
		return c.seed.Size()
	default:
		return c.g.Size()
	}
}

func (c chainCase) Parents() []Case {
	var out []Case
	if c.mirror && c.kind != "seed" {
		single := c
		single.mirror = false
		single.cached = nil
		out = append(out, single)
	}
	switch c.kind {
	case "I":
		if c.users {
			out = append(out, chainCase{kind: "I", form: c.form, term: c.term, mirror: c.mirror})
		}
		if c.form == "optfield" {
			out = append(out, chainCase{kind: "I", form: "field", term: c.term, mirror: c.mirror, users: c.users})
		}
		if c.form == "field" {
			out = append(out, chainCase{kind: "I", form: "root", term: c.term, mirror: c.mirror, users: c.users})
		}
		for _, r := range c.term.Reductions() {
			out = append(out, chainCase{kind: "I", form: c.form, term: r, mirror: c.mirror, users: c.users})
		}
	case "G":
		for _, r := range c.g.Reductions() {
			out = append(out, chainCase{kind: "G", format: c.format, g: r, mirror: c.mirror})
		}
	}
	return out
}

func (c chainCase) detail() replayDetail {
	switch c.kind {
	case "I":
		return detail("chain", map[string]any{"kind": "I", "form": c.form, "term": c.term, "mirror": c.mirror, "users": c.users})
	case "seed":
		return detail("chain", map[string]any{"kind": "seed", "seed": c.seed.Name})
	default:
		return detail("chain", map[string]any{"kind": "G", "format": c.format, "schema": c.g, "mirror": c.mirror})
	}
}

func (c chainCase) build() ast.Schemas {
	switch c.kind {
	case "I":
		return c.spec().Build()
	case "seed":
		return c.seed.Build()
	default:
		s, status := loadG(c.g, c.format, nil)
		if status != "ok" {
			return nil
		}
		if c.mirror {
			for _, o := range c.g.Objs {
				if o.File != "" {
					return nil // a second document is already a second package
				}
			}
			s2, status := loadGAs(c.g, c.format, nil, "q")
			if status != "ok" {
				return nil
			}
			s = append(s, s2...)
		}
		return s
	}
}

func (c chainCase) Eval() []vx.Failure {
	var out []vx.Failure
	in := c.cached
	if in == nil {
		in = c.build()
	}
	if in == nil {
		stats.add("chain_outcome", "input not parseable (skipped)", 1)
		return nil
	}
	h := canonHash(in)
	noteState(h)
	var baseDangling map[string]bool
	for _, l := range allLanguages() {
		var fails []vx.Failure
		if l.final == nil {
			fails, baseDangling = evalChainLang(c.ID(), in, l, c.detail(), nil)
			if baseDangling == nil {
				baseDangling = map[string]bool{}
			}
		} else {
			fails, _ = evalChainLang(c.ID(), in, l, c.detail(), baseDangling)
		}
		out = append(out, fails...)
		if c.kind == "G" {
			if canonHash(in) != h { // the chain must work on a copy; if it does not, start again from the source
				stats.add("chain_outcome", "input mutated by the chain (C07), re-parsed", 1)
				in = c.build()
				if in == nil {
					return out
				}
			}
		} else {
			in = c.build()
		}
	}
	if len(out) > 0 {
		samples.Add(map[string]any{"part": "chain", "case": c.ID(), "kinds": len(out)})
	}
	return out
}

func partChain(d *driver, thorough bool, girs []gIR) int {
	var cases []Case
	depth := 2
	leaves := append(irgen.DefaultLeaves(), irgen.Ref(irgen.Pkg+".LA"), irgen.Ref(irgen.Pkg+".MA"))
	cfg := irgen.Config{Depth: depth, Leaves: leaves}
	if thorough {
		cfg = irgen.Config{Depth: 3, Leaves: leaves, InnerLeaves: []irgen.Term{irgen.S("string"), irgen.Ref(irgen.Pkg + ".S"), irgen.Ref(irgen.Pkg + ".E"), irgen.Ref(irgen.Pkg + ".A"), irgen.Ref(irgen.Pkg + ".LA"), irgen.ConstRef(irgen.Pkg + ".E"), irgen.Enum("str"), irgen.Const("str")}}
	}
	for _, t := range irgen.Types(cfg) {
		if discOverNonStruct(t) {
			// a discriminator mapping whose target is a scalar/enum alias cannot
			// come out of a parser or of DisjunctionInferMapping (both need
			// struct branches): not an input the statement quantifies over
			stats.add("chain_outcome", "grammar-I term skipped: discriminator mapping over a non-struct alias", 1)
			continue
		}
		for _, form := range []string{"root", "field", "optfield"} {
			cases = append(cases, chainCase{kind: "I", form: form, term: t})
			cases = append(cases, chainCase{kind: "I", form: form, term: t, mirror: true})
			cases = append(cases, chainCase{kind: "I", form: form, term: t, users: true})
		}
	}
	for _, s := range append(irgen.SeedSchemas(), c05Seeds()...) {
		cases = append(cases, chainCase{kind: "seed", seed: s})
	}
	for _, ir := range girs {
		cases = append(cases, chainCase{kind: "G", format: ir.format, g: ir.s, cached: ir.schemas})
		cases = append(cases, chainCase{kind: "G", format: ir.format, g: ir.s, mirror: true})
	}
	d.evalAll(cases)
	return len(cases)
}

// =============================================================================
// part 3: E1 BFS over name-changing transformations
// =============================================================================

type Op struct {
	Pass    string `json:"pass"`
	From    string `json:"from,omitempty"` // pkg.Name
	To      string `json:"to,omitempty"`   // Name | pkg.Name | prefix
	Variant string `json:"variant"`
}

func (o Op) String() string {
	switch o.Pass {
	case "unspec":
		return "unspec"
	case "PrefixObjectNames":
		return "PrefixObjectNames(" + o.To + ")"
	}
	return fmt.Sprintf("%s(%s→%s)[%s]", o.Pass, o.From, o.To, o.Variant)
}

// Build constructs the pass the way the YAML configuration route does.
func (o Op) Build() (compiler.Pass, error) {
	switch o.Pass {
	case "rename_object":
		return cogyaml.CompilerPass{RenameObject: &cogyaml.RenameObject{From: o.From, To: o.To}}.AsCompilerPass()
	case "duplicate_object":
		return cogyaml.CompilerPass{DuplicateObject: &cogyaml.DuplicateObject{Object: o.From, As: o.To}}.AsCompilerPass()
	case "replace_reference":
		return cogyaml.CompilerPass{ReplaceReference: &cogyaml.ReplaceReference{From: o.From, To: o.To}}.AsCompilerPass()
	case "unspec":
		return cogyaml.CompilerPass{Unspec: &cogyaml.Unspec{}}.AsCompilerPass()
	case "PrefixObjectNames":
		return &compiler.PrefixObjectNames{Prefix: o.To}, nil
	}
	return nil, fmt.Errorf("unknown pass %q", o.Pass)
}

func swapCase(s string) string {
	if u := strings.ToUpper(s); u != s {
		return u
	}
	return strings.ToLower(s)
}

type objID struct{ pkg, name string }

func objectsOf(schemas ast.Schemas) ([]objID, []string) {
	var objs []objID
	var pkgs []string
	for _, s := range schemas {
		pkgs = append(pkgs, s.Package)
		s.Objects.Iterate(func(k string, _ ast.Object) { objs = append(objs, objID{s.Package, k}) })
	}
	return objs, pkgs
}

// alphabet: every name-changing pass × every target variant, computed from
// the objects of the current state, simplest first.
func alphabet(schemas ast.Schemas) []Op {
	objs, pkgs := objectsOf(schemas)
	if len(objs) == 0 {
		return nil
	}
	otherPkg := func(p string) string {
		for _, q := range pkgs {
			if q != p {
				return q
			}
		}
		return ""
	}
	type from struct{ ref, variant string }
	var froms []from
	for _, o := range objs {
		froms = append(froms, from{o.pkg + "." + o.name, "exact"})
	}
	for _, o := range objs {
		if sc := swapCase(o.name); sc != o.name {
			froms = append(froms, from{o.pkg + "." + sc, "other-case"})
		}
	}
	for _, o := range objs {
		if q := otherPkg(o.pkg); q != "" {
			froms = append(froms, from{q + "." + o.name, "other-package"})
		}
	}
	froms = append(froms, from{objs[0].pkg + ".Absent", "absent"}, from{"zz." + objs[0].name, "absent-package"})
	// deduplicate (an other-package variant can coincide with an exact one)
	seen := map[string]bool{}
	var fs []from
	for _, f := range froms {
		if !seen[f.ref] {
			seen[f.ref] = true
			fs = append(fs, f)
		}
	}
	var ops []Op
	ops = append(ops, Op{Pass: "unspec", Variant: "n/a"}, Op{Pass: "PrefixObjectNames", To: "X", Variant: "n/a"})
	for _, f := range fs {
		ops = append(ops, Op{Pass: "rename_object", From: f.ref, To: "Zed", Variant: f.variant})
	}
	for _, f := range fs {
		pkg := strings.SplitN(f.ref, ".", 2)[0]
		ops = append(ops, Op{Pass: "duplicate_object", From: f.ref, To: pkg + ".Dup", Variant: f.variant})
		if q := otherPkg(pkg); q != "" && f.variant == "exact" {
			ops = append(ops, Op{Pass: "duplicate_object", From: f.ref, To: q + ".Dup", Variant: "exact, into other package"})
		}
	}
	for _, f := range fs {
		pkg := strings.SplitN(f.ref, ".", 2)[0]
		// towards existing objects: the first other object of the package, and the first object of another package
		n := 0
		for _, o := range objs {
			if o.pkg == pkg && !strings.EqualFold(pkg+"."+o.name, f.ref) {
				ops = append(ops, Op{Pass: "replace_reference", From: f.ref, To: o.pkg + "." + o.name, Variant: f.variant})
				n++
				break
			}
		}
		if q := otherPkg(pkg); q != "" {
			for _, o := range objs {
				if o.pkg == q {
					ops = append(ops, Op{Pass: "replace_reference", From: f.ref, To: o.pkg + "." + o.name, Variant: f.variant + ", to other package"})
					break
				}
			}
		}
		if n == 0 && len(objs) > 0 && pkg == "zz" {
			ops = append(ops, Op{Pass: "replace_reference", From: f.ref, To: objs[0].pkg + "." + objs[0].name, Variant: f.variant})
		}
	}
	return ops
}

func applyOp(schemas ast.Schemas, op Op) (out ast.Schemas, outcome string) {
	pass, err := op.Build()
	if err != nil {
		vx.Fatalf("op %s: %v", op, err)
	}
	if p := vx.Catch(func() { out, err = compiler.Passes{pass}.Process(schemas) }); p != nil {
		return nil, "panic (C04): " + msgClass(p)
	}
	stats.add("executions", "transform", 1)
	if err != nil {
		return nil, "error (allowed)"
	}
	return out, "ok"
}

func allSeeds() []irgen.SchemaSpec {
	out := append(irgen.SeedSchemas(), c05Seeds()...)
	// the same names in two packages: every single-package seed once more with a mirror package q
	for _, s := range append(irgen.SeedSchemas(), c05Seeds()...) {
		if len(s.Pkgs) == 1 {
			out = append(out, mirrorSpec(s))
		}
	}
	return out
}

func seedByName(name string) (irgen.SchemaSpec, bool) {
	for _, s := range allSeeds() {
		if s.Name == name {
			return s, true
		}
	}
	return irgen.SchemaSpec{}, false
}

type transformCase struct {
	seed irgen.SchemaSpec
	// via: "" or the name of a language whose built-in chain is applied to the
	// seed first (the public API applies PrefixObjectsNames as a *final* pass,
	// i.e. to the IR the language passes produce, hints included).
	via string
	seq []Op
}

func (c transformCase) seedName() string {
	if c.via != "" {
		return c.via + "(" + c.seed.Name + ")"
	}
	return c.seed.Name
}

func (c transformCase) initial() ast.Schemas {
	s := c.seed.Build()
	if c.via == "" {
		return s
	}
	for _, l := range allLanguages() {
		if l.name == c.via {
			out, err := l.mk().CompilerPasses().Process(s)
			if err != nil {
				vx.Fatalf("seed %s: %v", c.seedName(), err)
			}
			return out
		}
	}
	vx.Fatalf("seed %s: unknown language", c.seedName())
	return nil
}

type e1Seed struct {
	spec irgen.SchemaSpec
	via  string
}

func e1Seeds() []e1Seed {
	var out []e1Seed
	// E1 explores all seeds and the two-package mirrors of a representative
	// subset (the alphabet grows with the number of objects and packages; the
	// chains and allowed_objects parts use every mirror)
	e1Mirrors := map[string]bool{"union+mirror(q)": true, "nested+mirror(q)": true, "enums+mirror(q)": true, "c05-union+mirror(q)": true}
	for _, s := range allSeeds() {
		if strings.HasSuffix(s.Name, "+mirror(q)") && !e1Mirrors[s.Name] {
			continue
		}
		out = append(out, e1Seed{spec: s})
	}
	for _, name := range []string{"union", "nested", "union+mirror(q)", "nested+mirror(q)"} {
		s, ok := seedByName(name)
		if !ok {
			vx.Fatalf("seed %q missing", name)
		}
		out = append(out, e1Seed{spec: s, via: "go"})
	}
	return out
}

func parseSeedName(name string) (transformCase, bool) {
	via := ""
	if i := strings.Index(name, "("); i > 0 && strings.HasSuffix(name, ")") {
		via, name = name[:i], name[i+1:len(name)-1]
	}
	s, ok := seedByName(name)
	return transformCase{seed: s, via: via}, ok
}

func seqString(seq []Op) string {
	var p []string
	for _, o := range seq {
		p = append(p, o.String())
	}
	return strings.Join(p, " ; ")
}

func (c transformCase) ID() string {
	return "transform/seed=" + c.seedName() + " ops=" + seqString(c.seq)
}
func (c transformCase) Size() int { return len(c.seq) }
func (c transformCase) Parents() []Case {
	if len(c.seq) < 2 {
		return nil
	}
	var out []Case
	for i := range c.seq {
		seq := append(append([]Op{}, c.seq[:i]...), c.seq[i+1:]...)
		out = append(out, transformCase{seed: c.seed, via: c.via, seq: seq})
	}
	return out
}

// replaySeq applies all ops but the last; ok=false when an intermediate step
// errors or leaves a dangling reference (such a sequence is not a case: the
// search never expands a violating state).
func (c transformCase) prefixState() (ast.Schemas, bool) {
	cur := c.initial()
	if len(audit(cur, nil).dangling) > 0 {
		return nil, false
	}
	for _, op := range c.seq[:len(c.seq)-1] {
		next, outcome := applyOp(cur, op)
		if outcome != "ok" {
			return nil, false
		}
		if len(audit(next, nil).dangling) > 0 {
			return nil, false
		}
		cur = next
	}
	return cur, true
}

func transformFailures(c transformCase, after ast.Schemas, a auditResult) []vx.Failure {
	last := c.seq[len(c.seq)-1]
	byKind := map[string]vx.Failure{}
	for _, s := range a.dangling {
		if last.Pass == "unspec" && strings.EqualFold(s.Name, "metadata") {
			// lenience: removing the `metadata` object is unspec's documented
			// effect, not a name change; references to it are not judged.
			stats.add("transform_outcome", "reference to the metadata object removed by unspec (not judged)", 1)
			continue
		}
		kind := fmt.Sprintf("transform/%s: dangling %s @ %s (%s)", last.Pass, s.Kind, parentConstruct(s), last.Variant)
		if _, ok := byKind[kind]; ok {
			continue
		}
		byKind[kind] = vx.Failure{Kind: kind,
			What:   fmt.Sprintf("seed %q, after %s: %s %q (at %s of %s) names no loaded object although every reference resolved before %s", c.seedName(), seqString(c.seq), s.Kind, s.Target(), s.Pos, s.Owner, last.String()),
			Detail: detail("transform", map[string]any{"seed": c.seedName(), "ops": c.seq})}
	}
	return sortedFailures(byKind)
}

func (c transformCase) Eval() []vx.Failure {
	if len(c.seq) == 0 {
		return nil
	}
	cur, ok := c.prefixState()
	if !ok {
		return nil
	}
	after, outcome := applyOp(cur, c.seq[len(c.seq)-1])
	if outcome != "ok" {
		return nil
	}
	a := audit(after, nil)
	if len(a.dangling) == 0 {
		return c.singleRunFailures(a)
	}
	return transformFailures(c, after, a)
}

// singleRunFailures applies the whole sequence (preceded by the language's
// own passes for a via-seed) in ONE Passes.Process run, the way a
// transformations file or Transforms.FinalPasses are applied: no deep copy
// separates the passes, so whatever memory one pass leaves shared is seen by
// the next one. The result must not hold dangling references that the
// pass-by-pass application (multi) does not have.
func (c transformCase) singleRunFailures(multi auditResult) []vx.Failure {
	var passes compiler.Passes
	if c.via != "" {
		l, ok := langByName(c.via)
		if !ok {
			vx.Fatalf("seed %s: unknown language", c.seedName())
		}
		passes = l.mk().CompilerPasses()
	}
	for _, op := range c.seq {
		pass, err := op.Build()
		if err != nil {
			vx.Fatalf("op %s: %v", op, err)
		}
		passes = append(passes, pass)
	}
	if len(passes) < 2 {
		return nil // nothing is shared between passes when there is only one
	}
	var out ast.Schemas
	var err error
	if p := vx.Catch(func() { out, err = passes.Process(c.seed.Build()) }); p != nil || err != nil {
		stats.add("transform_outcome", "single run: error/panic", 1)
		return nil
	}
	stats.add("executions", "transform", 1)
	a := audit(out, nil)
	if len(a.dangling) == 0 {
		stats.add("transform_outcome", "single run: ok", 1)
		return nil
	}
	known := map[string]bool{}
	for _, s := range multi.dangling {
		known[siteKey(s)] = true
	}
	last := c.seq[len(c.seq)-1]
	byKind := map[string]vx.Failure{}
	for _, s := range a.dangling {
		if known[siteKey(s)] || (last.Pass == "unspec" && strings.EqualFold(s.Name, "metadata")) {
			continue
		}
		kind := fmt.Sprintf("transform/%s: dangling %s @ %s (%s) [passes applied in one run]", last.Pass, s.Kind, parentConstruct(s), last.Variant)
		if _, ok := byKind[kind]; ok {
			continue
		}
		byKind[kind] = vx.Failure{Kind: kind,
			What:   fmt.Sprintf("seed %q, %s applied in one Passes.Process run: %s %q (at %s of %s) names no loaded object, although it resolves when the same passes are applied one run at a time", c.seedName(), seqString(c.seq), s.Kind, s.Target(), s.Pos, s.Owner),
			Detail: detail("transform", map[string]any{"seed": c.seedName(), "ops": c.seq})}
	}
	if len(byKind) > 0 {
		stats.add("transform_outcome", "single run: dangling reference", 1)
	}
	return sortedFailures(byKind)
}

type e1Result struct {
	seeds, states, transitions, depth int
	fixpoint, complete                bool
	bound                             string
}

type succ struct {
	op      Op
	outcome string
	hash    [16]byte
	fails   []vx.Failure
	// singleFails: failures of the same sequence applied in one run (the state is still expanded)
	singleFails []vx.Failure
}

func partTransform(d *driver, thorough bool) e1Result {
	maxDepth := 2
	if thorough {
		maxDepth = 3
	}
	res := e1Result{depth: maxDepth, complete: true, fixpoint: true}
	for _, sd := range e1Seeds() {
		seed0 := transformCase{seed: sd.spec, via: sd.via}
		s0 := seed0.initial()
		if n := len(audit(s0, nil).dangling); n > 0 {
			stats.add("transform_outcome", "seed with dangling references skipped", 1)
			continue
		}
		res.seeds++
		seen := map[[16]byte]bool{canonHash(s0): true}
		noteState(canonHash(s0))
		frontier := [][]Op{{}}
		states := 1
		seedDepth := maxDepth
		if strings.Contains(seed0.seedName(), "+mirror(q)") && seedDepth > 2 {
			seedDepth = 2 // the two-package mirrors have a 3x larger alphabet: depth 2 in both tiers
		}
		for depth := 1; depth <= seedDepth && len(frontier) > 0; depth++ {
			results := make([][]succ, len(frontier))
			parallel(len(frontier), func(i int) {
				if d.timedOut.Load() || timeUp(d) {
					d.timedOut.Store(true)
					return
				}
				seq := frontier[i]
				base := transformCase{seed: sd.spec, via: sd.via, seq: append(append([]Op{}, seq...), Op{})}
				cur, ok := base.prefixState()
				if !ok {
					vx.Fatalf("transform: frontier state %s is not reproducible", seqString(seq))
				}
				for _, op := range alphabet(cur) {
					// successors are built from a fresh replay: live states are never reused
					fresh, _ := base.prefixState()
					after, outcome := applyOp(fresh, op)
					sc := succ{op: op, outcome: outcome}
					stats.add("transform_ops", op.Pass, 1)
					stats.add("transform_variants", op.Variant, 1)
					if outcome == "ok" {
						a := audit(after, nil)
						for k, n := range a.judged {
							stats.add("judged_transform", k, n)
						}
						sc.hash = canonHash(after)
						if len(a.dangling) > 0 {
							c := transformCase{seed: sd.spec, via: sd.via, seq: append(append([]Op{}, seq...), op)}
							sc.fails = transformFailures(c, after, a)
							sc.outcome = "dangling reference"
							if len(sc.fails) == 0 {
								sc.outcome = "only references to the removed metadata object dangle (not judged, state not expanded)"
							}
						} else {
							c := transformCase{seed: sd.spec, via: sd.via, seq: append(append([]Op{}, seq...), op)}
							sc.singleFails = c.singleRunFailures(a)
						}
					}
					results[i] = append(results[i], sc)
				}
			})
			if d.timedOut.Load() {
				res.complete = false
				res.bound = fmt.Sprintf("transform: deadline hit at depth %d of seed %s", depth, seed0.seedName())
				break
			}
			var next [][]Op
			for i, list := range results {
				for _, sc := range list {
					res.transitions++
					stats.add("transform_outcome", sc.outcome, 1)
					seq := append(append([]Op{}, frontier[i]...), sc.op)
					if len(sc.fails) > 0 {
						c := transformCase{seed: sd.spec, via: sd.via, seq: seq}
						d.record(c, sc.fails)
					} else if len(sc.singleFails) > 0 {
						c := transformCase{seed: sd.spec, via: sd.via, seq: seq}
						d.record(c, sc.singleFails)
					}
					// a state with a dangling reference is reported, never expanded
					if sc.outcome != "ok" || seen[sc.hash] {
						continue
					}
					seen[sc.hash] = true
					noteState(sc.hash)
					states++
					next = append(next, seq)
				}
			}
			frontier = next
		}
		if len(frontier) > 0 {
			res.fixpoint = false
		}
		res.states += states
	}
	if res.bound == "" {
		if res.fixpoint {
			res.bound = "transform: fixpoint reached (holds for sequences of any length)"
		} else {
			res.bound = fmt.Sprintf("transform: all sequences of length <= %d (<= 2 from the two-package mirror seeds)", maxDepth)
		}
	}
	samples.Add(map[string]any{"part": "transform", "case": "seed=case ops=" + seqString(alphabet(allSeeds()[2].Build())[:3])})
	return res
}

func timeUp(d *driver) bool { return time.Now().After(d.deadline) }

func (d *driver) record(c Case, fs []vx.Failure) {
	d.mu.Lock()
	defer d.mu.Unlock()
	if _, ok := d.cases[c.ID()]; ok {
		return
	}
	d.cases[c.ID()] = c
	d.results[c.ID()] = fs
}

// c05Seeds: additional small seed IRs that put a reference of every kind in
// every position the shared visitor does not traverse.
func c05Seeds() []irgen.SchemaSpec {
	P := irgen.Pkg
	st := func(kv ...any) irgen.Term {
		var fs []irgen.Field
		var ts []irgen.Term
		for i := 0; i+1 < len(kv); i += 2 {
			n := kv[i].(string)
			req := !strings.HasSuffix(n, "?")
			fs = append(fs, irgen.Field{Name: strings.TrimSuffix(n, "?"), Required: req})
			ts = append(ts, kv[i+1].(irgen.Term))
		}
		return irgen.StructN(fs, ts)
	}
	hinted := st("a?", irgen.Ref(P+".S"), "b?", irgen.Ref(P+".T"))
	_ = hinted
	return []irgen.SchemaSpec{
		{Name: "c05-mapidx", Pkgs: []irgen.PkgSpec{{Pkg: P, EntryPoint: "Root", Objects: []irgen.ObjSpec{
			{Name: "Root", T: st("byKey?", irgen.MapIdx(irgen.Ref(P+".Key"), irgen.Ref(P+".Val")), "plain", irgen.Ref(P+".Val"))},
			{Name: "Key", T: irgen.Enum("str")},
			{Name: "Val", T: st("v", irgen.S("string"))},
		}}}},
		{Name: "c05-constref", Pkgs: []irgen.PkgSpec{{Pkg: P, EntryPoint: "Root", Objects: []irgen.ObjSpec{
			{Name: "Root", T: st("k", irgen.ConstRef(P+".Kind"), "arr?", irgen.Array(irgen.ConstRef(P+".Other")), "s", irgen.Ref(P+".Leaf"))},
			{Name: "Kind", T: irgen.Enum("str")},
			{Name: "Other", T: irgen.Enum("str")},
			{Name: "Leaf", T: st("v", irgen.S("string"))},
			{Name: "Unused", T: irgen.S("string")},
		}}}},
		{Name: "c05-union", Pkgs: []irgen.PkgSpec{{Pkg: P, EntryPoint: "spec", Identifier: "Dash", Objects: []irgen.ObjSpec{
			{Name: "spec", T: st("u", irgen.Term{K: "disj", Sub: []irgen.Term{irgen.Ref(P + ".S"), irgen.Ref(P + ".T")}, Disc: true}, "i?", irgen.Inter(irgen.Ref(P+".S"), irgen.Ref(P+".Extra")))},
			{Name: "S", T: st("kind", irgen.Const("str"), "x?", irgen.S("string"))},
			{Name: "T", T: st("kind", irgen.Const("int"), "y?", irgen.Ref(P+".Deep"))},
			{Name: "Extra", T: st("e?", irgen.S("bool"))},
			{Name: "Deep", T: irgen.Enum("str")},
			{Name: "metadata", T: st("name", irgen.S("string"))},
		}}}},
		// constant references whose target is not a leaf: an alias (chain) of an enum
		{Name: "c05-constalias", Pkgs: []irgen.PkgSpec{{Pkg: P, Objects: []irgen.ObjSpec{
			{Name: "Holder", T: st("ce", irgen.ConstRef(P+".Sev"), "other?", irgen.S("string"))},
			{Name: "Sev", T: irgen.Ref(P + ".E")},
			{Name: "E", T: irgen.Enum("str")},
			{Name: "K", T: irgen.Const("str")},
		}}}},
		{Name: "c05-constalias2", Pkgs: []irgen.PkgSpec{{Pkg: P, Objects: []irgen.ObjSpec{
			{Name: "Holder", T: st("ce", irgen.ConstRef(P+".Sev2"), "arr?", irgen.Array(irgen.ConstRef(P+".Wrap")))},
			{Name: "Sev2", T: irgen.Ref(P + ".Sev")},
			{Name: "Sev", T: irgen.Ref(P + ".E")},
			{Name: "E", T: irgen.Enum("str")},
			{Name: "Wrap", T: st("inner", irgen.Ref(P+".Leaf"))},
			{Name: "Leaf", T: irgen.S("string")},
		}}}},
		{Name: "c05-twopkg", Pkgs: []irgen.PkgSpec{
			{Pkg: P, EntryPoint: "Root", Objects: []irgen.ObjSpec{
				{Name: "Root", T: st("far", irgen.Ref("q.Far"), "near?", irgen.Ref(P+".Near"), "k?", irgen.ConstRef("q.Kind"))},
				{Name: "Near", T: st("v", irgen.S("string"))},
				{Name: "Far", T: irgen.S("string")},
			}},
			{Pkg: "q", Objects: []irgen.ObjSpec{
				{Name: "Far", T: st("back?", irgen.Ref(P+".Near"), "m?", irgen.MapIdx(irgen.Ref("q.Kind"), irgen.S("string")))},
				{Name: "Kind", T: irgen.Enum("str")},
				{Name: "Near", T: irgen.S("int64")},
			}},
		}},
	}
}

// =============================================================================
// part 4: allowed_objects
// =============================================================================

type filterCase struct {
	// source: "seed" (FilterSchemas on the seed's schemas, mode "input" = one
	// schema at a time as codegen/input.go does, "all" = every schema at once)
	// or "G" (end to end: Input.LoadSchemas with allowed_objects)
	source string
	seed   irgen.SchemaSpec
	mode   string
	pkg    string
	format string
	g      GSchema
	allow  []string // "pkg.Name" (seed) or "Name" (G), sorted
}

func (c filterCase) ID() string {
	switch c.source {
	case "seed":
		return fmt.Sprintf("filter/seed=%s mode=%s allow=[%s]", c.seed.Name, strings.TrimSuffix(c.mode+":"+c.pkg, ":"), strings.Join(c.allow, ","))
	default:
		return fmt.Sprintf("filter/G/%s:%s allow=[%s]", c.format, c.g.String(), strings.Join(c.allow, ","))
	}
}
func (c filterCase) Size() int { return len(c.allow) }
func (c filterCase) Parents() []Case {
	if len(c.allow) < 2 {
		return nil
	}
	var out []Case
	for i := range c.allow {
		p := c
		p.allow = append(append([]string{}, c.allow[:i]...), c.allow[i+1:]...)
		out = append(out, p)
	}
	return out
}

func (c filterCase) load() (before, after ast.Schemas, listed []objID, ok bool) {
	switch c.source {
	case "seed":
		pick := func() ast.Schemas {
			all := c.seed.Build()
			if c.mode == "input" {
				for _, s := range all {
					if s.Package == c.pkg {
						return ast.Schemas{s}
					}
				}
				return nil
			}
			return all
		}
		before = pick()
		var refs []compiler.ObjectReference
		for _, a := range c.allow {
			p := strings.SplitN(a, ".", 2)
			refs = append(refs, compiler.ObjectReference{Package: p[0], Object: p[1]})
			listed = append(listed, objID{p[0], p[1]})
		}
		in := pick()
		var err error
		if p := vx.Catch(func() { after, err = (&compiler.FilterSchemas{AllowedObjects: refs}).Process(in) }); p != nil || err != nil {
			stats.add("filter_outcome", "error/panic", 1)
			return nil, nil, nil, false
		}
		stats.add("executions", "filter", 1)
		return before, after, listed, true
	default:
		var st string
		before, st = loadG(c.g, c.format, nil)
		if st != "ok" {
			return nil, nil, nil, false
		}
		after, st = loadG(c.g, c.format, c.allow)
		if st != "ok" {
			stats.add("filter_outcome", "error/panic", 1)
			return nil, nil, nil, false
		}
		stats.add("executions", "filter", 1)
		for _, a := range c.allow {
			listed = append(listed, objID{"p", a})
		}
		return before, after, listed, true
	}
}

func (c filterCase) Eval() []vx.Failure {
	before, after, listed, ok := c.load()
	if !ok {
		return nil
	}
	idx := indexOf(before)
	edges := edgesOf(before)
	expected := map[string]bool{}
	var queue []string
	for _, l := range listed {
		if idx.Has(l.pkg, l.name) {
			k := l.pkg + "." + l.name
			if !expected[k] {
				expected[k] = true
				queue = append(queue, k)
			}
		}
	}
	for len(queue) > 0 {
		k := queue[0]
		queue = queue[1:]
		for _, e := range edges[k] {
			t := e.pkg + "." + e.name
			stats.add("judged_filter", e.kind, 1)
			if !expected[t] {
				expected[t] = true
				queue = append(queue, t)
			}
		}
	}
	got := map[string]bool{}
	gotIdx := indexOf(after)
	for p, names := range gotIdx {
		if _, loaded := idx[p]; !loaded {
			continue
		}
		for n := range names {
			got[p+"."+n] = true
		}
	}
	noteState(canonHash(after))
	byKind := map[string]vx.Failure{}
	det := detail("filter", map[string]any{"source": c.source, "seed": c.seed.Name, "mode": c.mode, "pkg": c.pkg, "format": c.format, "g": c.g, "allow": c.allow})
	var missing, extra []string
	for k := range expected {
		if !got[k] {
			missing = append(missing, k)
		}
	}
	for k := range got {
		if !expected[k] {
			extra = append(extra, k)
		}
	}
	sort.Strings(missing)
	sort.Strings(extra)
	if len(missing) == 0 && len(extra) == 0 {
		stats.add("filter_outcome", "exactly the closure", 1)
		return nil
	}
	listedSet := map[string]bool{}
	for _, l := range listed {
		listedSet[l.pkg+"."+l.name] = true
	}
	for _, m := range missing {
		if listedSet[m] {
			kind := "allowed_objects: listed object missing"
			byKind[kind] = vx.Failure{Kind: kind, What: fmt.Sprintf("%s: listed object %s is not in the result", c.ID(), m), Detail: det}
			continue
		}
		// edges into m from objects that were kept
		kinds := map[string]bool{}
		var from []string
		for owner, es := range edges {
			if !got[owner] || !expected[owner] {
				continue
			}
			for _, e := range es {
				if e.pkg+"."+e.name == m {
					kinds[e.kind] = true
					from = append(from, owner)
				}
			}
		}
		if len(kinds) == 0 {
			continue // only reachable through another missing object: that one is reported
		}
		var ks []string
		for k := range kinds {
			ks = append(ks, k)
		}
		sort.Strings(ks)
		sort.Strings(from)
		kind := "allowed_objects: missing " + strings.Join(ks, "+") + " closure"
		if _, ok := byKind[kind]; !ok {
			byKind[kind] = vx.Failure{Kind: kind, What: fmt.Sprintf("%s: %s is referenced (%s) by kept object %s but is not in the result", c.ID(), m, strings.Join(ks, "+"), from[0]), Detail: det}
		}
	}
	if len(extra) > 0 {
		kind := "allowed_objects: extra object"
		byKind[kind] = vx.Failure{Kind: kind, What: fmt.Sprintf("%s: %s kept although neither listed nor referenced by a listed object", c.ID(), shortList(extra, 4)), Detail: det}
	}
	stats.add("filter_outcome", "differs from the closure", 1)
	return sortedFailures(byKind)
}

func subsets(items []string) [][]string {
	var out [][]string
	n := len(items)
	for mask := 1; mask < 1<<n; mask++ {
		var s []string
		for i := 0; i < n; i++ {
			if mask&(1<<i) != 0 {
				s = append(s, items[i])
			}
		}
		out = append(out, s)
	}
	sort.SliceStable(out, func(i, j int) bool { return len(out[i]) < len(out[j]) })
	return out
}

func partFilter(d *driver, thorough bool, gs []GSchema) int {
	var cases []Case
	maxObjs := 6
	for _, seed := range allSeeds() {
		schemas := seed.Build()
		var all []string
		for _, s := range schemas {
			var names []string
			s.Objects.Iterate(func(k string, _ ast.Object) { names = append(names, s.Package+"."+k) })
			all = append(all, names...)
			if len(names) <= maxObjs {
				sort.Strings(names)
				for _, sub := range subsets(names) {
					cases = append(cases, filterCase{source: "seed", seed: seed, mode: "input", pkg: s.Package, allow: sub})
				}
			} else {
				stats.add("filter_outcome", "schema with more than 6 objects not enumerated", 1)
			}
		}
		if len(schemas) > 1 && len(all) <= maxObjs+2 {
			sort.Strings(all)
			for _, sub := range subsets(all) {
				cases = append(cases, filterCase{source: "seed", seed: seed, mode: "all", allow: sub})
			}
		}
	}
	maxG := map[string]int{"jsonschema": 6, "openapi": 6, "cue": 4}
	if thorough {
		maxG["cue"] = 5
	}
	for _, g := range gs {
		if strings.HasPrefix(g.Name, "pair/") || (!thorough && strings.HasPrefix(g.Name, "users/")) {
			continue // quick: the several-users shapes go through the allow-lists of the seeds only
		}
		var names []string
		for _, o := range g.Objs {
			if o.File == "" && !strings.Contains(o.Name, "/") {
				names = append(names, o.Name)
			}
		}
		sort.Strings(names)
		multiDoc := false
		for _, o := range g.Objs {
			if o.File != "" {
				multiDoc = true // allowed_objects restricts one input; a second document is another input
			}
		}
		for _, f := range formats {
			if g.check(f) != nil || len(names) > maxG[f] || multiDoc {
				continue
			}
			ns := names
			if f == "jsonschema" && g.InlineRoot { // the inline root is named after the package
				ns = append([]string{}, names...)
				for i := range ns {
					if ns[i] == g.Objs[0].Name {
						ns[i] = "p"
					}
				}
				sort.Strings(ns)
			}
			for _, sub := range subsets(ns) {
				cases = append(cases, filterCase{source: "G", format: f, g: g, allow: sub})
			}
		}
	}
	d.evalAll(cases)
	if len(cases) > 0 {
		samples.Add(map[string]any{"part": "filter", "case": cases[len(cases)/2].ID()})
	}
	return len(cases)
}

// =============================================================================
// replay
// =============================================================================

func replay(r *vx.Run) int {
	kind, witness, raw := r.ReplayFile()
	var det replayDetail
	if err := json.Unmarshal(raw, &det); err != nil {
		vx.Fatalf("replay: detail: %v", err)
	}
	var c Case
	switch det.Part {
	case "parse":
		var v struct {
			Format string  `json:"format"`
			Schema GSchema `json:"schema"`
		}
		mustUnmarshal(det.Data, &v)
		c = parseCase{format: v.Format, s: v.Schema}
	case "chain":
		var v struct {
			Kind   string     `json:"kind"`
			Form   string     `json:"form"`
			Term   irgen.Term `json:"term"`
			Seed   string     `json:"seed"`
			Format string     `json:"format"`
			Schema GSchema    `json:"schema"`
			Mirror bool       `json:"mirror"`
			Users  bool       `json:"users"`
		}
		mustUnmarshal(det.Data, &v)
		cc := chainCase{kind: v.Kind, form: v.Form, term: v.Term, format: v.Format, g: v.Schema, mirror: v.Mirror, users: v.Users}
		if v.Kind == "seed" {
			s, ok := seedByName(v.Seed)
			if !ok {
				vx.Fatalf("replay: unknown seed %q", v.Seed)
			}
			cc.seed = s
		}
		c = cc
	case "transform":
		var v struct {
			Seed string `json:"seed"`
			Ops  []Op   `json:"ops"`
		}
		mustUnmarshal(det.Data, &v)
		tc, ok := parseSeedName(v.Seed)
		if !ok {
			vx.Fatalf("replay: unknown seed %q", v.Seed)
		}
		tc.seq = v.Ops
		c = tc
	case "filter":
		var v struct {
			Source string   `json:"source"`
			Seed   string   `json:"seed"`
			Mode   string   `json:"mode"`
			Pkg    string   `json:"pkg"`
			Format string   `json:"format"`
			G      GSchema  `json:"g"`
			Allow  []string `json:"allow"`
		}
		mustUnmarshal(det.Data, &v)
		fc := filterCase{source: v.Source, mode: v.Mode, pkg: v.Pkg, format: v.Format, g: v.G, allow: v.Allow}
		if v.Source == "seed" {
			s, ok := seedByName(v.Seed)
			if !ok {
				vx.Fatalf("replay: unknown seed %q", v.Seed)
			}
			fc.seed = s
		}
		c = fc
	default:
		vx.Fatalf("replay: unknown part %q", det.Part)
	}
	fmt.Printf("replaying %s\n  recorded kind: %s\n", c.ID(), kind)
	if c.ID() != witness {
		fmt.Printf("  note: rebuilt case id differs from the recorded witness %q\n", witness)
	}
	fs := c.Eval()
	still := false
	for _, f := range fs {
		mark := " "
		if f.Kind == kind {
			still = true
			mark = "*"
		}
		fmt.Printf(" %s %s\n     %s\n", mark, f.Kind, f.What)
	}
	if still {
		fmt.Printf("VIOLATION property=C05 replay=%s\n", r.Replay)
		return 1
	}
	fmt.Println("replay: the recorded failure does not occur on this tree")
	return 0
}

func mustUnmarshal(b []byte, v any) {
	if err := json.Unmarshal(b, v); err != nil {
		vx.Fatalf("replay: %v", err)
	}
}

var _ sync.Mutex
