//go:build verif

package main

import (
	"encoding/json"
	"fmt"
	"sort"
	"strings"
)

// Grammar G restricted to what matters for C05: a tiny abstract schema whose
// interesting part is *where references sit* and *what they point to*, with
// one renderer per input format.

type GT struct {
	K string `json:"k"` // string int any const enum struct array map ref union inter constref xref null
	A string `json:"a,omitempty"`
	// Sub: array [elem]; map [value]; union/inter branches; struct field types
	Sub []GT `json:"sub,omitempty"`
	F   []GF `json:"f,omitempty"`
	// Disc (union): "" none | "prop" discriminator property only | "mapping"
	// property + explicit mapping of every branch, targets written as
	// `#/components/schemas/X` | "bare" the same with bare schema names |
	// "partial" bare names, the last branch left to the implicit rule |
	// "partial-ref" `#/...` targets, the last branch left to the implicit rule
	Disc string `json:"disc,omitempty"`
}

type GF struct {
	Name string `json:"n"`
	Req  bool   `json:"r,omitempty"`
}

type GObj struct {
	Name string `json:"name"`
	T    GT     `json:"t"`
	// File: "" main document; otherwise the object lives in a second document
	// (OpenAPI external file / not expressible elsewhere).
	File string `json:"file,omitempty"`
}

type GSchema struct {
	Name string `json:"name"`
	// Objs[0] is the root / entry point.
	Objs []GObj `json:"objs"`
	// InlineRoot (JSON Schema): the document itself is the root object (no top-level $ref).
	InlineRoot bool `json:"inline_root,omitempty"`
	// Defs (CUE): objects are rendered as #Definitions.
	Defs bool `json:"defs,omitempty"`
}

func gStr() GT                 { return GT{K: "string"} }
func gInt() GT                 { return GT{K: "int"} }
func gRef(n string) GT         { return GT{K: "ref", A: n} }
func gArr(e GT) GT             { return GT{K: "array", Sub: []GT{e}} }
func gMap(e GT) GT             { return GT{K: "map", Sub: []GT{e}} }
func gUnion(b ...GT) GT        { return GT{K: "union", Sub: b} }
func gInter(b ...GT) GT        { return GT{K: "inter", Sub: b} }
func gConst(v string) GT       { return GT{K: "const", A: v} }
func gEnum() GT                { return GT{K: "enum"} }
func gConstRef(e, v string) GT { return GT{K: "constref", A: e + "=" + v} }
func gXRef(file, n string) GT  { return GT{K: "xref", A: file + "." + n} }
func gStruct(kv ...any) GT {
	t := GT{K: "struct"}
	for i := 0; i+1 < len(kv); i += 2 {
		name := kv[i].(string)
		req := true
		if strings.HasSuffix(name, "?") {
			req = false
			name = strings.TrimSuffix(name, "?")
		}
		t.F = append(t.F, GF{name, req})
		t.Sub = append(t.Sub, kv[i+1].(GT))
	}
	return t
}

func (t GT) String() string {
	switch t.K {
	case "string", "int", "any", "enum", "null":
		return t.K
	case "const":
		return "const(" + t.A + ")"
	case "ref", "constref", "xref":
		return t.K + "(" + t.A + ")"
	case "array", "map":
		return t.K + "(" + t.Sub[0].String() + ")"
	case "union", "inter":
		var p []string
		for _, s := range t.Sub {
			p = append(p, s.String())
		}
		sep := "|"
		if t.K == "inter" {
			sep = "&"
		}
		d := ""
		if t.Disc != "" {
			d = "@" + t.Disc
		}
		return "(" + strings.Join(p, sep) + ")" + d
	case "struct":
		var p []string
		for i, s := range t.Sub {
			n := t.F[i].Name
			if !t.F[i].Req {
				n += "?"
			}
			p = append(p, n+":"+s.String())
		}
		return "{" + strings.Join(p, ",") + "}"
	}
	return "?" + t.K
}

func (t GT) Size() int {
	n := 1
	for _, s := range t.Sub {
		n += s.Size()
	}
	if t.Disc != "" {
		n++
	}
	return n
}

func (s GSchema) String() string {
	var p []string
	for _, o := range s.Objs {
		n := o.Name
		if o.File != "" {
			n = o.File + ":" + n
		}
		p = append(p, n+"="+o.T.String())
	}
	f := ""
	if s.InlineRoot {
		f += "[inline-root]"
	}
	if s.Defs {
		f += "[defs]"
	}
	return f + strings.Join(p, ";")
}

func (s GSchema) Size() int {
	n := 0
	for _, o := range s.Objs {
		n += 1 + o.T.Size()
	}
	return n
}

func (s GSchema) JSON() string { b, _ := json.Marshal(s); return string(b) }

// ---- reductions (DESIGN §5.1) ------------------------------------------------

func (t GT) Reductions() []GT {
	var out []GT
	// hoist a child
	for _, s := range t.Sub {
		if s.K != "null" {
			out = append(out, s)
		}
	}
	// drop a field / branch
	if (t.K == "struct" && len(t.Sub) > 1) || ((t.K == "union" || t.K == "inter") && len(t.Sub) > 2) {
		for i := range t.Sub {
			c := t
			c.Sub = append(append([]GT{}, t.Sub[:i]...), t.Sub[i+1:]...)
			if t.K == "struct" {
				c.F = append(append([]GF{}, t.F[:i]...), t.F[i+1:]...)
			}
			out = append(out, c)
		}
	}
	// reduce inside
	for i, s := range t.Sub {
		for _, r := range s.Reductions() {
			c := t
			c.Sub = append([]GT{}, t.Sub...)
			c.Sub[i] = r
			out = append(out, c)
		}
	}
	// reset attributes
	if next, ok := map[string]string{"partial-ref": "mapping", "partial": "bare", "bare": "prop", "mapping": "prop", "prop": ""}[t.Disc]; ok {
		c := t
		c.Disc = next
		out = append(out, c)
	}
	if t.K == "struct" {
		for i, f := range t.F {
			if !f.Req {
				c := t
				c.F = append([]GF{}, t.F...)
				c.F[i].Req = true
				out = append(out, c)
			}
		}
	}
	if t.K == "int" || t.K == "any" || t.K == "const" || t.K == "enum" {
		out = append(out, gStr())
	}
	return out
}

func (t GT) refs(out map[string]bool) {
	switch t.K {
	case "ref":
		out[t.A] = true
	case "constref":
		out[strings.SplitN(t.A, "=", 2)[0]] = true
	case "xref":
		out[t.A] = true
	}
	for _, s := range t.Sub {
		s.refs(out)
	}
}

// Reductions of a schema: reduce one object's type, drop an unreferenced
// non-root object, reset a flag.
func (s GSchema) Reductions() []GSchema {
	var out []GSchema
	mk := func(objs []GObj, inline, defs bool) GSchema {
		c := GSchema{Objs: objs, InlineRoot: inline, Defs: defs}
		c.Name = c.String()
		return c
	}
	used := map[string]bool{}
	for _, o := range s.Objs {
		o.T.refs(used)
	}
	for i, o := range s.Objs {
		key := o.Name
		if o.File != "" {
			key = o.File + "." + o.Name
		}
		if i > 0 && !used[key] {
			out = append(out, mk(append(append([]GObj{}, s.Objs[:i]...), s.Objs[i+1:]...), s.InlineRoot, s.Defs))
		}
	}
	for i, o := range s.Objs {
		for _, r := range o.T.Reductions() {
			objs := append([]GObj{}, s.Objs...)
			objs[i].T = r
			out = append(out, mk(objs, s.InlineRoot, s.Defs))
		}
	}
	if s.InlineRoot {
		out = append(out, mk(s.Objs, false, s.Defs))
	}
	if s.Defs {
		out = append(out, mk(s.Objs, s.InlineRoot, false))
	}
	return out
}

// ---- enumeration ---------------------------------------------------------------

// support objects references can point to
func gSupport() map[string]GT {
	return map[string]GT{
		"S": gStruct("kind", gConst("s"), "x?", gStr()),
		"T": gStruct("kind", gConst("t"), "y?", gInt()),
		"V": gStruct("kind", gConst("v"), "z?", gStr()),
		"E": gEnum(),
		"A": gStr(),
		"K": gConst("k"),
		"L": gArr(gStr()),
		"M": gMap(gInt()),
		"R": gRef("S"),
		// LA: an array of aliased scalars (Tags: [...Tag], Tag: string); MA: a map of them
		"LA": gArr(gRef("A")),
		"MA": gMap(gRef("A")),
	}
}

// withSupport appends (transitively) the support objects the given objects reference.
func withSupport(name string, objs ...GObj) GSchema {
	sup := gSupport()
	have := map[string]bool{}
	for _, o := range objs {
		if o.File == "" {
			have[o.Name] = true
		}
	}
	for changed := true; changed; {
		changed = false
		used := map[string]bool{}
		for _, o := range objs {
			o.T.refs(used)
		}
		var names []string
		for n := range used {
			names = append(names, n)
		}
		sort.Strings(names)
		for _, n := range names {
			if t, ok := sup[n]; ok && !have[n] {
				objs = append(objs, GObj{Name: n, T: t})
				have[n] = true
				changed = true
			}
		}
	}
	return GSchema{Name: name, Objs: objs}
}

type gPos struct {
	name string
	mk   func(hole GT) []GObj
}

func gPositions() []gPos {
	root := func(t GT) []GObj { return []GObj{{Name: "Root", T: t}} }
	return []gPos{
		{"root-alias", func(h GT) []GObj { return root(h) }},
		{"field", func(h GT) []GObj { return root(gStruct("f", h)) }},
		{"optfield", func(h GT) []GObj { return root(gStruct("f?", h)) }},
		{"array", func(h GT) []GObj { return root(gStruct("f", gArr(h))) }},
		{"map", func(h GT) []GObj { return root(gStruct("f?", gMap(h))) }},
		{"nested", func(h GT) []GObj { return root(gStruct("f", gStruct("g", h))) }},
		{"nested2", func(h GT) []GObj { return root(gStruct("f", gStruct("g?", gStruct("h", h)))) }},
		{"array-of-nested", func(h GT) []GObj { return root(gStruct("f?", gArr(gStruct("g", h)))) }},
		{"array2", func(h GT) []GObj { return root(gStruct("f", gArr(gArr(h)))) }},
		{"map-of-array", func(h GT) []GObj { return root(gStruct("f", gMap(gArr(h)))) }},
		{"union-scalar", func(h GT) []GObj { return root(gStruct("f", gUnion(h, gStr()))) }},
		{"union-null", func(h GT) []GObj { return root(gStruct("f?", gUnion(h, GT{K: "null"}))) }},
		{"inter", func(h GT) []GObj { return root(gInter(h, gStruct("extra?", gStr()))) }},
		{"top-array", func(h GT) []GObj { return root(gArr(h)) }},
		{"top-map", func(h GT) []GObj { return root(gMap(h)) }},
	}
}

// GSchemas enumerates the whole C05 input set: positions × targets, then the
// special shapes. thorough adds two-reference combinations.
func GSchemas(thorough bool) []GSchema {
	var out []GSchema
	targets := []string{"S", "E", "A", "K", "L", "M", "R", "LA", "MA"}
	for _, p := range gPositions() {
		for _, t := range targets {
			out = append(out, withSupport(p.name+"/"+t, p.mk(gRef(t))...))
			// the same use made by several objects: two walked before the
			// support objects (in document order and in alphabetical order)
			// and one after them
			users := p.mk(gRef(t))
			first := users[0]
			for _, n := range []string{"Aa1", "Aa2"} {
				u := first
				u.Name = n
				users = append(users, u)
			}
			multi := withSupport("users/"+p.name+"/"+t, users...)
			last := first
			last.Name = "Zz1"
			multi.Objs = append(multi.Objs, last)
			out = append(out, multi)
		}
	}
	root := func(t GT) GObj { return GObj{Name: "Root", T: t} }
	sp := func(name string, objs ...GObj) { out = append(out, withSupport(name, objs...)) }
	// recursion
	sp("rec/field", root(gStruct("v", gStr(), "next?", gRef("Root"))))
	sp("rec/array", root(gStruct("children?", gArr(gRef("Root")))))
	sp("rec/map", root(gStruct("children?", gMap(gRef("Root")))))
	sp("rec/mutual", root(gStruct("b?", gRef("B"))), GObj{Name: "B", T: gStruct("a?", gRef("Root"))})
	sp("rec/nested", root(gStruct("in?", gStruct("again?", gRef("Root")))))
	// discriminated unions
	for _, disc := range []string{"", "prop", "mapping", "bare", "partial", "partial-ref"} {
		u2 := GT{K: "union", Sub: []GT{gRef("S"), gRef("T")}, Disc: disc}
		u3 := GT{K: "union", Sub: []GT{gRef("S"), gRef("T"), gRef("V")}, Disc: disc}
		d := "/" + disc
		if disc == "" {
			d = "/const"
		}
		sp("union2/field"+d, root(gStruct("u", u2)))
		sp("union2/optfield"+d, root(gStruct("u?", u2)))
		sp("union3/field"+d, root(gStruct("u", u3)))
		sp("union2/named"+d, root(gStruct("u", gRef("U"))), GObj{Name: "U", T: u2})
		sp("union2/root"+d, root(u2))
		sp("union2/array"+d, root(gStruct("u", gArr(u2))))
		sp("union2/map"+d, root(gStruct("u?", gMap(u2))))
		sp("union2/nested"+d, root(gStruct("in", gStruct("u", u2))))
		// branches with dependencies of their own (only reachable through the branch)
		u3dep := GT{K: "union", Sub: []GT{gRef("S"), gRef("Dep1"), gRef("Dep2")}, Disc: disc}
		sp("union3/deps"+d, root(gStruct("u", u3dep)),
			GObj{Name: "Dep1", T: gStruct("kind", gConst("d1"), "c?", gRef("E"))},
			GObj{Name: "Dep2", T: gStruct("kind", gConst("d2"), "c?", gRef("A"))})
	}
	// unions of anonymous structs (named by DisjunctionOfAnonymousStructsToExplicit)
	sp("union-anon/plain", root(gStruct("u", gUnion(gStruct("a", gStr()), gStruct("b", gInt())))))
	sp("union-anon/const", root(gStruct("u", gUnion(gStruct("kind", gConst("a"), "x?", gRef("S")), gStruct("kind", gConst("b"), "e?", gRef("E"))))))
	sp("union-anon/array", root(gStruct("u?", gArr(gUnion(gStruct("a", gRef("S")), gStruct("b", gInt()))))))
	sp("union-anon/with-ref", root(gStruct("u", gUnion(gStruct("a", gStr()), gRef("S")))))
	// anonymous enums (named by AnonymousEnumToExplicitType)
	sp("enum-anon/field", root(gStruct("e", gEnum(), "f?", gEnum())))
	sp("enum-anon/array", root(gStruct("e", gArr(gEnum()))))
	sp("enum-anon/map", root(gStruct("e?", gMap(gEnum()))))
	sp("enum-anon/nested", root(gStruct("in", gStruct("e", gEnum()), "in2?", gStruct("e", gEnum()))))
	// enum / constant references
	sp("constref/field", root(gStruct("e", gConstRef("E", "a"))))
	sp("constref/optfield", root(gStruct("e?", gConstRef("E", "b"))))
	sp("constref/nested", root(gStruct("in", gStruct("e", gConstRef("E", "a")))))
	sp("constref/array", root(gStruct("es", gArr(gConstRef("E", "a")))))
	sp("constref/discriminator", root(gStruct("u", gUnion(gRef("CA"), gRef("CB")))),
		GObj{Name: "CA", T: gStruct("kind", gConstRef("E", "a"))}, GObj{Name: "CB", T: gStruct("kind", gConstRef("E", "b"))})
	// constant references whose target is not a leaf (an alias of an enum)
	sp("constref/alias", root(gStruct("level", gConstRef("Sev", "a"))), GObj{Name: "Sev", T: gRef("E")})
	sp("constref/alias-chain", root(gStruct("level", gConstRef("Sev2", "b"))), GObj{Name: "Sev2", T: gRef("Sev")}, GObj{Name: "Sev", T: gRef("E")})
	sp("constref/alias+base", root(gStruct("level", gConstRef("Sev", "a"), "base?", gRef("Base"))), GObj{Name: "Base", T: gStruct("level", gRef("Sev"))}, GObj{Name: "Sev", T: gRef("E")})
	sp("constref/only-use", root(gStruct("e", gConstRef("E", "a"), "s", gRef("S"))))
	// naming collisions
	sp("samelast/two-paths", root(gStruct("a", gRef("X"), "b", gRef("sub/X"))), GObj{Name: "X", T: gStruct("p", gStr())}, GObj{Name: "sub/X", T: gStruct("q", gInt())})
	sp("samelast/nested-only", root(gStruct("b", gRef("sub/X"))), GObj{Name: "sub/X", T: gStruct("q", gInt())})
	sp("case/two-objects", root(gStruct("a", gRef("Thing"), "b", gRef("thing"))), GObj{Name: "Thing", T: gStruct("p", gStr())}, GObj{Name: "thing", T: gStruct("q", gInt())})
	sp("xfile/same-name", root(gStruct("a", gXRef("other", "Thing"), "b", gRef("Thing"))), GObj{Name: "Thing", T: gStruct("p", gStr())}, GObj{Name: "Thing", File: "other", T: gStruct("q", gInt())})
	sp("xfile/only-remote", root(gStruct("a", gXRef("other", "Far"))), GObj{Name: "Far", File: "other", T: gStruct("q", gStr())})
	sp("xfile/array", root(gStruct("a", gArr(gXRef("other", "Far")))), GObj{Name: "Far", File: "other", T: gStruct("q", gInt())})
	// an alias of a struct next to direct uses of that struct
	sp("alias+use/field", root(gStruct("r", gRef("R"), "s", gRef("S"))))
	sp("alias+use/array", root(gStruct("r", gRef("R"), "s", gArr(gRef("S")))))
	sp("alias+use/map", root(gStruct("r?", gRef("R"), "s?", gMap(gRef("S")))))
	sp("alias+use/nested", root(gStruct("r", gRef("R"), "in", gStruct("s", gRef("S")))))
	sp("alias+use/union", root(gStruct("r", gRef("R"), "u", gUnion(gRef("S"), gRef("T")))))
	sp("alias+use/alias-only-root", root(gRef("R")), GObj{Name: "Other", T: gStruct("s", gArr(gRef("S")))})
	// an object named like the package, in another letter case (InferEntrypoint matches it)
	sp("pkgname/other-case", root(gStruct("a", gRef("P"))), GObj{Name: "P", T: gStruct("x", gStr())})
	// alias chains
	sp("chain/3", root(gStruct("r", gRef("R2"))), GObj{Name: "R2", T: gRef("R")})
	// variants of the document form
	for _, base := range []string{"field/S", "array/E", "nested/S", "union2/field/const", "rec/field", "root-alias/S", "constref/alias", "constref/alias-chain", "constref/alias+base"} {
		for _, s := range out {
			if s.Name == base {
				c := s
				c.InlineRoot = true
				c.Name = "inline-root:" + s.Name
				out = append(out, c)
				c2 := s
				c2.Defs = true
				c2.Name = "defs:" + s.Name
				out = append(out, c2)
				break
			}
		}
	}
	if thorough {
		// two references in one object: all ordered pairs of (position,target) over a reduced set
		pos := gPositions()
		for i, p1 := range pos[:8] {
			for j, p2 := range pos[:8] {
				if i == j {
					continue
				}
				for _, t := range []string{"S", "E", "R"} {
					o1 := p1.mk(gRef(t))[0]
					o2 := p2.mk(gRef("T"))[0]
					o2.Name = "Second"
					rootT := gStruct("first", gRef("First"), "second?", gRef("Second"))
					o1.Name = "First"
					out = append(out, withSupport(fmt.Sprintf("pair/%s+%s/%s", p1.name, p2.name, t), GObj{Name: "Root", T: rootT}, o1, o2))
				}
			}
		}
	}
	sort.SliceStable(out, func(i, j int) bool { return out[i].Size() < out[j].Size() })
	return out
}

// ---- renderers -------------------------------------------------------------------

type rendered struct {
	// files: relative name -> content; main is the file to load
	files map[string]string
	main  string
	// extra inputs to load too (OpenAPI external documents): package -> file
	extra map[string]string
}

type unsupported struct{ construct string }

func (u unsupported) Error() string { return "unsupported: " + u.construct }

func hasKind(t GT, k string) bool {
	if t.K == k {
		return true
	}
	for _, s := range t.Sub {
		if hasKind(s, k) {
			return true
		}
	}
	return false
}

func hasDisc(t GT, d string) bool {
	if t.K == "union" && t.Disc == d {
		return true
	}
	for _, s := range t.Sub {
		if hasDisc(s, d) {
			return true
		}
	}
	return false
}

func hasAnyDisc(t GT) bool {
	if t.K == "union" && t.Disc != "" {
		return true
	}
	for _, s := range t.Sub {
		if hasAnyDisc(s) {
			return true
		}
	}
	return false
}

func (s GSchema) check(format string) error {
	for _, o := range s.Objs {
		if o.File != "" && format != "openapi" {
			return unsupported{"object in a second document"}
		}
		if hasKind(o.T, "xref") && format != "openapi" {
			return unsupported{"reference into another document"}
		}
		if hasKind(o.T, "constref") && format != "cue" {
			return unsupported{"constant reference (Enum & \"value\")"}
		}
		if hasAnyDisc(o.T) && format != "openapi" {
			return unsupported{"explicit discriminator object"}
		}
		if strings.Contains(o.Name, "/") && format == "openapi" {
			return unsupported{"definition nested under another path"}
		}
		if hasKind(o.T, "inter") && format == "cue" {
			return unsupported{"allOf intersection"}
		}
	}
	if s.InlineRoot && format != "jsonschema" {
		return unsupported{"document is the root object"}
	}
	if s.Defs && format != "cue" {
		return unsupported{"#Definition objects"}
	}
	return nil
}

// --- JSON Schema / OpenAPI share a JSON tree renderer

func jsonTree(t GT, format string, refPrefix string) any {
	switch t.K {
	case "string":
		return map[string]any{"type": "string"}
	case "int":
		return map[string]any{"type": "integer"}
	case "any":
		return map[string]any{}
	case "null":
		if format == "openapi" {
			return map[string]any{"type": "object", "nullable": true}
		}
		return map[string]any{"type": "null"}
	case "const":
		if format == "openapi" {
			return map[string]any{"type": "string", "enum": []any{t.A}}
		}
		return map[string]any{"type": "string", "const": t.A}
	case "enum":
		return map[string]any{"type": "string", "enum": []any{"a", "b"}}
	case "ref":
		return map[string]any{"$ref": refPrefix + t.A}
	case "xref":
		p := strings.SplitN(t.A, ".", 2)
		return map[string]any{"$ref": p[0] + ".json" + refPrefix + p[1]}
	case "array":
		return map[string]any{"type": "array", "items": jsonTree(t.Sub[0], format, refPrefix)}
	case "map":
		return map[string]any{"type": "object", "additionalProperties": jsonTree(t.Sub[0], format, refPrefix)}
	case "union", "inter":
		var bs []any
		for _, s := range t.Sub {
			bs = append(bs, jsonTree(s, format, refPrefix))
		}
		key := "oneOf"
		if t.K == "inter" {
			key = "allOf"
		}
		m := map[string]any{key: bs}
		if t.Disc != "" {
			d := map[string]any{"propertyName": "kind"}
			if t.Disc != "prop" {
				mp := map[string]any{}
				for i, s := range t.Sub {
					if s.K != "ref" || (strings.HasPrefix(t.Disc, "partial") && i == len(t.Sub)-1) {
						continue
					}
					if t.Disc == "mapping" || t.Disc == "partial-ref" {
						mp[strings.ToLower(s.A)] = refPrefix + s.A
					} else {
						mp[strings.ToLower(s.A)] = s.A
					}
				}
				d["mapping"] = mp
			}
			m["discriminator"] = d
		}
		return m
	case "struct":
		props := map[string]any{}
		var req []any
		for i, s := range t.Sub {
			props[t.F[i].Name] = jsonTree(s, format, refPrefix)
			if t.F[i].Req {
				req = append(req, t.F[i].Name)
			}
		}
		m := map[string]any{"type": "object", "properties": props}
		if len(req) > 0 {
			m["required"] = req
		}
		return m
	}
	panic("jsonTree: " + t.K)
}

func mustJSON(v any) string {
	b, err := json.MarshalIndent(v, "", " ")
	if err != nil {
		panic(err)
	}
	return string(b)
}

func (s GSchema) renderJSONSchema() (rendered, error) {
	if err := s.check("jsonschema"); err != nil {
		return rendered{}, err
	}
	defs := map[string]any{}
	put := func(path string, v any) {
		parts := strings.Split(path, "/")
		m := defs
		for _, p := range parts[:len(parts)-1] {
			if _, ok := m[p]; !ok {
				m[p] = map[string]any{}
			}
			m = m[p].(map[string]any)
		}
		m[parts[len(parts)-1]] = v
	}
	doc := map[string]any{"$schema": "http://json-schema.org/draft-07/schema#"}
	for i, o := range s.Objs {
		tree := jsonTree(o.T, "jsonschema", "#/definitions/")
		if i == 0 && s.InlineRoot {
			for k, v := range tree.(map[string]any) {
				doc[k] = v
			}
			continue
		}
		put(o.Name, tree)
	}
	if !s.InlineRoot {
		doc["$ref"] = "#/definitions/" + s.Objs[0].Name
	}
	doc["definitions"] = defs
	text := mustJSON(doc)
	if s.InlineRoot {
		// a reference to the root of an inline-root document is "#"
		text = strings.ReplaceAll(text, fmt.Sprintf("%q", "#/definitions/"+s.Objs[0].Name), `"#"`)
	}
	return rendered{files: map[string]string{"p.json": text}, main: "p.json"}, nil
}

func (s GSchema) renderOpenAPI() (rendered, error) {
	if err := s.check("openapi"); err != nil {
		return rendered{}, err
	}
	docs := map[string]map[string]any{"": {}}
	for _, o := range s.Objs {
		if docs[o.File] == nil {
			docs[o.File] = map[string]any{}
		}
		docs[o.File][o.Name] = jsonTree(o.T, "openapi", "#/components/schemas/")
	}
	r := rendered{files: map[string]string{}, main: "p.json", extra: map[string]string{}}
	for f, comps := range docs {
		doc := map[string]any{
			"openapi": "3.0.0", "info": map[string]any{"title": "t", "version": "1"}, "paths": map[string]any{},
			"components": map[string]any{"schemas": comps},
		}
		name := "p.json"
		if f != "" {
			name = f + ".json"
			r.extra[f] = name
		}
		r.files[name] = mustJSON(doc)
	}
	return r, nil
}

func cueType(t GT, defs bool) string {
	switch t.K {
	case "string":
		return "string"
	case "int":
		return "int64"
	case "any":
		return "_"
	case "null":
		return "null"
	case "const":
		return fmt.Sprintf("%q", t.A)
	case "enum":
		return `"a" | "b"`
	case "ref":
		return cueName(t.A, defs)
	case "constref":
		p := strings.SplitN(t.A, "=", 2)
		return fmt.Sprintf("%s & %q", cueName(p[0], defs), p[1])
	case "array":
		return "[..." + cueParen(t.Sub[0], defs) + "]"
	case "map":
		return "{[string]: " + cueType(t.Sub[0], defs) + "}"
	case "union":
		var p []string
		for _, s := range t.Sub {
			p = append(p, cueParen(s, defs))
		}
		return strings.Join(p, " | ")
	case "struct":
		var p []string
		for i, s := range t.Sub {
			n := t.F[i].Name
			if !t.F[i].Req {
				n += "?"
			}
			p = append(p, n+": "+cueType(s, defs))
		}
		return "{" + strings.Join(p, ", ") + "}"
	}
	panic("cueType: " + t.K)
}

func cueParen(t GT, defs bool) string {
	s := cueType(t, defs)
	if t.K == "union" || t.K == "enum" || t.K == "constref" {
		return "(" + s + ")"
	}
	return s
}

func cueName(n string, defs bool) string {
	parts := strings.Split(n, "/")
	if defs {
		parts[len(parts)-1] = "#" + parts[len(parts)-1]
	}
	return strings.Join(parts, ".")
}

func (s GSchema) renderCUE() (rendered, error) {
	if err := s.check("cue"); err != nil {
		return rendered{}, err
	}
	var b strings.Builder
	b.WriteString("package p\n\n")
	for _, o := range s.Objs {
		parts := strings.Split(o.Name, "/")
		last := parts[len(parts)-1]
		if s.Defs {
			last = "#" + last
		}
		path := strings.Join(append(parts[:len(parts)-1:len(parts)-1], last), ": ")
		fmt.Fprintf(&b, "%s: %s\n", path, cueType(o.T, s.Defs))
	}
	return rendered{files: map[string]string{"p/schema.cue": b.String()}, main: "p"}, nil
}

var formats = []string{"jsonschema", "openapi", "cue"}

func (s GSchema) render(format string) (rendered, error) {
	switch format {
	case "jsonschema":
		return s.renderJSONSchema()
	case "openapi":
		return s.renderOpenAPI()
	default:
		return s.renderCUE()
	}
}
