//go:build verif

// C05: every reference in the IR resolves (DESIGN.md §6 C05).
//
//	part 1 parse:   G × 3 formats through codegen.Input.LoadSchemas
//	part 2 chain:   (G-IRs ∪ grammar I) × every language through Pipeline.ContextForLanguage
//	part 3 E1:      BFS over name-changing transformations from the seed IRs
//	part 4 filter:  allowed_objects / FilterSchemas against the closure computed by the walker
package main

import (
	"encoding/json"
	"fmt"
	"os"
	"runtime"
	"sort"
	"strings"
	"sync"
	"sync/atomic"
	"time"

	"github.com/grafana/cog/verifx/vx"
)

// ---- generic case driver: evaluate all cases, then evaluate the one-step
// reductions of failing cases on demand (memoised) so that minimality is
// always decided by executing the implementation (DESIGN §5.1).

type Case interface {
	ID() string
	Size() int
	Parents() []Case
	// Eval executes the case on the real code and returns its failures
	// (Kind/What/Detail set; the driver fills Witness, Size and Parents).
	Eval() []vx.Failure
}

type driver struct {
	r        *vx.Run
	mu       sync.Mutex
	results  map[string][]vx.Failure
	cases    map[string]Case
	executed int64
	deadline time.Time
	timedOut atomic.Bool
}

func newDriver(r *vx.Run, deadline time.Time) *driver {
	return &driver{r: r, results: map[string][]vx.Failure{}, cases: map[string]Case{}, deadline: deadline}
}

func parallel(n int, f func(i int)) {
	var wg sync.WaitGroup
	var next int64 = -1
	workers := runtime.NumCPU()
	if workers > n {
		workers = n
	}
	for w := 0; w < workers; w++ {
		wg.Add(1)
		go func() {
			defer wg.Done()
			for {
				i := int(atomic.AddInt64(&next, 1))
				if i >= n {
					return
				}
				f(i)
			}
		}()
	}
	wg.Wait()
}

func (d *driver) evalAll(cases []Case) {
	var todo []Case
	d.mu.Lock()
	for _, c := range cases {
		if _, ok := d.cases[c.ID()]; !ok {
			d.cases[c.ID()] = c
			todo = append(todo, c)
		}
	}
	d.mu.Unlock()
	parallel(len(todo), func(i int) {
		if time.Now().After(d.deadline) {
			d.timedOut.Store(true)
			return
		}
		c := todo[i]
		fs := c.Eval()
		atomic.AddInt64(&d.executed, 1)
		d.mu.Lock()
		d.results[c.ID()] = fs
		d.mu.Unlock()
	})
}

// minimise decides, by executing the implementation, which failing case is
// the minimal witness of each kind: the candidate of a kind is the first
// failing case in (size, id) order none of whose evaluated reductions fails
// with that kind; its not yet evaluated reductions are evaluated on demand
// (memoised) and the selection is repeated until every candidate has all its
// reductions evaluated. Then every failure is registered with its parents.
func (d *driver) minimise() {
	parentIDs := map[string][]string{}
	parentsOf := func(id string) []Case {
		ps := d.cases[id].Parents()
		if _, ok := parentIDs[id]; !ok {
			ids := make([]string, 0, len(ps))
			for _, p := range ps {
				ids = append(ids, p.ID())
			}
			parentIDs[id] = ids
		}
		return ps
	}
	for round := 0; ; round++ {
		d.mu.Lock()
		byKind := map[string][]string{}
		failsKind := map[string]map[string]bool{}
		for id, fs := range d.results {
			for _, f := range fs {
				byKind[f.Kind] = append(byKind[f.Kind], id)
				if failsKind[f.Kind] == nil {
					failsKind[f.Kind] = map[string]bool{}
				}
				failsKind[f.Kind][id] = true
			}
		}
		kinds := make([]string, 0, len(byKind))
		for k := range byKind {
			kinds = append(kinds, k)
		}
		sort.Strings(kinds)
		var next []Case
		queued := map[string]bool{}
		for _, k := range kinds {
			ids := byKind[k]
			sort.Slice(ids, func(i, j int) bool {
				si, sj := d.cases[ids[i]].Size(), d.cases[ids[j]].Size()
				if si != sj {
					return si < sj
				}
				return ids[i] < ids[j]
			})
			for _, id := range ids {
				ps := parentsOf(id)
				hasFailingParent := false
				for _, pid := range parentIDs[id] {
					if failsKind[k][pid] {
						hasFailingParent = true
						break
					}
				}
				if hasFailingParent {
					continue
				}
				// candidate of this kind: make sure all its reductions are evaluated
				for i, pid := range parentIDs[id] {
					if _, ok := d.cases[pid]; !ok && !queued[pid] {
						queued[pid] = true
						next = append(next, ps[i])
					}
				}
				break
			}
		}
		d.mu.Unlock()
		if len(next) == 0 || d.timedOut.Load() {
			break
		}
		d.evalAll(next)
	}
	d.mu.Lock()
	defer d.mu.Unlock()
	ids := make([]string, 0, len(d.results))
	for id := range d.results {
		ids = append(ids, id)
	}
	sort.Strings(ids)
	for _, id := range ids {
		fs := d.results[id]
		if len(fs) == 0 {
			continue
		}
		c := d.cases[id]
		for _, f := range fs {
			f.Witness = id
			f.Size = c.Size()
			f.Parents = parentIDs[id]
			d.r.Fail(f)
		}
	}
}

// ---- evidence counters ---------------------------------------------------------

type counters struct {
	mu sync.Mutex
	m  map[string]map[string]int
}

func (c *counters) add(group, key string, n int) {
	c.mu.Lock()
	defer c.mu.Unlock()
	if c.m == nil {
		c.m = map[string]map[string]int{}
	}
	if c.m[group] == nil {
		c.m[group] = map[string]int{}
	}
	c.m[group][key] += n
}

func (c *counters) addAll(group string, m map[string]int) {
	for k, v := range m {
		c.add(group, k, v)
	}
}

func (c *counters) get(group string) map[string]int {
	c.mu.Lock()
	defer c.mu.Unlock()
	out := map[string]int{}
	for k, v := range c.m[group] {
		out[k] = v
	}
	return out
}

func (c *counters) total(group string) int {
	n := 0
	for _, v := range c.get(group) {
		n += v
	}
	return n
}

var (
	stats   = &counters{}
	samples = &vx.Samples{N: 12}
	tmpRoot string
	// distinct canonical states/inputs seen by any part
	stateMu  sync.Mutex
	stateSet = map[[16]byte]bool{}
)

func noteState(h [16]byte) {
	stateMu.Lock()
	stateSet[h] = true
	stateMu.Unlock()
}

type replayDetail struct {
	Part string          `json:"part"`
	Data json.RawMessage `json:"data"`
}

func detail(part string, v any) replayDetail {
	b, _ := json.Marshal(v)
	return replayDetail{Part: part, Data: b}
}

func main() {
	r := vx.Start("C05")
	// one minimal witness per (fine-grained) kind: the reduction order relates
	// shapes, not the choice of which object of a seed is renamed, so without
	// this every object of every seed would be its own frontier element.
	r.PerKindSmallest = true
	var err error
	os.MkdirAll("/var/tmp", 0o755)
	tmpRoot, err = os.MkdirTemp("/var/tmp", "verif.c05.")
	if err != nil {
		vx.Fatalf("tmp dir: %v", err)
	}
	code := run(r)
	os.RemoveAll(tmpRoot)
	os.Exit(code)
}

// run never returns normally when not replaying: vx.Finish exits. The temp
// directory is removed before that.
func run(r *vx.Run) int {
	if r.Replay != "" {
		return replay(r)
	}
	budget := 300 * time.Second // ~30 s on an idle 16-core machine; generous because the machine is shared
	if r.Thorough() {
		budget = 17 * time.Minute
	}
	deadline := time.Now().Add(budget)
	d := newDriver(r, deadline)
	exhaustive := true
	var bounds []string

	t0 := time.Now()
	gs := GSchemas(r.Thorough())
	parseCases, gIRs := partParse(d, gs)
	_ = parseCases
	tParse := time.Since(t0)

	t0 = time.Now()
	nChain := partChain(d, r.Thorough(), gIRs)
	tChain := time.Since(t0)

	t0 = time.Now()
	e1 := partTransform(d, r.Thorough())
	tE1 := time.Since(t0)
	if !e1.complete {
		exhaustive = false
	}
	bounds = append(bounds, e1.bound)

	t0 = time.Now()
	nFilter := partFilter(d, r.Thorough(), gs)
	tFilter := time.Since(t0)

	t0 = time.Now()
	d.minimise()
	tMin := time.Since(t0)
	if d.timedOut.Load() {
		exhaustive = false
		bounds = append(bounds, "internal deadline hit: some cases were not evaluated")
	}

	os.RemoveAll(tmpRoot)
	stateMu.Lock()
	nStates := len(stateSet)
	stateMu.Unlock()
	transitions := stats.total("executions")
	r.Finish(map[string]any{
		"states":                        nStates,
		"transitions":                   transitions,
		"traces_validated_against_impl": transitions,
		"samples":                       samples.L,
		"exhaustive":                    exhaustive,
		"bounds":                        bounds,
		"executions_per_part":           stats.get("executions"),
		"cases_per_part": map[string]any{
			"parse_G_schemas":                len(gs),
			"parse_cases":                    len(gs) * len(formats),
			"chain_inputs":                   nChain,
			"transform_seeds":                e1.seeds,
			"transform_states":               e1.states,
			"transform_transitions":          e1.transitions,
			"transform_depth":                e1.depth,
			"transform_fixpoint":             e1.fixpoint,
			"filter_cases":                   nFilter,
			"reductions_evaluated_on_demand": int(atomic.LoadInt64(&d.executed)) - (len(gs)*len(formats) + nChain + nFilter),
		},
		"parse_outcomes":                    stats.get("parse_outcome"),
		"parse_constructs_skipped":          stats.get("parse_skipped"),
		"chain_outcomes":                    stats.get("chain_outcome"),
		"chain_panic_inputs_blocked_by_C04": stats.get("chain_panic_inputs"),
		"parse_error_inputs":                stats.get("parse_error_inputs"),
		"transform_outcomes":                stats.get("transform_outcome"),
		"transform_ops_per_pass":            stats.get("transform_ops"),
		"transform_target_variants":         stats.get("transform_variants"),
		"filter_outcomes":                   stats.get("filter_outcome"),
		"references_judged_parse":           stats.get("judged_parse"),
		"references_judged_chain":           stats.get("judged_chain"),
		"references_judged_transform":       stats.get("judged_transform"),
		"closure_edges_judged_filter":       stats.get("judged_filter"),
		"wall_s_per_part":                   map[string]float64{"parse": tParse.Seconds(), "chain": tChain.Seconds(), "transform": tE1.Seconds(), "filter": tFilter.Seconds(), "minimise": tMin.Seconds()},
		"explanation":                       "own reference walker (selfref, ref, constant-ref, map index/value, enum members, disjunction/intersection branches, discriminator mapping targets incl. hints, entry point + type, builder For/args/assignments/paths/envelopes/nil-checks by reflection) applied to: every G schema in 3 formats after Input.LoadSchemas; every (G-IR ∪ grammar-I schema) after Pipeline.ContextForLanguage for 7 languages with builders; every state of a BFS over name-changing passes from the seed IRs; every allow-list subset for allowed_objects",
	}, []string{
		"a reference is judged only if its package is among the loaded schemas' packages",
		"a discriminator-mapping value names an object in the package(s) of the disjunction's reference branches or in the enclosing schema's package (either is accepted)",
		"chain: a dangling reference whose target already dangled in the input is not judged; a pipeline error is an allowed outcome; a panic is counted (C04) and the schema stages are still judged",
		"transform: states that violate the invariant are reported and not expanded, so every explored transition starts from a state in which all references resolve",
		"allowed_objects: the entry point of a filtered schema is not judged (the statement demands exactly the listed objects plus their closure); object order is free",
		"parser errors on a rendered schema are counted as unsupported, not reported",
		"the `states` figure can differ by one between runs: for the samelast/* JSON Schemas cog's parser keeps whichever of two same-named definitions Go's map order visits first (a C03 matter); the frontier is not affected",
	})
	return 0
}

func shortList(ss []string, n int) string {
	if len(ss) > n {
		return strings.Join(ss[:n], ", ") + fmt.Sprintf(", … (%d)", len(ss))
	}
	return strings.Join(ss, ", ")
}
