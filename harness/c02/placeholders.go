//go:build verif

package main

import (
	"io/fs"
	"os"
	"path/filepath"
	"regexp"
	"sort"
	"strconv"
	"strings"

	"github.com/grafana/cog/verifx/vx"
)

// The placeholder catalogue is extracted from cog's own sources at check
// time (internal/jennies/**: non-test .go files and templates):
//   - string literals / template lines containing one of the fall-through
//     phrases ("unhandled", "unsupported default value", "found an
//     unimplemented") — cut at the first format verb / template action;
//   - the bare fall-back word `unknown` (exact string literal "unknown").
// Longer literals that merely contain the word unknown as prose (PHP's
// 'can not convert unknown disjunction branch') are collected as *legitimate
// phrases* and blanked before the bare word is searched.
// A built-in copy of the list in DESIGN.md §6 C02 is unioned in so that a
// tree that renames a literal cannot silently empty the catalogue.

type placeholderEntry struct {
	Text string
	Lang string // "" = every language
	Word bool   // match on word boundaries (the bare `unknown`)
}

type placeholderScanner struct {
	entries []placeholderEntry
	legit   []string
	reWord  *regexp.Regexp
	Sources []string // where each entry was found (evidence)
}

var builtinPlaceholders = []string{
	"unhandled type def kind", "unhandled object of type", "unsupported default value case",
	"found an unimplemented", "/* unhandled",
}

var (
	reGoString   = regexp.MustCompile(`"(?:[^"\\]|\\.)*"`)
	reAnyQuoted  = regexp.MustCompile(`"(?:[^"\\]|\\.)*"|'(?:[^'\\]|\\.)*'`)
	rePhrase     = regexp.MustCompile(`unhandled|unsupported default value|found an unimplemented`)
	reBareUnkown = regexp.MustCompile(`\bunknown\b`)
)

func jennyLang(rel string) string {
	parts := strings.Split(filepath.ToSlash(rel), "/")
	if len(parts) > 0 {
		switch parts[0] {
		case "golang":
			return "go"
		case "python", "java", "typescript", "php":
			return parts[0]
		}
	}
	return ""
}

func cutVerb(s string) string {
	for _, stop := range []string{"%", "{{", "→", "//"} {
		if i := strings.Index(s, stop); i >= 0 {
			s = s[:i]
		}
	}
	return strings.TrimSpace(s)
}

func newPlaceholderScanner(repo string) *placeholderScanner {
	sc := &placeholderScanner{reWord: reBareUnkown}
	seen := map[string]bool{}
	add := func(text, lang, src string, word bool) {
		text = strings.TrimSpace(text)
		if len(text) < 7 {
			return
		}
		k := lang + "\x00" + text
		if seen[k] {
			return
		}
		seen[k] = true
		sc.entries = append(sc.entries, placeholderEntry{Text: text, Lang: lang, Word: word})
		sc.Sources = append(sc.Sources, lang+": "+strconv.Quote(text)+" ("+src+")")
	}
	legitSeen := map[string]bool{}
	root := filepath.Join(repo, "internal/jennies")
	var files []string
	filepath.WalkDir(root, func(p string, d fs.DirEntry, err error) error {
		if err != nil || d.IsDir() {
			return nil
		}
		if strings.HasSuffix(p, "_test.go") {
			return nil
		}
		if strings.HasSuffix(p, ".go") || strings.HasSuffix(p, ".tmpl") {
			files = append(files, p)
		}
		return nil
	})
	sort.Strings(files)
	if len(files) == 0 {
		vx.Fatalf("placeholder catalogue: no sources under %s", root)
	}
	for _, p := range files {
		rel, _ := filepath.Rel(root, p)
		lang := jennyLang(rel)
		if lang == "" && !strings.HasPrefix(rel, "template") && !strings.HasPrefix(rel, "common") {
			continue // jsonschema/openapi emitters are not target languages of this property
		}
		b, err := os.ReadFile(p)
		if err != nil {
			continue
		}
		isTmpl := strings.HasSuffix(p, ".tmpl")
		for _, line := range strings.Split(string(b), "\n") {
			if rePhrase.MatchString(line) {
				if isTmpl {
					if i := rePhrase.FindStringIndex(line); i != nil {
						add(cutVerb(line[i[0]:]), lang, rel, false)
					}
				} else if !strings.Contains(line, "fmt.Errorf") && !strings.Contains(line, "errors.New") {
					// literals returned as generated text (error values are refusals, not output)
					for _, q := range reGoString.FindAllString(line, -1) {
						if u, err := strconv.Unquote(q); err == nil && rePhrase.MatchString(u) {
							u = strings.Trim(u, `"`)
							add(cutVerb(u), lang, rel, false)
						}
					}
				}
			}
			if reBareUnkown.MatchString(line) {
				for _, q := range reAnyQuoted.FindAllString(line, -1) {
					inner := q[1 : len(q)-1]
					if inner == "unknown" || !reBareUnkown.MatchString(inner) {
						continue
					}
					if !legitSeen[inner] {
						legitSeen[inner] = true
						sc.legit = append(sc.legit, inner)
					}
				}
			}
		}
	}
	for _, t := range builtinPlaceholders {
		add(t, "", "DESIGN.md §6 C02", false)
	}
	sc.entries = append(sc.entries, placeholderEntry{Text: "unknown", Word: true})
	sc.Sources = append(sc.Sources, `: bare fall-back word "unknown" (return "unknown" in the type formatters)`)
	sort.Slice(sc.legit, func(i, j int) bool {
		return len(sc.legit[i]) > len(sc.legit[j]) || len(sc.legit[i]) == len(sc.legit[j]) && sc.legit[i] < sc.legit[j]
	})
	return sc
}

type placeholderHit struct {
	Entry string
	Line  string
}

// Scan returns the placeholders found in content generated for language lang.
func (sc *placeholderScanner) Scan(lang string, content []byte) []placeholderHit {
	s := string(content)
	if !strings.Contains(s, "un") { // every catalogue entry contains "un"
		return nil
	}
	var hits []placeholderHit
	seen := map[string]bool{}
	for _, line := range strings.Split(s, "\n") {
		if !strings.Contains(line, "un") {
			continue
		}
		for _, e := range sc.entries {
			if e.Lang != "" && e.Lang != lang || e.Word {
				continue
			}
			if strings.Contains(line, e.Text) && !seen[e.Text] {
				seen[e.Text] = true
				hits = append(hits, placeholderHit{Entry: e.Text, Line: strings.TrimSpace(line)})
			}
		}
		if strings.Contains(line, "unknown") {
			l := line
			for _, ph := range sc.legit {
				l = strings.ReplaceAll(l, ph, "")
			}
			if sc.reWord.MatchString(l) && !seen["unknown"] {
				seen["unknown"] = true
				hits = append(hits, placeholderHit{Entry: "unknown", Line: strings.TrimSpace(line)})
			}
		}
	}
	// an entry that is part of a longer entry found in the same file says nothing new
	var out []placeholderHit
	for _, h := range hits {
		sub := false
		for _, o := range hits {
			if o.Entry != h.Entry && strings.Contains(o.Entry, h.Entry) {
				sub = true
			}
		}
		if !sub {
			out = append(out, h)
		}
	}
	return out
}
