//go:build verif

package main

import (
	"fmt"
	"strings"

	"github.com/grafana/cog/verifx/irgen"
)

// Part D: several packages in ONE run. Three layered packages (no import
// cycle): r holds the leaf objects (enum E, int enum N, constant K, alias A),
// q holds structs and named collections that refer to r (S carries a field
// with an enum default of r), p holds Root whose field refers to q / r / p.
// Every reference shape of grammar G is crossed with "the target lives in
// another package": required / optional / nullable / with a default, under
// array / map / anonymous struct, in a discriminated union — plus the
// neighbours inside one struct (a local and a remote enum default side by
// side) and alias chains across packages.
//
// Each input exists in two formats: "ir3" (the IR injected into the real
// Pipeline.Run, see gen.go) and "cue3" (three CUE packages importing each
// other through `cue_imports`, parsed by the real CUE front-end) when CUE can
// express it. A third flavour renames package q to `q-x` (a name that is
// not an identifier) on a few inputs.

type mpInput struct {
	field    irgen.Term // type of Root.f
	required bool
	extra    []irgen.Term // more fields of Root (g, h, ...)
	local    bool         // Root also gets a local enum D (package p) with a default
	qName    string       // name of the middle package ("q" or "q-x")
	unions   string       // packages that declare W{u: string|int64} (a union type is synthesised per package): subset of "rqp"
	reverse  bool         // packages given to the run in the order p, q, r instead of r, q, p
}

func mpRef(pkg, name string) irgen.Term { return irgen.Ref(pkg + "." + name) }

func (m mpInput) qn() string {
	if m.qName == "" {
		return "q"
	}
	return m.qName
}

// rename rewrites references to package q when it carries another name.
func (m mpInput) rename(t irgen.Term) irgen.Term {
	if (t.K == "ref" || t.K == "constref") && strings.HasPrefix(t.A, "q.") {
		t.A = m.qn() + "." + strings.TrimPrefix(t.A, "q.")
	}
	if len(t.Sub) > 0 {
		sub := make([]irgen.Term, len(t.Sub))
		for i, s := range t.Sub {
			sub[i] = m.rename(s)
		}
		t.Sub = sub
	}
	return t
}

func (m mpInput) rootTerm() irgen.Term {
	fields := []irgen.Field{{Name: "f", Required: m.required}}
	types := []irgen.Term{m.rename(m.field)}
	for i, e := range m.extra {
		fields = append(fields, irgen.Field{Name: string(rune('g' + i)), Required: true})
		types = append(types, m.rename(e))
	}
	if m.local {
		d := mpRef("p", "D")
		d.Default = "scalar"
		fields = append(fields, irgen.Field{Name: "d", Required: true})
		types = append(types, d)
	}
	return irgen.StructN(fields, types)
}

func (m mpInput) name() string {
	n := "Root=" + m.rootTerm().String() + ";packages=p>" + m.qn() + ">r"
	if m.unions != "" {
		n += ";union W in " + m.unions
	}
	if m.reverse {
		n += ";inputs p,q,r"
	}
	return n
}

func enumDefault(t irgen.Term) irgen.Term { t.Default = "scalar"; return t }

func (m mpInput) spec() irgen.SchemaSpec {
	q := m.qn()
	rObjs := []irgen.ObjSpec{
		{Name: "E", T: irgen.Enum("str")},
		{Name: "N", T: irgen.Enum("int")},
		{Name: "K", T: irgen.Const("str")},
		{Name: "A", T: irgen.S("string")},
	}
	qObjs := []irgen.ObjSpec{
		{Name: "S", T: irgen.StructN([]irgen.Field{{Name: "kind", Required: true}, {Name: "x", Required: false}, {Name: "e", Required: true}},
			[]irgen.Term{irgen.Const("str"), irgen.S("string"), enumDefault(mpRef("r", "E"))})},
		{Name: "T", T: irgen.StructN([]irgen.Field{{Name: "kind", Required: true}, {Name: "y", Required: false}}, []irgen.Term{irgen.Const("str"), irgen.S("int64")})},
		{Name: "L", T: irgen.Array(irgen.S("string"))},
		{Name: "LS", T: irgen.Array(mpRef(q, "S"))},
		{Name: "M", T: irgen.Map(irgen.S("int64"))},
	}
	uses := m.rootTerm().String()
	if strings.Contains(uses, q+".AS") { // alias of a struct of the same package
		qObjs = append(qObjs, irgen.ObjSpec{Name: "AS", T: mpRef(q, "S")})
	}
	if strings.Contains(uses, q+".AE") { // alias of an enum of another package
		qObjs = append(qObjs, irgen.ObjSpec{Name: "AE", T: mpRef("r", "E")})
	}
	pObjs := []irgen.ObjSpec{{Name: "Root", T: m.rootTerm()}}
	if m.local {
		pObjs = append(pObjs, irgen.ObjSpec{Name: "D", T: irgen.Enum("str")})
	}
	// aliases declared in p: of a struct of q, and of that alias (a chain)
	if strings.Contains(uses, "p.A1") || strings.Contains(uses, "p.A2") {
		pObjs = append(pObjs, irgen.ObjSpec{Name: "A1", T: mpRef(q, "S")})
	}
	if strings.Contains(uses, "p.A2") {
		pObjs = append(pObjs, irgen.ObjSpec{Name: "A2", T: mpRef("p", "A1")})
	}
	w := irgen.ObjSpec{Name: "W", T: irgen.Struct1("u", true, irgen.Disj(irgen.S("string"), irgen.S("int64")))}
	if strings.Contains(m.unions, "r") {
		rObjs = append(rObjs, w)
	}
	if strings.Contains(m.unions, "q") {
		qObjs = append(qObjs, w)
	}
	if strings.Contains(m.unions, "p") {
		pObjs = append(pObjs, w)
	}
	pkgs := []irgen.PkgSpec{
		{Pkg: "r", Objects: rObjs},
		{Pkg: q, Objects: qObjs},
		{Pkg: "p", Objects: pObjs, EntryPoint: "Root"},
	}
	if m.reverse {
		pkgs[0], pkgs[2] = pkgs[2], pkgs[0]
	}
	return irgen.SchemaSpec{Name: m.name(), Pkgs: pkgs}
}

func (m mpInput) irInput() *Input {
	in := irInput(m.spec())
	in.Format = "ir3"
	return in
}

// ---- CUE rendering (three packages) -------------------------------------------------------------------

type cueUnsupported struct{ what string }

func mpCueType(t irgen.Term, self string) (string, error) {
	var out string
	switch t.K {
	case "scalar":
		switch t.A {
		case "string", "bool", "int64", "float64":
			out = t.A
		case "any":
			out = "_"
		default:
			return "", fmt.Errorf("scalar %s", t.A)
		}
	case "ref":
		pkg, name, _ := strings.Cut(t.A, ".")
		if strings.Contains(pkg, "-") {
			return "", fmt.Errorf("package name %s", pkg)
		}
		if name == "N" {
			return "", fmt.Errorf("numeric enum (needs a field attribute)")
		}
		out = pkg + "." + name
		if pkg == self {
			out = name
		}
	case "array":
		e, err := mpCueType(t.Sub[0], self)
		if err != nil {
			return "", err
		}
		out = "[..." + e + "]"
	case "map":
		e, err := mpCueType(t.Sub[1], self)
		if err != nil {
			return "", err
		}
		out = "{[string]: " + e + "}"
	case "struct":
		var p []string
		for i, f := range t.Fields {
			e, err := mpCueType(t.Sub[i], self)
			if err != nil {
				return "", err
			}
			n := f.Name
			if !f.Required {
				n += "?"
			}
			p = append(p, n+": "+e)
		}
		out = "{" + strings.Join(p, ", ") + "}"
	case "disj":
		var p []string
		for _, b := range t.Sub {
			e, err := mpCueType(b, self)
			if err != nil {
				return "", err
			}
			p = append(p, e)
		}
		out = strings.Join(p, " | ")
	default:
		return "", fmt.Errorf("term kind %s", t.K)
	}
	if t.Nullable {
		out += " | null"
	}
	if t.Default != "" {
		if t.K != "ref" || t.Nullable {
			return "", fmt.Errorf("default on %s", t.K)
		}
		// the idiom cog's own schemas use for "reference to an enum with a default member"
		out = out + ` & (*"b" | _)`
	}
	return out, nil
}

func (m mpInput) cueInput() (*Input, bool) {
	if m.qn() != "q" {
		return nil, false
	}
	root, err := mpCueType(m.rootTerm(), "p")
	if err != nil {
		return nil, false
	}
	uses := m.rootTerm().String()
	opt := func(ref, line string) string {
		if strings.Contains(uses, ref) {
			return line
		}
		return ""
	}
	w := func(pkg string) string {
		if strings.Contains(m.unions, pkg) {
			return "W: {u: string | int64}\n"
		}
		return ""
	}
	files := map[string]string{
		"cue.mod/module.cue": "module: \"example.com\"\nlanguage: version: \"v0.9.0\"\n",
		"r/schema.cue":       "package r\n\nE: \"a\" | \"b\"\nK: \"k\"\nA: string\n" + w("r"),
		"q/schema.cue": "package q\n\nimport \"example.com/r\"\n\n" +
			"S: {kind: \"s\", x?: string, e: r.E & (*\"b\" | _)}\nT: {kind: \"t\", y?: int64}\nL: [...string]\nLS: [...S]\nM: {[string]: int64}\n" + opt("q.AS", "AS: S\n") + opt("q.AE", "AE: r.E\n") + w("q"),
	}
	body := opt("p.A1", "A1: q.S\n")
	if body == "" {
		body = opt("p.A2", "A1: q.S\n")
	}
	body += opt("p.A2", "A2: A1\n")
	p := "package p\n\n"
	// CUE refuses unused imports
	for _, pk := range []string{"q", "r"} {
		if strings.Contains(root, pk+".") || strings.Contains(body, pk+".") {
			p += "import \"example.com/" + pk + "\"\n"
		}
	}
	p += "\n" + body
	if m.local {
		p += "D: \"a\" | \"b\"\n"
	}
	p += w("p") + "Root: " + root + "\n"
	files["p/schema.cue"] = p
	stanzas := []string{
		"- cue: {entrypoint: '%DIR%/r'}",
		"- cue: {entrypoint: '%DIR%/q', cue_imports: ['%DIR%/r:example.com/r']}",
		"- cue: {entrypoint: '%DIR%/p', cue_imports: ['%DIR%/q:example.com/q', '%DIR%/r:example.com/r']}",
	}
	if m.reverse {
		stanzas[0], stanzas[2] = stanzas[2], stanzas[0]
	}
	yaml := strings.Join(stanzas, "\n  ")
	in := &Input{Format: "cue3", Name: m.name(), Size: m.spec().Size(), Files: files, YAML: yaml}
	for _, pk := range m.spec().Pkgs {
		for _, o := range pk.Objects {
			in.Names = append(in.Names, o.Name)
		}
	}
	return in, true
}

// multiPackageInputs enumerates the multi-package grammar. core: the inputs
// that also get the complete Go option product.
func multiPackageInputs(thorough bool) (all []mpInput, core []mpInput) {
	qS, qT, qL, qLS, qM := mpRef("q", "S"), mpRef("q", "T"), mpRef("q", "L"), mpRef("q", "LS"), mpRef("q", "M")
	rE, rN, rK, rA := mpRef("r", "E"), mpRef("r", "N"), mpRef("r", "K"), mpRef("r", "A")
	leaves := []irgen.Term{qS, qT, qL, qLS, qM, mpRef("q", "AS"), mpRef("q", "AE"), rE, enumDefault(rE), rN, enumDefault(rN), rK, rA, mpRef("p", "A1"), mpRef("p", "A2")}
	for _, l := range leaves {
		all = append(all, mpInput{field: l, required: true}, mpInput{field: l, required: false})
	}
	for _, l := range []irgen.Term{qS, qL, qLS, rE, rK} {
		all = append(all, mpInput{field: irgen.Nullable(l), required: true})
	}
	disc := irgen.Term{K: "disj", Sub: []irgen.Term{qS, qT}, Disc: true}
	for _, l := range []irgen.Term{qS, rE, qL} {
		all = append(all,
			mpInput{field: irgen.Array(l), required: true}, mpInput{field: irgen.Map(l), required: false},
			mpInput{field: irgen.Struct1("g", true, l), required: true})
	}
	all = append(all,
		mpInput{field: irgen.Struct1("g", true, enumDefault(rE)), required: true},
		mpInput{field: disc, required: true}, mpInput{field: disc, required: false},
		mpInput{field: irgen.Disj(rA, irgen.S("bool")), required: true},
		// neighbours inside one struct: a remote and a local enum default, a remote struct next to a remote enum default
		mpInput{field: enumDefault(rE), required: true, local: true},
		mpInput{field: qS, required: true, extra: []irgen.Term{enumDefault(rE)}, local: true},
		mpInput{field: rE, required: false, extra: []irgen.Term{qS, enumDefault(rE)}},
	)
	if thorough {
		for _, l := range []irgen.Term{qT, qLS, qM, rK, rA, mpRef("p", "A2")} {
			all = append(all, mpInput{field: irgen.Array(l), required: false}, mpInput{field: irgen.Map(l), required: true}, mpInput{field: irgen.Struct1("g", false, l), required: false})
		}
	}
	// a middle package whose name is not an identifier
	for _, l := range []irgen.Term{qS, qL, enumDefault(rE)} {
		all = append(all, mpInput{field: l, required: true, qName: "q-x"})
	}
	all = append(all, mpInput{field: irgen.Array(qS), required: false, qName: "q-x"})
	// a union type synthesised for one package must not leak into the others: W in every subset of
	// the packages, both input orders
	for _, u := range []string{"r", "q", "p", "rq", "rp", "qp", "rqp"} {
		all = append(all, mpInput{field: qS, required: true, unions: u}, mpInput{field: qS, required: true, unions: u, reverse: true})
	}
	all = append(all, mpInput{field: enumDefault(rE), required: true, reverse: true})
	core = []mpInput{
		{field: enumDefault(rE), required: true, local: true},
		{field: qS, required: false},
		{field: disc, required: true},
		{field: irgen.Array(qS), required: true},
		{field: mpRef("p", "A2"), required: true},
		{field: qLS, required: false},
		{field: qS, required: true, unions: "rq"},
		{field: qS, required: true, unions: "p", reverse: true},
	}
	return all, core
}
