//go:build verif

package main

import (
	"crypto/sha256"
	"fmt"
	"os"
	"path/filepath"
	"regexp"
	"runtime"
	"sort"
	"strings"
	"sync"
	"sync/atomic"
	"time"

	"github.com/grafana/cog/verifx/genrun"
	"github.com/grafana/cog/verifx/gschema"
	"github.com/grafana/cog/verifx/irgen"
	"github.com/grafana/cog/verifx/vx"
)

func parallel(n int, f func(i int)) { parallelN(runtime.NumCPU(), n, f) }

func parallelN(workers, n int, f func(i int)) {
	var wg sync.WaitGroup
	var next int64 = -1
	if workers > n {
		workers = n
	}
	for w := 0; w < workers; w++ {
		wg.Add(1)
		go func() {
			defer wg.Done()
			for {
				i := int(atomic.AddInt64(&next, 1))
				if i >= n {
					return
				}
				f(i)
			}
		}()
	}
	wg.Wait()
}

// rawDiag is a compiler / interpreter diagnostic before per-case normalisation
// (the unit id is already replaced by UNIT so that verdicts can be shared
// between units whose trees are byte-identical up to the id).
type rawDiag struct {
	Clause string
	Text   string
}

// Evaluator executes cases (memoised by witness).
type Evaluator struct {
	ws    *genrun.Workspace
	scan  *placeholderScanner
	memo  map[string]*Case
	next  int
	batch int
	keep  bool

	// verdicts per tree hash (language-specific), shared across batches; vmu guards it and the counters
	vmu      sync.Mutex
	verdicts map[string][]rawDiag
	// static files per "lang/relpath" -> set of content hashes seen in the baseline outputs
	static map[string]map[string]bool

	// statistics
	runs           int
	timeGen        time.Duration
	timeGo         time.Duration
	timePy         time.Duration
	timeJava       time.Duration
	goPkgsCompiled int
	goBuilds       int
	unitsOK        map[string]int // per language
	unitsRefused   map[string]int
	unitsCrashed   map[string]int
	unitsBroken    map[string]int
	distinctTrees  map[string]int
	treesSeen      map[string]int
	filesScanned   int
	filesStatic    int
	refusals       map[string]map[string]int // lang -> normalised error -> count
	refusalSample  map[string]string
	javacRuns      int64
}

func newEvaluator(ws *genrun.Workspace, scan *placeholderScanner) *Evaluator {
	return &Evaluator{ws: ws, scan: scan, memo: map[string]*Case{}, batch: 3072, verdicts: map[string][]rawDiag{},
		static: map[string]map[string]bool{}, unitsOK: map[string]int{}, unitsRefused: map[string]int{}, unitsCrashed: map[string]int{},
		unitsBroken: map[string]int{}, distinctTrees: map[string]int{}, treesSeen: map[string]int{}, refusals: map[string]map[string]int{},
		refusalSample: map[string]string{}, keep: os.Getenv("C02_KEEP") != ""}
}

func (e *Evaluator) Lookup(witness string) *Case { return e.memo[witness] }

// Eval evaluates the cases that are not memoised yet and returns, for every
// requested case, the memoised instance.
func (e *Evaluator) Eval(cases []*Case) []*Case {
	var todo []*Case
	out := make([]*Case, len(cases))
	for i, c := range cases {
		w := c.Witness()
		if m, ok := e.memo[w]; ok {
			out[i] = m
			continue
		}
		e.memo[w] = c
		out[i] = c
		e.next++
		c.ID = fmt.Sprintf("u%07d", e.next)
		todo = append(todo, c)
	}
	for len(todo) > 0 {
		n := e.batch
		if n > len(todo) {
			n = len(todo)
		}
		e.evalBatch(todo[:n])
		todo = todo[n:]
	}
	return out
}

func (c *Case) unit() genrun.Unit {
	u := genrun.Unit{ID: c.ID}
	if c.In.IR != nil {
		u.InputYAML = dummyInputYAML
	} else {
		u.Files, u.InputYAML = c.In.Files, c.In.YAML
	}
	c.Cfg.Apply(&u)
	return u
}

var reErrNoise = regexp.MustCompile(`0x[0-9a-f]+|goroutine [0-9]+`)

func (e *Evaluator) evalBatch(cases []*Case) {
	t0 := time.Now()
	var units []genrun.Unit
	var irs []irRequest
	for _, c := range cases {
		if c.In.IR != nil {
			irs = append(irs, irRequest{Unit: c.unit(), Spec: *c.In.IR})
		} else {
			units = append(units, c.unit())
		}
	}
	results := map[string]*genrun.Result{}
	if len(units) > 0 {
		for k, v := range e.ws.Generate(units) {
			results[k] = v
		}
	}
	if len(irs) > 0 {
		for k, v := range generateIRs(e.ws, irs) {
			results[k] = v
		}
	}
	e.runs += len(cases)
	e.timeGen += time.Since(t0)

	byLang := map[string][]*Case{}
	files := map[string][]string{}
	for _, c := range cases {
		r := results[c.ID]
		if r == nil {
			vx.Fatalf("no result for unit %s", c.ID)
		}
		abs := nameAbstractor(c.In.Names)
		lang := c.Cfg.Lang
		switch r.Status {
		case "ok":
			c.Status = "ok"
			c.Files = len(r.Files)
			files[c.ID] = r.Files
			byLang[lang] = append(byLang[lang], c)
			e.unitsOK[lang]++
		case "error":
			c.Status = "refused"
			c.Err = r.Err
			e.unitsRefused[lang]++
			n := normDiag(r.Err, abs)
			if e.refusals[lang] == nil {
				e.refusals[lang] = map[string]int{}
			}
			e.refusals[lang][n]++
			if _, ok := e.refusalSample[lang+"\x00"+n]; !ok {
				e.refusalSample[lang+"\x00"+n] = c.Witness()
			}
		case "panic", "fatal", "hang":
			c.Status = "crash"
			c.Err = r.Err
			e.unitsCrashed[lang]++
			msg := reErrNoise.ReplaceAllString(r.Err, "")
			site := r.PanicSite
			if r.Status != "panic" {
				site = r.Status
			}
			c.Diags = append(c.Diags, Diag{Clause: "crash", Norm: normDiag(site+": "+msg, abs), Raw: r.Status + " at " + r.PanicSite + ": " + r.Err})
		default:
			vx.Fatalf("unit %s (%s): unexpected generation status %s: %s", c.ID, c.Witness(), r.Status, r.Err)
		}
	}

	// placeholder scan (all languages, every generated file that is not a static runtime file)
	okCases := make([]*Case, 0, len(cases))
	for _, c := range cases {
		if c.Status == "ok" {
			okCases = append(okCases, c)
		}
	}
	var scanned, static int64
	parallel(len(okCases), func(i int) {
		c := okCases[i]
		abs := nameAbstractor(c.In.Names)
		prefix := "out/" + c.Cfg.Lang + "/" + c.ID + "/"
		seen := map[string]bool{}
		fl := append([]string(nil), files[c.ID]...)
		sort.Strings(fl)
		for _, f := range fl {
			b, err := os.ReadFile(filepath.Join(e.ws.Dir, f))
			if err != nil {
				continue
			}
			rel := strings.ReplaceAll(strings.TrimPrefix(f, prefix), c.ID, "UNIT")
			if e.isStatic(c.Cfg.Lang, rel, c.ID, b) {
				atomic.AddInt64(&static, 1)
				continue
			}
			atomic.AddInt64(&scanned, 1)
			for _, h := range e.scan.Scan(c.Cfg.Lang, b) {
				d := Diag{Clause: "placeholder", Norm: fmt.Sprintf("%q in %s", h.Entry, fileClass(rel, abs)), Raw: rel + ": " + h.Line}
				if !seen[d.Key()] {
					seen[d.Key()] = true
					c.Diags = append(c.Diags, d)
				}
			}
		}
	})
	e.filesScanned += int(scanned)
	e.filesStatic += int(static)

	// the three toolchains run side by side (they share nothing but the verdict table, which is locked)
	var wg sync.WaitGroup
	check := func(lang string, f func([]*Case, map[string][]string), acc *time.Duration) {
		if l := byLang[lang]; len(l) > 0 {
			wg.Add(1)
			go func() {
				defer wg.Done()
				t := time.Now()
				f(l, files)
				*acc += time.Since(t)
			}()
		}
	}
	check("go", e.checkGo, &e.timeGo)
	check("python", e.checkPython, &e.timePy)
	check("java", e.checkJava, &e.timeJava)
	wg.Wait()
	for _, c := range cases {
		if c.Status == "ok" && len(c.Diags) > 0 {
			e.unitsBroken[c.Cfg.Lang]++
		}
		sort.SliceStable(c.Diags, func(i, j int) bool { return c.Diags[i].Key() < c.Diags[j].Key() })
	}
	if !e.keep {
		parallel(len(cases), func(i int) {
			c := cases[i]
			os.RemoveAll(filepath.Join(e.ws.Dir, "in", c.ID))
			os.RemoveAll(filepath.Join(e.ws.Dir, "out", c.Cfg.Lang, c.ID))
		})
	}
}

// fileClass abstracts a generated file's relative path.
func fileClass(rel string, abs func(string) string) string {
	dir, base := filepath.Split(rel)
	ext := filepath.Ext(base)
	return reDigits.ReplaceAllString(dir+abs(strings.TrimSuffix(base, ext))+ext, "N")
}

func hashBytes(id string, b []byte) string {
	h := sha256.Sum256([]byte(strings.ReplaceAll(string(b), id, "UNIT")))
	return string(h[:])
}

func (e *Evaluator) isStatic(lang, rel, id string, b []byte) bool {
	m := e.static[lang+"/"+rel]
	return m != nil && m[hashBytes(id, b)]
}

// treeHash hashes the files of a unit with the given extensions (id replaced).
func (e *Evaluator) treeHash(c *Case, files []string, exts ...string) string {
	h := sha256.New()
	prefix := "out/" + c.Cfg.Lang + "/" + c.ID + "/"
	fl := append([]string(nil), files...)
	sort.Strings(fl)
	for _, f := range fl {
		ok := false
		for _, x := range exts {
			if strings.HasSuffix(f, x) {
				ok = true
			}
		}
		if !ok {
			continue
		}
		b, err := os.ReadFile(filepath.Join(e.ws.Dir, f))
		if err != nil {
			continue
		}
		fmt.Fprintf(h, "%s\x00%d\x00", strings.ReplaceAll(strings.TrimPrefix(f, prefix), c.ID, "UNIT"), len(b))
		h.Write([]byte(strings.ReplaceAll(string(b), c.ID, "UNIT")))
	}
	return c.Cfg.Lang + ":" + fmt.Sprintf("%x", h.Sum(nil))
}

// dedup groups cases by tree hash; returns the representatives that still
// need a verdict and a map hash -> cases. Trees of non-representatives are
// removed at once to bound disk usage.
func (e *Evaluator) dedup(cases []*Case, files map[string][]string, exts ...string) (reps []*Case, hashOf map[string]string) {
	hashes := make([]string, len(cases))
	parallel(len(cases), func(i int) { hashes[i] = e.treeHash(cases[i], files[cases[i].ID], exts...) })
	hashOf = map[string]string{}
	repOf := map[string]*Case{}
	lang := ""
	e.vmu.Lock()
	for i, c := range cases {
		lang = c.Cfg.Lang
		h := hashes[i]
		hashOf[c.ID] = h
		e.treesSeen[lang]++
		if _, done := e.verdicts[h]; done {
			c.DedupOf = "earlier batch"
			continue
		}
		if r, ok := repOf[h]; ok {
			c.DedupOf = r.ID
			continue
		}
		repOf[h] = c
		reps = append(reps, c)
		e.distinctTrees[lang]++
	}
	e.vmu.Unlock()
	if !e.keep {
		var drop []*Case
		for _, c := range cases {
			if c.DedupOf != "" {
				drop = append(drop, c)
			}
		}
		parallel(len(drop), func(i int) { os.RemoveAll(filepath.Join(e.ws.Dir, "out", drop[i].Cfg.Lang, drop[i].ID)) })
	}
	return reps, hashOf
}

// applyVerdicts turns the shared raw verdicts into per-case diagnostics.
func (e *Evaluator) applyVerdicts(cases []*Case, hashOf map[string]string) {
	for _, c := range cases {
		abs := nameAbstractor(c.In.Names)
		seen := map[string]bool{}
		for _, d := range c.Diags {
			seen[d.Key()] = true
		}
		e.vmu.Lock()
		vd := e.verdicts[hashOf[c.ID]]
		e.vmu.Unlock()
		for _, rd := range vd {
			d := Diag{Clause: rd.Clause, Norm: normDiag(strings.ReplaceAll(rd.Text, "UNIT", "<id>"), abs), Raw: strings.ReplaceAll(rd.Text, "UNIT", c.ID)}
			if !seen[d.Key()] {
				seen[d.Key()] = true
				c.Diags = append(c.Diags, d)
			}
		}
	}
}

// computeStatic generates two unrelated minimal schemas under every given
// configuration and records the files that are byte-identical (after
// replacing the unit id) in both outputs: those do not depend on the schema
// (static runtime files) and are excluded from the placeholder scan.
func (e *Evaluator) computeStatic(cfgs []Cfg) {
	b1, ok1 := renderInput(gschema.Field1(irgen.S("string"), true), "jsonschema")
	b2, ok2 := renderInput(gschema.WithSupport(gschema.Obj{Name: "Other", T: irgen.Struct1("g", true, irgen.S("bool"))}), "jsonschema")
	if !ok1 || !ok2 {
		vx.Fatalf("baseline schemas do not render")
	}
	type pair struct{ a, b *Case }
	var pairs []pair
	var units []genrun.Unit
	seen := map[Cfg]bool{}
	for _, cfg := range cfgs {
		if seen[cfg] {
			continue
		}
		seen[cfg] = true
		p := pair{&Case{In: b1, Cfg: cfg}, &Case{In: b2, Cfg: cfg}}
		for _, c := range []*Case{p.a, p.b} {
			e.next++
			c.ID = fmt.Sprintf("u%07d", e.next)
			units = append(units, c.unit())
		}
		pairs = append(pairs, p)
	}
	res := e.ws.Generate(units)
	e.runs += len(units)
	var mu sync.Mutex
	parallel(len(pairs), func(i int) {
		p := pairs[i]
		ra, rb := res[p.a.ID], res[p.b.ID]
		if ra != nil && rb != nil && ra.Status == "ok" && rb.Status == "ok" {
			hashes := func(c *Case, r *genrun.Result) map[string]string {
				m := map[string]string{}
				prefix := "out/" + c.Cfg.Lang + "/" + c.ID + "/"
				for _, f := range r.Files {
					if b, err := os.ReadFile(filepath.Join(e.ws.Dir, f)); err == nil {
						m[strings.ReplaceAll(strings.TrimPrefix(f, prefix), c.ID, "UNIT")] = hashBytes(c.ID, b)
					}
				}
				return m
			}
			ha, hb := hashes(p.a, ra), hashes(p.b, rb)
			mu.Lock()
			for rel, h := range ha {
				if hb[rel] == h {
					k := p.a.Cfg.Lang + "/" + rel
					if e.static[k] == nil {
						e.static[k] = map[string]bool{}
					}
					e.static[k][h] = true
				}
			}
			mu.Unlock()
		}
		for _, c := range []*Case{p.a, p.b} {
			os.RemoveAll(filepath.Join(e.ws.Dir, "in", c.ID))
			os.RemoveAll(filepath.Join(e.ws.Dir, "out", c.Cfg.Lang, c.ID))
		}
	})
}
