//go:build verif

// C02: a successful run only emits well-formed code; unsupported constructs
// are errors (DESIGN.md §6 C02).
//
//	part A  Go option space: schemas x 64 flag combinations x 4 output selections (complete product)
//	part B  every language on the full schema set x 3 input formats
//	part C  directly constructed IRs through Pipeline.Run (Transforms.CommonPasses hook, see gen.go)
//	part D  several packages in one run (multipkg.go)
//	part E  unions over a branch alphabet: scalars, lists, maps, constants, null (unions.go)
//
// Oracle (from the property statement): the run returned success =>
// every generated Go package compiles (`go build`, no vet), every generated
// Python module byte-compiles and imports, generated Java compiles against
// Jackson, no generated file contains one of cog's placeholder texts.
// The run returned an error => pass (sanctioned refusal, counted).
// A panic/fatal error/hang is neither: recorded as kind `crash:` (C04's
// business in detail) and the enumeration goes on.
// Leniences: TypeScript and PHP are only scanned for placeholders; `go vet`
// is not run; files that do not depend on the schema (identical for two
// unrelated schemas) are not scanned for placeholders.
package main

import (
	"encoding/json"
	"fmt"
	"os"
	"sort"
	"strings"
	"time"

	"github.com/grafana/cog/verifx/genrun"
	"github.com/grafana/cog/verifx/gschema"
	"github.com/grafana/cog/verifx/irgen"
	"github.com/grafana/cog/verifx/vx"
)

// quickSchemas is the part-A schema set of the quick tier: one schema per
// term kind of grammar G (every core leaf, two sized scalars, optional,
// defaults, nullables, every wrapper, unions, references, recursion, the
// naming-collision shapes). Every member belongs to gschema.Enumerate(false),
// so the thorough tier (all of Enumerate(false)) is a superset.
func quickSchemas() []gschema.Schema {
	S, A, M := irgen.S, irgen.Array, irgen.Map
	ref := func(n string) gschema.Term { return irgen.Ref(gschema.Pkg + "." + n) }
	c := func(t gschema.Term) gschema.Term { t.Constr = true; return t }
	def := func(t gschema.Term, d string) gschema.Term { t.Default = d; return t }
	var out []gschema.Schema
	seenNamed := 0
	for _, l := range gschema.CoreLeaves() {
		out = append(out, gschema.Field1(l, true))
	}
	disc := gschema.Term{K: "disj", Sub: []gschema.Term{ref("S"), ref("T")}, Disc: true}
	for _, s := range []gschema.Schema{
		gschema.Field1(S("uint8"), true), gschema.Field1(S("float32"), true),
		gschema.Field1(S("string"), false), gschema.Field1(ref("S"), false),
		gschema.Field1(def(S("string"), "scalar"), false), gschema.Field1(def(S("int64"), "scalar"), true), gschema.Field1(def(S("float64"), "scalar"), false),
		gschema.Field1(def(irgen.Enum("str"), "scalar"), true), gschema.Field1(def(ref("E"), "scalar"), false), gschema.Field1(def(A(S("string")), "list"), false),
		gschema.Field1(irgen.Nullable(S("string")), true), gschema.Field1(irgen.Nullable(ref("S")), false),
		gschema.Field1(A(S("string")), true), gschema.Field1(A(ref("S")), false), gschema.Field1(A(irgen.Enum("str")), true),
		gschema.Field1(M(S("string")), false), gschema.Field1(M(ref("S")), true), gschema.Field1(M(S("any")), false), gschema.Field1(M(c(S("int64"))), true),
		gschema.Field1(irgen.Struct1("g", true, S("string")), true), gschema.Field1(irgen.Struct1("g", false, irgen.Enum("str")), false),
		gschema.Field1(irgen.Disj(S("string"), S("bool")), true), gschema.Field1(irgen.Disj(S("string"), A(S("string"))), false),
		gschema.Field1(disc, true),
		// references to named collections (L=array(string), M=map(int64), LS=array(ref S)): required ones come
		// with CoreLeaves above; optional and nullable ones exercise the pointer-to-named-collection paths
		gschema.Field1(ref("L"), false), gschema.Field1(ref("M"), false), gschema.Field1(ref("LS"), false),
		gschema.Field1(irgen.Nullable(ref("L")), true), gschema.Field1(irgen.Nullable(ref("M")), false), gschema.Field1(irgen.Nullable(ref("LS")), true),
		gschema.WithSupport(gschema.Obj{Name: "Root", T: irgen.Struct1("u", true, ref("U"))}, gschema.Obj{Name: "U", T: disc}),
		gschema.WithSupport(gschema.Obj{Name: "Root", T: irgen.StructN([]irgen.Field{{Name: "v", Required: true}, {Name: "next", Required: false}}, []gschema.Term{S("string"), ref("Root")})}),
		gschema.WithSupport(gschema.Obj{Name: "Root", T: irgen.StructN([]irgen.Field{{Name: "children", Required: false}}, []gschema.Term{A(ref("Root"))})}),
		gschema.WithSupport(gschema.Obj{Name: "Root", T: irgen.StructN([]irgen.Field{{Name: "a", Required: true}, {Name: "b", Required: true}},
			[]gschema.Term{irgen.Struct1("e", true, irgen.Enum("str")), irgen.Struct1("e", true, irgen.Enum("str"))})}),
		gschema.WithSupport(gschema.Obj{Name: "Root", T: irgen.StructN([]irgen.Field{{Name: "u", Required: true}, {Name: "o", Required: false}},
			[]gschema.Term{irgen.Disj(S("string"), S("bool")), ref("StringOrBool")})}, gschema.Obj{Name: "StringOrBool", T: irgen.Struct1("json", true, S("string"))}),
	} {
		out = append(out, s)
	}
	for _, l := range gschema.CoreLeaves() {
		if l.K == "ref" && (l.A == gschema.Pkg+".L" || l.A == gschema.Pkg+".M" || l.A == gschema.Pkg+".LS") {
			seenNamed++
		}
	}
	if seenNamed != 3 {
		vx.Fatalf("gschema.CoreLeaves() no longer has the references to named collections ref(L), ref(M), ref(LS)")
	}
	member := map[string]bool{}
	for _, s := range gschema.Enumerate(false) {
		member[s.String()] = true
	}
	for _, s := range out {
		if !member[s.String()] {
			vx.Fatalf("quick schema %s is not a member of grammar G (Enumerate(false))", s.String())
		}
	}
	sort.SliceStable(out, func(i, j int) bool { return out[i].Size() < out[j].Size() })
	return out
}

type checker struct {
	r  *vx.Run
	ev *Evaluator
	// complete[input key + "\x00" + lang]: the complete configuration product of that language was evaluated for the input
	complete map[string]bool
	// partial: "complete" only for the sub-combinations of one failing configuration (on-demand down-set)
	partial map[string]bool
	// space[lang]: the configuration product of that language
	space     map[string][]Cfg
	all       []*Case
	deadline  time.Time
	truncated []string
	products  int
	r0        time.Time
	pkeys     map[string][]string
}

// parentKeys: the input keys of the one-step reductions of an input (memoised).
func (ck *checker) parentKeys(in *Input) []string {
	if l, ok := ck.pkeys[in.Key()]; ok {
		return l
	}
	l := []string{}
	for _, p := range in.Reductions(true) {
		l = append(l, p.Key())
	}
	ck.pkeys[in.Key()] = l
	return l
}

func (ck *checker) minLevel(lang string) int {
	min := 3
	for _, x := range ck.space[lang] {
		if x.Level < min {
			min = x.Level
		}
	}
	return min
}

func (ck *checker) inSpace(c Cfg) bool {
	for _, x := range ck.space[c.Lang] {
		if x == c {
			return true
		}
	}
	return false
}

func (ck *checker) over() bool { return time.Now().After(ck.deadline) }

func (ck *checker) run(part string, inputs []*Input, cfgs []Cfg) {
	var cases []*Case
	for _, in := range inputs {
		for _, cfg := range cfgs {
			cases = append(cases, &Case{In: in, Cfg: cfg, Part: part})
		}
	}
	ck.add(ck.ev.Eval(cases))
	ck.markComplete(inputs)
}

func (ck *checker) add(cases []*Case) {
	seen := map[*Case]bool{}
	for _, c := range ck.all {
		seen[c] = true
	}
	for _, c := range cases {
		if !seen[c] {
			seen[c] = true
			ck.all = append(ck.all, c)
		}
	}
}

func (ck *checker) markComplete(inputs []*Input) {
	for _, in := range inputs {
		for lang, sp := range ck.space {
			if ck.complete[in.Key()+"\x00"+lang] {
				continue
			}
			ok := true
			for _, cfg := range sp {
				if ck.ev.Lookup(in.Key()+" :: "+cfg.String()) == nil {
					ok = false
					break
				}
			}
			if ok {
				ck.complete[in.Key()+"\x00"+lang] = true
				delete(ck.partial, in.Key()+"\x00"+lang)
			}
		}
	}
}

// extraSchemas are part-A schemas of BOTH tiers that grammar G's enumeration does not produce:
// references to a named map of structs (MS = map(ref S)), required, optional and nullable.
func extraSchemas() []gschema.Schema {
	ms := gschema.Obj{Name: "MS", T: irgen.Map(irgen.Ref(gschema.Pkg + ".S"))}
	r := irgen.Ref(gschema.Pkg + ".MS")
	// alias chains: A2 -> A1 -> S (struct), as a field and as the root itself
	a1 := gschema.Obj{Name: "A1", T: irgen.Ref(gschema.Pkg + ".S")}
	a2 := gschema.Obj{Name: "A2", T: irgen.Ref(gschema.Pkg + ".A1")}
	ra2 := irgen.Ref(gschema.Pkg + ".A2")
	return []gschema.Schema{
		gschema.WithSupport(gschema.Obj{Name: "Root", T: irgen.Struct1("f", true, r)}, ms),
		gschema.WithSupport(gschema.Obj{Name: "Root", T: irgen.Struct1("f", false, r)}, ms),
		gschema.WithSupport(gschema.Obj{Name: "Root", T: irgen.Struct1("f", true, irgen.Nullable(r))}, ms),
		gschema.WithSupport(gschema.Obj{Name: "Root", T: irgen.Struct1("f", true, ra2)}, a2, a1),
		gschema.WithSupport(gschema.Obj{Name: "Root", T: irgen.Struct1("f", false, ra2)}, a2, a1),
		gschema.WithSupport(gschema.Obj{Name: "Root", T: ra2}, a2, a1),
	}
}

// ---- failure conditions over the option product -------------------------------------------------

type condInfo struct {
	text   string
	minima []Cfg
	negs   [][]Cfg // per minimum: the one-step-larger configurations that pass
}

func (ci condInfo) compatible(p Cfg) bool {
	for i, m := range ci.minima {
		if !m.leq(p) {
			continue
		}
		ok := true
		for _, n := range ci.negs[i] {
			if n.leq(p) {
				ok = false
			}
		}
		if ok {
			return true
		}
	}
	return false
}

func litOf(from, to Cfg) string {
	if to.Level != from.Level {
		return levelLit[to.Level]
	}
	d := to.Flags &^ from.Flags
	for i, n := range langFlags[to.Lang] {
		if d == 1<<i {
			return n
		}
	}
	return "?"
}

// condOf computes, for one input and one diagnostic, the condition over the
// evaluated configurations: the minimal failing configurations and, for each,
// the single additions that cure the failure.
func (ck *checker) condOf(in *Input, lang, diagKey string) condInfo {
	var failing []Cfg
	for _, cfg := range ck.space[lang] {
		if c := ck.ev.Lookup(in.Key() + " :: " + cfg.String()); c != nil && c.hasDiag(diagKey) {
			failing = append(failing, cfg)
		}
	}
	var ci condInfo
	var parts []string
	for _, m := range failing {
		minimal := true
		for _, o := range failing {
			if o != m && o.leq(m) {
				minimal = false
				break
			}
		}
		if !minimal {
			continue
		}
		var lits []string
		if m.Level > ck.minLevel(lang) { // the lowest output selection of the space is not a condition
			lits = append(lits, levelLit[m.Level])
		}
		lits = append(lits, m.flagNames()...)
		var negs []Cfg
		for _, x := range m.More() {
			if c := ck.ev.Lookup(in.Key() + " :: " + x.String()); c != nil && !c.hasDiag(diagKey) {
				negs = append(negs, x)
				lits = append(lits, "¬"+litOf(m, x))
			}
		}
		if len(lits) == 0 {
			lits = []string{"always"}
		}
		ci.minima = append(ci.minima, m)
		ci.negs = append(ci.negs, negs)
		parts = append(parts, strings.Join(lits, " ∧ "))
	}
	ci.text = strings.Join(parts, " | ")
	return ci
}

type failureSet struct {
	list   []vx.Failure
	byKey  map[string]*Case // kind @ witness -> case
	needed map[string][]*Case
}

// failures computes the failure list from everything evaluated so far.
// Kind = "<language>: <clause>: <normalised diagnostic> [when <minimal flag condition>]".
func (ck *checker) failures() failureSet {
	fs := failureSet{byKey: map[string]*Case{}, needed: map[string][]*Case{}}
	condCache := map[string]condInfo{}
	// lang + diag -> conditions seen on inputs with the complete product (tableFull) / with at least the
	// down-set of one failing configuration (table)
	table := map[string][]condInfo{}
	tableFull := map[string][]condInfo{}
	own := func(c *Case, dk string) condInfo {
		k := c.In.Key() + "\x00" + c.Cfg.Lang + "\x00" + dk
		ci, ok := condCache[k]
		if !ok {
			ci = ck.condOf(c.In, c.Cfg.Lang, dk)
			condCache[k] = ci
		}
		return ci
	}
	for _, c := range ck.all {
		if !ck.complete[c.In.Key()+"\x00"+c.Cfg.Lang] {
			continue
		}
		for _, d := range c.Diags {
			ci := own(c, d.Key())
			tk := c.Cfg.Lang + "\x00" + d.Key()
			dup := false
			for _, x := range table[tk] {
				if x.text == ci.text {
					dup = true
				}
			}
			if !dup {
				table[tk] = append(table[tk], ci)
			}
			if !ck.partial[c.In.Key()+"\x00"+c.Cfg.Lang] {
				dup = false
				for _, x := range tableFull[tk] {
					if x.text == ci.text {
						dup = true
					}
				}
				if !dup {
					tableFull[tk] = append(tableFull[tk], ci)
				}
			}
		}
	}
	for _, t := range []map[string][]condInfo{table, tableFull} {
		for k := range t {
			sort.Slice(t[k], func(i, j int) bool { return t[k][i].text < t[k][j].text })
		}
	}
	lookup := func(t map[string][]condInfo, c *Case, d Diag) string {
		for _, ci := range t[c.Cfg.Lang+"\x00"+d.Key()] {
			if ci.compatible(c.Cfg) {
				return ci.text
			}
		}
		return ""
	}
	for _, c := range ck.all {
		if len(c.Diags) == 0 {
			continue
		}
		var parents []string
		for _, pk := range ck.parentKeys(c.In) {
			parents = append(parents, pk+" :: "+c.Cfg.String())
		}
		for _, l := range c.Cfg.Less() {
			parents = append(parents, c.In.Key()+" :: "+l.String())
		}
		for _, d := range c.Diags {
			cond := ""
			ik := c.In.Key() + "\x00" + c.Cfg.Lang
			switch {
			case ck.complete[ik] && !ck.partial[ik]:
				cond = own(c, d.Key()).text
			case ck.complete[ik]:
				// only sub-combinations of one failing configuration were evaluated: the condition of
				// the same diagnostic on a complete product is more informative when it covers this case
				if cond = lookup(tableFull, c, d); cond == "" {
					cond = own(c, d.Key()).text
				}
			default:
				if cond = lookup(tableFull, c, d); cond == "" {
					cond = lookup(table, c, d)
				}
				if cond == "" {
					fs.needed[c.Cfg.Lang+": "+d.Key()] = append(fs.needed[c.Cfg.Lang+": "+d.Key()], c)
					cond = "not minimised"
				}
			}
			kind := fmt.Sprintf("%s: %s [when %s]", c.Cfg.Lang, d.Key(), cond)
			if d.Clause == "crash" {
				kind = fmt.Sprintf("crash: %s: %s [when %s]", c.Cfg.Lang, d.Norm, cond)
			}
			f := vx.Failure{
				Kind:    kind,
				Witness: c.Witness(),
				Size:    c.SizeRank(),
				Parents: parents,
				What: fmt.Sprintf("%s generated from the %s input %s with %s: %s: %s — the run %s; over the evaluated option product this fails exactly when: %s",
					c.Cfg.Lang, c.In.Format, c.In.Name, c.Cfg.String(), d.Clause, d.Raw, map[string]string{"ok": "reported success", "crash": "crashed instead of returning an error"}[c.Status], cond),
				Detail: map[string]any{"part": c.Part, "format": c.In.Format, "schema": c.In.Name, "size": c.In.Size, "cfg": c.Cfg, "files": c.In.Files, "input_yaml": c.In.YAML,
					"ir": c.In.IR, "names": c.In.Names, "diagnostic": d.Raw, "condition": cond},
			}
			fs.list = append(fs.list, f)
			fs.byKey[f.Key()] = c
		}
	}
	return fs
}

// frontierOf mirrors vx.Run.Frontier with PerKindSmallest (used between
// rounds of on-demand evaluation, before anything is registered).
func frontierOf(list []vx.Failure) []vx.Failure {
	failKind := map[string]map[string]bool{}
	for _, f := range list {
		if failKind[f.Kind] == nil {
			failKind[f.Kind] = map[string]bool{}
		}
		failKind[f.Kind][f.Witness] = true
	}
	var out []vx.Failure
	for _, f := range list {
		minimal := true
		for _, p := range f.Parents {
			if failKind[f.Kind][p] {
				minimal = false
				break
			}
		}
		if minimal {
			out = append(out, f)
		}
	}
	sort.Slice(out, func(i, j int) bool {
		if out[i].Kind != out[j].Kind {
			return out[i].Kind < out[j].Kind
		}
		if out[i].Size != out[j].Size {
			return out[i].Size < out[j].Size
		}
		return out[i].Witness < out[j].Witness
	})
	var o2 []vx.Failure
	last := "\x00"
	for _, f := range out {
		if f.Kind != last {
			o2 = append(o2, f)
			last = f.Kind
		}
	}
	return o2
}

// minimise: (1) diagnostics first seen outside a complete product get, on
// their smallest witness, every sub-combination of the failing
// configuration (Go) / the whole space (other languages); (2) greedy descent:
// the unevaluated one-step reductions (schema reductions at the same
// configuration, and one flag / one output less) of every frontier element
// are evaluated, until the frontier is stable.
func (ck *checker) minimise(maxRounds int) (rounds int, stable bool) {
	for rounds = 0; rounds < maxRounds; rounds++ {
		if ck.over() {
			ck.truncated = append(ck.truncated, "minimisation")
			return rounds, false
		}
		fs := ck.failures()
		var cases []*Case
		var prodInputs []*Input
		var keys []string
		for k := range fs.needed {
			keys = append(keys, k)
		}
		sort.Strings(keys)
		seenIn := map[string]bool{}
		goProducts := 0
		for _, k := range keys {
			l := fs.needed[k]
			sort.Slice(l, func(i, j int) bool {
				if l[i].SizeRank() != l[j].SizeRank() {
					return l[i].SizeRank() < l[j].SizeRank()
				}
				return l[i].Witness() < l[j].Witness()
			})
			for i := 0; i < len(l) && i < 1; i++ {
				k := l[i].Cfg.Lang + "\x00" + l[i].In.Key()
				if seenIn[k] {
					continue
				}
				if l[i].Cfg.Lang == "go" {
					if goProducts >= 40 {
						continue
					}
					goProducts++
				}
				seenIn[k] = true
				prodInputs = append(prodInputs, l[i].In)
				// Go: the down-set of the failing configuration (every combination of the flags and outputs
				// that were on); the other languages: their whole (tiny) space
				for _, cfg := range ck.space[l[i].Cfg.Lang] {
					if l[i].Cfg.Lang != "go" || cfg.leq(l[i].Cfg) {
						cases = append(cases, &Case{In: l[i].In, Cfg: cfg, Part: "product"})
					}
				}
				ik := l[i].In.Key() + "\x00" + l[i].Cfg.Lang
				if !ck.complete[ik] && l[i].Cfg.Lang == "go" {
					ck.partial[ik] = true
				}
				ck.complete[ik] = true
			}
		}
		ck.products += goProducts
		for _, f := range frontierOf(fs.list) {
			c := fs.byKey[f.Key()]
			if c == nil {
				continue
			}
			for _, p := range c.In.Reductions(false) {
				if ck.ev.Lookup(p.Key()+" :: "+c.Cfg.String()) == nil {
					cases = append(cases, &Case{In: p, Cfg: c.Cfg, Part: "descent"})
				}
			}
			for _, l := range c.Cfg.Less() {
				if ck.inSpace(l) && ck.ev.Lookup(c.In.Key()+" :: "+l.String()) == nil {
					cases = append(cases, &Case{In: c.In, Cfg: l, Part: "descent"})
				}
			}
		}
		if len(cases) == 0 {
			return rounds, true
		}
		if os.Getenv("C02_DEBUG") != "" {
			fmt.Fprintf(os.Stderr, "minimise round %d: %d cases (%d go products), frontier %d, t=%.0fs\n", rounds, len(cases), goProducts, len(frontierOf(fs.list)), time.Since(ck.r0).Seconds())
		}
		ck.add(ck.ev.Eval(cases))
		ck.markComplete(prodInputs)
	}
	return rounds, false
}

func main() {
	r := vx.Start("C02")
	genrun.MaybeServe()
	maybeServeIR()
	r.PerKindSmallest = true
	start := time.Now()
	scan := newPlaceholderScanner(r.Repo)
	ws := genrun.NewWorkspace("c02")
	defer ws.Close()
	ev := newEvaluator(ws, scan)
	ck := &checker{r: r, ev: ev, complete: map[string]bool{}, partial: map[string]bool{}, pkeys: map[string][]string{}, space: map[string][]Cfg{"go": allGoCfgs()}}
	for _, c := range partBCfgs(r.Thorough()) {
		if c.Lang != "go" {
			ck.space[c.Lang] = append(ck.space[c.Lang], c)
		}
	}
	budget := 400 * time.Second
	if r.Thorough() {
		budget = 35 * time.Minute
	}
	if b := 0; os.Getenv("C02_BUDGET") != "" { // maintenance aid (recording proposals on a loaded machine): seconds
		if fmt.Sscan(os.Getenv("C02_BUDGET"), &b); b > 0 {
			budget = time.Duration(b) * time.Second
		}
	}
	ck.deadline = start.Add(budget)
	ck.r0 = start

	if r.Replay != "" {
		replay(r, ck)
		return
	}

	ev.computeStatic(append(allGoCfgs(), partBCfgs(r.Thorough())...))

	// ---- part A
	var schemasA []gschema.Schema
	if r.Thorough() {
		schemasA = gschema.Enumerate(false)
	} else {
		schemasA = quickSchemas()
	}
	for i, s := range extraSchemas() {
		if i%2 == 1 || r.Thorough() { // quick: the optional named map and the alias chain as a required field / as the root
			schemasA = append(schemasA, s)
		}
	}
	var inputsA []*Input
	fallback := map[string]int{}
	for _, s := range schemasA {
		in, ok := firstFormat(s)
		if !ok {
			vx.Fatalf("no format expresses %s", s.String())
		}
		fallback[in.Format]++
		inputsA = append(inputsA, in)
	}
	// debugging aids (never set by verif.sh): C02_PARTS selects parts, C02_LIMIT caps the schema count
	parts := os.Getenv("C02_PARTS")
	if parts == "" {
		parts = "ABCDE"
	}
	limit := 0
	fmt.Sscan(os.Getenv("C02_LIMIT"), &limit)
	if limit > 0 && limit < len(inputsA) {
		inputsA = inputsA[:limit]
	}
	if !strings.Contains(parts, "A") {
		inputsA = nil
	}
	doneA := 0
	for i := 0; i < len(inputsA); i += 12 {
		if ck.over() {
			ck.truncated = append(ck.truncated, fmt.Sprintf("part A after %d of %d schemas", doneA, len(inputsA)))
			break
		}
		j := i + 12
		if j > len(inputsA) {
			j = len(inputsA)
		}
		ck.run("A", inputsA[i:j], allGoCfgs())
		doneA = j
	}
	tA := time.Since(start)

	cfgsC := []Cfg{{"go", 2, 0b011111}, {"python", 1, 0b01}, {"java", 2, 0b1}, {"typescript", 1, 0}, {"php", 2, 0b1}}
	// Order: A, D, C, B — the small parts first, so that an internal deadline hit on a loaded machine
	// cuts the bulkiest part (B) short and never skips a whole class of inputs.
	// ---- part D: several packages in one run (see multipkg.go)
	mpAll, mpCore := multiPackageInputs(r.Thorough())
	var inputsD, inputsDcore []*Input
	cueD := 0
	for _, m := range mpAll {
		inputsD = append(inputsD, m.irInput())
		if in, ok := m.cueInput(); ok {
			inputsD = append(inputsD, in)
			cueD++
		}
	}
	for i, m := range mpCore {
		if i%2 == 1 && !r.Thorough() {
			continue // the quick tier gives the complete Go option product to every other core input
		}
		inputsDcore = append(inputsDcore, m.irInput())
		if in, ok := m.cueInput(); ok && r.Thorough() {
			inputsDcore = append(inputsDcore, in)
		}
	}
	// a single package whose name is not an identifier, through the real front-ends (the `package:` option)
	for _, sc := range []gschema.Schema{gschema.Field1(irgen.S("string"), true), gschema.Field1(irgen.Ref(gschema.Pkg+".S"), false), gschema.Field1(irgen.Enum("str"), true)} {
		for _, f := range []string{"jsonschema", "openapi"} {
			if in, ok := renderInput(sc, f); ok && strings.Contains(in.YAML, "package: p}") {
				in.YAML = strings.Replace(in.YAML, "package: p}", "package: p-x}", 1)
				in.Name += ";package=p-x"
				in.Schema = nil // not reduced: the reductions would lose the package name
				inputsD = append(inputsD, in)
			}
		}
	}
	if limit > 0 && limit < len(inputsD) {
		inputsD = inputsD[:limit]
	}
	if !strings.Contains(parts, "D") {
		inputsD, inputsDcore = nil, nil
	}
	doneD := 0
	if ck.over() {
		ck.truncated = append(ck.truncated, "part D not started")
	} else {
		ck.run("D", inputsD, cfgsC)
		ck.run("D", inputsDcore, allGoCfgs())
		doneD = len(inputsD)
	}
	tD := time.Since(start) - tA

	// ---- part E: unions over a branch alphabet (see unions.go)
	inputsE := unionInputs(r.Thorough())
	cfgsE := []Cfg{{"go", 2, 0b011111}, {"go", 0, 0b000001}, {"python", 1, 0b01}, {"java", 2, 0b1}, {"typescript", 1, 0}, {"php", 2, 0b1}}
	if limit > 0 && limit < len(inputsE) {
		inputsE = inputsE[:limit]
	}
	if !strings.Contains(parts, "E") {
		inputsE = nil
	}
	doneE := 0
	for i := 0; i < len(inputsE); i += 200 {
		if ck.over() {
			ck.truncated = append(ck.truncated, fmt.Sprintf("part E after %d of %d inputs", doneE, len(inputsE)))
			break
		}
		j := i + 200
		if j > len(inputsE) {
			j = len(inputsE)
		}
		ck.run("E", inputsE[i:j], cfgsE)
		doneE = j
	}
	tE := time.Since(start) - tA - tD

	// ---- part C
	var inputsC []*Input
	for _, s := range irgen.SeedSchemas() {
		inputsC = append(inputsC, irInput(s))
	}
	// Leaves: irgen's defaults without the composable slot (a slot is only meaningful together with the
	// kind registry's variants runtime, which a bare IR does not carry).
	var leavesC []irgen.Term
	for _, l := range irgen.DefaultLeaves() {
		if l.K != "slot" {
			leavesC = append(leavesC, l)
		}
	}
	for _, t := range irgen.Types(irgen.Config{Depth: 2, Leaves: leavesC}) {
		inputsC = append(inputsC, irInput(irgen.WithField(t, true)))
		if r.Thorough() {
			inputsC = append(inputsC, irInput(irgen.WithField(t, false)))
		}
	}
	if limit > 0 && limit < len(inputsC) {
		inputsC = inputsC[:limit]
	}
	if !strings.Contains(parts, "C") {
		inputsC = nil
	}
	doneC := 0
	if ck.over() {
		ck.truncated = append(ck.truncated, "part C not started")
	} else {
		ck.run("C", inputsC, cfgsC)
		doneC = len(inputsC)
	}
	tC := time.Since(start) - tA - tD - tE

	// ---- part B
	schemasB := gschema.Enumerate(r.Thorough())
	var inputsB []*Input
	skipped := map[string]int{}
	for _, s := range schemasB {
		for _, f := range gschema.Formats {
			if in, ok := renderInput(s, f); ok {
				inputsB = append(inputsB, in)
			} else {
				skipped[f]++
			}
		}
	}
	if limit > 0 && limit*3 < len(inputsB) {
		inputsB = inputsB[:limit*3]
	}
	if !strings.Contains(parts, "B") {
		inputsB = nil
	}
	doneB := 0
	for i := 0; i < len(inputsB); i += 150 {
		if ck.over() {
			ck.truncated = append(ck.truncated, fmt.Sprintf("part B after %d of %d inputs", doneB, len(inputsB)))
			break
		}
		j := i + 150
		if j > len(inputsB) {
			j = len(inputsB)
		}
		ck.run("B", inputsB[i:j], partBCfgs(r.Thorough()))
		doneB = j
	}
	tB := time.Since(start) - tA - tC - tD - tE

	rounds, stable := ck.minimise(24)
	tMin := time.Since(start) - tA - tB - tC - tD - tE

	fs := ck.failures()
	unjudged := 0
	for _, f := range fs.list {
		// A run cut short by its internal deadline has not computed the flag condition of every
		// diagnostic: those failures have no settled identity. They are counted, not reported (the run
		// is declared non-exhaustive), so that a slow machine never turns into a violation.
		if len(ck.truncated) > 0 && strings.HasSuffix(f.Kind, "[when not minimised]") {
			unjudged++
			continue
		}
		r.Fail(f)
	}

	if p := os.Getenv("C02_DUMP"); p != "" { // debugging aid: every failing case
		var b strings.Builder
		for _, f := range fs.list {
			fmt.Fprintf(&b, "%s\t%s\n", f.Kind, f.Witness)
		}
		os.WriteFile(p, []byte(b.String()), 0o644)
	}
	// ---- evidence
	samples := &vx.Samples{N: 10}
	step := len(ck.all)/10 + 1
	for i := 0; i < len(ck.all); i += step {
		c := ck.all[i]
		samples.Add(map[string]any{"part": c.Part, "witness": c.Witness(), "status": c.Status, "generated_files": c.Files, "diagnostics": len(c.Diags)})
	}
	perLang := map[string]any{}
	var langs []string
	for l := range langFlags {
		langs = append(langs, l)
	}
	sort.Strings(langs)
	refusals := map[string]any{}
	for _, l := range langs {
		perLang[l] = map[string]int{"ok": ev.unitsOK[l] - ev.unitsBroken[l], "refused": ev.unitsRefused[l], "broken": ev.unitsBroken[l], "crashed": ev.unitsCrashed[l],
			"trees_checked": ev.treesSeen[l], "distinct_trees_compiled": ev.distinctTrees[l]}
		var msgs []string
		for m, n := range ev.refusals[l] {
			msgs = append(msgs, fmt.Sprintf("%s  (x%d, e.g. %s)", m, n, ev.refusalSample[l+"\x00"+m]))
		}
		sort.Strings(msgs)
		refusals[l] = msgs
	}
	kinds := map[string]bool{}
	for _, f := range fs.list {
		kinds[f.Kind] = true
	}
	dedup := func(l string) string {
		if ev.treesSeen[l] == 0 {
			return "n/a"
		}
		return fmt.Sprintf("%d trees -> %d compiled (%.1f%%)", ev.treesSeen[l], ev.distinctTrees[l], 100*float64(ev.distinctTrees[l])/float64(ev.treesSeen[l]))
	}
	exhaustive := len(ck.truncated) == 0 && stable
	ws.Close()
	r.Finish(map[string]any{
		"states":                                 len(ck.all),
		"transitions":                            ev.runs,
		"traces_validated_against_impl":          ev.runs,
		"samples":                                samples.L,
		"exhaustive":                             exhaustive,
		"truncated":                              ck.truncated,
		"failures_left_unjudged_by_the_deadline": unjudged,
		"part_A":                                 map[string]any{"schemas": doneA, "of": len(inputsA), "go_configurations": len(allGoCfgs()), "units": doneA * len(allGoCfgs()), "format_used": fallback, "wall_s": tA.Seconds()},
		"part_B":                                 map[string]any{"abstract_schemas": len(schemasB), "schema_format_inputs": doneB, "of": len(inputsB), "configurations_per_input": len(partBCfgs(r.Thorough())), "formats_skipped": skipped, "wall_s": tB.Seconds()},
		"part_C":                                 map[string]any{"irs": doneC, "configurations_per_ir": len(cfgsC), "path": "real codegen.Pipeline.Run; IR injected through the exported Pipeline.Transforms.CommonPasses hook", "wall_s": tC.Seconds()},
		"part_E": map[string]any{"union_inputs": doneE, "of": len(inputsE), "configurations_per_input": len(cfgsE), "branch_alphabet": len(unionAlphabet),
			"what": "every pair of the branch alphabet (scalars, lists, maps, string and integer constants, null) and every triple (quick: over a reduced alphabet), inline in a field and as a named object referred to by a field (thorough: also optional field, root object, CUE spelling)", "wall_s": tE.Seconds()},
		"part_D": map[string]any{"multi_package_inputs": doneD, "of": len(inputsD), "cue_front_end_inputs": cueD, "with_complete_go_product": len(inputsDcore), "configurations_per_input": len(cfgsC),
			"what": "three layered packages p>q>r in one run; every reference shape with the target in another package; union W per subset of packages, both input orders; a middle package named q-x; formats ir3 (IR injected into Pipeline.Run) and cue3 (CUE packages importing each other)", "wall_s": tD.Seconds()},
		"minimisation":                   map[string]any{"rounds": rounds, "stable": stable, "go_option_downsets_on_demand": ck.products, "wall_s": tMin.Seconds()},
		"per_language":                   perLang,
		"refusals_distinct_messages":     refusals,
		"go_packages_compiled":           ev.goPkgsCompiled,
		"go_build_invocations":           ev.goBuilds,
		"javac_invocations":              ev.javacRuns,
		"dedup":                          map[string]string{"go": dedup("go"), "python": dedup("python"), "java": dedup("java")},
		"placeholder_catalogue":          scan.Sources,
		"placeholder_legit_phrases":      scan.legit,
		"files_scanned_for_placeholders": ev.filesScanned,
		"files_skipped_as_static":        ev.filesStatic,
		"failure_kinds":                  len(kinds),
		"time_s":                         map[string]float64{"generate": ev.timeGen.Seconds(), "go_build": ev.timeGo.Seconds(), "python": ev.timePy.Seconds(), "javac": ev.timeJava.Seconds()},
		"explanation": "every unit is one run of the real codegen.Pipeline in a crash-isolated worker; units whose generated Go/Python/Java trees are byte-identical after replacing the unit id share one compilation " +
			"(the representative is compiled by the real toolchain); part A is the complete product 64 flag combinations x 4 output selections per schema; kinds carry the minimal flag condition computed from that product",
	}, []string{
		"a run that returns an error is a pass (sanctioned refusal); panics, fatal errors and hangs are recorded as crash: kinds",
		"TypeScript and PHP are scanned for placeholders only (no tsc / php on this machine; the property demands compilation for Go, Python and Java)",
		"go build without vet; Java is compiled with javac 17 against jackson-{annotations,core,databind} 2.15.1; Python 3.11 py_compile + import of every generated module",
		"files identical for two unrelated schemas (static runtime files) are not scanned for placeholders; output selections are the chain types < +builders < +converters < +api_reference",
		"a Go diagnostic seen outside part A inherits the flag condition of the same diagnostic in part A when that condition covers the failing configuration; otherwise every sub-combination of the failing configuration's flags and outputs is evaluated on its smallest witness and the condition is computed from those (no ¬skip_runtime / ¬api_reference literals then)",
		"directly constructed IRs (part C) are not reduced (no reduction relation on IR specs is used); the smallest witness per kind is reported",
		"schema reductions that leave grammar G (reported minimal witnesses often do) are rendered by the same renderers and evaluated on demand, starting from the smallest witness of each kind (greedy descent)",
	})
}

// ---- replay ----------------------------------------------------------------------------------------

func replay(r *vx.Run, ck *checker) {
	kind, witness, detail := r.ReplayFile()
	var d struct {
		Part      string            `json:"part"`
		Format    string            `json:"format"`
		Schema    string            `json:"schema"`
		Size      int               `json:"size"`
		Cfg       Cfg               `json:"cfg"`
		Files     map[string]string `json:"files"`
		InputYAML string            `json:"input_yaml"`
		IR        *irgen.SchemaSpec `json:"ir"`
		Names     []string          `json:"names"`
	}
	if err := json.Unmarshal(detail, &d); err != nil {
		vx.Fatalf("replay: %v", err)
	}
	in := &Input{Format: d.Format, Name: d.Schema, Size: d.Size, Files: d.Files, YAML: d.InputYAML, IR: d.IR, Names: d.Names}
	fmt.Println("replaying", witness)
	fmt.Println("recorded kind:", kind)
	ck.ev.keep = os.Getenv("C02_KEEP") != ""
	ck.ev.computeStatic([]Cfg{d.Cfg})
	cs := ck.ev.Eval([]*Case{{In: in, Cfg: d.Cfg, Part: "replay"}})
	c := cs[0]
	fmt.Printf("unit %s: generation status %s %s\n", c.ID, c.Status, c.Err)
	for name, content := range d.Files {
		fmt.Printf("--- input %s\n%s\n", name, content)
	}
	want := kind
	if i := strings.Index(want, " [when "); i >= 0 {
		want = want[:i]
	}
	hit := false
	for _, dg := range c.Diags {
		k := c.Cfg.Lang + ": " + dg.Key()
		if dg.Clause == "crash" {
			k = "crash: " + c.Cfg.Lang + ": " + dg.Norm
		}
		fmt.Printf("  %s\n      %s\n", k, dg.Raw)
		if k == want {
			hit = true
		}
	}
	if os.Getenv("C02_KEEP") != "" {
		fmt.Println("workspace kept:", ck.ev.ws.Dir)
	} else {
		ck.ev.ws.Close()
	}
	if hit {
		fmt.Printf("VIOLATION property=C02 replay=%s\n", r.Replay)
		os.Exit(1)
	}
	fmt.Println("replay: the recorded failure does not occur on this tree")
	os.Exit(0)
}
