//go:build verif

package main

import (
	"bufio"
	"bytes"
	"os"
	"os/exec"
	"path/filepath"
	"regexp"
	"sort"
	"strings"

	"github.com/grafana/cog/verifx/vx"
)

var (
	reGoPkgHeader = regexp.MustCompile(`^# (verifgen/\S+)`)
	reGoFilePos   = regexp.MustCompile(`^(?:\./)?(u[0-9]{7})/\S+?\.go:[0-9]+(?::[0-9]+)?: (.*)$`)
)

func goEnv() []string {
	return append(os.Environ(), "GOFLAGS=-mod=mod", "GOPROXY=off", "GOSUMDB=off", "GOTOOLCHAIN=local", "GOWORK=off", "CGO_ENABLED=0")
}

// checkGo compiles the generated Go packages of the batch with `go build`
// (no vet). Units whose Go trees are byte-identical up to the unit id share
// one compilation (the representative's). Diagnostics are attributed to units
// by import path / file path prefix. `go build` stops at package loading
// errors (an import of a package that was not generated), so units with
// loading errors are recorded and removed and the build is repeated until
// only compiler diagnostics remain.
func (e *Evaluator) checkGo(cases []*Case, files map[string][]string) {
	reps, hashOf := e.dedup(cases, files, ".go")
	pending := map[string]*Case{}
	for _, c := range reps {
		pending[c.ID] = c
	}
	verdict := map[string][]rawDiag{} // by unit id
	dir := filepath.Join(e.ws.Dir, "out/go")
	for round := 0; len(pending) > 0; round++ {
		if round > 6 {
			vx.Fatalf("go build: loading errors do not converge")
		}
		cmd := exec.Command("go", "build", "-gcflags=-e", "./...")
		cmd.Dir = dir
		cmd.Env = goEnv()
		out, _ := cmd.CombinedOutput()
		e.goBuilds++
		loadErr := map[string]bool{}
		cur := ""
		var last *rawDiag
		lastUnit := ""
		sc := bufio.NewScanner(bytes.NewReader(out))
		sc.Buffer(make([]byte, 1<<20), 1<<26)
		add := func(unit, clause, text string) {
			text = strings.ReplaceAll(text, unit, "UNIT")
			verdict[unit] = append(verdict[unit], rawDiag{Clause: clause, Text: text})
			last = &verdict[unit][len(verdict[unit])-1]
			lastUnit = unit
		}
		for sc.Scan() {
			l := sc.Text()
			if strings.TrimSpace(l) == "" {
				continue
			}
			if m := reGoPkgHeader.FindStringSubmatch(l); m != nil {
				cur = m[1]
				last = nil
				continue
			}
			if (l[0] == '\t' || l[0] == ' ') && last != nil {
				last.Text += " " + strings.ReplaceAll(strings.TrimSpace(l), lastUnit, "UNIT")
				continue
			}
			if m := reGoFilePos.FindStringSubmatch(l); m != nil {
				unit := m[1]
				if pending[unit] == nil {
					vx.Fatalf("go build: diagnostic for a unit that is not in the batch: %s", l)
				}
				if cur != "" && strings.HasPrefix(cur, "verifgen/"+unit+"/") {
					add(unit, "compile", m[2])
				} else {
					// no package header: a loading error (missing import, import cycle, ...)
					loadErr[unit] = true
					add(unit, "compile", m[2])
				}
				continue
			}
			if id := reUnitID.FindString(l); id != "" && pending[id] != nil {
				loadErr[id] = true
				add(id, "compile", l)
				cur = ""
				continue
			}
			if strings.HasPrefix(l, "go: ") || strings.HasPrefix(l, "pattern ") {
				vx.Fatalf("go build failed outside any generated package: %s", l)
			}
			vx.Fatalf("go build: cannot attribute %q", l)
		}
		if len(loadErr) == 0 {
			// every remaining unit was compiled in this invocation
			e.vmu.Lock()
			for id, c := range pending {
				e.goPkgsCompiled += countGoPkgs(files[c.ID])
				e.verdicts[hashOf[id]] = dedupRaw(verdict[id])
			}
			e.vmu.Unlock()
			pending = map[string]*Case{}
			break
		}
		// units with loading errors: final verdict = what was reported; drop them and rebuild the rest.
		// Compiler diagnostics of other units from this round are discarded (they are reported again).
		for id := range verdict {
			if !loadErr[id] {
				delete(verdict, id)
			}
		}
		for id := range loadErr {
			e.vmu.Lock()
			e.verdicts[hashOf[id]] = dedupRaw(verdict[id])
			e.vmu.Unlock()
			os.RemoveAll(filepath.Join(dir, id))
			delete(pending, id)
		}
	}
	e.applyVerdicts(cases, hashOf)
}

func countGoPkgs(files []string) int {
	dirs := map[string]bool{}
	for _, f := range files {
		if strings.HasSuffix(f, ".go") {
			dirs[filepath.Dir(f)] = true
		}
	}
	return len(dirs)
}

func dedupRaw(l []rawDiag) []rawDiag {
	seen := map[string]bool{}
	out := []rawDiag{}
	for _, d := range l {
		k := d.Clause + "\x00" + d.Text
		if !seen[k] {
			seen[k] = true
			out = append(out, d)
		}
	}
	sort.Slice(out, func(i, j int) bool { return out[i].Text < out[j].Text })
	return out
}
