//go:build verif

package main

import (
	"bufio"
	"bytes"
	"fmt"
	"os"
	"os/exec"
	"path/filepath"
	"regexp"
	"strings"
	"sync/atomic"

	"github.com/grafana/cog/verifx/vx"
)

const jacksonDir = "/opt/veriftools/tlapm/lib/tlapm/backends/Isabelle/contrib/scala-3.3.4/lib/"

var jacksonCP = strings.Join([]string{
	jacksonDir + "jackson-annotations-2.15.1.jar", jacksonDir + "jackson-core-2.15.1.jar", jacksonDir + "jackson-databind-2.15.1.jar",
}, ":")

var (
	reJavacErr  = regexp.MustCompile(`^(.*?\.java):([0-9]+): error: (.*)$`)
	reJavacSym  = regexp.MustCompile(`^\s+symbol:\s+(.*)$`)
	reJavaUnit  = regexp.MustCompile(`/out/java/(u[0-9]{7})/`)
	javaWorkers = 8
)

// javac runs one compiler process over the .java files of the given units and
// returns the diagnostics per unit (file paths are abstracted to the path
// below the unit directory).
func (e *Evaluator) javac(units []*Case, files map[string][]string, tag string) map[string][]rawDiag {
	tmp, err := os.MkdirTemp(e.ws.Dir, "javac."+tag+".")
	if err != nil {
		vx.Fatalf("%v", err)
	}
	defer os.RemoveAll(tmp)
	var args strings.Builder
	n := 0
	for _, c := range units {
		for _, f := range files[c.ID] {
			if strings.HasSuffix(f, ".java") {
				fmt.Fprintf(&args, "%q\n", filepath.Join(e.ws.Dir, f))
				n++
			}
		}
	}
	if n == 0 {
		return nil
	}
	argfile := filepath.Join(tmp, "files.txt")
	os.WriteFile(argfile, []byte(args.String()), 0o644)
	cmd := exec.Command("javac", "-J-XX:+UseSerialGC", "-J-XX:TieredStopAtLevel=1", "-J-Xmx1500m", "-proc:none", "-XDshould-stop.ifError=FLOW", "-nowarn", "-Xlint:none",
		"-Xmaxerrs", "1000000", "-Xmaxwarns", "0", "-encoding", "UTF-8", "-d", filepath.Join(tmp, "classes"), "-cp", jacksonCP, "@"+argfile)
	out, runErr := cmd.CombinedOutput()
	atomic.AddInt64(&e.javacRuns, 1)
	res := map[string][]rawDiag{}
	sc := bufio.NewScanner(bytes.NewReader(out))
	sc.Buffer(make([]byte, 1<<20), 1<<26)
	var last *rawDiag
	for sc.Scan() {
		l := sc.Text()
		if m := reJavacErr.FindStringSubmatch(l); m != nil {
			um := reJavaUnit.FindStringSubmatch(m[1])
			if um == nil {
				vx.Fatalf("javac: diagnostic outside any unit: %s", l)
			}
			unit := um[1]
			rel := m[1][strings.Index(m[1], "/out/java/"+unit+"/")+len("/out/java/"+unit+"/"):]
			res[unit] = append(res[unit], rawDiag{Clause: "compile", Text: strings.ReplaceAll(m[3], unit, "UNIT") + " [" + strings.ReplaceAll(filepath.Base(rel), unit, "UNIT") + "]"})
			last = &res[unit][len(res[unit])-1]
			continue
		}
		if m := reJavacSym.FindStringSubmatch(l); m != nil && last != nil {
			last.Text = strings.Replace(last.Text, " [", " (symbol: "+reUnitID.ReplaceAllString(m[1], "UNIT")+") [", 1)
			last = nil
		}
	}
	if runErr != nil && len(res) == 0 {
		vx.Fatalf("javac failed without an attributable diagnostic: %v\n%s", runErr, tail(string(out), 2000))
	}
	return res
}

func tail(s string, n int) string {
	if len(s) > n {
		return s[len(s)-n:]
	}
	return s
}

// checkJava compiles the generated Java against the Jackson jars. Units are
// compiled many at a time (each lives in its own package `verifgen.<id>` and
// refers to nothing outside it but Jackson). javac runs with
// -XDshould-stop.ifError=FLOW so that parsing, attribution and flow analysis
// are completed for every class whatever errors other classes have: the
// diagnostics of a unit do not depend on what shares the compiler process.
// A group is recompiled without its failing units until it is clean, so a
// unit is only declared well-formed by a javac run that reported no error at
// all (code generation included).
func (e *Evaluator) checkJava(cases []*Case, files map[string][]string) {
	reps, hashOf := e.dedup(cases, files, ".java")
	if len(reps) == 0 {
		e.applyVerdicts(cases, hashOf)
		return
	}
	groups := javaWorkers
	if per := (len(reps) + groups - 1) / groups; per < 4 {
		groups = (len(reps) + 3) / 4
	}
	parts := make([][]*Case, groups)
	for i, c := range reps {
		parts[i%groups] = append(parts[i%groups], c)
	}
	parallelN(javaWorkers, groups, func(g int) {
		pending := parts[g]
		for round := 0; len(pending) > 0; round++ {
			if round > 8 {
				vx.Fatalf("javac: groups do not converge")
			}
			res := e.javac(pending, files, fmt.Sprintf("g%d", g))
			var rest []*Case
			e.vmu.Lock()
			for _, c := range pending {
				if d, bad := res[c.ID]; bad {
					e.verdicts[hashOf[c.ID]] = dedupRaw(d)
				} else if len(res) == 0 {
					e.verdicts[hashOf[c.ID]] = []rawDiag{}
				} else {
					rest = append(rest, c)
				}
			}
			e.vmu.Unlock()
			pending = rest
		}
	})
	e.applyVerdicts(cases, hashOf)
}
