//go:build verif

package main

import (
	"fmt"
	"math/bits"
	"regexp"
	"sort"
	"strings"

	"github.com/grafana/cog/verifx/genrun"
	"github.com/grafana/cog/verifx/gschema"
	"github.com/grafana/cog/verifx/irgen"
)

// ---- output configurations ---------------------------------------------------------------

// langFlags lists the per-language flags in bit order.
var langFlags = map[string][]string{
	"go":         {"json", "strict", "equal", "validate", "anyiface", "skiprt"},
	"python":     {"json", "skiprt"},
	"java":       {"json"},
	"typescript": {"enumunion", "skiprt"},
	"php":        {"json"},
}

var levelNames = []string{"types", "types+builders", "types+builders+converters", "types+builders+converters+apiref"}
var levelLit = []string{"", "builders", "converters", "apiref"}

// Cfg is one output configuration of one language.
type Cfg struct {
	Lang  string `json:"lang"`
	Level int    `json:"level"` // 0 types, 1 +builders, 2 +converters, 3 +api_reference
	Flags uint   `json:"flags"` // bit i = langFlags[Lang][i]
}

func (c Cfg) flagNames() []string {
	var on []string
	for i, n := range langFlags[c.Lang] {
		if c.Flags&(1<<i) != 0 {
			on = append(on, n)
		}
	}
	return on
}

func (c Cfg) String() string {
	f := strings.Join(c.flagNames(), ",")
	if f == "" {
		f = "-"
	}
	return fmt.Sprintf("%s[%s; %s]", c.Lang, levelNames[c.Level], f)
}

func (c Cfg) Weight() int { return c.Level*8 + bits.OnesCount(c.Flags) }

func (c Cfg) has(name string) bool {
	for i, n := range langFlags[c.Lang] {
		if n == name {
			return c.Flags&(1<<i) != 0
		}
	}
	return false
}

// Less: one flag less or one output less.
func (c Cfg) Less() []Cfg {
	var out []Cfg
	if c.Level > 0 {
		d := c
		d.Level--
		out = append(out, d)
	}
	for i := range langFlags[c.Lang] {
		if c.Flags&(1<<i) != 0 {
			d := c
			d.Flags &^= 1 << i
			out = append(out, d)
		}
	}
	return out
}

// More: one flag more or one output more.
func (c Cfg) More() []Cfg {
	var out []Cfg
	if c.Level < 3 {
		d := c
		d.Level++
		out = append(out, d)
	}
	for i := range langFlags[c.Lang] {
		if c.Flags&(1<<i) == 0 {
			d := c
			d.Flags |= 1 << i
			out = append(out, d)
		}
	}
	return out
}

func (c Cfg) leq(d Cfg) bool { return c.Lang == d.Lang && c.Level <= d.Level && c.Flags&^d.Flags == 0 }

// Apply configures a unit.
func (c Cfg) Apply(u *genrun.Unit) {
	u.Types = true
	u.Builders = c.Level >= 1
	u.Converters = c.Level >= 2
	u.APIRef = c.Level >= 3
	switch c.Lang {
	case "go":
		u.Go = &genrun.GoOpts{JSONMarshaller: c.has("json"), StrictUnmarshaller: c.has("strict"), Equal: c.has("equal"),
			Validate: c.has("validate"), AnyAsInterface: c.has("anyiface"), SkipRuntime: c.has("skiprt")}
	case "python":
		u.Python, u.PythonJSON, u.PythonSkipRuntime = true, c.has("json"), c.has("skiprt")
	case "java":
		u.Java, u.JavaJSON = true, c.has("json")
	case "typescript":
		u.Typescript, u.TSEnumsAsUnion, u.TSSkipRuntime = true, c.has("enumunion"), c.has("skiprt")
	case "php":
		u.PHP, u.PHPJSON = true, c.has("json")
	}
}

// allGoCfgs is the complete Go option space: 64 flag combinations x 4 output selections.
func allGoCfgs() []Cfg {
	var out []Cfg
	for lvl := 0; lvl < 4; lvl++ {
		for f := uint(0); f < 64; f++ {
			out = append(out, Cfg{"go", lvl, f})
		}
	}
	return out
}

// partBCfgs: the configurations of part B per language. The quick tier
// leaves out TypeScript skip_runtime and PHP without converters (both
// languages are only scanned for placeholders).
func partBCfgs(thorough bool) []Cfg {
	var out []Cfg
	out = append(out, Cfg{"go", 2, 0b011111}) // every flag but skip_runtime (which suppresses builders)
	for f := uint(0); f < 4; f++ {
		out = append(out, Cfg{"python", 1, f})
	}
	for f := uint(0); f < 2; f++ {
		out = append(out, Cfg{"java", 1, f}, Cfg{"java", 2, f})
	}
	for f := uint(0); f < 4; f++ {
		if thorough || f < 2 {
			out = append(out, Cfg{"typescript", 1, f})
		}
	}
	for f := uint(0); f < 2; f++ {
		if thorough {
			out = append(out, Cfg{"php", 1, f})
		}
		out = append(out, Cfg{"php", 2, f})
	}
	return out
}

// ---- inputs ----------------------------------------------------------------------------------

// Input is one schema in one input format (or a directly constructed IR, format "ir").
type Input struct {
	Format string
	Name   string // gschema.Schema.String() / irgen.SchemaSpec.Name
	Size   int
	// G inputs
	Schema *gschema.Schema
	Files  map[string]string
	YAML   string
	// IR inputs
	IR *irgen.SchemaSpec
	// Names of the objects (abstracted in diagnostics).
	Names []string
}

func (in *Input) Key() string { return in.Format + " :: " + in.Name }

// firstFormat renders s in the first format that can express it.
func firstFormat(s gschema.Schema) (*Input, bool) {
	for _, f := range gschema.Formats {
		if in, ok := renderInput(s, f); ok {
			return in, true
		}
	}
	return nil, false
}

func renderInput(s gschema.Schema, format string) (*Input, bool) {
	r, err := s.Render(format)
	if err != nil {
		return nil, false
	}
	sc := s
	in := &Input{Format: format, Name: s.String(), Size: s.Size(), Schema: &sc, Files: r.Files, YAML: r.InputYAML}
	for _, o := range s.Objs {
		in.Names = append(in.Names, o.Name)
	}
	return in, true
}

func irInput(spec irgen.SchemaSpec) *Input {
	sp := spec
	in := &Input{Format: "ir", Name: spec.Name, Size: spec.Size(), IR: &sp}
	for _, p := range spec.Pkgs {
		for _, o := range p.Objects {
			in.Names = append(in.Names, o.Name)
		}
	}
	return in
}

// Reductions of an input. G inputs: every schema reduction, in the same
// format when it can still express it, otherwise in the first format that can
// (part A) — for part B also the same schema in earlier formats (see
// genrun.CaseParents). IR inputs are not reduced (their grammar is enumerated
// smallest first and the smallest witness per kind is reported).
func (in *Input) Reductions(allFormats bool) []*Input {
	if in.Schema == nil {
		return nil
	}
	var out []*Input
	seen := map[string]bool{}
	add := func(x *Input) {
		if !seen[x.Key()] {
			seen[x.Key()] = true
			out = append(out, x)
		}
	}
	for _, r := range in.Schema.Reductions() {
		if !renderable(r) {
			continue
		}
		if allFormats {
			for _, f := range gschema.Formats {
				if x, ok := renderInput(r, f); ok {
					add(x)
				}
			}
			continue
		}
		if x, ok := renderInput(r, in.Format); ok {
			add(x)
		} else if x, ok := firstFormat(r); ok {
			add(x)
		}
	}
	if allFormats {
		for _, f := range gschema.Formats {
			if f == in.Format {
				break
			}
			if x, ok := renderInput(*in.Schema, f); ok {
				add(x)
			}
		}
	}
	return out
}

// renderable guards against reductions the renderers were not written for
// (they panic on term kinds outside G); such reductions are simply not used.
func renderable(s gschema.Schema) (ok bool) {
	defer func() {
		if recover() != nil {
			ok = false
		}
	}()
	for _, f := range gschema.Formats {
		if _, err := s.Render(f); err == nil {
			return true
		}
	}
	return false
}

// ---- cases -------------------------------------------------------------------------------------

// Diag is one oracle failure of a case.
type Diag struct {
	Clause string // compile | import | placeholder | crash | ...
	Norm   string // normalised diagnostic (part of the kind)
	Raw    string // first raw occurrence
}

func (d Diag) Key() string { return d.Clause + ": " + d.Norm }

// Case is one pipeline run: an input and an output configuration.
type Case struct {
	In   *Input
	Cfg  Cfg
	Part string
	ID   string // unit id (unique per run of the harness)

	Status  string // ok | refused | crash
	Err     string
	Diags   []Diag
	DedupOf string // id of the representative whose compile verdict this case shares
	Files   int
}

func (c *Case) Witness() string { return c.In.Key() + " :: " + c.Cfg.String() }
func (c *Case) SizeRank() int   { return c.In.Size*1000 + formatRank(c.In.Format)*100 + c.Cfg.Weight() }

func (c *Case) hasDiag(key string) bool {
	for _, d := range c.Diags {
		if d.Key() == key {
			return true
		}
	}
	return false
}

func formatRank(f string) int {
	for i, x := range gschema.Formats {
		if x == f {
			return i
		}
	}
	return 5
}

// ---- normalisation -------------------------------------------------------------------------------

var (
	reUnitID = regexp.MustCompile(`u[0-9]{7}`)
	reDigits = regexp.MustCompile(`[0-9]+`)
	rePos    = regexp.MustCompile(`[A-Za-z0-9_./<>-]+\.(go|py|java):[0-9]+(:[0-9]+)?:?`)
	// string literals quoted in compiler messages (values derived from the schema's defaults / constants)
	reQuotedLit = regexp.MustCompile(`"[^"]*[0-9][^"]*"`)
	reNumType   = regexp.MustCompile(`\b(?:u?int|float)(?:8|16|32|64)\b`)
	reSpaces    = regexp.MustCompile(`\s+`)
	reTmpPath   = regexp.MustCompile(`/var/tmp/verif\.[A-Za-z0-9_.]+`)
)

// nameAbstractor replaces identifiers derived from the schema's object names
// (Root, RootF, NewRootBuilder, rootBuilder, ...) by <*>.
func nameAbstractor(names []string) func(string) string {
	var alts []string
	seen := map[string]bool{}
	for _, n := range names {
		if n == "" {
			continue
		}
		vs := []string{n, strings.ToUpper(n[:1]) + n[1:]}
		if len(n) > 1 { // single letters in lower case are English words ("a")
			vs = append(vs, strings.ToLower(n[:1])+n[1:])
		}
		for _, v := range vs {
			if !seen[v] {
				seen[v] = true
				alts = append(alts, regexp.QuoteMeta(v))
			}
		}
	}
	if len(alts) == 0 {
		return abstractDerived
	}
	sort.Slice(alts, func(i, j int) bool {
		return len(alts[i]) > len(alts[j]) || len(alts[i]) == len(alts[j]) && alts[i] < alts[j]
	})
	// a name followed by an upper-case/digit continuation or the end of the identifier, optionally prefixed by
	// New/new or the upper-cased package name (Java: PRootF)
	re := regexp.MustCompile(`\b(?:New|new)?P?(?:` + strings.Join(alts, "|") + `)(?:[A-Z0-9_][A-Za-z0-9_]*)?\b`)
	return func(s string) string {
		return re.ReplaceAllStringFunc(abstractDerived(s), func(m string) string {
			// constructors keep their prefix: "undefined: NewX" (a constructor that was not generated)
			// is another failure than "undefined: X" (a type or member that is not visible)
			if strings.HasPrefix(m, "New") {
				return "New<*>"
			}
			return "<*>"
		})
	}
}

var (
	// types synthesised from disjunctions: StringOrBool, StringOrArrayOfString, ... (+ the Java helper classes)
	reDisjName = regexp.MustCompile(`\b[A-Z][A-Za-z0-9]*Or[A-Z][A-Za-z0-9]*\b`)
	// accesses to fields of generated structs: input.F, *other.G, resource.Kind
	reFieldAcc = regexp.MustCompile(`\b(input|other|resource|internal)\.[A-Za-z_][A-Za-z0-9_]*`)
)

// abstractDerived abstracts identifiers derived from field names and union branches.
func abstractDerived(s string) string {
	s = reDisjName.ReplaceAllStringFunc(s, func(m string) string {
		for _, suf := range []string{"Deserializer", "Serializer", "Builder", "Converter"} {
			if strings.HasSuffix(m, suf) {
				return "<*>" + suf
			}
		}
		return "<*>"
	})
	return reFieldAcc.ReplaceAllString(s, "$1.<f>")
}

func normDiag(s string, abs func(string) string) string {
	s = reTmpPath.ReplaceAllString(s, "<ws>")
	s = rePos.ReplaceAllString(s, "")
	s = reUnitID.ReplaceAllString(s, "<id>")
	s = abs(s)
	s = reQuotedLit.ReplaceAllString(s, `"…"`)
	s = reNumType.ReplaceAllString(s, "<num>")
	s = reDigits.ReplaceAllString(s, "N")
	s = reSpaces.ReplaceAllString(s, " ")
	s = strings.TrimSpace(s)
	if len(s) > 160 {
		s = s[:160]
	}
	return s
}
