//go:build verif

package main

import (
	"encoding/json"
	"strings"
)

// Part E: unions. Grammar G only has three scalar unions (string|bool,
// string|int64, string|array(string)); the passes and templates that deal
// with unions (FlattenDisjunctions, DisjunctionOfConstantsToEnum,
// DisjunctionToType, the JSON (un)marshalling of "disjunctions of scalars")
// branch on the KIND of every member: scalar, list, map, constant, null.
// This part enumerates the unions over a branch alphabet — every unordered
// pair, and every triple (quick: over a reduced alphabet) — in the placements
// a union can have: inline in a field, as a named object referred to by a
// field, (thorough) as the root object itself and in an optional field.
// Inputs are JSON Schema documents (`oneOf`), the only front-end that
// expresses constants, lists and maps side by side; the thorough tier adds
// the CUE spelling of the unions CUE can express.

type unionBranch struct {
	name string // as printed in the witness (irgen.Term spelling)
	js   string // JSON Schema
	cue  string // "" = not expressible / parsed as something else
}

var unionAlphabet = []unionBranch{
	{"string", `{"type":"string"}`, "string"},
	{"bool", `{"type":"boolean"}`, "bool"},
	{"int64", `{"type":"integer"}`, "int64"},
	{"float64", `{"type":"number"}`, "float64"},
	{"array(string)", `{"type":"array","items":{"type":"string"}}`, "[...string]"},
	{"array(int64)", `{"type":"array","items":{"type":"integer"}}`, "[...int64]"},
	{"map(string)", `{"type":"object","additionalProperties":{"type":"string"}}`, "{[string]: string}"},
	{"map(int64)", `{"type":"object","additionalProperties":{"type":"integer"}}`, "{[string]: int64}"},
	{`const("a")`, `{"type":"string","const":"a"}`, ""},
	{`const("b")`, `{"type":"string","const":"b"}`, ""},
	{"const(1)", `{"type":"integer","const":1}`, ""},
	{"const(2)", `{"type":"integer","const":2}`, ""},
	{"null", `{"type":"null"}`, "null"},
}

// reduced alphabet of the quick tier's triples (indexes into unionAlphabet)
var unionQuickTriples = []int{0, 2, 4, 6, 7, 10, 11}

type unionInput struct {
	branches  []int
	placement string // field | optfield | named | root
}

func (u unionInput) term() string {
	var p []string
	for _, b := range u.branches {
		p = append(p, unionAlphabet[b].name)
	}
	return "(" + strings.Join(p, "|") + ")"
}

func (u unionInput) name() string {
	switch u.placement {
	case "field":
		return "Root={f:" + u.term() + "}"
	case "optfield":
		return "Root={f?:" + u.term() + "}"
	case "named":
		return "Root={f:ref(p.U)};U=" + u.term()
	}
	return "Root=" + u.term()
}

func (u unionInput) size() int { return 2 + len(u.branches) }

func (u unionInput) names() []string {
	if u.placement == "named" {
		return []string{"Root", "U"}
	}
	return []string{"Root"}
}

func (u unionInput) jsonInput() *Input {
	var bs []string
	for _, b := range u.branches {
		bs = append(bs, unionAlphabet[b].js)
	}
	union := `{"oneOf":[` + strings.Join(bs, ",") + `]}`
	defs := ""
	switch u.placement {
	case "field":
		defs = `"Root":{"type":"object","properties":{"f":` + union + `},"required":["f"]}`
	case "optfield":
		defs = `"Root":{"type":"object","properties":{"f":` + union + `}}`
	case "named":
		defs = `"Root":{"type":"object","properties":{"f":{"$ref":"#/definitions/U"}},"required":["f"]},"U":` + union
	default:
		defs = `"Root":` + union
	}
	doc := `{"$schema":"http://json-schema.org/draft-07/schema#","$ref":"#/definitions/Root","definitions":{` + defs + `}}`
	var v any
	if err := json.Unmarshal([]byte(doc), &v); err != nil {
		panic("c02: union schema is not JSON: " + err.Error())
	}
	return &Input{Format: "jsonschema", Name: u.name(), Size: u.size(), Files: map[string]string{"p.json": doc},
		YAML: "- jsonschema: {path: '%DIR%/p.json', package: p}", Names: u.names()}
}

func (u unionInput) cueInput() (*Input, bool) {
	var bs []string
	for _, b := range u.branches {
		c := unionAlphabet[b].cue
		if c == "" {
			return nil, false
		}
		bs = append(bs, c)
	}
	union := strings.Join(bs, " | ")
	body := ""
	switch u.placement {
	case "field":
		body = "Root: {f: " + union + "}\n"
	case "optfield":
		body = "Root: {f?: " + union + "}\n"
	case "named":
		body = "Root: {f: U}\nU: " + union + "\n"
	default:
		body = "Root: " + union + "\n"
	}
	return &Input{Format: "cue", Name: u.name(), Size: u.size(), Files: map[string]string{"p/schema.cue": "package p\n\n" + body},
		YAML: "- cue: {entrypoint: '%DIR%/p'}", Names: u.names()}, true
}

// unionInputs enumerates part E, smallest first.
func unionInputs(thorough bool) []*Input {
	var sets [][]int
	n := len(unionAlphabet)
	for i := 0; i < n; i++ {
		for j := i + 1; j < n; j++ {
			sets = append(sets, []int{i, j})
		}
	}
	tri := unionQuickTriples
	if thorough {
		tri = nil
		for i := 0; i < n; i++ {
			tri = append(tri, i)
		}
	}
	for a := 0; a < len(tri); a++ {
		for b := a + 1; b < len(tri); b++ {
			for c := b + 1; c < len(tri); c++ {
				sets = append(sets, []int{tri[a], tri[b], tri[c]})
			}
		}
	}
	placements := []string{"field", "named"}
	if thorough {
		placements = []string{"field", "optfield", "named", "root"}
	}
	var out []*Input
	for _, s := range sets {
		for _, p := range placements {
			u := unionInput{branches: s, placement: p}
			out = append(out, u.jsonInput())
			if thorough {
				if in, ok := u.cueInput(); ok {
					out = append(out, in)
				}
			}
		}
	}
	return out
}
