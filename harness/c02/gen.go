//go:build verif

package main

import (
	"context"
	"encoding/json"
	"flag"
	"fmt"
	"os"
	"path/filepath"
	"runtime"
	"sync"
	"time"

	"github.com/grafana/cog/internal/ast"
	"github.com/grafana/cog/internal/ast/compiler"
	"github.com/grafana/cog/internal/codegen"
	"github.com/grafana/cog/verifx/genrun"
	"github.com/grafana/cog/verifx/irgen"
	"github.com/grafana/cog/verifx/vx"
)

// Part C feeds directly constructed IRs to the REAL codegen.Pipeline.Run
// through an exported hook: Pipeline.Transforms.CommonPasses (a
// compiler.Passes value that replaces the `transformations.schemas` files).
// The pipeline is loaded from a YAML file with one trivial JSON Schema input
// (LoadSchemas returns early when no input yields a schema) and the first
// common pass replaces the parsed schemas by the constructed IR. Everything
// downstream (language passes, builder derivation, jennies, post-processors)
// is Pipeline.Run itself.

var irWorkerFlag = flag.String("c02-ir-worker", "", "internal: IR generation worker mode (workspace dir)")

type irRequest struct {
	Unit genrun.Unit      `json:"unit"`
	Spec irgen.SchemaSpec `json:"spec"`
}

type injectIR struct{ spec irgen.SchemaSpec }

func (p *injectIR) Process(_ []*ast.Schema) ([]*ast.Schema, error) { return p.spec.Build(), nil }

const dummySchema = `{"$schema": "http://json-schema.org/draft-07/schema#", "$ref": "#/definitions/Dummy", "definitions": {"Dummy": {"type": "string"}}}`

func maybeServeIR() {
	if *irWorkerFlag == "" {
		return
	}
	ws := *irWorkerFlag
	if err := os.Chdir(ws); err != nil {
		fmt.Fprintln(os.Stderr, "c02 ir worker:", err)
		os.Exit(2)
	}
	vx.ServeWorker(func(req []byte) []byte {
		var r irRequest
		if err := json.Unmarshal(req, &r); err != nil {
			return []byte(`{"status":"harness-error"}`)
		}
		b, _ := json.Marshal(generateIR(ws, r))
		return b
	})
	os.Exit(0)
}

func generateIR(ws string, r irRequest) genrun.Result {
	u := r.Unit
	res := genrun.Result{ID: u.ID}
	in := filepath.Join(ws, "in", u.ID)
	os.MkdirAll(in, 0o755)
	os.WriteFile(filepath.Join(in, "dummy.json"), []byte(dummySchema), 0o644)
	cfg := filepath.Join(in, "pipeline.yaml")
	os.WriteFile(cfg, []byte(u.PipelineYAML(ws)), 0o644)
	p := vx.CatchStack(func() {
		pl, err := codegen.PipelineFromFile(cfg, codegen.Parameters(nil))
		if err != nil {
			res.Status, res.Err = "config-error", err.Error()
			return
		}
		pl.Transforms.CommonPasses = compiler.Passes{&injectIR{spec: r.Spec}}
		fs, err := pl.Run(context.Background())
		if err != nil {
			res.Status, res.Err = "error", err.Error()
			return
		}
		res.Status = "ok"
		for _, f := range fs.AsFiles() {
			dst := filepath.Join(ws, f.RelativePath)
			os.MkdirAll(filepath.Dir(dst), 0o755)
			if err := os.WriteFile(dst, f.Data, 0o644); err != nil {
				res.Status, res.Err = "harness-error", err.Error()
				return
			}
			res.Files = append(res.Files, f.RelativePath)
		}
	})
	if p != nil {
		res.Status, res.Err, res.PanicSite = "panic", p.Value, p.Site
	}
	return res
}

const dummyInputYAML = "- jsonschema: {path: '%DIR%/dummy.json', package: dummy}"

// generateIRs runs IR requests on a pool of crash-isolated workers.
func generateIRs(ws *genrun.Workspace, reqs []irRequest) map[string]*genrun.Result {
	out := make(map[string]*genrun.Result, len(reqs))
	var mu sync.Mutex
	ch := make(chan irRequest)
	var wg sync.WaitGroup
	n := runtime.NumCPU()
	if n > len(reqs) {
		n = len(reqs)
	}
	for i := 0; i < n; i++ {
		wg.Add(1)
		go func() {
			defer wg.Done()
			wk := &vx.Worker{Args: []string{"--c02-ir-worker", ws.Dir}, Env: []string{"GOMAXPROCS=2"}, Timeout: 60 * time.Second}
			defer wk.Close()
			for rq := range ch {
				b, _ := json.Marshal(rq)
				resp, died := wk.Do(b)
				r := &genrun.Result{ID: rq.Unit.ID}
				if died {
					r.Status = "fatal"
					r.Err = "the process died (fatal error: stack overflow, out of memory, ...)"
					if wk.Hung {
						r.Status = "hang"
						r.Err = "no answer within 60 s (a run takes milliseconds)"
					}
				} else if err := json.Unmarshal(resp, r); err != nil {
					vx.Fatalf("c02: bad IR worker answer: %v", err)
				}
				mu.Lock()
				out[rq.Unit.ID] = r
				mu.Unlock()
			}
		}()
	}
	for _, r := range reqs {
		ch <- r
	}
	close(ch)
	wg.Wait()
	return out
}
