//go:build verif

package main

import (
	"encoding/json"
	"os"
	"path/filepath"
	"runtime"
	"strings"
	"sync"
	"time"

	"github.com/grafana/cog/verifx/vx"
)

// The Python oracle: every generated .py file byte-compiles (py_compile, the
// module behind `python3 -m py_compile`) and every generated module imports.
// The generated tree uses relative imports (`from ..cog import ...`), so the
// unit directory itself is the top-level package: sys.path holds out/python
// and the modules are imported as <unit id>.<path>. One long-lived
// interpreter per worker; the unit's modules are purged from sys.modules
// after each unit, so every unit starts from an interpreter that has never
// seen a generated module.
const pyDriver = `
import sys, os, json, importlib, py_compile, tempfile
root = sys.argv[1]
sys.path.insert(0, root)
sys.dont_write_bytecode = True
tmp = tempfile.mkdtemp(prefix="c02py.", dir=os.path.dirname(os.path.abspath(root)))  # inside the workspace: removed with it
cfile = os.path.join(tmp, "x.pyc")
for line in sys.stdin:
    req = json.loads(line)
    unit = req["id"]
    base = os.path.join(root, unit)
    errs = []
    files = []
    for d, _, fs in os.walk(base):
        for f in fs:
            if f.endswith(".py"):
                files.append(os.path.relpath(os.path.join(d, f), base))
    files.sort()
    broken = set()
    for rel in files:
        try:
            py_compile.compile(os.path.join(base, rel), cfile=cfile, doraise=True)
        except py_compile.PyCompileError as e:
            broken.add(rel)
            errs.append({"clause": "compile", "file": rel, "msg": "%s: %s" % (e.exc_type_name, getattr(e.exc_value, "msg", None) or str(e.exc_value))})
        except BaseException as e:
            broken.add(rel)
            errs.append({"clause": "compile", "file": rel, "msg": "%s: %s" % (type(e).__name__, e)})
    seen_msgs = set()
    prio = {"cog": 0, "models": 1, "builders": 2}
    for rel in sorted(files, key=lambda r: (prio.get(r.split(os.sep)[0], 3), r)):
        mod = rel[:-3].replace(os.sep, ".")
        if mod.endswith("__init__"):
            mod = mod[:-len("__init__")].rstrip(".")
        name = unit + ("." + mod if mod else "")
        try:
            importlib.import_module(name)
        except BaseException as e:
            if broken and isinstance(e, SyntaxError):
                continue  # already reported by the byte-compilation of the broken file
            msg = "%s: %s" % (type(e).__name__, e)
            if msg in seen_msgs:
                continue  # the same failure seen through a module that imports the failing one
            seen_msgs.add(msg)
            errs.append({"clause": "import", "file": rel, "msg": msg})
    for k in list(sys.modules):
        if k == unit or k.startswith(unit + "."):
            del sys.modules[k]
    importlib.invalidate_caches()
    sys.stdout.write(json.dumps({"errs": errs, "files": len(files)}) + "\n")
    sys.stdout.flush()
`

type pyErr struct {
	Clause string `json:"clause"`
	File   string `json:"file"`
	Msg    string `json:"msg"`
}

func (e *Evaluator) checkPython(cases []*Case, files map[string][]string) {
	reps, hashOf := e.dedup(cases, files, ".py")
	script := filepath.Join(e.ws.Dir, "pydriver.py")
	if _, err := os.Stat(script); err != nil {
		os.WriteFile(script, []byte(pyDriver), 0o644)
	}
	root := filepath.Join(e.ws.Dir, "out/python")
	ch := make(chan *Case)
	var wg sync.WaitGroup
	n := runtime.NumCPU()
	if n > len(reps) {
		n = len(reps)
	}
	for i := 0; i < n; i++ {
		wg.Add(1)
		go func() {
			defer wg.Done()
			wk := &vx.Worker{Bin: "python3", Args: []string{"-u", "-B", script, root}, Timeout: 60 * time.Second}
			defer wk.Close()
			for c := range ch {
				b, _ := json.Marshal(map[string]string{"id": c.ID})
				resp, died := wk.Do(b)
				var v []rawDiag
				if died {
					v = append(v, rawDiag{Clause: "import", Text: "importing the generated modules kills or hangs the interpreter"})
				} else {
					var ans struct {
						Errs  []pyErr `json:"errs"`
						Files int     `json:"files"`
					}
					if err := json.Unmarshal(resp, &ans); err != nil {
						vx.Fatalf("python driver: bad answer %q: %v", resp, err)
					}
					for _, pe := range ans.Errs {
						v = append(v, rawDiag{Clause: pe.Clause, Text: pe.Msg + " [" + pe.File + "]"})
					}
				}
				for i := range v {
					v[i].Text = strings.ReplaceAll(v[i].Text, c.ID, "UNIT")
				}
				e.vmu.Lock()
				e.verdicts[hashOf[c.ID]] = dedupRaw(v)
				e.vmu.Unlock()
			}
		}()
	}
	for _, c := range reps {
		ch <- c
	}
	close(ch)
	wg.Wait()
	e.applyVerdicts(cases, hashOf)
}
