//go:build verif

// C19: explicit-state BFS to a fixpoint over the real orderedmap.Map against
// a slice-of-pairs reference model (DESIGN.md §6 C19).
package main

import (
	"bytes"
	"encoding/json"
	"fmt"
	"os"
	"reflect"
	"sort"
	"strings"

	"github.com/grafana/cog/internal/orderedmap"
	"github.com/grafana/cog/verifx/vx"
)

type M = orderedmap.Map[string, int]

type pair struct {
	K string
	V int
}

// model is the boring reference: a slice of pairs in first-insertion order.
type model []pair

func (m model) idx(k string) int {
	for i, p := range m {
		if p.K == k {
			return i
		}
	}
	return -1
}
func (m model) set(k string, v int) model {
	m = append(model(nil), m...)
	if i := m.idx(k); i >= 0 {
		m[i].V = v
		return m
	}
	return append(m, pair{k, v})
}
func (m model) remove(k string) model {
	out := model{}
	for _, p := range m {
		if p.K != k {
			out = append(out, p)
		}
	}
	return out
}
func (m model) String() string {
	var parts []string
	for _, p := range m {
		parts = append(parts, fmt.Sprintf("%s:%d", p.K, p.V))
	}
	return "[" + strings.Join(parts, ",") + "]"
}
func (m model) json() string {
	var parts []string
	for _, p := range m {
		parts = append(parts, fmt.Sprintf("%q:%d", p.K, p.V))
	}
	return "{" + strings.Join(parts, ",") + "}"
}
func (m model) build() *M {
	x := orderedmap.New[string, int]()
	for _, p := range m {
		x.Set(p.K, p.V)
	}
	return x
}

// op is one transition of the alphabet: it acts on the real map (possibly
// replacing it by a derived map) and on the model, and may report a mismatch.
type op struct {
	Name string
	// Arg reductions: names of simpler ops of the same family (for the frontier).
	Simpler []string
	// Derived: the operation is documented as returning a NEW map (Filter, Map,
	// FromMap, decoding into a fresh map): the result must be independent of the receiver.
	Derived bool
	Do      func(x *M, m model) (*M, model, string)
}

func canonImpl(x *M) string {
	order, records := orderedmap.VerifState(x)
	keys := make([]string, 0, len(records))
	for k := range records {
		keys = append(keys, k)
	}
	sort.Strings(keys)
	var recs []string
	for _, k := range keys {
		recs = append(recs, fmt.Sprintf("%s:%d", k, records[k]))
	}
	return "order=" + strings.Join(order, ",") + " records=" + strings.Join(recs, ",")
}

func canonModel(m model) string {
	var order, recs []string
	s := append(model(nil), m...)
	for _, p := range m {
		order = append(order, p.K)
	}
	sort.Slice(s, func(i, j int) bool { return s[i].K < s[j].K })
	for _, p := range s {
		recs = append(recs, fmt.Sprintf("%s:%d", p.K, p.V))
	}
	return "order=" + strings.Join(order, ",") + " records=" + strings.Join(recs, ",")
}

func alphabet(keys []string, vals []int) []op {
	var ops []op
	for ki, k := range keys {
		for vi, v := range vals {
			k, v := k, v
			var simpler []string
			if ki > 0 {
				simpler = append(simpler, fmt.Sprintf("Set(%s,%d)", keys[0], v))
			}
			if vi > 0 {
				simpler = append(simpler, fmt.Sprintf("Set(%s,%d)", k, vals[0]))
			}
			ops = append(ops, op{Name: fmt.Sprintf("Set(%s,%d)", k, v), Simpler: simpler, Do: func(x *M, m model) (*M, model, string) {
				x.Set(k, v)
				return x, m.set(k, v), ""
			}})
		}
	}
	for ki, k := range keys {
		k := k
		var simpler []string
		if ki > 0 {
			simpler = append(simpler, fmt.Sprintf("Remove(%s)", keys[0]))
		}
		ops = append(ops, op{Name: fmt.Sprintf("Remove(%s)", k), Simpler: simpler, Do: func(x *M, m model) (*M, model, string) {
			x.Remove(k)
			return x, m.remove(k), ""
		}})
	}
	sortOp := func(name string, less func(a, b string) bool) op {
		return op{Name: name, Do: func(x *M, m model) (*M, model, string) {
			x.Sort(less)
			mm := append(model(nil), m...)
			// reference: stable insertion sort (documented: equal elements keep their order)
			for i := 1; i < len(mm); i++ {
				for j := i; j > 0 && less(mm[j].K, mm[j-1].K); j-- {
					mm[j], mm[j-1] = mm[j-1], mm[j]
				}
			}
			return x, mm, ""
		}}
	}
	ops = append(ops,
		sortOp("Sort(asc)", func(a, b string) bool { return a < b }),
		sortOp("Sort(desc)", func(a, b string) bool { return a > b }),
		sortOp("Sort(a-first)", func(a, b string) bool { return a == "a" && b != "a" }),
	)
	filter := func(name string, pred func(k string, v int) bool) op {
		return op{Name: name, Derived: true, Do: func(x *M, m model) (*M, model, string) {
			before := canonImpl(x)
			y := x.Filter(pred)
			if after := canonImpl(x); after != before {
				return y, m, "receiver modified by Filter: " + before + " -> " + after
			}
			out := model{}
			for _, p := range m {
				if pred(p.K, p.V) {
					out = append(out, p)
				}
			}
			return y, out, ""
		}}
	}
	ops = append(ops,
		filter("Filter(all)", func(string, int) bool { return true }),
		filter("Filter(none)", func(string, int) bool { return false }),
		filter("Filter(key!=a)", func(k string, _ int) bool { return k != "a" }),
		filter("Filter(val==1)", func(_ string, v int) bool { return v == 1 }),
	)
	mapOp := func(name string, f func(k string, v int) int) op {
		return op{Name: name, Derived: true, Do: func(x *M, m model) (*M, model, string) {
			before := canonImpl(x)
			y := x.Map(f)
			if after := canonImpl(x); after != before {
				return y, m, "receiver modified by Map: " + before + " -> " + after
			}
			out := model{}
			for _, p := range m {
				out = append(out, pair{p.K, f(p.K, p.V)})
			}
			return y, out, ""
		}}
	}
	lo, hi := vals[0], vals[len(vals)-1]
	ops = append(ops,
		mapOp("Map(ident)", func(_ string, v int) int { return v }),
		mapOp("Map(flip)", func(_ string, v int) int { return lo + hi - v }),
	)
	decode := func(doc string, pairs model) op {
		return op{Name: "UnmarshalJSON(" + doc + ")", Do: func(x *M, m model) (*M, model, string) {
			if err := x.UnmarshalJSON([]byte(doc)); err != nil {
				return x, m, "UnmarshalJSON error: " + err.Error()
			}
			// Lenient (DESIGN C19): the decoder is documented as not
			// order-preserving, so only the *set* of pairs is demanded for
			// keys new to the map; existing keys must keep their relative order.
			mm := m
			for _, p := range pairs {
				mm = mm.set(p.K, p.V)
			}
			order, _ := orderedmap.VerifState(x)
			return x, resync(mm, m, order), ""
		}}
	}
	ops = append(ops,
		decode(`{}`, nil),
		decode(`{"a":1}`, model{{"a", 1}}),
		decode(fmt.Sprintf(`{"%s":%d,"a":%d}`, keys[len(keys)-1], hi, hi), model{{keys[len(keys)-1], hi}, {"a", hi}}),
	)
	ops = append(ops, op{Name: "Marshal->Unmarshal(fresh)", Derived: true, Do: func(x *M, m model) (*M, model, string) {
		b, err := x.MarshalJSON()
		if err != nil {
			return x, m, "MarshalJSON error: " + err.Error()
		}
		y := orderedmap.New[string, int]()
		if err := json.Unmarshal(b, y); err != nil {
			return y, m, "UnmarshalJSON of own encoding failed: " + err.Error()
		}
		order, _ := orderedmap.VerifState(y)
		return y, resync(m, nil, order), ""
	}})
	ops = append(ops, op{Name: "FromMap(records)", Derived: true, Do: func(x *M, m model) (*M, model, string) {
		g := map[string]int{}
		for _, p := range m {
			g[p.K] = p.V
		}
		y := orderedmap.FromMap(g)
		mm := append(model(nil), m...)
		sort.Slice(mm, func(i, j int) bool { return mm[i].K < mm[j].K })
		return y, mm, ""
	}})
	// Re-entrant histories: a callback of Iterate / Filter / Map calls Remove or Set on the
	// map being walked, once, when it is handed key t. The statement's sequences include
	// these (the inner call is an operation between two callback invocations). Demanded:
	// no panic; the callback only ever sees keys that are (or were, at the start) in the map,
	// each at most once, the old ones in first-insertion order, and none of the keys the inner
	// call does not touch is skipped; afterwards the map is what the model says. Left open:
	// whether a key removed (added) by the inner call is still (already) visited, and which
	// value it is visited with.
	for _, kind := range []string{"Iterate", "Filter", "Map"} {
		for _, t := range keys {
			for _, k := range keys {
				for _, act := range []string{"Remove", "Set"} {
					kind, t, k, act := kind, t, k, act
					val := vals[len(vals)-1]
					if len(vals) > 1 {
						val = vals[1]
					}
					name := fmt.Sprintf("%s[at %s: %s(%s)]", kind, t, act, k)
					if act == "Set" {
						name = fmt.Sprintf("%s[at %s: Set(%s,%d)]", kind, t, k, val)
					}
					ops = append(ops, op{Name: name, Do: func(x *M, m model) (*M, model, string) {
						snapshot := append(model(nil), m...)
						var visited []string
						fired := false
						cb := func(key string, _ int) {
							visited = append(visited, key)
							if key == t && !fired {
								fired = true
								if act == "Remove" {
									x.Remove(k)
								} else {
									x.Set(k, val)
								}
							}
						}
						switch kind {
						case "Iterate":
							x.Iterate(func(key string, v int) { cb(key, v) })
						case "Filter":
							x.Filter(func(key string, v int) bool { cb(key, v); return true })
						case "Map":
							x.Map(func(key string, v int) int { cb(key, v); return v })
						}
						mm := m
						if snapshot.idx(t) >= 0 {
							if act == "Remove" {
								mm = m.remove(k)
							} else {
								mm = m.set(k, val)
							}
						}
						return x, mm, visitedNote(kind, snapshot, visited, k, act == "Set")
					}})
				}
			}
		}
	}
	return ops
}

// visitedNote judges the keys handed to a callback during a re-entrant walk.
func visitedNote(kind string, snapshot model, visited []string, touched string, added bool) string {
	seen := map[string]bool{}
	last := -1
	for _, key := range visited {
		if seen[key] {
			return fmt.Sprintf("%s callback: key %q handed to the callback twice (visited %v)", kind, key, visited)
		}
		seen[key] = true
		i := snapshot.idx(key)
		if i < 0 {
			if added && key == touched {
				continue
			}
			return fmt.Sprintf("%s callback: called with key %q, which is not a key of the map (visited %v)", kind, key, visited)
		}
		if i < last {
			return fmt.Sprintf("%s callback: keys not visited in first-insertion order (visited %v)", kind, visited)
		}
		last = i
	}
	for _, p := range snapshot {
		if p.K != touched && !seen[p.K] {
			return fmt.Sprintf("%s callback: key %q skipped although the inner call does not touch it (visited %v)", kind, p.K, visited)
		}
	}
	return ""
}

// resync re-orders the keys of want that were not in old following the
// implementation's order (decoder leniency); keys already in old keep the
// model's order, so a decoder that disturbs existing keys is still caught by
// the state comparison.
func resync(want, old model, implOrder []string) model {
	isNew := map[string]bool{}
	for _, p := range want {
		if old.idx(p.K) < 0 {
			isNew[p.K] = true
		}
	}
	out := model{}
	for _, p := range want {
		if !isNew[p.K] {
			out = append(out, p)
		}
	}
	for _, k := range implOrder {
		if isNew[k] {
			if i := want.idx(k); i >= 0 {
				out = append(out, want[i])
				delete(isNew, k)
			}
		}
	}
	for _, p := range want { // keys the implementation lost stay in the model → mismatch reported
		if isNew[p.K] {
			out = append(out, p)
		}
	}
	return out
}

// observe checks every read-only operation of the API against the model.
func observe(x *M, m model, keys []string) (mismatches []string) {
	add := func(format string, a ...any) { mismatches = append(mismatches, fmt.Sprintf(format, a...)) }
	guard := func(name string, f func()) {
		if p := vx.Catch(f); p != nil {
			add("%s: panic: %v", name, p)
		}
	}
	order, records := orderedmap.VerifState(x)
	if len(order) != len(records) {
		add("bijection: len(order)=%d len(records)=%d", len(order), len(records))
	}
	seen := map[string]bool{}
	for _, k := range order {
		if seen[k] {
			add("bijection: key %q twice in order", k)
		}
		seen[k] = true
		if _, ok := records[k]; !ok {
			add("bijection: key %q in order but not in records", k)
		}
	}
	guard("Len", func() {
		if x.Len() != len(m) {
			add("Len: got %d want %d", x.Len(), len(m))
		}
	})
	for _, k := range keys {
		k := k
		guard("Has", func() {
			if got, want := x.Has(k), m.idx(k) >= 0; got != want {
				add("Has(%s): got %v want %v", k, got, want)
			}
		})
		guard("Get", func() {
			want := 0
			if i := m.idx(k); i >= 0 {
				want = m[i].V
			}
			if got := x.Get(k); got != want {
				add("Get(%s): got %d want %d", k, got, want)
			}
		})
	}
	for i := range m {
		i := i
		guard("At", func() {
			if got := x.At(i); got != m[i].V {
				add("At(%d): got %d want %d", i, got, m[i].V)
			}
		})
	}
	guard("Values", func() {
		want := []int{}
		for _, p := range m {
			want = append(want, p.V)
		}
		got := x.Values()
		if !reflect.DeepEqual(append([]int{}, got...), want) {
			add("Values: got %v want %v", got, want)
		}
		before := canonImpl(x)
		for i := range got {
			got[i] = -99
		}
		if canonImpl(x) != before {
			add("Values: returned slice aliases the map")
		}
	})
	guard("Iterate", func() {
		var got model
		x.Iterate(func(k string, v int) { got = append(got, pair{k, v}) })
		if got.String() != m.String() {
			add("Iterate: got %s want %s", got, m)
		}
	})
	guard("MarshalJSON", func() {
		b, err := x.MarshalJSON()
		if err != nil {
			add("MarshalJSON: error %v", err)
			return
		}
		var buf bytes.Buffer
		if err := json.Compact(&buf, b); err != nil {
			add("MarshalJSON: invalid JSON %q: %v", b, err)
			return
		}
		if buf.String() != m.json() {
			add("MarshalJSON: got %s want %s", buf.String(), m.json())
		}
	})
	guard("Equal", func() {
		if len(m) == 0 {
			// Equal is not one of the operations the statement lists and it
			// distinguishes a nil from an empty key list (a map emptied by
			// Remove vs a new one); nothing is demanded of it on empty maps.
			return
		}
		if !x.Equal(m.build()) {
			add("Equal: not equal to a map built by the same insertions")
		}
		if !m.build().Equal(x) {
			add("Equal: asymmetric (fresh.Equal(x) false)")
		}
		if len(m) >= 2 {
			sw := append(model(nil), m...)
			sw[0], sw[1] = sw[1], sw[0]
			if x.Equal(sw.build()) {
				add("Equal: equal to a map with another order")
			}
		}
		if len(m) >= 1 {
			ch := append(model(nil), m...)
			ch[0].V += 10
			if x.Equal(ch.build()) {
				add("Equal: equal to a map with another value")
			}
			if x.Equal(m[1:].build()) {
				add("Equal: equal to a map lacking a key")
			}
		}
	})
	if ci, cm := canonImpl(x), canonModel(m); ci != cm {
		add("state: impl {%s} model {%s}", ci, cm)
	}
	return mismatches
}

type state struct {
	seq []int // op indexes reaching it from the empty map
	m   model
}

func replaySeq(ops []op, seq []int) (x *M, m model, err string) {
	x = orderedmap.New[string, int]()
	m = model{}
	for _, i := range seq {
		var note string
		if p := vx.Catch(func() { x, m, note = ops[i].Do(x, m) }); p != nil {
			return x, m, fmt.Sprintf("panic in %s: %v", ops[i].Name, p)
		}
		_ = note
	}
	return x, m, ""
}

func seqNames(ops []op, seq []int) []string {
	out := []string{}
	for _, i := range seq {
		out = append(out, ops[i].Name)
	}
	return out
}

func isMutator(name string) bool {
	return strings.HasPrefix(name, "Set(") || strings.HasPrefix(name, "Remove(") || strings.HasPrefix(name, "Sort(") || strings.HasPrefix(name, "UnmarshalJSON(")
}

func stripArgs(name string) string {
	if i := strings.Index(name, "("); i > 0 {
		return name[:i]
	}
	return name
}

func clause(msg string) string {
	// normalised failure kind: the text before the first ':' plus the message class
	msg = strings.TrimSpace(msg)
	if i := strings.Index(msg, ":"); i > 0 {
		head := msg[:i]
		if j := strings.Index(head, "("); j > 0 {
			head = head[:j]
		}
		rest := msg[i+1:]
		switch {
		case strings.Contains(rest, "panic"):
			// keep the panic message class
			return head + ":" + stripDigits(rest)
		default:
			f := strings.Fields(rest)
			if len(f) > 3 {
				f = f[:3]
			}
			return head + ":" + stripDigits(strings.Join(f, " "))
		}
	}
	return stripDigits(msg)
}

func stripDigits(s string) string {
	var b strings.Builder
	for _, r := range s {
		if r >= '0' && r <= '9' {
			b.WriteByte('N')
		} else {
			b.WriteRune(r)
		}
	}
	return b.String()
}

func main() {
	r := vx.Start("C19")
	keys, vals := []string{"a", "b", "c"}, []int{1, 2}
	maxStates := 20000
	if r.Thorough() {
		keys, vals = []string{"a", "b", "c", "d"}, []int{1, 2, 3}
		maxStates = 200000
	}
	ops := alphabet(keys, vals)
	opIndex := map[string]int{}
	for i, o := range ops {
		opIndex[o.Name] = i
	}

	if r.Replay != "" {
		_, witness, detail := r.ReplayFile()
		var d struct {
			Sequence []string `json:"sequence"`
			Op       string   `json:"op"`
		}
		json.Unmarshal(detail, &d)
		// the replay alphabet is the thorough one so that every recorded name exists
		ops = alphabet([]string{"a", "b", "c", "d"}, []int{1, 2, 3})
		opIndex = map[string]int{}
		for i, o := range ops {
			opIndex[o.Name] = i
		}
		var seq []int
		for _, n := range append(d.Sequence, d.Op) {
			i, ok := opIndex[n]
			if !ok {
				vx.Fatalf("unknown op %q in replay", n)
			}
			seq = append(seq, i)
		}
		fmt.Println("replaying", witness, "sequence", append(d.Sequence, d.Op))
		bad := false
		x, m := orderedmap.New[string, int](), model{}
		for _, i := range seq {
			var note string
			if p := vx.Catch(func() { x, m, note = ops[i].Do(x, m) }); p != nil {
				fmt.Printf("  %s: PANIC %v\n", ops[i].Name, p)
				bad = true
				break
			}
			mm := observe(x, m, []string{"a", "b", "c", "d"})
			if note != "" {
				mm = append(mm, note)
			}
			fmt.Printf("  %s -> impl {%s} model %s mismatches=%v\n", ops[i].Name, canonImpl(x), m, mm)
			if len(mm) > 0 {
				bad = true
			}
		}
		if bad {
			fmt.Printf("VIOLATION property=C19 replay=%s\n", r.Replay)
			exit(1)
		}
		fmt.Println("replay: no mismatch on this tree")
		exit(0)
	}

	// BFS to a fixpoint. A state is identified by the canonical private state
	// of the real object (order + records): the complete state, so merged
	// states have the same futures.
	seen := map[string]*state{}
	init := &state{}
	x0, m0, _ := replaySeq(ops, nil)
	seen[canonImpl(x0)] = init
	for _, mm := range observe(x0, m0, keys) {
		r.Fail(vx.Failure{Kind: "observe/" + clause(mm), Witness: "state=[] (initial)", What: mm, Detail: map[string]any{"sequence": []string{}, "op": ""}})
	}
	frontier := []*state{init}
	transitions, depth := 0, 0
	outcomes := map[string]bool{}
	samples := &vx.Samples{N: 6}
	exhaustive := true
	type failRec struct {
		kind, pre, opName, what string
		seq                     []string
	}
	modelCanonOf := map[string]string{} // impl canon -> model string (for parents)
	modelCanonOf[canonImpl(x0)] = m0.String()
	for len(frontier) > 0 {
		depth++
		var next []*state
		for _, st := range frontier {
			for oi, o := range ops {
				x, m, _ := replaySeq(ops, st.seq)
				pre := m.String()
				preImpl := canonImpl(x)
				var note string
				var nm model
				var nx *M
				transitions++
				p := vx.Catch(func() { nx, nm, note = o.Do(x, m) })
				var mism []string
				if p != nil {
					mism = []string{fmt.Sprintf("%s: panic: %v", o.Name, p)}
				} else {
					if note != "" {
						mism = append(mism, o.Name+": "+note)
					}
					for _, s := range observe(nx, nm, keys) {
						mism = append(mism, o.Name+" then "+s)
					}
				}
				for _, s := range mism {
					// parents: same op on the state minus one key; simpler op on the same state
					var parents []string
					for i := range m {
						red := append(append(model(nil), m[:i]...), m[i+1:]...)
						parents = append(parents, fmt.Sprintf("state=%s op=%s", red, o.Name))
					}
					for i := range m {
						if m[i].V != vals[0] {
							red := append(model(nil), m...)
							red[i].V = vals[0]
							parents = append(parents, fmt.Sprintf("state=%s op=%s", red, o.Name))
						}
					}
					for _, so := range o.Simpler {
						parents = append(parents, fmt.Sprintf("state=%s op=%s", pre, so))
					}
					r.Fail(vx.Failure{
						Kind:    clause(s),
						Witness: fmt.Sprintf("state=%s op=%s", pre, o.Name),
						Size:    len(m),
						Parents: parents,
						What:    fmt.Sprintf("from %s (impl {%s}): %s", pre, preImpl, s),
						Detail:  map[string]any{"sequence": seqNames(ops, st.seq), "op": o.Name},
					})
				}
				// Derived maps (Filter, Map, FromMap, decode into a fresh map) must be
				// independent of their source: apply every mutating operation to one of
				// the two and check that the other one does not move (one-step lookahead
				// over the pair, both directions).
				if p == nil && (nx != x || o.Derived) {
					for mi, mo := range ops {
						if !isMutator(mo.Name) {
							continue
						}
						for _, side := range []string{"derived", "source"} {
							src, sm, _ := replaySeq(ops, st.seq)
							var der *M
							var dm model
							if pp := vx.Catch(func() { der, dm, _ = o.Do(src, sm) }); pp != nil {
								continue
							}
							transitions++
							target, other, tm := der, src, dm
							if side == "source" {
								target, other, tm = src, der, sm
							}
							before := canonImpl(other)
							if pp := vx.Catch(func() { ops[mi].Do(target, tm) }); pp != nil {
								continue // panics of the mutator itself are reported on its own transition
							}
							if after := canonImpl(other); after != before {
								msg := fmt.Sprintf("%s: the %s map is not independent: %s on it changes the other map {%s} -> {%s}", o.Name, side, stripArgs(mo.Name), before, after)
								r.Fail(vx.Failure{
									Kind:    clause(fmt.Sprintf("%s: %s map aliased, visible through %s", stripArgs(o.Name), side, stripArgs(mo.Name))),
									Witness: fmt.Sprintf("state=%s op=%s then %s on the %s", pre, o.Name, mo.Name, side),
									Size:    len(m),
									What:    fmt.Sprintf("from %s: %s", pre, msg),
									Detail:  map[string]any{"sequence": seqNames(ops, st.seq), "op": o.Name},
								})
							}
						}
					}
				}
				outcomes[fmt.Sprintf("%s|%v", o.Name, len(mism) == 0)] = true
				if p != nil {
					continue
				}
				c := canonImpl(nx)
				if _, ok := seen[c]; !ok {
					if len(seen) >= maxStates {
						exhaustive = false
						continue
					}
					ns := &state{seq: append(append([]int(nil), st.seq...), oi), m: nm}
					seen[c] = ns
					next = append(next, ns)
					samples.Add(map[string]any{"sequence": seqNames(ops, ns.seq), "state": c})
				}
			}
		}
		frontier = next
	}
	// non-vacuity figures: distinct model states reached
	distinctModel := map[string]bool{}
	for _, st := range seen {
		distinctModel[st.m.String()] = true
	}
	opNames := []string{}
	for _, o := range ops {
		opNames = append(opNames, o.Name)
	}
	r.Finish(map[string]any{
		"states":                        len(seen),
		"transitions":                   transitions,
		"traces_validated_against_impl": transitions,
		"samples":                       samples.L,
		"exhaustive":                    exhaustive,
		"fixpoint_reached":              exhaustive,
		"bfs_depth":                     depth,
		"alphabet":                      opNames,
		"keys":                          keys,
		"values":                        vals,
		"distinct_model_states":         len(distinctModel),
		"distinct_op_outcomes":          len(outcomes),
		"read_only_checks_per_state":    "Len, Has/Get per key, At per index, Values(+aliasing), Iterate, MarshalJSON bytes, Equal(4 variants), order/records bijection, full private state vs model",
		"explanation":                   "explicit-state BFS over the real orderedmap.Map; every transition executes the implementation; search ends when no new canonical private state appears, so the verdict covers operation sequences of any length over this alphabet",
	}, []string{
		"canonical state = private (order, records) via overlay export shim; it is the complete state of the object",
		"JSON decoding is documented as not order-preserving: new keys may appear in any order, existing keys must keep theirs",
		"At with an out-of-range index is outside the alphabet",
	})
}

func exit(code int) { os.Exit(code) }
