//go:build verif

// C17: builder transformations (veneers) keep builders well-typed and do only
// what they document. Engine E1 (DESIGN.md §2.2, §6 C17): explicit-state
// breadth-first search over sequences of veneer rules. Every transition loads
// the rules through cog's YAML veneers loader and applies them with the real
// rewrite.Rewriter to builders freshly derived by the real BuilderGenerator;
// the state invariant and the per-rule contracts (Appendix A.4) are evaluated
// on every transition by an oracle written from the property statement.
package main

import (
	"crypto/sha256"
	"encoding/json"
	"fmt"
	"os"
	"regexp"
	"runtime"
	"runtime/debug"
	"runtime/pprof"
	"sort"
	"strings"
	"sync"
	"sync/atomic"
	"syscall"
	"time"

	"github.com/grafana/cog/internal/ast"
	"github.com/grafana/cog/internal/veneers/rewrite"
	cogyaml "github.com/grafana/cog/internal/yaml"
	"github.com/grafana/cog/verifx/refl"
	"github.com/grafana/cog/verifx/vx"
)

// State is the outcome of one rule sequence applied to a seed.
type State struct {
	Seq       []*Rule
	Builders  []ast.Builder // never handed back to cog
	NBuilders int
	BC        []string // canonical rendering of every builder
	Hash      [32]byte
	ocMu      sync.Mutex
	oc        map[int][]string
	Inv       map[string]bool // descriptors of the invariant violations present
	Err       string          // error returned by the rewriter ("" if none)
	Panic     string          // recovered panic ("" if none)
}

func (s *State) ok() bool { return s.Err == "" && s.Panic == "" }

// optCanon returns (and caches) the canonical rendering of every option of builder i.
func (s *State) optCanon(i int) []string {
	s.ocMu.Lock()
	defer s.ocMu.Unlock()
	if c, ok := s.oc[i]; ok {
		return c
	}
	if s.oc == nil {
		s.oc = map[int][]string{}
	}
	c := make([]string, len(s.Builders[i].Options))
	for k := range c {
		c[k] = canonOf(s.Builders[i].Options[k])
	}
	s.oc[i] = c
	return c
}

func (s *State) seal() {
	h := sha256.New()
	s.BC = make([]string, len(s.Builders))
	for i := range s.Builders {
		s.BC[i] = canonOf(s.Builders[i])
		h.Write([]byte(s.BC[i]))
		h.Write([]byte{0})
	}
	copy(s.Hash[:], h.Sum(nil))
	s.Inv = map[string]bool{}
}

// phases assigns every rule of a sequence to a veneer file language so that
// ONE rewriter applies them in exactly the given order: ApplyTo runs the
// builder rules of `all`, the option rules of `all`, then the builder rules
// and the option rules of the language.
func phases(seq []*Rule) ([]string, bool) {
	langs := make([]string, len(seq))
	cur := 0 // 0 all/builders, 1 all/options, 2 go/builders, 3 go/options
	for i, r := range seq {
		want := 1
		if r.B {
			want = 0
		}
		for cur < 4 && cur%2 != want {
			cur++
		}
		if cur >= 4 {
			return nil, false
		}
		langs[i] = "all"
		if cur >= 2 {
			langs[i] = "go"
		}
	}
	return langs, true
}

var transitions atomic.Int64

// apply runs one sequence from the seed's initial state with the real loader
// and rewriter. langs overrides the phase assignment when non-nil.
func apply(seed *Seed, seq []*Rule, langs []string, language string, debug bool) *State {
	st := &State{Seq: seq}
	if langs == nil {
		var ok bool
		if langs, ok = phases(seq); !ok {
			vx.Fatalf("sequence %v cannot be expressed as one rewriter", seqIDs(seq))
		}
	}
	files := make([]string, len(seq))
	for i, r := range seq {
		files[i] = r.file(langs[i])
	}
	transitions.Add(1)
	var out []ast.Builder
	var err error
	p := vx.Catch(func() {
		schemas := seed.Build()
		builders := (&ast.BuilderGenerator{}).FromAST(schemas)
		var rewriter *rewrite.Rewriter
		rewriter, err = cogyaml.NewVeneersLoader().RewriterFrom(files, rewrite.Config{Debug: debug})
		if err != nil {
			err = fmt.Errorf("load: %w", err)
			return
		}
		out, err = rewriter.ApplyTo(schemas, builders, language)
	})
	switch {
	case p != nil:
		st.Panic = fmt.Sprint(p)
	case err != nil:
		st.Err = err.Error()
		if strings.HasPrefix(st.Err, "load: ") {
			vx.Fatalf("rule file of %v does not load: %v", seqIDs(seq), err)
		}
	default:
		st.Builders, st.NBuilders = out, len(out)
		st.seal()
	}
	return st
}

func seqIDs(seq []*Rule) []string {
	out := []string{}
	for _, r := range seq {
		out = append(out, r.ID)
	}
	return out
}

func witness(seed *Seed, seq []*Rule) string {
	return "seed=" + seed.Name + " rules=[" + strings.Join(seqIDs(seq), " ; ") + "]"
}

var digits = regexp.MustCompile(`[0-9]+`)

func panicClass(p string) string {
	p = digits.ReplaceAllString(p, "N")
	if len(p) > 90 {
		p = p[:90]
	}
	return p
}

// ---------------------------------------------------------------------------

type kindStat struct {
	Transitions int `json:"transitions"`
	Changed     int `json:"changed_something"`
	Errors      int `json:"returned_error"`
	Panics      int `json:"panicked"`
	Selected    int `json:"items_selected"`
	Contracts   int `json:"contracts_evaluated"`
}

type explorer struct {
	r         *vx.Run
	mu        sync.Mutex
	perKind   map[string]*kindStat
	perClass  map[string]int
	failKind  map[string]int
	skipped   int
	revived   int
	langRuns  int
	dbgRuns   int
	samples   *vx.Samples
	deadline  time.Time     // hard wall-clock cap
	cpuBudget time.Duration // CPU time (user+system) of this process
	timedOut  atomic.Bool
}

func (e *explorer) detail(seed *Seed, seq []*Rule) map[string]any {
	langs, _ := phases(seq)
	var files []map[string]string
	for i, r := range seq {
		files = append(files, map[string]string{"id": r.ID, "language": langs[i], "yaml": r.text(langs[i])})
	}
	return map[string]any{"seed": seed.Name, "rules": seqIDs(seq), "files": files, "apply_language": "go"}
}

func (e *explorer) fail(seed *Seed, seq []*Rule, kind, what string) {
	var parents []string
	for i := range seq {
		sub := append(append([]*Rule{}, seq[:i]...), seq[i+1:]...)
		parents = append(parents, witness(seed, sub))
	}
	last := 0
	if len(seq) > 0 {
		last = seq[len(seq)-1].Idx
	}
	e.mu.Lock()
	e.failKind[kind]++
	e.mu.Unlock()
	e.r.Fail(vx.Failure{
		Kind:    kind,
		Witness: witness(seed, seq),
		Size:    len(seq)*100000000 + seed.Idx*1000000 + last,
		Parents: parents,
		What:    fmt.Sprintf("seed %s, rules %v: %s", seed.Name, seqIDs(seq), what),
		Detail:  e.detail(seed, seq),
	})
}

// judge evaluates one transition pre --rule--> post and reports violations.
// It returns the violations found (for replay printing).
func (e *explorer) judge(seed *Seed, pre, post *State) []string {
	rule := post.Seq[len(post.Seq)-1]
	name := rule.Name()
	var found []string
	report := func(kind, what string) {
		found = append(found, kind+" :: "+what)
		e.fail(seed, post.Seq, kind, what)
	}
	ks := kindStat{Transitions: 1}
	defer func() {
		e.mu.Lock()
		t := e.perKind[name]
		if t == nil {
			t = &kindStat{}
			e.perKind[name] = t
		}
		t.Transitions += ks.Transitions
		t.Changed += ks.Changed
		t.Errors += ks.Errors
		t.Panics += ks.Panics
		t.Selected += ks.Selected
		t.Contracts += ks.Contracts
		e.perClass[rule.Class]++
		e.mu.Unlock()
	}()
	if post.Panic != "" {
		// C04's business, still reported
		ks.Panics = 1
		report("crash:"+name+": "+panicClass(post.Panic), "panic: "+post.Panic)
		return found
	}
	if post.Err != "" {
		ks.Errors = 1 // a rule that returns an error is an allowed outcome
		return found
	}
	if post.Hash != pre.Hash {
		ks.Changed = 1
	}
	// state invariant: report what this transition introduced
	for _, v := range invariant(seed, post) {
		post.Inv[v.Desc] = true
		if pre.Inv[v.Desc] {
			continue
		}
		if (rule.Kind == "add_assignment" || rule.Kind == "add_option") && strings.HasPrefix(v.Clause, "argument ") {
			// Lenient: these two rules take the argument of the new
			// assignment verbatim from the rule file; naming an argument the
			// option does not declare is the rule author's mistake.
			continue
		}
		report("invariant: "+v.Clause+" after "+name, v.What)
	}
	viols, ts := checkTransition(seed, rule, pre, post)
	ks.Selected, ks.Contracts = ts.selected, ts.contractChecked
	if ts.contractSkipped > 0 || ts.revived > 0 {
		e.mu.Lock()
		e.skipped += ts.contractSkipped
		e.revived += ts.revived
		e.mu.Unlock()
	}
	for _, v := range viols {
		report(v.Clause, v.What)
	}
	return found
}

type job struct {
	seed *Seed
	pre  *State
	rule *Rule
	post *State
}

// level evaluates pre × rules for every (seed, pre) in parallel and returns
// the jobs in deterministic order.
func (e *explorer) level(jobs []*job, keep bool) {
	var next atomic.Int64
	var wg sync.WaitGroup
	for w := 0; w < runtime.NumCPU(); w++ {
		wg.Add(1)
		go func() {
			defer wg.Done()
			for {
				i := int(next.Add(1)) - 1
				if i >= len(jobs) {
					return
				}
				if e.expired() {
					e.timedOut.Store(true)
					return
				}
				j := jobs[i]
				seq := append(append([]*Rule{}, j.pre.Seq...), j.rule)
				j.post = apply(j.seed, seq, nil, "go", false)
				e.judge(j.seed, j.pre, j.post)
				if !keep {
					// only the identity of the state is needed from here on
					j.post.Builders, j.post.BC, j.post.Inv, j.post.oc = nil, nil, nil, nil
				}
			}
		}()
	}
	wg.Wait()
}

// successorRules is the alphabet explored from state pre: the static
// alphabet (minus the rules whose selector names a builder that only exists
// after a duplicate/rename when pre has none: depth 1 covers those on every
// seed) plus the rules targeting what only exists in pre.
func (s *Seed) successorRules(pre *State, static []*Rule) []*Rule {
	var out []*Rule
	seen := map[*Rule]bool{}
	plain := quickTier && plainNaming(pre)
	for _, rule := range static {
		if rule.Class == "copyform" && !hasBuilderNamed(pre, rule.Sel.Name) {
			continue
		}
		if plain && !rule.B && rule.Class == "form" && rule.Sel.Mode == "builder" {
			// quick tier only: while every builder is still named after its
			// object and no object has two builders, `by_builder: B.o` names
			// the same option as `by_name: Obj.o` (explored); the by_builder
			// forms are kept at depth 1 and in every state where builders
			// were renamed, duplicated or composed.
			continue
		}
		seen[rule] = true
		out = append(out, rule)
	}
	if len(pre.Seq) > 0 {
		for _, rule := range s.dynamic(pre) {
			if !seen[rule] {
				seen[rule] = true
				out = append(out, rule)
			}
		}
	}
	return out
}

var quickTier bool

// plainNaming: every builder is named after its object, lives in its
// object's package, and no object has two builders.
func plainNaming(st *State) bool {
	seen := map[string]bool{}
	for i := range st.Builders {
		b := &st.Builders[i]
		k := b.For.SelfRef.ReferredPkg + "." + b.For.SelfRef.ReferredType
		if b.Name != b.For.Name || b.Package != b.For.SelfRef.ReferredPkg || seen[k] {
			return false
		}
		seen[k] = true
	}
	return true
}

func hasBuilderNamed(st *State, name string) bool {
	for i := range st.Builders {
		if strings.EqualFold(st.Builders[i].Name, name) {
			return true
		}
	}
	return false
}

// expired: the wall-clock cap or the CPU-time budget has run out.
func (e *explorer) expired() bool {
	if time.Now().After(e.deadline) {
		return true
	}
	if e.cpuBudget == 0 {
		return false
	}
	var ru syscall.Rusage
	if syscall.Getrusage(syscall.RUSAGE_SELF, &ru) != nil {
		return false
	}
	cpu := time.Duration(ru.Utime.Nano() + ru.Stime.Nano())
	return cpu > e.cpuBudget
}

func stateKey(st *State) string {
	// the kind of the last rule is part of the key: it decides the rewriter
	// phase the next rule lands in
	k := "-"
	if n := len(st.Seq); n > 0 {
		k = "o"
		if st.Seq[n-1].B {
			k = "b"
		}
	}
	return k + string(st.Hash[:])
}

func main() {
	r := vx.Start("C17")
	r.PerKindSmallest = true
	quickTier = !r.Thorough()
	if pf := os.Getenv("VERIF_C17_PROF"); pf != "" {
		f, _ := os.Create(pf)
		pprof.StartCPUProfile(f)
		defer pprof.StopCPUProfile()
	}
	dir, err := os.MkdirTemp("/var/tmp", "verif.c17.")
	if err != nil {
		vx.Fatalf("scratch dir: %v", err)
	}
	cleanup := func() { os.RemoveAll(dir) }
	defer cleanup()

	// The budget is what a free 16-core machine gives in the stated wall time
	// (quick ~2 min, thorough ~17 min), counted in CPU time of this process so
	// that a machine shared with other checks does not silently shrink the
	// explored space; a hard wall-clock cap bounds the run in any case. When
	// either runs out the run ends with exit 0 and exhaustive:false.
	budget := 105 * time.Second
	wallCap := 6 * time.Minute
	if r.Thorough() {
		budget = 17 * time.Minute
		wallCap = 19 * time.Minute
	}
	e := &explorer{r: r, perKind: map[string]*kindStat{}, perClass: map[string]int{}, failKind: map[string]int{}, samples: &vx.Samples{N: 8}, deadline: time.Now().Add(wallCap), cpuBudget: time.Duration(runtime.NumCPU()) * budget}

	debug.SetGCPercent(200)
	debug.SetMemoryLimit(4 << 30) // soft limit: collect harder rather than grow (other checks share the machine)
	seeds := mySeeds()
	if only := os.Getenv("VERIF_C17_SEEDS"); only != "" {
		// debugging aid: explore the named seeds only (never set by verif.sh)
		var kept []*Seed
		for _, sd := range seeds {
			for _, n := range strings.Split(only, ",") {
				if n == sd.Name {
					kept = append(kept, sd)
				}
			}
		}
		seeds = kept
	}
	for _, s := range seeds {
		s.Pristine = s.Build()
		s.Init = apply(s, nil, nil, "go", false)
		if !s.Init.ok() {
			vx.Fatalf("seed %s: initial state: %s%s", s.Name, s.Init.Err, s.Init.Panic)
		}
		for _, v := range invariant(s, s.Init) {
			s.Init.Inv[v.Desc] = true
			e.fail(s, nil, "invariant: "+v.Clause+" in the derived builders", v.What)
		}
		s.dir = dir
		s.alphabet(dir)
	}

	if r.Replay != "" {
		code := replay(e, seeds)
		cleanup()
		os.Exit(code)
	}

	exhaustive := true
	states := 0
	perSeed := map[string]map[string]any{}
	seen := map[*Seed]map[string]bool{}
	var level1 = map[*Seed][]*State{}

	// ---- depth 1: the full alphabet from every seed --------------------------
	var jobs []*job
	for _, s := range seeds {
		for _, rule := range s.A1 {
			jobs = append(jobs, &job{seed: s, pre: s.Init, rule: rule})
		}
	}
	e.level(jobs, true)
	for _, s := range seeds {
		seen[s] = map[string]bool{stateKey(s.Init): true}
		states++
	}
	depth1 := 0
	// the compact rendering must induce the same partition as refl.Canon
	{
		byRefl, byMine := map[string]string{}, map[string]string{}
		var mu sync.Mutex
		var wg sync.WaitGroup
		var next atomic.Int64
		for w := 0; w < runtime.NumCPU(); w++ {
			wg.Add(1)
			go func() {
				defer wg.Done()
				for {
					i := int(next.Add(1)) - 1
					if i >= len(jobs) {
						return
					}
					j := jobs[i]
					if j.post == nil || !j.post.ok() {
						continue
					}
					rc := sha256.Sum256([]byte(j.seed.Name + refl.Canon(j.post.Builders)))
					mc := j.seed.Name + string(j.post.Hash[:])
					mu.Lock()
					if prev, ok := byRefl[string(rc[:])]; ok && prev != mc {
						vx.Fatalf("canonOf separates two states refl.Canon identifies (%s)", witness(j.seed, j.post.Seq))
					}
					if prev, ok := byMine[mc]; ok && prev != string(rc[:]) {
						vx.Fatalf("canonOf identifies two states refl.Canon separates (%s)", witness(j.seed, j.post.Seq))
					}
					byRefl[string(rc[:])], byMine[mc] = mc, string(rc[:])
					mu.Unlock()
				}
			}()
		}
		wg.Wait()
	}
	for _, j := range jobs {
		if j.post == nil {
			exhaustive = false
			continue
		}
		depth1++
		if !j.post.ok() {
			continue
		}
		k := stateKey(j.post)
		if !seen[j.seed][k] {
			seen[j.seed][k] = true
			states++
			level1[j.seed] = append(level1[j.seed], j.post)
			e.samples.Add(map[string]any{"seed": j.seed.Name, "rules": seqIDs(j.post.Seq), "builders": len(j.post.Builders)})
		} else {
			j.post.Builders, j.post.BC, j.post.Inv, j.post.oc = nil, nil, nil, nil
		}
	}
	completed := "depth 1 (full alphabet)"

	// ---- language scenarios (depth 1, canonical rules) ------------------------
	e.languageScenarios(seeds)

	// ---- pipeline layer: depth 1 of every seed seen through a language's passes --
	pipeLangs := []string{"go", "java", "python", "typescript"}
	if r.Thorough() {
		pipeLangs = append(pipeLangs, "php")
	}
	pipe, _ := e.pipelineLayer(seeds, pipeLangs)

	// ---- depth 2: every distinct depth-1 state × the second-step alphabet -----
	depth2, dynamicJobs := 0, 0
	if !e.timedOut.Load() {
		jobs = nil
		// cheapest seeds first: when the deadline cuts the run short (loaded
		// machine) as many seeds as possible are complete
		order := append([]*Seed{}, seeds...)
		sort.SliceStable(order, func(i, j int) bool {
			return len(level1[order[i]])*len(order[i].A2) < len(level1[order[j]])*len(order[j].A2)
		})
		for _, s := range order { // one seed at a time bounds the memory
			if e.timedOut.Load() {
				exhaustive = false
				break
			}
			second := s.A2
			if r.Thorough() {
				second = s.A1 // every selector form as second step too
			}
			var js []*job
			for _, pre := range level1[s] {
				for _, rule := range s.successorRules(pre, second) {
					js = append(js, &job{seed: s, pre: pre, rule: rule})
					if rule.Class == "dynamic" {
						dynamicJobs++
					}
				}
			}
			e.level(js, false)
			for _, j := range js {
				if j.post == nil {
					exhaustive = false
					continue
				}
				depth2++
				if j.post.ok() {
					k := stateKey(j.post)
					if !seen[j.seed][k] {
						seen[j.seed][k] = true
						states++
						if depth2%997 == 0 {
							e.samples.Add(map[string]any{"seed": j.seed.Name, "rules": seqIDs(j.post.Seq), "builders": j.post.NBuilders})
						}
					}
				}
			}
		}
		if !e.timedOut.Load() {
			completed = "depth 2 (every distinct depth-1 state x second-step alphabet + the rules specific to that state)"
			if r.Thorough() {
				completed = "depth 2 (every distinct depth-1 state x full alphabet + the rules specific to that state)"
			}
		}
	}
	jobs = nil

	// ---- depth 3 (thorough): reduced alphabet at every step ---------------------
	depth3 := 0
	if r.Thorough() && !e.timedOut.Load() {
		for _, s := range seeds {
			if e.timedOut.Load() {
				exhaustive = false
				break
			}
			seen3 := map[string]bool{stateKey(s.Init): true}
			frontier := []*State{s.Init}
			for d := 1; d <= 3 && !e.timedOut.Load(); d++ {
				var js []*job
				for _, pre := range frontier {
					for _, rule := range s.successorRules(pre, s.A3) {
						js = append(js, &job{seed: s, pre: pre, rule: rule})
					}
				}
				e.level(js, d < 3)
				frontier = nil
				for _, j := range js {
					if j.post == nil {
						exhaustive = false
						continue
					}
					if d == 3 {
						depth3++
					}
					if !j.post.ok() {
						continue
					}
					k := stateKey(j.post)
					if !seen3[k] {
						seen3[k] = true
						if d < 3 {
							frontier = append(frontier, j.post)
						} else {
							j.post.Builders, j.post.BC = nil, nil
						}
						if !seen[s][k] {
							seen[s][k] = true
							states++
						}
					}
				}
			}
		}
		if !e.timedOut.Load() {
			completed = "depth 3 on the reduced alphabet (and depth 2 on the full alphabet)"
		}
	}
	if e.timedOut.Load() {
		exhaustive = false
	}

	for _, s := range seeds {
		perSeed[s.Name] = map[string]any{
			"builders": len(s.Init.Builders), "alphabet_depth1": len(s.A1), "alphabet_depth2": len(s.A2), "alphabet_depth3": len(s.A3),
			"distinct_depth1_states": len(level1[s]), "distinct_states": len(seen[s]),
		}
	}
	seedNames := []string{}
	for _, s := range seeds {
		seedNames = append(seedNames, s.Name)
	}
	kinds := []string{}
	for k := range e.perKind {
		kinds = append(kinds, k)
	}
	sort.Strings(kinds)
	vacuous := []string{}
	for _, k := range kinds {
		if e.perKind[k].Changed == 0 {
			vacuous = append(vacuous, k)
		}
	}
	tr := int(transitions.Load())
	pprof.StopCPUProfile()
	cleanup()
	r.Finish(map[string]any{
		"states":                                 states,
		"transitions":                            tr,
		"traces_validated_against_impl":          tr,
		"samples":                                e.samples.L,
		"exhaustive":                             exhaustive,
		"completed_bound":                        completed,
		"depth":                                  map[string]any{"depth1_transitions": depth1, "depth2_transitions": depth2, "depth3_transitions": depth3},
		"seeds":                                  seedNames,
		"per_seed":                               perSeed,
		"per_rule_kind":                          e.perKind,
		"rule_kinds_that_never_changed_anything": vacuous,
		"transitions_per_selector_class":         e.perClass,
		"assignments_checked":                    assignmentsCovered.Load(),
		"assignments_walked_after_caching":       assignmentsChecked.Load(),
		"failing_cases_per_kind":                 e.failKind,
		"contracts_skipped_ambiguous_split":      e.skipped,
		"revived_empty_builders_tolerated":       e.revived,
		"depth2_transitions_of_state_specific_rules": dynamicJobs,
		"pipeline_layer":         pipe,
		"language_scenario_runs": e.langRuns,
		"debug_scenario_runs":    e.dbgRuns,
		"explanation": "every transition = YAML veneers loader + rewrite.Rewriter.ApplyTo on builders freshly derived by BuilderGenerator.FromAST; " +
			"a sequence is ONE rewriter whose single-rule files are spread over the `all` and `go` languages so that ApplyTo's order (all: builders, options; go: builders, options) is the order of the sequence; " +
			"states are deduplicated on the canonical rendering of the builders (plus the kind of the last rule)",
	}, []string{
		"the YAML format has no `every` selector: `every` is covered by by_names listing all options of a builder and by the Debug rules (EveryBuilder/EveryOption) of the rewriter",
		"merge_into / add_option / add_assignment / initialize are only given well-formed parameters (under_path of the source's type, declared arguments) plus absent targets; cog does not validate ill-typed parameters and the statement does not say it must",
		"argument types are compared modulo the top-level Nullable flag and Default; path item types modulo the top-level Default",
		"a builder without options is dismissed only at the end of a rewriter phase; a builder revived by add_option/merge_into inside a phase is tolerated",
		"compose is explored on one composable package only (its iteration over a Go map is C03's business)",
		"one witness per failure kind (the smallest) is reported; failing_cases_per_kind gives the multiplicity",
	})
}

// languageScenarios: a rule in a go-only file must act exactly like the same
// rule in an `all` file when the rewriter is applied for go, and not at all
// when it is applied for another language; the Debug rules (every builder /
// every option) must keep the invariant.
func (e *explorer) languageScenarios(seeds []*Seed) {
	type lj struct {
		seed *Seed
		rule *Rule
	}
	var js []lj
	for _, s := range seeds {
		for _, rule := range s.A2 {
			if rule.Class == "canon" {
				js = append(js, lj{s, rule})
			}
		}
	}
	var next atomic.Int64
	var wg sync.WaitGroup
	for w := 0; w < runtime.NumCPU(); w++ {
		wg.Add(1)
		go func() {
			defer wg.Done()
			for {
				i := int(next.Add(1)) - 1
				if i >= len(js) || e.expired() {
					return
				}
				s, rule := js[i].seed, js[i].rule
				seq := []*Rule{rule}
				common := apply(s, seq, []string{"all"}, "go", false)
				specific := apply(s, seq, []string{"go"}, "go", false)
				other := apply(s, seq, []string{"go"}, "python", false)
				dbg := apply(s, seq, []string{"all"}, "go", true)
				e.mu.Lock()
				e.langRuns += 3
				e.dbgRuns++
				e.mu.Unlock()
				if other.Panic != "" || other.Err != "" || other.Hash != s.Init.Hash {
					e.fail(s, seq, "language: rule of a go-only file applied for another language ("+rule.Name()+")", fmt.Sprintf("ApplyTo(language=python) with the rule in a `language: go` file changes the builders (err=%q panic=%q)", other.Err, other.Panic))
				}
				if common.Panic != specific.Panic || common.Err != specific.Err || common.Hash != specific.Hash {
					e.fail(s, seq, "language: go-only rule and common rule give different results ("+rule.Name()+")", "the same rule in a `language: go` file and in a `language: all` file gives different builders for go")
				}
				if dbg.ok() && common.ok() {
					// the debug rules select every builder and every option; only the invariant is demanded
					pre := map[string]bool{}
					for _, v := range invariant(s, common) {
						pre[v.Desc] = true
					}
					for _, v := range invariant(s, dbg) {
						if !pre[v.Desc] {
							e.fail(s, seq, "invariant: "+v.Clause+" after the debug rules", v.What)
						}
					}
					if len(dbg.Builders) != len(common.Builders) {
						e.fail(s, seq, "debug: the debug rules add or remove builders", fmt.Sprintf("%d vs %d builders", len(dbg.Builders), len(common.Builders)))
					}
				} else if dbg.ok() != common.ok() {
					e.fail(s, seq, "debug: the debug rules change the outcome", fmt.Sprintf("err %q/%q panic %q/%q", common.Err, dbg.Err, common.Panic, dbg.Panic))
				}
			}
		}()
	}
	wg.Wait()
}

// replay re-executes one recorded sequence, printing every transition.
func replay(e *explorer, seeds []*Seed) int {
	kind, wit, detail := e.r.ReplayFile()
	var d struct {
		Seed  string   `json:"seed"`
		Rules []string `json:"rules"`
	}
	if err := json.Unmarshal(detail, &d); err != nil {
		vx.Fatalf("replay detail: %v", err)
	}
	var seed *Seed
	for _, s := range seeds {
		if s.Name == d.Seed {
			seed = s
		}
	}
	if base, lang, ok := strings.Cut(d.Seed, "@"); ok {
		for _, s := range seeds {
			if s.Name == base {
				seed = deriveSeed(s, lang, 500)
			}
		}
	}
	if seed == nil {
		vx.Fatalf("replay: unknown seed %q", d.Seed)
	}
	fmt.Println("replaying", wit)
	fmt.Println("expected kind:", kind)
	e.deadline, e.cpuBudget = time.Now().Add(time.Hour), 0
	pre := seed.Init
	again := false
	var seq []*Rule
	for i, id := range d.Rules {
		seed.dynamic(pre) // registers the rules that only make sense in this state
		rule, ok := seed.byID[id]
		if !ok {
			vx.Fatalf("replay: unknown rule %q for seed %s", id, d.Seed)
		}
		seq = append(seq, rule)
		post := apply(seed, seq[:i+1], nil, "go", false)
		langs, _ := phases(seq[:i+1])
		fmt.Printf("--- rule %d (file language %s)\n%s", i+1, langs[i], seq[i].text(langs[i]))
		found := e.judge(seed, pre, post)
		fmt.Printf("    outcome: err=%q panic=%q builders=%d changed=%v\n", post.Err, post.Panic, len(post.Builders), post.Hash != pre.Hash)
		for _, f := range found {
			fmt.Println("    VIOLATED:", f)
			if strings.HasPrefix(f, kind+" :: ") {
				again = true
			}
		}
		if !post.ok() {
			break
		}
		pre = post
	}
	if strings.HasPrefix(kind, "language:") || strings.HasSuffix(kind, "after the debug rules") || strings.HasPrefix(kind, "debug:") {
		before := e.r.NumFailures()
		e.languageScenarios([]*Seed{{Name: seed.Name, Idx: seed.Idx, Spec: seed.Spec, Post: seed.Post, Pristine: seed.Pristine, Init: seed.Init, A2: seq}})
		_ = before
		for _, f := range e.r.Frontier() {
			if f.Kind == kind {
				again = true
			}
		}
	}
	if strings.HasPrefix(kind, "pipeline:") && len(seq) == 1 && seed.Base != nil {
		st := pipeStats{PerLang: map[string]int{}}
		var mu sync.Mutex
		e.comparePipeline(seed, seq[0], apply(seed, seq, nil, seed.Lang, false), &st, &mu)
		for _, f := range e.r.Frontier() {
			if f.Kind == kind {
				again = true
				fmt.Println("    VIOLATED:", f.Kind, "::", f.What)
			}
		}
	}
	if len(seq) == 0 {
		for _, f := range e.r.Frontier() {
			if f.Kind == kind {
				again = true
			}
		}
	}
	if again {
		fmt.Printf("VIOLATION property=C17 replay=%s\n", e.r.Replay)
		return 1
	}
	fmt.Println("replay: the recorded failure kind does not occur on this tree")
	return 0
}
