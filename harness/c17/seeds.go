//go:build verif

package main

import (
	"github.com/grafana/cog/internal/ast"
	"github.com/grafana/cog/internal/ast/compiler"
	"github.com/grafana/cog/verifx/irgen"
	"github.com/grafana/cog/verifx/vx"
)

// Seed is one initial state family: a schema description from which fresh
// schemas (and, through the real BuilderGenerator, fresh builders) are built
// for every explored sequence.
type Seed struct {
	Idx  int
	Name string
	Spec irgen.SchemaSpec
	// Post is an optional real compiler pass applied to the freshly built
	// schemas (the "uniondt" seed runs cog's DisjunctionToType).
	Post func(ast.Schemas) ast.Schemas
	// Pristine is the oracle's own copy of the schemas; it is never handed to cog.
	Pristine ast.Schemas
	Init     *State
	A1       []*Rule // full alphabet (depth 1)
	A2       []*Rule // second-step alphabet (canonical selector forms)
	A3       []*Rule // reduced alphabet of the depth-3 search
	byID     map[string]*Rule
	Lang     string // derived seeds (pipeline layer): the language whose passes were applied
	Base     *Seed  // derived seeds: the seed they derive from
	dir      string // scratch directory of the rule files
	initOpts map[string]map[string]bool
}

func (s *Seed) Build() ast.Schemas {
	sch := s.Spec.Build()
	if s.Post != nil {
		sch = s.Post(sch)
	}
	return sch
}

func disjunctionToType(sch ast.Schemas) ast.Schemas {
	out, err := (&compiler.DisjunctionToType{}).Process(sch)
	if err != nil {
		vx.Fatalf("seed uniondt: DisjunctionToType: %v", err)
	}
	return out
}

// structDefault gives Root.pos of the "defaults" seed a struct-shaped default
// ({x: 3, y: 4}); grammar I has no such default flavour.
func structDefault(sch ast.Schemas) ast.Schemas {
	obj, ok := sch.LocateObject(irgen.Pkg, "Root")
	if !ok {
		vx.Fatalf("seed defaults: no Root")
	}
	for i, f := range obj.Type.Struct.Fields {
		if f.Name == "pos" {
			obj.Type.Struct.Fields[i].Type.Default = map[string]any{"x": int64(3), "y": int64(4)}
		}
	}
	return sch
}

func mySeeds() []*Seed {
	const P = irgen.Pkg
	type F = irgen.Field
	S, Ref, Arr, Map, StructN, Struct1, Disj, Nullable, Const, Null :=
		irgen.S, irgen.Ref, irgen.Array, irgen.Map, irgen.StructN, irgen.Struct1, irgen.Disj, irgen.Nullable, irgen.Const, irgen.Null
	constrained := func(kind string) irgen.Term { return irgen.Term{K: "scalar", A: kind, Constr: true} }
	withDefault := func(t irgen.Term, d string) irgen.Term { t.Default = d; return t }

	pos := irgen.ObjSpec{Name: "Pos", T: StructN(
		[]F{{"x", true}, {"y", false}, {"k", true}},
		[]irgen.Term{constrained("int64"), withDefault(S("int64"), "scalar"), Const("str")})}

	specs := []irgen.SchemaSpec{
		// arrays, maps and booleans of every requiredness
		{Name: "coll", Pkgs: []irgen.PkgSpec{{Pkg: P, EntryPoint: "Root", Objects: []irgen.ObjSpec{
			{Name: "Root", T: StructN(
				[]F{{"tags", true}, {"labels", false}, {"matrix", false}, {"on", true}, {"maybe", false}, {"nb", false}, {"title", true}},
				[]irgen.Term{Arr(S("string")), Map(S("string")), Arr(Arr(S("int64"))), S("bool"), S("bool"), Nullable(S("bool")), constrained("string")})},
		}}}},
		// struct-typed fields: required / optional / nullable refs, inline structs, collections of structs
		{Name: "structs", Pkgs: []irgen.PkgSpec{{Pkg: P, EntryPoint: "Root", Objects: []irgen.ObjSpec{
			{Name: "Root", T: StructN(
				[]F{{"pos", true}, {"opos", false}, {"npos", false}, {"inline", true}, {"items", false}, {"posmap", false}},
				[]irgen.Term{Ref(P + ".Pos"), Ref(P + ".Pos"), Nullable(Ref(P + ".Pos")),
					StructN([]F{{"a", true}, {"b", false}}, []irgen.Term{S("string"), Struct1("c", true, S("int64"))}),
					Arr(Ref(P + ".Pos")), Map(Ref(P + ".Pos"))})},
			pos,
		}}}},
		// disjunction-typed fields, directly and inside collections
		{Name: "disj", Pkgs: []irgen.PkgSpec{{Pkg: P, EntryPoint: "Root", Objects: append([]irgen.ObjSpec{
			{Name: "Root", T: StructN(
				[]F{{"u", true}, {"r", false}, {"arr", false}, {"m", false}, {"n", false}},
				[]irgen.Term{Disj(S("string"), S("bool")),
					{K: "disj", Sub: []irgen.Term{Ref(P + ".S"), Ref(P + ".T")}, Disc: true},
					Arr(Disj(S("string"), S("int64"))), Map(Disj(S("string"), S("bool"))), Disj(Ref(P+".S"), Null())})},
		}, irgen.Support(P)[:2]...)}}},
		// defaults and constraints
		{Name: "defaults", Pkgs: []irgen.PkgSpec{{Pkg: P, EntryPoint: "Root", Objects: []irgen.ObjSpec{
			{Name: "Root", T: StructN(
				[]F{{"name", true}, {"count", false}, {"on", false}, {"pos", false}, {"list", false}},
				[]irgen.Term{withDefault(constrained("string"), "scalar"), withDefault(constrained("int64"), "scalar"), withDefault(S("bool"), "scalar"),
					Ref(P + ".Pos"), withDefault(Arr(S("string")), "list")})},
			pos,
		}}}},
		// two packages, the same object names in both, names differing in case
		{Name: "twopkg2", Pkgs: []irgen.PkgSpec{
			{Pkg: "a", EntryPoint: "Root", Objects: []irgen.ObjSpec{
				{Name: "Root", T: StructN([]F{{"t", true}, {"own", false}, {"flag", false}}, []irgen.Term{Ref("b.Thing"), Ref("a.thing"), S("bool")})},
				{Name: "thing", T: StructN([]F{{"v", true}, {"V", false}}, []irgen.Term{S("string"), S("int64")})},
			}},
			{Pkg: "b", Objects: []irgen.ObjSpec{
				{Name: "Thing", T: StructN([]F{{"w", true}, {"back", false}}, []irgen.Term{S("bool"), Ref("a.thing")})},
				{Name: "Root", T: StructN([]F{{"list", false}, {"t", false}}, []irgen.Term{Arr(S("string")), Ref("b.Thing")})},
			}},
		}},
		// a chain of struct references (merge_into chains, nested paths)
		{Name: "deep", Pkgs: []irgen.PkgSpec{{Pkg: P, EntryPoint: "Root", Objects: []irgen.ObjSpec{
			{Name: "Root", T: StructN([]F{{"a", true}, {"title", false}}, []irgen.Term{Ref(P + ".A"), S("string")})},
			{Name: "A", T: StructN([]F{{"b", false}, {"n", true}}, []irgen.Term{Ref(P + ".B"), constrained("string")})},
			{Name: "B", T: StructN([]F{{"flag", true}, {"vals", false}, {"idx", false}}, []irgen.Term{S("bool"), Arr(S("string")), Map(S("int64"))})},
		}}}},
		// merge_into under a path of depth 2 (through an inline struct and through a
		// reference): the merged assignment paths have three items, i.e. a backing
		// array with spare capacity, and the merged options take structs with
		// several fields (struct_fields_as_* on merged options)
		{Name: "nestedmerge", Pkgs: []irgen.PkgSpec{{Pkg: P, EntryPoint: "Root", Objects: []irgen.ObjSpec{
			{Name: "Root", T: StructN([]F{{"config", true}, {"via", false}}, []irgen.Term{Struct1("options", true, Ref(P+".Opts")), Ref(P + ".Holder")})},
			{Name: "Holder", T: StructN([]F{{"opts", true}, {"label", false}}, []irgen.Term{Ref(P + ".Opts"), S("string")})},
			{Name: "Opts", T: StructN([]F{{"range", true}, {"pos", false}, {"on", false}}, []irgen.Term{
				StructN([]F{{"from", true}, {"to", true}, {"unit", false}}, []irgen.Term{S("string"), S("int64"), S("string")}), Ref(P + ".Pos"), S("bool")})},
			pos,
		}}}},
		// several plugin packages of one variant holding objects with the SAME
		// names (Options, FieldConfig, Legend) whose same-named fields differ in
		// nullability, requiredness and referred package: rules whose selector
		// spans packages (by_variant; the "variants" seed has two variants), and
		// the compose rule (dash.Panel is its source builder)
		{Name: "plugins", Pkgs: []irgen.PkgSpec{
			{Pkg: "dash", EntryPoint: "Panel", Objects: []irgen.ObjSpec{
				{Name: "Panel", T: StructN([]F{{"type", true}, {"title", false}, {"options", false}, {"fieldConfig", false}},
					[]irgen.Term{S("string"), S("string"), S("any"), Ref("dash.FieldConfig")})},
				{Name: "FieldConfig", T: Struct1("custom", false, S("any"))},
			}},
			{Pkg: "ts", Identifier: "timeseries", Kind: string(ast.SchemaKindComposable), Variant: string(ast.SchemaVariantPanel), Objects: []irgen.ObjSpec{
				{Name: "Options", T: StructN([]F{{"showLegend", true}, {"legend", false}}, []irgen.Term{S("bool"), Ref("ts.Legend")})},
				{Name: "Legend", T: Struct1("placement", true, S("string"))},
				{Name: "FieldConfig", T: Struct1("lineWidth", false, constrained("int64"))},
			}},
			{Pkg: "logs", Identifier: "logs", Kind: string(ast.SchemaKindComposable), Variant: string(ast.SchemaVariantPanel), Objects: []irgen.ObjSpec{
				{Name: "Options", T: StructN([]F{{"showLegend", false}, {"legend", true}}, []irgen.Term{Nullable(S("bool")), Ref("logs.Legend")})},
				{Name: "Legend", T: Struct1("placement", false, Nullable(S("string")))},
				{Name: "FieldConfig", T: Struct1("lineWidth", true, S("string"))},
			}},
		}},
		// plugin packages that hold nothing but an `Options` object (what a
		// by_variant selector picks is then exactly the same-named objects), two
		// packages per variant, same-named fields of different types
		{Name: "variants", Pkgs: []irgen.PkgSpec{
			{Pkg: "tsv", Identifier: "timeseries", Kind: string(ast.SchemaKindComposable), Variant: string(ast.SchemaVariantPanel), Objects: []irgen.ObjSpec{
				{Name: "Options", T: StructN([]F{{"showLegend", true}, {"mode", false}, {"tags", false}}, []irgen.Term{S("bool"), S("string"), Arr(S("string"))})}}},
			{Pkg: "logsv", Identifier: "logs", Kind: string(ast.SchemaKindComposable), Variant: string(ast.SchemaVariantPanel), Objects: []irgen.ObjSpec{
				{Name: "Options", T: StructN([]F{{"showLegend", false}, {"mode", true}, {"wrap", false}}, []irgen.Term{Nullable(S("bool")), S("int64"), S("bool")})}}},
			{Pkg: "promv", Identifier: "prometheus", Kind: string(ast.SchemaKindComposable), Variant: string(ast.SchemaVariantDataQuery), Objects: []irgen.ObjSpec{
				{Name: "Options", T: StructN([]F{{"showLegend", true}, {"expr", true}}, []irgen.Term{S("string"), S("string")})}}},
			{Pkg: "lokiv", Identifier: "loki", Kind: string(ast.SchemaKindComposable), Variant: string(ast.SchemaVariantDataQuery), Objects: []irgen.ObjSpec{
				{Name: "Options", T: StructN([]F{{"showLegend", false}, {"expr", false}}, []irgen.Term{Arr(S("string")), Nullable(S("string"))})}}},
		}},
		// collections of disjunctions through cog's DisjunctionToType: lists and
		// maps of structs generated from disjunctions (array_to_append /
		// map_to_index followed by disjunction_as_options builds envelopes)
		{Name: "uniondtcoll", Pkgs: []irgen.PkgSpec{{Pkg: P, EntryPoint: "Root", Objects: append([]irgen.ObjSpec{
			{Name: "Root", T: StructN([]F{{"items", true}, {"byKey", false}}, []irgen.Term{
				Arr(irgen.Term{K: "disj", Sub: []irgen.Term{Ref(P + ".S"), Ref(P + ".T")}, Disc: true}),
				Map(irgen.Term{K: "disj", Sub: []irgen.Term{Ref(P + ".S"), Ref(P + ".T")}, Disc: true})})},
		}, irgen.Support(P)[:2]...)}}},
		// two packages with the same objects and the same disjunctions: cog's
		// DisjunctionToType generates same-named structs in both, whose branches
		// refer to the package's own S and T (generated_from_disjunction spans packages)
		{Name: "uniondt2", Pkgs: []irgen.PkgSpec{
			{Pkg: P, EntryPoint: "Root", Objects: []irgen.ObjSpec{
				{Name: "Root", T: Struct1("u", true, irgen.Term{K: "disj", Sub: []irgen.Term{Ref(P + ".S"), Ref(P + ".T")}, Disc: true})},
				{Name: "S", T: StructN([]F{{"kind", true}, {"x", true}}, []irgen.Term{Const("str"), S("string")})},
				{Name: "T", T: StructN([]F{{"kind", true}, {"y", false}}, []irgen.Term{Const("int"), S("int64")})},
			}},
			{Pkg: "q", Objects: []irgen.ObjSpec{
				{Name: "Root", T: Struct1("u", false, irgen.Term{K: "disj", Sub: []irgen.Term{Ref("q.S"), Ref("q.T")}, Disc: true})},
				{Name: "S", T: StructN([]F{{"kind", true}, {"x", false}}, []irgen.Term{Const("str"), S("int64")})},
				{Name: "T", T: StructN([]F{{"kind", true}, {"y", true}}, []irgen.Term{Const("int"), S("string")})},
			}},
		}},
	}

	var seeds []*Seed
	for _, sp := range irgen.SeedSchemas() {
		seeds = append(seeds, &Seed{Name: sp.Name, Spec: sp})
	}
	for _, sp := range specs {
		sd := &Seed{Name: sp.Name, Spec: sp}
		if sp.Name == "defaults" {
			sd.Post = structDefault
		}
		if sp.Name == "uniondt2" || sp.Name == "uniondtcoll" {
			sd.Post = disjunctionToType
		}
		seeds = append(seeds, sd)
	}
	// the irgen "union" seed after cog's own DisjunctionToType pass: structs
	// generated from disjunctions (disjunction_as_options on references,
	// generated_from_disjunction selector)
	for _, sp := range irgen.SeedSchemas() {
		if sp.Name == "union" {
			sp.Name = "uniondt"
			seeds = append(seeds, &Seed{Name: sp.Name, Spec: sp, Post: disjunctionToType})
		}
	}
	for i, s := range seeds {
		s.Idx = i
	}
	return seeds
}
