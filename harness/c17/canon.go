//go:build verif

package main

import (
	"fmt"
	"reflect"
	"sort"
	"strconv"
	"strings"
	"sync"
)

// canonOf is a compact variant of verifx/refl.Canon: the same rendering
// except that struct fields holding a zero value (nil, empty collection, "",
// false, 0) are left out and field names are cached per type. It induces the
// same equivalence as refl.Canon (nil and empty collections are already equal
// there, and every non-zero field is printed with its name), which main.go
// re-checks on every depth-1 state; it is ~8x shorter, and the search spends
// most of its time rendering states.
func canonOf(v any) string {
	var b strings.Builder
	b.Grow(2048)
	fastCanon(&b, reflect.ValueOf(v), 0)
	return b.String()
}

func isZeroish(v reflect.Value) bool {
	switch v.Kind() {
	case reflect.Bool:
		return !v.Bool()
	case reflect.Int, reflect.Int8, reflect.Int16, reflect.Int32, reflect.Int64:
		return v.Int() == 0
	case reflect.Uint, reflect.Uint8, reflect.Uint16, reflect.Uint32, reflect.Uint64, reflect.Uintptr:
		return v.Uint() == 0
	case reflect.Float32, reflect.Float64:
		return v.Float() == 0
	case reflect.String:
		return v.Len() == 0
	case reflect.Slice, reflect.Map:
		return v.Len() == 0
	case reflect.Ptr, reflect.Interface, reflect.Func, reflect.Chan, reflect.UnsafePointer:
		return v.IsNil()
	}
	return false
}

var fieldNames sync.Map // reflect.Type -> []string

func namesOf(t reflect.Type) []string {
	if n, ok := fieldNames.Load(t); ok {
		return n.([]string)
	}
	names := make([]string, t.NumField())
	for i := range names {
		names[i] = t.Field(i).Name + "="
	}
	fieldNames.Store(t, names)
	return names
}

func fastCanon(b *strings.Builder, v reflect.Value, depth int) {
	if depth > 60 {
		b.WriteString("<deep>")
		return
	}
	if !v.IsValid() {
		b.WriteString("nil")
		return
	}
	switch v.Kind() {
	case reflect.Bool:
		if v.Bool() {
			b.WriteString("true")
		} else {
			b.WriteString("false")
		}
	case reflect.Int, reflect.Int8, reflect.Int16, reflect.Int32, reflect.Int64:
		b.WriteString(strconv.FormatInt(v.Int(), 10))
	case reflect.Uint, reflect.Uint8, reflect.Uint16, reflect.Uint32, reflect.Uint64, reflect.Uintptr:
		b.WriteString(strconv.FormatUint(v.Uint(), 10))
	case reflect.Float32, reflect.Float64:
		fmt.Fprintf(b, "%v", v.Float())
	case reflect.String:
		b.WriteString(strconv.Quote(v.String()))
	case reflect.Slice, reflect.Array:
		b.WriteByte('[')
		for i := 0; i < v.Len(); i++ {
			if i > 0 {
				b.WriteByte(',')
			}
			fastCanon(b, v.Index(i), depth+1)
		}
		b.WriteByte(']')
	case reflect.Map:
		type kv struct{ k, v string }
		var kvs []kv
		it := v.MapRange()
		for it.Next() {
			var kb, vb strings.Builder
			fastCanon(&kb, it.Key(), depth+1)
			fastCanon(&vb, it.Value(), depth+1)
			kvs = append(kvs, kv{kb.String(), vb.String()})
		}
		sort.Slice(kvs, func(i, j int) bool { return kvs[i].k < kvs[j].k })
		b.WriteByte('{')
		for i, e := range kvs {
			if i > 0 {
				b.WriteByte(',')
			}
			b.WriteString(e.k)
			b.WriteByte(':')
			b.WriteString(e.v)
		}
		b.WriteByte('}')
	case reflect.Ptr:
		if v.IsNil() {
			b.WriteString("nil")
			return
		}
		b.WriteByte('&')
		fastCanon(b, v.Elem(), depth+1)
	case reflect.Interface:
		if v.IsNil() {
			b.WriteString("nil")
			return
		}
		e := v.Elem()
		b.WriteByte('(')
		b.WriteString(e.Type().String())
		b.WriteByte(')')
		fastCanon(b, e, depth+1)
	case reflect.Struct:
		names := namesOf(v.Type())
		b.WriteByte('{')
		first := true
		for i := 0; i < v.NumField(); i++ {
			f := v.Field(i)
			if isZeroish(f) {
				continue
			}
			if !first {
				b.WriteByte(',')
			}
			first = false
			b.WriteString(names[i])
			fastCanon(b, f, depth+1)
		}
		b.WriteByte('}')
	case reflect.Func, reflect.Chan, reflect.UnsafePointer:
		if v.IsNil() {
			b.WriteString("nil")
		} else {
			b.WriteString("<" + v.Kind().String() + ">")
		}
	default:
		b.WriteString("<?>")
	}
}
