//go:build verif

package main

// The pipeline layer: the composition `cog generate` / `cog inspect --ir
// builders --language L` use — codegen.Pipeline.ContextForLanguage: the
// compiler passes of the language, builder derivation from the resulting
// schemas, the configured veneers, nil checks.
//
// For every seed and language a DERIVED seed is built: the seed's schemas
// after the real compiler passes of that language (inline structs named,
// disjunctions turned into structs, ...). The derived seed gets its own
// alphabet (generated from the builders of that language) and the usual
// depth-1 oracle (invariant, frame, contracts). On top of that each rule is
// also run through the real ContextForLanguage, configured with a veneers
// directory holding just that rule and given the ORIGINAL schemas; what the
// property observes ("the builders returned by Rewriter.ApplyTo, what cog
// inspect prints") must be what applying the rewriter to the builders of that
// context gives.

import (
	"fmt"
	"runtime"
	"strings"
	"sync"
	"sync/atomic"

	"github.com/grafana/cog/internal/ast"
	"github.com/grafana/cog/internal/codegen"
	"github.com/grafana/cog/internal/jennies/golang"
	"github.com/grafana/cog/internal/jennies/java"
	"github.com/grafana/cog/internal/jennies/php"
	"github.com/grafana/cog/internal/jennies/python"
	"github.com/grafana/cog/internal/jennies/typescript"
	"github.com/grafana/cog/internal/languages"
	"github.com/grafana/cog/verifx/vx"
)

func newLanguage(name string) languages.Language {
	switch name {
	case "go":
		return golang.New(golang.Config{})
	case "java":
		return java.New(java.Config{})
	case "php":
		return php.New(php.Config{})
	case "python":
		return python.New(python.Config{})
	case "typescript":
		return typescript.New(typescript.Config{})
	}
	vx.Fatalf("c17: unknown language %q", name)
	return nil
}

// deriveSeed builds the seed `base@lang`: base seen through the compiler
// passes of lang. It returns nil when the passes reject (or crash on) the
// schemas: nothing to judge then (C04/C06 run the same chains).
func deriveSeed(base *Seed, lang string, idx int) *Seed {
	d := &Seed{Idx: idx, Name: base.Name + "@" + lang, Spec: base.Spec, Lang: lang, Base: base, dir: base.dir}
	d.Post = func(sch ast.Schemas) ast.Schemas {
		if base.Post != nil {
			sch = base.Post(sch)
		}
		out, err := newLanguage(lang).CompilerPasses().Process(sch)
		if err != nil {
			panic("compiler passes: " + err.Error())
		}
		return out
	}
	if p := vx.Catch(func() { d.Pristine = d.Build() }); p != nil {
		return nil
	}
	d.Init = apply(d, nil, nil, lang, false)
	if !d.Init.ok() {
		return nil
	}
	for _, v := range invariant(d, d.Init) {
		d.Init.Inv[v.Desc] = true // what the derivation itself gets wrong is C16's subject
	}
	d.alphabet(d.dir)
	return d
}

// throughPipeline runs one rule through the real ContextForLanguage.
func throughPipeline(d *Seed, rule *Rule) (builders []ast.Builder, errMsg, panicMsg string) {
	var ctx languages.Context
	var err error
	p := vx.Catch(func() {
		pipeline := &codegen.Pipeline{Output: codegen.Output{Builders: true}}
		pipeline.Transforms.VeneersDirectories = []string{rule.veneersDir()}
		input := d.Base.Build() // the schemas every language starts from
		ctx, err = pipeline.ContextForLanguage(newLanguage(d.Lang), input)
	})
	switch {
	case p != nil:
		return nil, "", fmt.Sprint(p)
	case err != nil:
		return nil, err.Error(), ""
	}
	// nil checks are added after the veneers and are not the property's subject
	out := ctx.Builders
	for bi := range out {
		for ai := range out[bi].Constructor.Assignments {
			out[bi].Constructor.Assignments[ai].NilChecks = nil
		}
		for oi := range out[bi].Options {
			for ai := range out[bi].Options[oi].Assignments {
				out[bi].Options[oi].Assignments[ai].NilChecks = nil
			}
		}
	}
	return out, "", ""
}

type pipeStats struct {
	Derived   int            `json:"derived_seeds"`
	Skipped   int            `json:"seed_language_pairs_rejected_by_the_passes"`
	Compared  int            `json:"rules_compared"`
	Changed   int            `json:"rules_that_changed_the_builders"`
	NotJudged int            `json:"pipeline_errors_not_judged"`
	PerLang   map[string]int `json:"compared_per_language"`
}

func pipelineRuleSet(d *Seed) []*Rule {
	var out []*Rule
	for _, r := range d.A2 {
		if r.Class == "canon" || r.Class == "cross" {
			out = append(out, r)
		}
	}
	return out
}

// comparePipeline is the differential part of one (derived seed, rule) case.
func (e *explorer) comparePipeline(d *Seed, rule *Rule, direct *State, st *pipeStats, mu *sync.Mutex) {
	builders, errMsg, panicMsg := throughPipeline(d, rule)
	transitions.Add(1)
	name := rule.Name()
	mu.Lock()
	st.Compared++
	st.PerLang[d.Lang]++
	if direct.ok() && direct.Hash != d.Init.Hash {
		st.Changed++
	}
	mu.Unlock()
	seq := []*Rule{rule}
	switch {
	case panicMsg != "" || errMsg != "":
		if direct.ok() {
			// the rewriter accepts the rule on these builders but the pipeline
			// fails: either the veneers were given something else, or a later
			// step (nil checks) failed. Only the first is C17's; tell them apart
			// by the message.
			if strings.Contains(errMsg+panicMsg, "veneer") {
				e.fail(d, seq, "pipeline: ContextForLanguage fails on a rule the rewriter accepts ("+name+")", "error: "+errMsg+panicMsg)
			} else {
				mu.Lock()
				st.NotJudged++
				mu.Unlock()
			}
		}
		return
	case !direct.ok():
		e.fail(d, seq, "pipeline: ContextForLanguage accepts a rule the rewriter refuses ("+name+")",
			fmt.Sprintf("applied to the builders of the %s context the rule gives err=%q panic=%q; through the pipeline it gives %d builders", d.Lang, direct.Err, direct.Panic, len(builders)))
		return
	}
	same := len(builders) == len(direct.BC)
	for i := 0; same && i < len(builders); i++ {
		same = canonOf(builders[i]) == direct.BC[i]
	}
	if !same {
		what := fmt.Sprintf("language %s: the builders of the context returned by ContextForLanguage differ from the rule applied to the builders derived from the schemas of that context", d.Lang)
		for i := range builders {
			if i < len(direct.Builders) && canonOf(builders[i]) != direct.BC[i] {
				what += fmt.Sprintf("; first difference in builder %s", bID(&builders[i]))
				break
			}
		}
		e.fail(d, seq, "pipeline: veneers applied by ContextForLanguage give other builders than the rewriter on that context ("+name+")", what)
	}
}

// pipelineLayer explores depth 1 of every derived seed.
func (e *explorer) pipelineLayer(seeds []*Seed, langs []string) (pipeStats, []*Seed) {
	st := pipeStats{PerLang: map[string]int{}}
	var derived []*Seed
	idx := 500
	for _, base := range seeds {
		for _, lang := range langs {
			idx++
			if e.expired() {
				e.timedOut.Store(true)
				return st, derived
			}
			d := deriveSeed(base, lang, idx)
			if d == nil {
				st.Skipped++
				continue
			}
			st.Derived++
			derived = append(derived, d)
		}
	}
	type pj struct {
		d *Seed
		r *Rule
	}
	var jobs []pj
	for _, d := range derived {
		for _, r := range pipelineRuleSet(d) {
			jobs = append(jobs, pj{d, r})
		}
	}
	var mu sync.Mutex
	var next atomic.Int64
	var wg sync.WaitGroup
	for w := 0; w < runtime.NumCPU(); w++ {
		wg.Add(1)
		go func() {
			defer wg.Done()
			for {
				i := int(next.Add(1)) - 1
				if i >= len(jobs) {
					return
				}
				if e.expired() {
					e.timedOut.Store(true)
					return
				}
				d, r := jobs[i].d, jobs[i].r
				direct := apply(d, []*Rule{r}, nil, d.Lang, false)
				e.judge(d, d.Init, direct) // the usual oracle on the builders of that language
				e.comparePipeline(d, r, direct, &st, &mu)
			}
		}()
	}
	wg.Wait()
	return st, derived
}
