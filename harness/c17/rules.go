//go:build verif

package main

import (
	"fmt"
	"os"
	"path/filepath"
	"strings"
	"sync"
	"unicode"

	"github.com/grafana/cog/internal/ast"
	"github.com/grafana/cog/internal/veneers"
	"github.com/grafana/cog/verifx/vx"
	"gopkg.in/yaml.v3"
)

// Sel is the oracle's description of a selector, written from the comments
// of internal/veneers/{builder,option}/selectors.go.
type Sel struct {
	Mode    string   // builder rules: object | name | variant | disj ; option rules: object | builder
	Name    string   // object name, builder name or variant
	Options []string // option rules: the option names
}

// Rule is one letter of the alphabet: a veneer rule as YAML (what cog loads)
// plus the oracle's view of its parameters.
type Rule struct {
	Idx    int
	ID     string
	B      bool // builder rule (else option rule)
	Pkg    string
	Kind   string         // YAML key
	Params map[string]any // YAML parameters under that key
	Sel    Sel
	Class  string // canon | form | case | absent | copyform

	As       string
	AsList   []string
	Fields   []string // nil: every field
	ArgIdx   int
	TrueAs   string
	FalseAs  string
	Exclude  []string
	Opts     []string
	Comments []string
	Source   string            // merge_into
	Under    string            // merge_into
	RenameTo map[string]string // merge_into

	InA2, InA3 bool
	files      map[string]string
	yaml       map[string]string
	base       string
	mu         sync.Mutex
}

func (r *Rule) Name() string {
	if r.B {
		return "b." + r.Kind
	}
	return "o." + r.Kind
}

type fileDoc struct {
	Language string `yaml:"language"`
	Package  string `yaml:"package"`
	Builders []any  `yaml:"builders,omitempty"`
	Options  []any  `yaml:"options,omitempty"`
}

func (r *Rule) render(lang string) string {
	doc := fileDoc{Language: lang, Package: r.Pkg}
	body := map[string]any{r.Kind: r.Params}
	if r.B {
		doc.Builders = []any{body}
	} else {
		doc.Options = []any{body}
	}
	b, err := yaml.Marshal(doc)
	if err != nil {
		vx.Fatalf("rendering rule %s: %v", r.ID, err)
	}
	return string(b)
}

func swapCase(s string) string {
	var b strings.Builder
	for _, c := range s {
		switch {
		case unicode.IsUpper(c):
			b.WriteRune(unicode.ToLower(c))
		case unicode.IsLower(c):
			b.WriteRune(unicode.ToUpper(c))
		default:
			b.WriteRune(c)
		}
	}
	return b.String()
}

func typeLabel(t ast.Type) string {
	n := ""
	if t.Nullable {
		n = "?"
	}
	switch t.Kind {
	case ast.KindScalar:
		return string(t.Scalar.ScalarKind) + n
	case ast.KindRef:
		return "ref(" + t.Ref.ReferredPkg + "." + t.Ref.ReferredType + ")" + n
	case ast.KindArray:
		return "array(" + typeLabel(t.Array.ValueType) + ")" + n
	case ast.KindMap:
		return "map(" + typeLabel(t.Map.ValueType) + ")" + n
	}
	return string(t.Kind) + n
}

// plainScalar returns a constraint-free, default-free scalar type of the same kind.
func plainScalar(t ast.Type) ast.Type { return ast.NewScalar(t.Scalar.ScalarKind) }

func scalarValue(t ast.Type) any {
	switch t.Scalar.ScalarKind {
	case ast.KindString:
		return "v"
	case ast.KindBool:
		return true
	}
	return 5
}

func isPlainScalarField(f ast.StructField) bool {
	if f.Type.Kind != ast.KindScalar || f.Type.Scalar == nil || f.Type.Scalar.Value != nil {
		return false
	}
	switch f.Type.Scalar.ScalarKind {
	case ast.KindString, ast.KindBool, ast.KindInt64:
		return true
	}
	return false
}

// alphabet builds A1/A2/A3 of a seed from its initial builders and writes
// one single-rule veneer file per (rule, language) into dir.
func (s *Seed) alphabet(dir string) {
	s.byID = map[string]*Rule{}
	g := &gen{s: s, dir: dir}
	add := g.add
	builders := s.Init.Builders
	hasBuilderFor := func(pkg, obj string) (string, bool) {
		for _, b := range builders {
			if b.For.SelfRef.ReferredPkg == pkg && b.For.SelfRef.ReferredType == obj {
				return b.Name, true
			}
		}
		return "", false
	}

	seenPkg := map[string]bool{}
	for bi := range builders {
		b := &builders[bi]
		pkg, obj, bname := b.Package, b.For.Name, b.Name
		st, _ := resolve(s.Pristine, b.For.Type)
		var fields []ast.StructField
		if st.Kind == ast.KindStruct && st.Struct != nil {
			fields = st.Struct.Fields
		}
		var scalarField *ast.StructField
		for i := range fields {
			if isPlainScalarField(fields[i]) {
				scalarField = &fields[i]
				break
			}
		}
		var optNames []string
		for _, o := range b.Options {
			optNames = append(optNames, o.Name)
		}

		// ---------------- builder rules ----------------
		type bform struct {
			mode, name, class string
		}
		bforms := []bform{{"object", obj, "canon"}, {"name", bname, "form"}, {"object", swapCase(obj), "case"}, {"name", swapCase(bname), "case"}}
		bsel := func(f bform) (map[string]any, Sel) {
			return map[string]any{"by_" + f.mode: f.name}, Sel{Mode: f.mode, Name: f.name}
		}
		for _, f := range bforms {
			p, sel := bsel(f)
			r := add(&Rule{B: true, Pkg: pkg, Kind: "omit", Params: p, Sel: sel, Class: f.class})
			r.InA2 = r.InA2 || f.class == "canon"
			r = add(&Rule{B: true, Pkg: pkg, Kind: "rename", ID: ";as=Renamed", Params: with(p, "as", "Renamed"), Sel: sel, Class: f.class, As: "Renamed"})
			r.InA2 = r.InA2 || f.class == "canon"
			r.InA3 = r.InA3 || f.class == "canon"
			r = add(&Rule{B: true, Pkg: pkg, Kind: "duplicate", ID: ";as=Copy", Params: with(p, "as", "Copy"), Sel: sel, Class: f.class, As: "Copy"})
			r.InA2 = r.InA2 || f.class == "canon"
			r.InA3 = r.InA3 || f.class == "canon"
		}
		canon, csel := bsel(bforms[0])
		byName, nsel := bsel(bforms[1])
		a2 := func(r *Rule) *Rule { r.InA2 = true; return r }
		a3 := func(r *Rule) *Rule { r.InA2, r.InA3 = true, true; return r }
		if len(optNames) > 0 {
			a2(add(&Rule{B: true, Pkg: pkg, Kind: "duplicate", ID: ";as=Copy;exclude=" + optNames[0], Params: with(canon, "as", "Copy", "exclude_options", []string{optNames[0]}), Sel: csel, As: "Copy", Exclude: []string{optNames[0]}}))
			a2(add(&Rule{B: true, Pkg: pkg, Kind: "duplicate", ID: ";as=Empty;exclude=all", Params: with(canon, "as", "Empty", "exclude_options", optNames), Sel: csel, As: "Empty", Exclude: optNames}))
			for i, on := range optNames {
				r := a2(add(&Rule{B: true, Pkg: pkg, Kind: "promote_options_to_constructor", ID: ";options=" + on, Params: with(canon, "options", []string{on}), Sel: csel, Opts: []string{on}}))
				if i == 0 {
					a3(r)
				}
			}
			if len(optNames) > 1 {
				a2(add(&Rule{B: true, Pkg: pkg, Kind: "promote_options_to_constructor", ID: ";options=" + optNames[0] + "+" + optNames[1], Params: with(canon, "options", optNames[:2]), Sel: csel, Opts: optNames[:2]}))
			}
			a2(add(&Rule{B: true, Pkg: pkg, Kind: "promote_options_to_constructor", ID: ";options=absent", Params: with(canon, "options", []string{"absent"}), Sel: csel, Opts: []string{"absent"}}))
			add(&Rule{B: true, Pkg: pkg, Kind: "promote_options_to_constructor", ID: ";options=" + swapCase(optNames[0]), Params: with(byName, "options", []string{swapCase(optNames[0])}), Sel: nsel, Opts: []string{swapCase(optNames[0])}, Class: "case"})
		}
		a2(add(&Rule{B: true, Pkg: pkg, Kind: "properties", ID: ";set=prop:string", Params: with(canon, "set", []ast.StructField{{Name: "prop", Type: ast.String()}}), Sel: csel}))
		if len(optNames) > 0 && len(b.Options[0].Args) == 1 && b.Options[0].Args[0].Type.Kind == ast.KindScalar {
			arg := b.Options[0].Args[0]
			factory := ast.BuilderFactory{Name: "preset", OptionCalls: []ast.OptionCall{{Name: optNames[0], Parameters: []ast.OptionCallParameter{
				{Constant: &ast.TypedConstant{Type: plainScalar(arg.Type), Value: scalarValue(arg.Type)}},
			}}}}
			a2(add(&Rule{B: true, Pkg: pkg, Kind: "add_factory", ID: ";factory=preset(" + optNames[0] + ")", Params: with(canon, "factory", factory), Sel: csel}))
		} else {
			factory := ast.BuilderFactory{Name: "preset", Comments: []string{"no calls"}}
			a2(add(&Rule{B: true, Pkg: pkg, Kind: "add_factory", ID: ";factory=preset()", Params: with(canon, "factory", factory), Sel: csel}))
		}
		if scalarField != nil {
			f := *scalarField
			arg := ast.Argument{Name: "val", Type: plainScalar(f.Type)}
			argOpt := veneers.Option{Name: "added", Comments: []string{"added by a veneer"}, Arguments: []ast.Argument{arg},
				Assignments: []veneers.Assignment{{Path: f.Name, Method: ast.DirectAssignment, Value: veneers.AssignmentValue{Argument: &arg}}}}
			a3(add(&Rule{B: true, Pkg: pkg, Kind: "add_option", ID: ";option=added(val)->" + f.Name, Params: with(canon, "option", argOpt), Sel: csel, As: "added"}))
			add(&Rule{B: true, Pkg: pkg, Kind: "add_option", ID: ";option=added(val)->" + f.Name, Params: with(byName, "option", argOpt), Sel: nsel, As: "added", Class: "form"})
			constOpt := veneers.Option{Name: "addedConst", Assignments: []veneers.Assignment{{Path: f.Name, Method: ast.DirectAssignment, Value: veneers.AssignmentValue{Constant: scalarValue(f.Type)}}}}
			a2(add(&Rule{B: true, Pkg: pkg, Kind: "add_option", ID: ";option=addedConst->" + f.Name, Params: with(canon, "option", constOpt), Sel: csel, As: "addedConst"}))
			a3(add(&Rule{B: true, Pkg: pkg, Kind: "initialize", ID: ";set=" + f.Name, Params: with(canon, "set", []map[string]any{{"property": f.Name, "value": scalarValue(f.Type)}}), Sel: csel}))
			add(&Rule{B: true, Pkg: pkg, Kind: "initialize", ID: ";set=" + f.Name, Params: with(byName, "set", []map[string]any{{"property": f.Name, "value": scalarValue(f.Type)}}), Sel: nsel, Class: "form"})
		}
		absentOpt := veneers.Option{Name: "addedAbsent", Assignments: []veneers.Assignment{{Path: "absentField", Method: ast.DirectAssignment, Value: veneers.AssignmentValue{Constant: 1}}}}
		a2(add(&Rule{B: true, Pkg: pkg, Kind: "add_option", ID: ";option=addedAbsent->absentField", Params: with(canon, "option", absentOpt), Sel: csel, As: "addedAbsent"}))
		a2(add(&Rule{B: true, Pkg: pkg, Kind: "initialize", ID: ";set=absentField", Params: with(canon, "set", []map[string]any{{"property": "absentField", "value": 1}}), Sel: csel}))

		// fields that reference an object which has a builder: nested paths and merge_into
		firstMerge := true
		for _, f := range fields {
			if f.Type.Kind != ast.KindRef || f.Type.Ref == nil {
				continue
			}
			target, ok := s.Pristine.LocateObject(f.Type.Ref.ReferredPkg, f.Type.Ref.ReferredType)
			if !ok || target.Type.Kind != ast.KindStruct {
				continue
			}
			srcName, ok := hasBuilderFor(f.Type.Ref.ReferredPkg, f.Type.Ref.ReferredType)
			if !ok {
				continue
			}
			// nested initialise / add_option through the reference
			for i := range target.Type.Struct.Fields {
				tf := target.Type.Struct.Fields[i]
				if !isPlainScalarField(tf) {
					continue
				}
				nested := f.Name + "." + tf.Name
				a2(add(&Rule{B: true, Pkg: pkg, Kind: "initialize", ID: ";set=" + nested, Params: with(canon, "set", []map[string]any{{"property": nested, "value": scalarValue(tf.Type)}}), Sel: csel}))
				arg := ast.Argument{Name: "val", Type: plainScalar(tf.Type)}
				nestedOpt := veneers.Option{Name: "addedNested", Arguments: []ast.Argument{arg},
					Assignments: []veneers.Assignment{{Path: nested, Method: ast.DirectAssignment, Value: veneers.AssignmentValue{Argument: &arg}}}}
				a2(add(&Rule{B: true, Pkg: pkg, Kind: "add_option", ID: ";option=addedNested(val)->" + nested, Params: with(canon, "option", nestedOpt), Sel: csel, As: "addedNested"}))
				break
			}
			if f.Type.Ref.ReferredPkg != b.For.SelfRef.ReferredPkg {
				continue // merge_into looks the source up in the destination's package
			}
			base := map[string]any{"destination": bname, "source": srcName, "under_path": f.Name}
			msel := Sel{Mode: "name", Name: bname}
			r := a2(add(&Rule{B: true, Pkg: pkg, Kind: "merge_into", ID: ";source=" + srcName + ";under=" + f.Name, Params: base, Sel: msel}))
			r.InA3 = true
			if firstMerge {
				firstMerge = false
				if src, found := findBuilder(builders, f.Type.Ref.ReferredPkg, srcName); found && len(src.Options) > 0 {
					on := src.Options[0].Name
					a2(add(&Rule{B: true, Pkg: pkg, Kind: "merge_into", ID: ";source=" + srcName + ";under=" + f.Name + ";exclude=" + on, Params: with(base, "exclude_options", []string{on}), Sel: msel, Exclude: []string{on}}))
					a2(add(&Rule{B: true, Pkg: pkg, Kind: "merge_into", ID: ";source=" + srcName + ";under=" + f.Name + ";rename=" + on, Params: with(base, "rename_options", map[string]string{on: "merged"}), Sel: msel}))
				}
				add(&Rule{B: true, Pkg: pkg, Kind: "merge_into", ID: ";source=" + swapCase(srcName) + ";under=" + f.Name, Params: with(base, "destination", swapCase(bname), "source", swapCase(srcName)), Sel: Sel{Mode: "name", Name: swapCase(bname)}, Class: "case"})
				a2(add(&Rule{B: true, Pkg: pkg, Kind: "merge_into", ID: ";source=Absent;under=" + f.Name, Params: with(base, "source", "Absent"), Sel: msel}))
				a2(add(&Rule{B: true, Pkg: pkg, Kind: "merge_into", ID: ";source=" + srcName + ";under=absentField", Params: with(base, "under_path", "absentField"), Sel: msel}))
			}
		}

		// merge_into under a path of depth 2: through an inline struct field
		// (f.g with f: {g: ref}) or through a reference (f.g with f: ref {g: ref})
		for _, f := range fields {
			inner, ok := resolveOnce(s.Pristine, f.Type)
			if !ok || inner.Kind != ast.KindStruct || inner.Struct == nil {
				continue
			}
			if f.Type.Kind == ast.KindRef {
				if _, has := hasBuilderFor(f.Type.Ref.ReferredPkg, f.Type.Ref.ReferredType); !has {
					continue // MakePath resolves references through the builders
				}
			}
			for _, gf := range inner.Struct.Fields {
				if gf.Type.Kind != ast.KindRef || gf.Type.Ref == nil || gf.Type.Ref.ReferredPkg != b.For.SelfRef.ReferredPkg {
					continue
				}
				target, ok := s.Pristine.LocateObject(gf.Type.Ref.ReferredPkg, gf.Type.Ref.ReferredType)
				srcName, has := hasBuilderFor(gf.Type.Ref.ReferredPkg, gf.Type.Ref.ReferredType)
				if !ok || !has || target.Type.Kind != ast.KindStruct {
					continue
				}
				under := f.Name + "." + gf.Name
				r := a2(add(&Rule{B: true, Pkg: pkg, Kind: "merge_into", ID: ";source=" + srcName + ";under=" + under,
					Params: map[string]any{"destination": bname, "source": srcName, "under_path": under}, Sel: Sel{Mode: "name", Name: bname}}))
				r.InA3 = true
			}
		}

		// per-package rules whose selector names nothing / uses the non-name selectors
		if !seenPkg[pkg] {
			seenPkg[pkg] = true
			a2(add(&Rule{B: true, Pkg: pkg, Kind: "omit", Params: map[string]any{"by_object": "Absent"}, Sel: Sel{Mode: "object", Name: "Absent"}, Class: "absent"}))
			add(&Rule{B: true, Pkg: pkg, Kind: "rename", ID: ";as=Renamed", Params: map[string]any{"by_name": "Absent", "as": "Renamed"}, Sel: Sel{Mode: "name", Name: "Absent"}, Class: "absent", As: "Renamed"})
			add(&Rule{B: true, Pkg: pkg, Kind: "duplicate", ID: ";as=Copy", Params: map[string]any{"by_object": "Absent", "as": "Copy"}, Sel: Sel{Mode: "object", Name: "Absent"}, Class: "absent", As: "Copy"})
			add(&Rule{B: true, Pkg: pkg, Kind: "merge_into", ID: ";source=" + bname + ";under=x", Params: map[string]any{"destination": "Absent", "source": bname, "under_path": "x"}, Sel: Sel{Mode: "name", Name: "Absent"}, Class: "absent"})
			a2(add(&Rule{B: true, Pkg: pkg, Kind: "omit", Params: map[string]any{"generated_from_disjunction": true}, Sel: Sel{Mode: "disj"}, Class: "form"}))
			a2(add(&Rule{B: true, Pkg: pkg, Kind: "rename", ID: ";as=FromDisjunction", Params: map[string]any{"generated_from_disjunction": true, "as": "FromDisjunction"}, Sel: Sel{Mode: "disj"}, Class: "form", As: "FromDisjunction"}))
			a2(add(&Rule{B: true, Pkg: pkg, Kind: "rename", ID: ";as=PanelThing", Params: map[string]any{"by_variant": string(ast.SchemaVariantPanel), "as": "PanelThing"}, Sel: Sel{Mode: "variant", Name: string(ast.SchemaVariantPanel)}, Class: "form", As: "PanelThing"}))
			add(&Rule{B: true, Pkg: pkg, Kind: "omit", Params: map[string]any{"by_variant": string(ast.SchemaVariantDataQuery)}, Sel: Sel{Mode: "variant", Name: string(ast.SchemaVariantDataQuery)}, Class: "absent"})
		}

		// ---------------- option rules ----------------
		g.pkg, g.b, g.scalarField = pkg, b, scalarField
		genOption := g.option
		for oi := range b.Options {
			o := &b.Options[oi]
			genOption(oform{"object", obj, "canon", false}, []string{o.Name}, o, nil, true, true)
			genOption(oform{"builder", bname, "form", false}, []string{o.Name}, o, nil, false, false)
			genOption(oform{"builder", bname, "form", false}, []string{o.Name}, o, mutatorKinds, true, false)
			genOption(oform{"object", obj, "form", true}, []string{o.Name}, o, nil, false, false)
			genOption(oform{"builder", bname, "form", true}, []string{o.Name}, o, nil, false, false)
			genOption(oform{"object", swapCase(obj), "case", false}, []string{swapCase(o.Name)}, o, nil, false, false)
			// options of builders that only exist after a duplicate / rename
			for _, later := range []string{"Copy", "Renamed"} {
				genOption(oform{"builder", later, "copyform", false}, []string{o.Name}, o, mutatorKinds, true, later == "Copy")
			}
		}
		if len(optNames) > 1 {
			// the closest YAML gets to "every option": all the options of a builder by name
			multi := map[string]bool{"omit": true, "array_to_append": true, "map_to_index": true, "unfold_boolean": true, "struct_fields_as_arguments": true,
				"struct_fields_as_options": true, "disjunction_as_options": true, "rename_arguments": true, "add_comments": true, "duplicate": true}
			genOption(oform{"object", obj, "form", true}, optNames, nil, multi, true, false)
		}
		genOption(oform{"object", obj, "absent", false}, []string{"absentOption"}, nil, map[string]bool{"omit": true, "rename": true, "duplicate": true}, true, false)
		genOption(oform{"object", "Absent", "absent", false}, []string{optNamesOr(optNames, "x")}, nil, map[string]bool{"omit": true, "rename": true}, false, false)
	}

	// compose: only where a composable package exists
	for _, p := range s.Spec.Pkgs {
		if p.Kind != string(ast.SchemaKindComposable) {
			continue
		}
		base := map[string]any{
			"by_variant":                 p.Variant,
			"source_builder_name":        "dash.Panel",
			"plugin_discriminator_field": "type",
			"composition_map":            map[string]string{"Options": "options", "FieldConfig": "fieldConfig.custom"},
		}
		sel := Sel{Mode: "variant", Name: p.Variant}
		r := add(&Rule{B: true, Pkg: "dash", Kind: "compose", ID: ";source=dash.Panel", Params: base, Sel: sel})
		r.InA2, r.InA3 = true, true
		r = add(&Rule{B: true, Pkg: "dash", Kind: "compose", ID: ";source=dash.Panel;name=TsPanel;exclude=title;preserve", Params: with(base, "composed_builder_name", "TsPanel", "exclude_options", []string{"title"}, "preserve_original_builders", true), Sel: sel})
		r.InA2 = true
		r = add(&Rule{B: true, Pkg: "dash", Kind: "compose", ID: ";source=dash.Absent", Params: with(base, "source_builder_name", "dash.Absent"), Sel: sel, Class: "absent"})
		r.InA2 = true
		r = add(&Rule{B: true, Pkg: "dash", Kind: "compose", ID: ";source=dash.Panel;discriminator=absent", Params: with(base, "plugin_discriminator_field", "absentField"), Sel: sel})
		r.InA2 = true
	}

	s.crossPackageRules(g)

	for _, r := range s.A1 {
		if r.InA2 {
			s.A2 = append(s.A2, r)
		}
		if r.InA3 {
			s.A3 = append(s.A3, r)
		}
	}
}

// crossPackageRules: every builder rule kind behind the selectors that are
// NOT tied to the package of the rule file (by_variant for every variant of
// the seed, generated_from_disjunction). Such a selector picks builders of
// several packages at once, possibly for objects of the same name; the rule
// parameters name what the selected objects have in common (fields and
// options present, by name, in at least two of them) and, for the error
// outcome, what only one of them has.
func (s *Seed) crossPackageRules(g *gen) {
	add := g.add
	type csel struct {
		params map[string]any
		sel    Sel
		tag    string
	}
	var sels []csel
	seenVariant := map[string]bool{}
	for _, p := range s.Spec.Pkgs {
		if p.Kind == string(ast.SchemaKindComposable) && p.Variant != "" && !seenVariant[p.Variant] {
			seenVariant[p.Variant] = true
			sels = append(sels, csel{map[string]any{"by_variant": p.Variant}, Sel{Mode: "variant", Name: p.Variant}, "variant"})
		}
	}
	sels = append(sels, csel{map[string]any{"generated_from_disjunction": true}, Sel{Mode: "disj"}, "disj"})
	pkg := s.Spec.Pkgs[0].Pkg
	for _, cs := range sels {
		probe := &Rule{B: true, Pkg: pkg, Sel: cs.sel}
		var selected []*ast.Builder
		for i := range s.Init.Builders {
			if probe.selectsBuilder(s.Pristine, &s.Init.Builders[i]) {
				selected = append(selected, &s.Init.Builders[i])
			}
		}
		if len(selected) < 2 {
			continue // the single-builder case is what the name selectors already do
		}
		mk := func(kind, id string, params map[string]any, r Rule) *Rule {
			r.B, r.Pkg, r.Kind, r.ID, r.Params, r.Sel, r.Class = true, pkg, kind, id, params, cs.sel, "cross"
			out := add(&r)
			out.InA2 = true
			return out
		}
		mk("omit", "", cs.params, Rule{})
		mk("rename", ";as=Spanned", with(cs.params, "as", "Spanned"), Rule{As: "Spanned"})
		mk("duplicate", ";as=SpannedCopy", with(cs.params, "as", "SpannedCopy"), Rule{As: "SpannedCopy"}).InA3 = true
		mk("properties", ";set=prop:string", with(cs.params, "set", []ast.StructField{{Name: "prop", Type: ast.String()}}), Rule{})
		mk("add_factory", ";factory=preset()", with(cs.params, "factory", ast.BuilderFactory{Name: "preset", Comments: []string{"no calls"}}), Rule{})

		// field paths (depth 1 and 2) and option names by how many selected builders have them
		var order []string
		count := map[string]int{}
		firstType := map[string]ast.Type{}
		note := func(path string, t ast.Type) {
			if count[path] == 0 {
				order = append(order, path)
				firstType[path] = t
			}
			count[path]++
		}
		optCount := map[string]int{}
		var optOrder []string
		for _, b := range selected {
			rt, _ := resolve(s.Pristine, b.For.Type)
			if rt.Kind != ast.KindStruct || rt.Struct == nil {
				continue
			}
			for _, f := range rt.Struct.Fields {
				note(f.Name, f.Type)
				if f.Type.Kind != ast.KindRef || f.Type.Ref == nil {
					continue
				}
				if _, has := findBuilderFor(s.Init.Builders, f.Type.Ref.ReferredPkg, f.Type.Ref.ReferredType); !has {
					continue
				}
				if inner, ok := resolve(s.Pristine, f.Type); ok && inner.Kind == ast.KindStruct {
					for _, gf := range inner.Struct.Fields {
						note(f.Name+"."+gf.Name, gf.Type)
					}
				}
			}
			for _, o := range b.Options {
				if optCount[o.Name] == 0 {
					optOrder = append(optOrder, o.Name)
				}
				optCount[o.Name]++
			}
		}
		value := func(t ast.Type) any {
			if t.Kind == ast.KindScalar && t.Scalar != nil {
				return scalarValue(t)
			}
			return "v"
		}
		lonely := 0
		for _, path := range order {
			t := firstType[path]
			if count[path] < 2 {
				if lonely++; lonely > 2 {
					continue // two error-outcome instances are enough
				}
			}
			r := mk("initialize", ";set="+path, with(cs.params, "set", []map[string]any{{"property": path, "value": value(t)}}), Rule{})
			if count[path] >= 2 {
				r.InA3 = true
			}
			constOpt := veneers.Option{Name: "spannedConst", Assignments: []veneers.Assignment{{Path: path, Method: ast.DirectAssignment, Value: veneers.AssignmentValue{Constant: value(t)}}}}
			mk("add_option", ";option=spannedConst->"+path, with(cs.params, "option", constOpt), Rule{As: "spannedConst"})
			if t.Kind == ast.KindScalar && t.Scalar != nil && t.Scalar.Value == nil {
				arg := ast.Argument{Name: "val", Type: plainScalar(t)}
				argOpt := veneers.Option{Name: "spanned", Arguments: []ast.Argument{arg},
					Assignments: []veneers.Assignment{{Path: path, Method: ast.DirectAssignment, Value: veneers.AssignmentValue{Argument: &arg}}}}
				mk("add_option", ";option=spanned(val)->"+path, with(cs.params, "option", argOpt), Rule{As: "spanned"})
			}
		}
		var common []string
		for _, on := range optOrder {
			if optCount[on] >= 2 {
				common = append(common, on)
				mk("promote_options_to_constructor", ";options="+on, with(cs.params, "options", []string{on}), Rule{Opts: []string{on}})
			}
		}
		if len(common) >= 2 {
			mk("promote_options_to_constructor", ";options="+common[0]+"+"+common[1], with(cs.params, "options", common[:2]), Rule{Opts: common[:2]})
		}
	}
}

func findBuilderFor(bs []ast.Builder, pkg, obj string) (*ast.Builder, bool) {
	for i := range bs {
		if bs[i].For.SelfRef.ReferredPkg == pkg && bs[i].For.SelfRef.ReferredType == obj {
			return &bs[i], true
		}
	}
	return nil, false
}

// gen generates rules for one seed: the static alphabet (from the initial
// builders) and, per explored state, the rules that target options/builders
// which only exist in that state.
type gen struct {
	s           *Seed
	dir         string
	dynamic     bool
	pkg         string
	b           *ast.Builder
	scalarField *ast.StructField
	out         []*Rule
}

func (g *gen) add(r *Rule) *Rule {
	s := g.s
	if r.Class == "" {
		r.Class = "canon"
	}
	if g.dynamic {
		r.Class = "dynamic"
	}
	sel := ""
	switch {
	case r.B && r.Kind == "merge_into":
		sel = fmt.Sprintf("destination=%s", r.Sel.Name)
	case r.B:
		sel = fmt.Sprintf("by_%s=%s", r.Sel.Mode, r.Sel.Name)
	default:
		sel = fmt.Sprintf("by_%s=%s.%s", r.Sel.Mode, r.Sel.Name, strings.Join(r.Sel.Options, "+"))
	}
	if r.B && r.Kind == "merge_into" {
		r.Source, _ = r.Params["source"].(string)
		r.Under, _ = r.Params["under_path"].(string)
		r.RenameTo, _ = r.Params["rename_options"].(map[string]string)
		if ex, ok := r.Params["exclude_options"].([]string); ok {
			r.Exclude = ex
		}
	}
	r.ID = fmt.Sprintf("%s(%s%s)@%s", r.Name(), sel, r.ID, r.Pkg)
	if old, dup := s.byID[r.ID]; dup {
		if g.dynamic {
			g.out = append(g.out, old)
		}
		return old // the same rule reached through two generators
	}
	r.Idx = len(s.byID)
	s.byID[r.ID] = r
	if g.dynamic {
		g.out = append(g.out, r)
	} else {
		s.A1 = append(s.A1, r)
	}
	r.files, r.yaml = map[string]string{}, map[string]string{}
	r.base = filepath.Join(g.dir, fmt.Sprintf("s%03d_r%05d", s.Idx, r.Idx))
	return r
}

// text returns the YAML of the single-rule veneers file for a file language.
func (r *Rule) text(lang string) string {
	r.mu.Lock()
	defer r.mu.Unlock()
	if t, ok := r.yaml[lang]; ok {
		return t
	}
	r.yaml[lang] = r.render(lang)
	return r.yaml[lang]
}

// file returns (writing it on first use) the single-rule veneers file.
func (r *Rule) file(lang string) string {
	text := r.text(lang)
	r.mu.Lock()
	defer r.mu.Unlock()
	if p, ok := r.files[lang]; ok {
		return p
	}
	p := r.base + "_" + lang + ".yaml"
	if err := os.WriteFile(p, []byte(text), 0o644); err != nil {
		vx.Fatalf("writing %s: %v", p, err)
	}
	r.files[lang] = p
	return p
}

// veneersDir returns (creating it on first use) a directory that holds
// nothing but the rule's `language: all` file: what a pipeline configuration
// lists under transformations.builders.
func (r *Rule) veneersDir() string {
	text := r.text("all")
	r.mu.Lock()
	defer r.mu.Unlock()
	if p, ok := r.files["dir"]; ok {
		return p
	}
	p := r.base + ".d"
	if err := os.MkdirAll(p, 0o755); err != nil {
		vx.Fatalf("creating %s: %v", p, err)
	}
	if err := os.WriteFile(filepath.Join(p, "rule.yaml"), []byte(text), 0o644); err != nil {
		vx.Fatalf("writing %s: %v", p, err)
	}
	r.files["dir"] = p
	return p
}

func with(base map[string]any, kv ...any) map[string]any {
	out := map[string]any{}
	for k, v := range base {
		out[k] = v
	}
	for i := 0; i+1 < len(kv); i += 2 {
		out[kv[i].(string)] = kv[i+1]
	}
	return out
}

type oform struct {
	mode, name, class string
	names             bool // by_names instead of by_name / by_builder
}

func osel(f oform, opts []string) (map[string]any, Sel) {
	sel := Sel{Mode: f.mode, Name: f.name, Options: opts}
	if f.names {
		return map[string]any{"by_names": map[string]any{f.mode: f.name, "options": opts}}, sel
	}
	key := "by_name"
	if f.mode == "builder" {
		key = "by_builder"
	}
	return map[string]any{key: f.name + "." + opts[0]}, sel
}

// the rule kinds that rewrite an option in place (explored under more selector forms)
var mutatorKinds = map[string]bool{"rename_arguments": true, "array_to_append": true, "map_to_index": true, "omit": true, "struct_fields_as_arguments": true, "add_assignment": true}

func (g *gen) option(f oform, opts []string, o *ast.Option, restrict map[string]bool, a2form, a3form bool) {
	s, pkg, b, scalarField, add := g.s, g.pkg, g.b, g.scalarField, g.add
	p, sel := osel(f, opts)
	mk := func(kind, id string, params map[string]any, r Rule) *Rule {
		if restrict != nil && !restrict[kind] {
			return nil
		}
		r.Pkg, r.Kind, r.ID, r.Params, r.Sel, r.Class = pkg, kind, id, params, sel, f.class
		if f.names {
			r.ID += ";by_names"
		}
		out := add(&r)
		if a2form {
			out.InA2 = true
		}
		return out
	}
	in3 := func(r *Rule, applicable bool) {
		if r != nil && a3form && applicable {
			r.InA3 = true
		}
	}
	var argT ast.Type
	if o != nil && len(o.Args) > 0 {
		argT = o.Args[0].Type
	}
	argStruct, _ := resolveOnce(s.Pristine, argT)
	first := o != nil && len(b.Options) > 0 && o.Name == b.Options[0].Name

	in3(mk("omit", "", p, Rule{}), first)
	mk("rename", ";as=renamed", with(p, "as", "renamed"), Rule{As: "renamed"})
	in3(mk("rename_arguments", ";as=x", with(p, "as", []string{"x"}), Rule{AsList: []string{"x"}}), first || argT.Kind == ast.KindMap)
	in3(mk("rename_arguments", ";as=x+y", with(p, "as", []string{"x", "y"}), Rule{AsList: []string{"x", "y"}}), argT.Kind == ast.KindMap)
	if argStruct.Kind == ast.KindStruct {
		// the names of the struct's own fields, rotated: meaningful after struct_fields_as_arguments
		var names []string
		for _, sf := range argStruct.Struct.Fields {
			if sf.Type.Kind == ast.KindScalar && sf.Type.Scalar.Value != nil {
				continue
			}
			names = append(names, sf.Name)
		}
		if len(names) >= 2 {
			rot := append(append([]string{}, names[1:]...), names[0])
			in3(mk("rename_arguments", ";as="+strings.Join(rot, "+"), with(p, "as", rot), Rule{AsList: rot}), true)
		}
	}
	in3(mk("array_to_append", "", p, Rule{}), argT.Kind == ast.KindArray)
	in3(mk("map_to_index", "", p, Rule{}), argT.Kind == ast.KindMap)
	in3(mk("unfold_boolean", ";enable/disable", with(p, "true_as", "enable", "false_as", "disable"), Rule{TrueAs: "enable", FalseAs: "disable"}),
		argT.Kind == ast.KindScalar && argT.Scalar.ScalarKind == ast.KindBool)
	firstField := "x"
	if argStruct.Kind == ast.KindStruct && len(argStruct.Struct.Fields) > 0 {
		firstField = argStruct.Struct.Fields[0].Name
	}
	for _, kind := range []string{"struct_fields_as_arguments", "struct_fields_as_options"} {
		in3(mk(kind, "", p, Rule{}), argStruct.Kind == ast.KindStruct)
		mk(kind, ";fields="+firstField, with(p, "fields", []string{firstField}), Rule{Fields: []string{firstField}})
		mk(kind, ";fields=absentField", with(p, "fields", []string{"absentField"}), Rule{Fields: []string{"absentField"}})
	}
	in3(mk("disjunction_as_options", "", p, Rule{}), argT.Kind == ast.KindDisjunction || (argT.Kind == ast.KindRef && argStruct.Kind == ast.KindStruct && len(argStruct.Hints) > 0))
	if r := mk("disjunction_as_options", ";argument_index=1", with(p, "argument_index", 1), Rule{ArgIdx: 1}); r != nil && argT.Kind != ast.KindMap {
		// index 1 only exists once map_to_index has made two arguments;
		// elsewhere it is explored at depth 1 only (it panics, C04)
		r.InA2 = false
	}
	in3(mk("duplicate", ";as=copy", with(p, "as", "copy"), Rule{As: "copy"}), first)
	mk("add_comments", ";note", with(p, "comments", []string{"note"}), Rule{Comments: []string{"note"}})
	if scalarField != nil {
		asg := veneers.Assignment{Path: scalarField.Name, Method: ast.DirectAssignment, Value: veneers.AssignmentValue{Constant: scalarValue(scalarField.Type)}}
		mk("add_assignment", ";const->"+scalarField.Name, with(p, "assignment", asg), Rule{})
	}
	if o != nil && len(o.Args) > 0 && len(o.Assignments) > 0 && len(o.Assignments[0].Path) == 1 && yamlable(o.Args[0].Type) {
		arg := o.Args[0]
		asg := veneers.Assignment{Path: o.Assignments[0].Path[0].Identifier, Method: ast.DirectAssignment, Value: veneers.AssignmentValue{Argument: &arg}}
		mk("add_assignment", ";arg->"+asg.Path, with(p, "assignment", asg), Rule{})
	}
	mk("add_assignment", ";const->absentField", with(p, "assignment", veneers.Assignment{Path: "absentField", Method: ast.DirectAssignment, Value: veneers.AssignmentValue{Constant: 1}}), Rule{})
}

var dynKinds = map[string]bool{"omit": true, "rename": true, "rename_arguments": true, "array_to_append": true, "map_to_index": true, "unfold_boolean": true,
	"struct_fields_as_arguments": true, "struct_fields_as_options": true, "disjunction_as_options": true, "duplicate": true}

// dynamic returns the rules that target what only exists in state st: the
// options the initial builder of that name does not have (results of rename,
// duplicate, unfold_boolean, struct_fields_as_options, disjunction_as_options,
// add_option, merge_into, compose) and the builders no initial builder is
// named like (results of rename, duplicate, compose). They are generated
// deterministically from the state, so a replay regenerates them.
func (s *Seed) dynamic(st *State) []*Rule {
	if s.initOpts == nil {
		s.initOpts = map[string]map[string]bool{}
		for _, b := range s.Init.Builders {
			m := map[string]bool{}
			for _, o := range b.Options {
				m[o.Name] = true
			}
			s.initOpts[b.Package+"."+b.Name] = m
		}
	}
	g := &gen{s: s, dir: s.dir, dynamic: true}
	for bi := range st.Builders {
		b := &st.Builders[bi]
		known, builderKnown := s.initOpts[b.Package+"."+b.Name]
		rt, _ := resolve(s.Pristine, b.For.Type)
		var scalarField *ast.StructField
		if rt.Kind == ast.KindStruct && rt.Struct != nil {
			for i := range rt.Struct.Fields {
				if isPlainScalarField(rt.Struct.Fields[i]) {
					scalarField = &rt.Struct.Fields[i]
					break
				}
			}
		}
		g.pkg, g.b, g.scalarField = b.Package, b, scalarField
		bpkg := b.For.SelfRef.ReferredPkg
		byName, nsel := map[string]any{"by_name": b.Name}, Sel{Mode: "name", Name: b.Name}
		if !builderKnown {
			// the new builder as source and as destination of merge_into:
			// `source:` / `destination:` name BUILDERS, which is only
			// distinguishable from naming objects once a builder was renamed,
			// duplicated or composed
			// (only when the name designates one builder: which of several
			// homonymous builders a rule means is not documented)
			unique := func(name string) bool {
				n := 0
				for i := range st.Builders {
					if st.Builders[i].For.SelfRef.ReferredPkg == bpkg && strings.EqualFold(st.Builders[i].Name, name) {
						n++
					}
				}
				return n == 1
			}
			for di := range st.Builders {
				d := &st.Builders[di]
				if d.For.SelfRef.ReferredPkg != bpkg || !unique(b.Name) || !unique(d.Name) {
					continue
				}
				for _, rp := range s.refPaths(d.For.Type, st.Builders) {
					if rp.pkg == b.For.SelfRef.ReferredPkg && rp.obj == b.For.SelfRef.ReferredType {
						g.add(&Rule{B: true, Pkg: bpkg, Kind: "merge_into", ID: ";source=" + b.Name + ";under=" + rp.path,
							Params: map[string]any{"destination": d.Name, "source": b.Name, "under_path": rp.path}, Sel: Sel{Mode: "name", Name: d.Name}})
					}
				}
			}
			for _, rp := range s.refPaths(b.For.Type, st.Builders) {
				if rp.pkg != bpkg {
					continue
				}
				for si := range st.Builders {
					src := &st.Builders[si]
					if src.For.SelfRef.ReferredPkg == rp.pkg && src.For.SelfRef.ReferredType == rp.obj && unique(b.Name) && unique(src.Name) {
						g.add(&Rule{B: true, Pkg: bpkg, Kind: "merge_into", ID: ";source=" + src.Name + ";under=" + rp.path,
							Params: map[string]any{"destination": b.Name, "source": src.Name, "under_path": rp.path}, Sel: nsel})
					}
				}
			}
			g.add(&Rule{B: true, Pkg: bpkg, Kind: "omit", Params: byName, Sel: nsel})
			g.add(&Rule{B: true, Pkg: bpkg, Kind: "rename", ID: ";as=Renamed2", Params: with(byName, "as", "Renamed2"), Sel: nsel, As: "Renamed2"})
			g.add(&Rule{B: true, Pkg: bpkg, Kind: "duplicate", ID: ";as=Copy2", Params: with(byName, "as", "Copy2"), Sel: nsel, As: "Copy2"})
		}
		for oi := range b.Options {
			o := &b.Options[oi]
			if builderKnown && known[o.Name] {
				continue
			}
			g.option(oform{"builder", b.Name, "dynamic", false}, []string{o.Name}, o, dynKinds, false, false)
			g.add(&Rule{B: true, Pkg: bpkg, Kind: "promote_options_to_constructor", ID: ";options=" + o.Name, Params: with(byName, "options", []string{o.Name}), Sel: nsel, Opts: []string{o.Name}})
		}
	}
	return g.out
}

type refPath struct{ path, pkg, obj string }

// refPaths lists the field paths (depth 1, and depth 2 through an inline
// struct or through a reference that has a builder) of a struct that hold a
// reference to a struct object.
func (s *Seed) refPaths(t ast.Type, builders []ast.Builder) []refPath {
	var out []refPath
	rt, ok := resolve(s.Pristine, t)
	if !ok || rt.Kind != ast.KindStruct || rt.Struct == nil {
		return nil
	}
	isStructRef := func(ft ast.Type) bool {
		if ft.Kind != ast.KindRef || ft.Ref == nil {
			return false
		}
		target, found := s.Pristine.LocateObject(ft.Ref.ReferredPkg, ft.Ref.ReferredType)
		return found && target.Type.Kind == ast.KindStruct
	}
	for _, f := range rt.Struct.Fields {
		if isStructRef(f.Type) {
			out = append(out, refPath{f.Name, f.Type.Ref.ReferredPkg, f.Type.Ref.ReferredType})
		}
		inner, ok := resolveOnce(s.Pristine, f.Type)
		if !ok || inner.Kind != ast.KindStruct || inner.Struct == nil {
			continue
		}
		if f.Type.Kind == ast.KindRef {
			if _, has := findBuilderFor(builders, f.Type.Ref.ReferredPkg, f.Type.Ref.ReferredType); !has {
				continue
			}
		}
		for _, gf := range inner.Struct.Fields {
			if isStructRef(gf.Type) {
				out = append(out, refPath{f.Name + "." + gf.Name, gf.Type.Ref.ReferredPkg, gf.Type.Ref.ReferredType})
			}
		}
	}
	return out
}

func optNamesOr(names []string, d string) string {
	if len(names) > 0 {
		return names[0]
	}
	return d
}

func findBuilder(bs []ast.Builder, pkg, name string) (*ast.Builder, bool) {
	for i := range bs {
		if bs[i].For.SelfRef.ReferredPkg == pkg && bs[i].Name == name {
			return &bs[i], true
		}
	}
	return nil, false
}

// yamlable says whether yaml.v3 renders the type in a form the loader reads
// back identically (constant references carry an `any` the YAML round trip
// re-types; they are left out of hand-written arguments).
func yamlable(t ast.Type) bool {
	switch t.Kind {
	case ast.KindScalar:
		return t.Scalar.Value == nil && len(t.Scalar.Constraints) == 0 && t.Default == nil && len(t.Hints) == 0
	case ast.KindRef:
		return t.Default == nil && len(t.Hints) == 0
	case ast.KindArray:
		return t.Default == nil && yamlable(t.Array.ValueType)
	case ast.KindMap:
		return t.Default == nil && yamlable(t.Map.IndexType) && yamlable(t.Map.ValueType)
	}
	return false
}
