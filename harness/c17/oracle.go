//go:build verif

package main

import (
	"crypto/sha256"
	"fmt"
	"reflect"
	"sort"
	"strings"
	"sync"
	"sync/atomic"
	"unsafe"

	"github.com/grafana/cog/internal/ast"
	"github.com/grafana/cog/verifx/refl"
)

// ---------------------------------------------------------------------------
// The oracle. Everything below is written from the statement of C17, from
// Appendix A.4 of DESIGN.md and from the doc comments of the selectors and
// actions; it never calls Builder.MakePath, the selectors or the actions.
// ---------------------------------------------------------------------------

// viol is one violated clause. Clause is the normalised part (it becomes the
// failure kind), Desc identifies the violation inside a state (used to tell
// new violations from inherited ones), What is for humans.
type viol struct {
	Clause string
	Desc   string
	What   string
}

var assignmentsChecked atomic.Int64

// resolve follows references (alias chains included) through the schemas.
func resolve(sch ast.Schemas, t ast.Type) (ast.Type, bool) {
	for i := 0; i < 32 && t.Kind == ast.KindRef && t.Ref != nil; i++ {
		obj, ok := sch.LocateObject(t.Ref.ReferredPkg, t.Ref.ReferredType)
		if !ok {
			return t, false
		}
		t = obj.Type
	}
	return t, t.Kind != ast.KindRef
}

// resolveOnce follows one reference ("a struct or a reference to one").
func resolveOnce(sch ast.Schemas, t ast.Type) (ast.Type, bool) {
	if t.Kind == ast.KindRef && t.Ref != nil {
		obj, ok := sch.LocateObject(t.Ref.ReferredPkg, t.Ref.ReferredType)
		if !ok {
			return t, false
		}
		return obj.Type, true
	}
	return t, true
}

// typeEq compares two types structurally. Lenience: the top-level Default is
// ignored (struct_fields_as_arguments deliberately copies the option's default
// into the argument/path type, see its comment) .
func typeEq(a, b ast.Type) bool {
	a.Default, b.Default = nil, nil
	if reflect.DeepEqual(a, b) {
		return true // fast path; DeepEqual is stricter than Canon (nil vs empty)
	}
	return canonOf(a) == canonOf(b)
}

// argTypeEq additionally ignores the top-level Nullable flag:
// promote_options_to_constructor documents nothing about it and clears it on
// the constructor argument on purpose; the statement only demands that the
// argument is declared.
func argTypeEq(a, b ast.Type) bool {
	a.Nullable, b.Nullable = false, false
	return typeEq(a, b)
}

func fieldByName(st *ast.StructType, name string) (ast.StructField, bool) {
	for _, f := range st.Fields {
		if f.Name == name {
			return f, true
		}
	}
	return ast.StructField{}, false
}

func pathString(p ast.Path) string {
	var parts []string
	for _, it := range p {
		s := it.Identifier
		if it.Index != nil {
			switch {
			case it.Index.Argument != nil:
				s += "[" + it.Index.Argument.Name + "]"
			default:
				s += fmt.Sprintf("[%v]", it.Index.Constant)
			}
		}
		parts = append(parts, s)
	}
	return strings.Join(parts, ".")
}

// walkPath interprets path from the type start: struct fields by name
// (through references), index steps on maps/arrays. It returns the violated
// clause ("" if none), a locus and the type reached.
func walkPath(sch ast.Schemas, start ast.Type, path ast.Path) (clause, locus string, reached ast.Type) {
	cur := start
	if len(path) == 0 {
		return "empty path", "", cur
	}
	for i, it := range path {
		if it.Root {
			// "a variable, not a member of a struct": nothing is demanded of it
			cur = it.Type
			continue
		}
		if it.Identifier == "" && it.Index == nil {
			return "path step names nothing", fmt.Sprintf("step %d", i), cur
		}
		if it.Identifier != "" {
			base, ok := resolve(sch, cur)
			if !ok {
				return "path step goes through a dangling reference", it.Identifier, cur
			}
			if base.Kind != ast.KindStruct || base.Struct == nil {
				return "path step goes through a non-struct", fmt.Sprintf("%s inside %s", it.Identifier, base.Kind), cur
			}
			f, found := fieldByName(base.Struct, it.Identifier)
			if !found {
				return "path step does not exist", it.Identifier, cur
			}
			if it.Index == nil && !typeEq(f.Type, it.Type) {
				return "path step type differs from the field type", fmt.Sprintf("%s: %s vs field %s", it.Identifier, typeLabel(it.Type), typeLabel(f.Type)), cur
			}
			cur = f.Type
		}
		if it.Index != nil {
			base, ok := resolve(sch, cur)
			if !ok {
				return "path step goes through a dangling reference", "index", cur
			}
			var elem ast.Type
			switch {
			case base.Kind == ast.KindMap && base.Map != nil:
				elem = base.Map.ValueType
			case base.Kind == ast.KindArray && base.Array != nil:
				elem = base.Array.ValueType
			default:
				return "index step on a non-collection", string(base.Kind), cur
			}
			// the rule contract changes the item type here: an index step addresses the element
			if it.Identifier == "" && !typeEq(elem, it.Type) {
				return "index step type differs from the element type", fmt.Sprintf("%s vs element %s", typeLabel(it.Type), typeLabel(elem)), cur
			}
			// an item with both an identifier and an index may carry either type: lenient
			cur = elem
		}
		if it.TypeHint != nil {
			// documented on PathItem: the field is `any` and something of a
			// known type is composed in; the walk continues from the hint.
			cur = *it.TypeHint
		}
	}
	return "", "", cur
}

type usedArg struct {
	pos string
	arg ast.Argument
}

func valueArgs(v ast.AssignmentValue, pos string, out *[]usedArg) {
	if v.Argument != nil {
		*out = append(*out, usedArg{pos, *v.Argument})
	}
	if v.Envelope != nil {
		for _, ev := range v.Envelope.Values {
			valueArgs(ev.Value, "envelope value", out)
		}
	}
}

func usedArgs(a ast.Assignment) []usedArg {
	var out []usedArg
	valueArgs(a.Value, "value", &out)
	for _, it := range a.Path {
		if it.Index != nil && it.Index.Argument != nil {
			out = append(out, usedArg{"index", *it.Index.Argument})
		}
	}
	for _, c := range a.Constraints {
		out = append(out, usedArg{"constraint", c.Argument})
	}
	return out
}

func checkEnvelope(sch ast.Schemas, env *ast.AssignmentEnvelope, add func(clause, desc, what string)) {
	for _, ev := range env.Values {
		if c, l, _ := walkPath(sch, env.Type, ev.Path); c != "" {
			add("envelope "+c, "envelope "+c+"|"+l, fmt.Sprintf("envelope path %s: %s (%s)", pathString(ev.Path), c, l))
		}
		if ev.Value.Envelope != nil {
			checkEnvelope(sch, ev.Value.Envelope, add)
		}
	}
}

// builderInvariant evaluates the state invariant on one builder.
func builderInvariant(sch ast.Schemas, b *ast.Builder) []viol {
	var out []viol
	{
		check := func(where string, args []ast.Argument, asg []ast.Assignment) {
			for ai := range asg {
				a := &asg[ai]
				add := func(clause, desc, what string) {
					loc := fmt.Sprintf("builder %s.%s (for %s) %s assignment #%d path %s", b.Package, b.Name, b.For.Name, where, ai, pathString(a.Path))
					out = append(out, viol{Clause: clause, Desc: desc, What: loc + ": " + what})
				}
				clause, l, reached := walkPath(sch, b.For.Type, a.Path)
				if clause != "" {
					add(clause, clause+"|"+l, clause+" ("+l+")")
				}
				if a.Value.Envelope != nil {
					checkEnvelope(sch, a.Value.Envelope, add)
					// "matching types": an envelope builds the value that is
					// stored, so it is typed like the place the path names (its
					// element when the assignment appends to a list).
					if clause == "" {
						stored := reached
						if a.Method == ast.AppendAssignment {
							if coll, ok := resolve(sch, reached); ok && coll.Kind == ast.KindArray && coll.Array != nil {
								stored = coll.Array.ValueType
							}
						}
						if !argTypeEq(stored, a.Value.Envelope.Type) {
							add("envelope type differs from the type of what the assignment stores", "envelope-type", fmt.Sprintf("envelope of type %s for a %s assignment into %s", typeLabel(a.Value.Envelope.Type), a.Method, typeLabel(reached)))
						}
					}
				}
				for _, u := range usedArgs(*a) {
					named := false
					typed := false
					for _, d := range args {
						if d.Name == u.arg.Name {
							named = true
							if argTypeEq(d.Type, u.arg.Type) {
								typed = true
							}
						}
					}
					switch {
					case !named:
						add("argument not declared ("+u.pos+")", "arg|"+u.pos, fmt.Sprintf("the %s uses argument %q which is not among the declared arguments %v", u.pos, u.arg.Name, argNames(args)))
					case !typed:
						add("argument declared with another type ("+u.pos+")", "arg|"+u.pos, fmt.Sprintf("the %s uses argument %q as %s but it is declared otherwise", u.pos, u.arg.Name, typeLabel(u.arg.Type)))
					}
				}
			}
		}
		check("constructor", b.Constructor.Args, b.Constructor.Assignments)
		for oi := range b.Options {
			o := &b.Options[oi]
			check("option "+o.Name, o.Args, o.Assignments)
		}
	}
	return out
}

// aliasProbe looks for assignment paths of ONE option (or constructor) whose
// slices share backing-array slots: writing or appending through one of them
// silently rewrites the other ("every assignment path ... still names an
// existing chain of fields" then only holds by accident). Paths shared between
// two options are not reported: unfold_boolean hands the path of the original
// option to both new options and nothing is wrong with the result.
func aliasProbe(builders []ast.Builder) []viol {
	var out []viol
	type span struct{ lo, hi uintptr }
	spanOf := func(p ast.Path) (span, bool) {
		if cap(p) == 0 {
			return span{}, false
		}
		lo := uintptr(unsafe.Pointer(unsafe.SliceData(p)))
		return span{lo, lo + uintptr(cap(p))*unsafe.Sizeof(ast.PathItem{})}, true
	}
	for bi := range builders {
		b := &builders[bi]
		check := func(where string, asg []ast.Assignment) {
			var spans []span
			for ai := range asg {
				sp, ok := spanOf(asg[ai].Path)
				if !ok {
					continue
				}
				for _, other := range spans {
					if sp.lo < other.hi && other.lo < sp.hi {
						out = append(out, viol{Clause: "two assignment paths of one option share a backing array", Desc: "alias|" + b.For.Name + "|" + where,
							What: fmt.Sprintf("builder %s.%s %s: assignment #%d (path %s) shares its backing array with an earlier assignment", b.Package, b.Name, where, ai, pathString(asg[ai].Path))})
						break
					}
				}
				spans = append(spans, sp)
			}
		}
		check("constructor", b.Constructor.Assignments)
		for oi := range b.Options {
			check("option "+b.Options[oi].Name, b.Options[oi].Assignments)
		}
	}
	return out
}

var invCache sync.Map // seed index + builder canon hash -> []viol
var assignmentsCovered atomic.Int64

// invariant evaluates the state invariant on every builder of a state; the
// verdict of a builder is cached on its canonical rendering.
func invariant(seed *Seed, st *State) []viol {
	var out []viol
	for i := range st.Builders {
		b := &st.Builders[i]
		n := len(b.Constructor.Assignments)
		for _, o := range b.Options {
			n += len(o.Assignments)
		}
		assignmentsCovered.Add(int64(n))
		h := sha256.Sum256([]byte(st.BC[i]))
		key := string(rune(seed.Idx)) + string(h[:])
		if v, ok := invCache.Load(key); ok {
			out = append(out, v.([]viol)...)
			continue
		}
		v := builderInvariant(seed.Pristine, b)
		if _, loaded := invCache.LoadOrStore(key, v); !loaded {
			assignmentsChecked.Add(int64(n)) // counted once per distinct builder
		}
		out = append(out, v...)
	}
	return append(out, aliasProbe(st.Builders)...)
}

func argNames(args []ast.Argument) []string {
	out := []string{}
	for _, a := range args {
		out = append(out, a.Name)
	}
	return out
}

// ---------------------------------------------------------------------------
// selection (from the selector doc comments: names compare case-insensitively)
// ---------------------------------------------------------------------------

func inFold(s string, l []string) bool {
	for _, x := range l {
		if strings.EqualFold(s, x) {
			return true
		}
	}
	return false
}

func (r *Rule) selectsBuilder(sch ast.Schemas, b *ast.Builder) bool {
	switch r.Sel.Mode {
	case "object":
		return strings.EqualFold(b.For.SelfRef.ReferredPkg, r.Pkg) && strings.EqualFold(b.For.SelfRef.ReferredType, r.Sel.Name)
	case "name":
		return strings.EqualFold(b.For.SelfRef.ReferredPkg, r.Pkg) && strings.EqualFold(b.Name, r.Sel.Name)
	case "variant":
		for _, s := range sch {
			if s.Package == b.For.SelfRef.ReferredPkg {
				return s.Metadata.Kind == ast.SchemaKindComposable && string(s.Metadata.Variant) == r.Sel.Name && s.Metadata.Identifier != ""
			}
		}
		return false
	case "disj":
		t, _ := resolve(sch, b.For.Type)
		return t.Kind == ast.KindStruct && (t.Hints[ast.HintDisjunctionOfScalars] != nil || t.Hints[ast.HintDiscriminatedDisjunctionOfRefs] != nil)
	}
	return false
}

func (r *Rule) selectsOption(b *ast.Builder, o *ast.Option) bool {
	switch r.Sel.Mode {
	case "object":
		return b.For.SelfRef.ReferredPkg == r.Pkg && strings.EqualFold(b.For.Name, r.Sel.Name) && inFold(o.Name, r.Sel.Options)
	case "builder":
		return b.Package == r.Pkg && strings.EqualFold(b.Name, r.Sel.Name) && inFold(o.Name, r.Sel.Options)
	}
	return false
}

// ---------------------------------------------------------------------------
// structural helpers
// ---------------------------------------------------------------------------

// fieldDiff lists the declared fields of two structs of the same type whose
// canonical renderings differ, ignoring the named ones.
func fieldDiff(a, b any, ignore ...string) []string {
	va, vb := reflect.ValueOf(a), reflect.ValueOf(b)
	var out []string
	for i := 0; i < va.NumField(); i++ {
		name := va.Type().Field(i).Name
		skip := false
		for _, ig := range ignore {
			if ig == name {
				skip = true
			}
		}
		if skip {
			continue
		}
		if canonOf(va.Field(i).Interface()) != canonOf(vb.Field(i).Interface()) {
			out = append(out, name)
		}
	}
	return out
}

func isPrefix(pre, full []string) bool {
	if len(pre) > len(full) {
		return false
	}
	for i := range pre {
		if pre[i] != full[i] {
			return false
		}
	}
	return true
}

// canonPrefix says whether the first len(pre) elements of full are canonically equal to pre.
func canonPrefix[T any](pre, full []T) bool {
	if len(pre) > len(full) {
		return false
	}
	for i := range pre {
		if canonOf(pre[i]) != canonOf(full[i]) {
			return false
		}
	}
	return true
}

// clone is a reflection deep copy (the oracle does not rely on cog's DeepCopy).
func clone[T any](v T) T {
	return cloneValue(reflect.ValueOf(&v).Elem()).Interface().(T)
}

func cloneValue(v reflect.Value) reflect.Value {
	switch v.Kind() {
	case reflect.Ptr:
		if v.IsNil() {
			return v
		}
		n := reflect.New(v.Type().Elem())
		n.Elem().Set(cloneValue(v.Elem()))
		return n
	case reflect.Interface:
		if v.IsNil() {
			return v
		}
		n := reflect.New(v.Type()).Elem()
		n.Set(cloneValue(v.Elem()))
		return n
	case reflect.Slice:
		if v.IsNil() {
			return v
		}
		n := reflect.MakeSlice(v.Type(), v.Len(), v.Len())
		for i := 0; i < v.Len(); i++ {
			n.Index(i).Set(cloneValue(v.Index(i)))
		}
		return n
	case reflect.Map:
		if v.IsNil() {
			return v
		}
		n := reflect.MakeMapWithSize(v.Type(), v.Len())
		it := v.MapRange()
		for it.Next() {
			n.SetMapIndex(it.Key(), cloneValue(it.Value()))
		}
		return n
	case reflect.Struct:
		n := reflect.New(v.Type()).Elem()
		for i := 0; i < v.NumField(); i++ {
			if n.Field(i).CanSet() {
				n.Field(i).Set(cloneValue(v.Field(i)))
			}
		}
		return n
	}
	return v
}

// culprit names where a copy / renaming went wrong: the innermost
// Assignment., Option. or Builder. field on the path of the first difference
// (indexes abstracted), so that one defect gives one kind.
func culprit(diffs []string) string {
	if len(diffs) == 0 {
		return "?"
	}
	d := diffs[0]
	if i := strings.Index(d, ": "); i >= 0 {
		d = d[:i]
	}
	segs := strings.Split(d, "/")
	for i := len(segs) - 1; i >= 0; i-- {
		for _, owner := range []string{"Assignment.", "Option.", "Builder.", "Constructor."} {
			if strings.HasPrefix(segs[i], owner) {
				return refl.AbstractPath(segs[i])
			}
		}
	}
	return refl.Culprit(d)
}

// restKept: the assignments after the first one are not what the rule is
// about; "the resulting options still assign the same target" covers them.
func restKept(o, g *ast.Option) bool {
	if len(o.Assignments) == 0 || len(g.Assignments) != len(o.Assignments) {
		return len(o.Assignments) == len(g.Assignments)
	}
	for i := 1; i < len(o.Assignments); i++ {
		if !samePath(o.Assignments[i].Path, g.Assignments[i].Path) {
			return false
		}
	}
	return true
}

func sharedSummary(shared []string) string {
	seen := map[string]bool{}
	var out []string
	for _, s := range shared {
		c := refl.Culprit(strings.Split(s, " ~ ")[0])
		if !seen[c] {
			seen[c] = true
			out = append(out, c)
		}
	}
	sort.Strings(out)
	if len(out) > 3 {
		out = out[:3]
	}
	return strings.Join(out, ",")
}

// ---------------------------------------------------------------------------
// transition contracts
// ---------------------------------------------------------------------------

type ctx struct {
	seed  *Seed
	rule  *Rule
	prev  *Rule // the rule applied just before (nil at depth 1)
	out   []viol
	stats *transStats
}

type transStats struct {
	selected        int // builders / options selected by the rule
	contractChecked int // selected items whose rule contract was evaluated
	contractSkipped int // ... skipped because the split of a multi-option run is ambiguous
	revived         int
}

func (c *ctx) fail(clause, what string) {
	c.out = append(c.out, viol{Clause: clause, What: what})
}

func bID(b *ast.Builder) string {
	return fmt.Sprintf("%s.%s(for %s.%s)", b.Package, b.Name, b.For.SelfRef.ReferredPkg, b.For.SelfRef.ReferredType)
}

// checkTransition evaluates the frame condition and the rule contract of one
// transition pre --rule--> post.
func checkTransition(seed *Seed, rule *Rule, pre, post *State) ([]viol, transStats) {
	st := transStats{}
	c := &ctx{seed: seed, rule: rule, stats: &st}
	if n := len(pre.Seq); n > 0 {
		c.prev = pre.Seq[n-1]
	}
	if rule.B {
		c.builderRule(pre, post)
	} else {
		c.optionRule(pre, post)
	}
	return c.out, st
}

func (c *ctx) builderRule(preS, postS *State) {
	pre, post := preS.Builders, postS.Builders
	r := c.rule
	name := r.Name()
	sch := c.seed.Pristine
	used := make([]bool, len(post))
	postCanon := postS.BC
	var selected []*ast.Builder
	for i := range pre {
		b := &pre[i]
		if r.selectsBuilder(sch, b) {
			selected = append(selected, b)
			continue
		}
		// frame: "builders ... not selected by a rule are unchanged"
		cb := preS.BC[i]
		found := false
		for j := range post {
			if !used[j] && postCanon[j] == cb {
				used[j], found = true, true
				break
			}
		}
		if !found {
			what := fmt.Sprintf("builder %s is not selected by the rule but is not in the result unchanged", bID(b))
			for j := range post {
				if !used[j] && bID(&post[j]) == bID(b) {
					what += fmt.Sprintf("; differs at %v", refl.Diff(*b, post[j], 3))
					break
				}
			}
			c.fail("frame: unselected builder changed by "+name, what)
		}
	}
	var results []*ast.Builder
	for j := range post {
		if !used[j] {
			results = append(results, &post[j])
		}
	}
	c.stats.selected = len(selected)

	if r.Kind == "compose" {
		// compose replaces the selected builders by composed ones; only the
		// frame above and the state invariant are demanded of it.
		return
	}
	if r.Kind == "omit" {
		for _, g := range results {
			c.fail("b.omit: selected builder still present", fmt.Sprintf("builder %s remains after omit", bID(g)))
		}
		c.stats.contractChecked += len(selected)
		return
	}

	// pair every selected builder with its result (same object; same name unless renamed)
	taken := make([]bool, len(results))
	// pair prefers a result that also satisfies want (content), then any result of that identity
	pairWith := func(s *ast.Builder, wantName string, want func(g *ast.Builder) bool) *ast.Builder {
		for pass := 0; pass < 2; pass++ {
			for j, g := range results {
				if !taken[j] && g.Package == s.Package && canonOf(g.For.SelfRef) == canonOf(s.For.SelfRef) && g.Name == wantName && (pass == 1 || want == nil || want(g)) {
					taken[j] = true
					return g
				}
			}
		}
		return nil
	}
	pair := func(s *ast.Builder, wantName string) *ast.Builder { return pairWith(s, wantName, nil) }
	if r.Kind == "duplicate" {
		// the sources first: a source named like the copies must not be taken for a copy
		srcOf := map[*ast.Builder]*ast.Builder{}
		for _, s := range selected {
			cs := canonOf(*s)
			srcOf[s] = pairWith(s, s.Name, func(g *ast.Builder) bool { return canonOf(*g) == cs })
		}
		for _, s := range selected {
			c.stats.contractChecked++
			g := srcOf[s]
			if g == nil {
				c.fail("b.duplicate: source builder changed or missing", fmt.Sprintf("the duplicated builder %s is not in the result", bID(s)))
				continue
			}
			if d := fieldDiff(*s, *g); len(d) > 0 {
				c.fail("b.duplicate: source builder changed ("+strings.Join(d, ",")+")", fmt.Sprintf("%s: %v", bID(s), refl.Diff(*s, *g, 3)))
			}
			// the copy: identical modulo Name, trail and the excluded options
			want := clone(*s)
			var kept []ast.Option
			for _, o := range want.Options {
				if !inFold(o.Name, r.Exclude) {
					kept = append(kept, o)
				}
			}
			want.Options = kept
			cp := pairWith(s, r.As, func(g *ast.Builder) bool { return len(fieldDiff(want, *g, "Name", "VeneerTrail")) == 0 })
			if cp == nil {
				if len(kept) == 0 {
					continue // a copy without options is dismissed by the rewriter (documented in rewrite.go)
				}
				c.fail("b.duplicate: no copy under the new name", fmt.Sprintf("no builder named %q for %s", r.As, bID(s)))
				continue
			}
			if d := fieldDiff(want, *cp, "Name", "VeneerTrail"); len(d) > 0 {
				want.Name, want.VeneerTrail = cp.Name, cp.VeneerTrail
				c.fail("b.duplicate: copy differs from the source at "+culprit(refl.Diff(want, *cp, 1)), fmt.Sprintf("copy of %s differs in %v: %v", bID(s), d, refl.Diff(want, *cp, 4)))
			}
			if !isPrefix(s.VeneerTrail, cp.VeneerTrail) {
				c.fail("b.duplicate: copy loses the veneer trail", bID(s))
			}
			if sh := refl.Shared(*g, *cp); len(sh) > 0 {
				c.fail("b.duplicate: copy shares memory with the source at "+sharedSummary(sh), fmt.Sprintf("copy of %s shares %v", bID(s), sh))
			}
		}
		selected = nil
	}
	for _, s := range selected {
		c.stats.contractChecked++
		switch r.Kind {
		case "rename":
			g := pair(s, r.As)
			if g == nil {
				c.fail("b.rename: selected builder not found under the new name", fmt.Sprintf("no builder named %q for %s in the result", r.As, bID(s)))
				continue
			}
			// "rename only renames": every field but Name and the veneer trail is identical
			if d := fieldDiff(*s, *g, "Name", "VeneerTrail"); len(d) > 0 {
				c.fail("b.rename: changes more than the name ("+strings.Join(d, ",")+")", fmt.Sprintf("%s: fields %v differ after rename: %v", bID(s), d, refl.Diff(*s, *g, 3)))
			}
			if !isPrefix(s.VeneerTrail, g.VeneerTrail) {
				c.fail("b.rename: rewrites the veneer trail", bID(s))
			}
		default:
			g := pair(s, s.Name)
			if g == nil {
				c.fail(name+": selected builder disappeared", fmt.Sprintf("builder %s is not in the result", bID(s)))
				continue
			}
			// what the rule documents it adds to; everything else must be identical
			may := map[string][]string{
				"merge_into":                     {"Options", "Constructor", "Factories", "VeneerTrail"},
				"promote_options_to_constructor": {"Constructor", "VeneerTrail"},
				"add_option":                     {"Options", "VeneerTrail"},
				"initialize":                     {"Constructor", "VeneerTrail"},
				"properties":                     {"Properties", "VeneerTrail"},
				"add_factory":                    {"Factories", "VeneerTrail"},
			}[r.Kind]
			if d := fieldDiff(*s, *g, may...); len(d) > 0 {
				c.fail(name+": changes other parts of the selected builder ("+strings.Join(d, ",")+")", fmt.Sprintf("%s: %v", bID(s), refl.Diff(*s, *g, 3)))
			}
			if r.Kind == "merge_into" {
				c.mergeContract(pre, s, g)
			}
			// "options not selected by a rule are unchanged": a builder rule selects no option
			if !canonPrefix(s.Options, g.Options) {
				c.fail("frame: existing option of the selected builder changed by "+name, fmt.Sprintf("%s: %v", bID(s), refl.Diff(s.Options, g.Options[:min(len(g.Options), len(s.Options))], 3)))
			}
			if !canonPrefix(s.Constructor.Assignments, g.Constructor.Assignments) || !canonPrefix(s.Constructor.Args, g.Constructor.Args) {
				c.fail("frame: existing constructor content changed by "+name, bID(s))
			}
			if !canonPrefix(s.Factories, g.Factories) || !canonPrefix(s.Properties, g.Properties) || !isPrefix(s.VeneerTrail, g.VeneerTrail) {
				c.fail("frame: existing factories/properties/trail changed by "+name, bID(s))
			}
		}
	}
	for j, g := range results {
		if taken[j] {
			continue
		}
		// A builder nobody accounts for. One documented source: a builder
		// without options is only dismissed at the end of a rewriter phase, so
		// add_option / merge_into may bring back one that the previous state
		// does not show. Lenient for those two; a violation otherwise.
		if (r.Kind == "add_option" || r.Kind == "merge_into") && r.selectsBuilder(sch, g) {
			c.stats.revived++
			continue
		}
		c.fail(name+": unexpected builder in the result", fmt.Sprintf("builder %s is neither an unselected builder nor a result of the rule", bID(g)))
	}
}

// mergeContract: `source` names a BUILDER of the destination's package. When
// a builder of exactly that name exists, each of its options that is not
// excluded re-appears in the destination (renamed per rename_options),
// assigning under_path + its own path. When no builder has that name (in any
// letter case), nothing may be merged.
func (c *ctx) mergeContract(pre []ast.Builder, s, g *ast.Builder) {
	r := c.rule
	var src *ast.Builder
	anyCase, exact := false, 0
	for i := range pre {
		if pre[i].For.SelfRef.ReferredPkg != s.For.SelfRef.ReferredPkg {
			continue
		}
		if pre[i].Name == r.Source {
			exact++
			if src == nil {
				src = &pre[i]
			}
		}
		if strings.EqualFold(pre[i].Name, r.Source) {
			anyCase = true
		}
	}
	if exact > 1 {
		return // lenient: which of several homonymous builders is meant is not documented
	}
	if c.prev != nil && c.prev.B && (c.prev.Kind == "compose" || (c.prev.Kind == "duplicate" && len(c.prev.Exclude) > 0 && strings.EqualFold(c.prev.As, r.Source))) {
		// lenient: a builder without options is only dismissed at the end of a
		// rewriter phase; the previous rule may have left one under that name
		// which the previous state does not show
		return
	}
	added := g.Options[min(len(s.Options), len(g.Options)):]
	if src == nil {
		if !anyCase && len(added) > 0 {
			c.fail("b.merge_into: options are merged although no builder has the source name", fmt.Sprintf("%s: %d options added, source %q", bID(s), len(added), r.Source))
		}
		return
	}
	var want []ast.Option
	for _, o := range src.Options {
		skip := false
		for _, ex := range r.Exclude {
			if ex == o.Name {
				skip = true
			}
		}
		if !skip {
			want = append(want, o)
		}
	}
	if len(added) != len(want) {
		c.fail("b.merge_into: the options of the source builder are not merged into the destination", fmt.Sprintf("%s: source builder %s has %d options to merge, %d were added", bID(s), bID(src), len(want), len(added)))
		return
	}
	for k := range want {
		name := want[k].Name
		if n, ok := r.RenameTo[name]; ok {
			name = n
		}
		ok := added[k].Name == name && len(added[k].Assignments) == len(want[k].Assignments)
		for ai := 0; ok && ai < len(want[k].Assignments); ai++ {
			ok = pathString(added[k].Assignments[ai].Path) == r.Under+"."+pathString(want[k].Assignments[ai].Path)
		}
		if !ok {
			c.fail("b.merge_into: a merged option does not assign under_path + the path of the source option", fmt.Sprintf("%s: option %s of %s became %s", bID(s), want[k].Name, bID(src), added[k].Name))
		}
	}
}

// ---- option rules ----

func (c *ctx) optionRule(preS, postS *State) {
	pre, post := preS.Builders, postS.Builders
	r := c.rule
	name := r.Name()
	j := 0
	for i := range pre {
		b := &pre[i]
		sel := make([]bool, len(b.Options))
		nsel := 0
		for k := range b.Options {
			if r.selectsOption(b, &b.Options[k]) {
				sel[k] = true
				nsel++
			}
		}
		c.stats.selected += nsel
		if nsel == 0 {
			// frame: builders without a selected option are unchanged
			if j >= len(post) || postS.BC[j] != preS.BC[i] {
				what := fmt.Sprintf("builder %s has no selected option but is not unchanged at its place in the result", bID(b))
				if j < len(post) && bID(&post[j]) == bID(b) {
					what += fmt.Sprintf("; differs at %v", refl.Diff(*b, post[j], 3))
				}
				c.fail("frame: unselected builder changed by "+name, what)
				if j < len(post) && bID(&post[j]) == bID(b) {
					j++
				}
				continue
			}
			j++
			continue
		}
		if j >= len(post) || bID(&post[j]) != bID(b) {
			// dismissed: "no options means that the builder was dismissed"
			if nsel < len(b.Options) {
				c.fail("frame: unselected option changed by "+name, fmt.Sprintf("builder %s disappeared although %d of its options are not selected", bID(b), len(b.Options)-nsel))
				continue
			}
			for k := range b.Options {
				c.optionContract(b, &b.Options[k], nil)
			}
			continue
		}
		g := &post[j]
		j++
		// the rest of the builder is not an option: unchanged
		b2, g2 := *b, *g
		b2.Options, g2.Options = nil, nil
		if canonOf(b2) == canonOf(g2) {
			// nothing else changed
		} else if d := fieldDiff(*b, *g, "Options"); len(d) > 0 {
			c.fail("frame: builder fields ("+strings.Join(d, ",")+") changed by option rule "+name, fmt.Sprintf("%s: %v", bID(b), refl.Diff(*b, *g, 3)))
		}
		c.alignOptions(b, g, sel, preS.optCanon(i))
	}
	for ; j < len(post); j++ {
		c.fail(name+": unexpected builder in the result", bID(&post[j]))
	}
}

// alignOptions matches the options of the pre-state builder b with those of
// its post-state g: unselected options must re-appear unchanged and in order,
// what lies between them are the results of the selected options.
func (c *ctx) alignOptions(b, g *ast.Builder, sel []bool, bc []string) {
	name := c.rule.Name()
	gc := make([]string, len(g.Options))
	for i := range g.Options {
		gc[i] = canonOf(g.Options[i])
	}
	type seg struct{ i, k, pos, end int } // run b.Options[i:k] -> g.Options[pos:end]
	var segs []seg
	// align(i,pos): can b.Options[i:] be matched against g.Options[pos:]?
	var align func(i, pos int, strict bool) bool
	align = func(i, pos int, strict bool) bool {
		if i == len(b.Options) {
			return pos == len(gc)
		}
		if !sel[i] {
			return pos < len(gc) && gc[pos] == bc[i] && align(i+1, pos+1, strict)
		}
		k := i
		for k < len(b.Options) && sel[k] {
			k++
		}
		for end := pos; end <= len(gc); end++ {
			if k == len(b.Options) && end != len(gc) {
				continue
			}
			if k < len(b.Options) && (end >= len(gc) || gc[end] != bc[k]) {
				continue
			}
			if strict && c.split(b.Options[i:k], bc[i:k], g.Options[pos:end], gc[pos:end]) == nil {
				continue
			}
			mark := len(segs)
			segs = append(segs, seg{i, k, pos, end})
			if align(k, end, strict) {
				return true
			}
			segs = segs[:mark]
		}
		return false
	}
	// first with plausible result counts, then with any counts (so that a
	// wrong number of results is reported as such and not as a frame violation)
	if !align(0, 0, true) {
		segs = segs[:0]
		if !align(0, 0, false) {
			var missing []string
			for i := range b.Options {
				if !sel[i] {
					found := false
					for _, x := range gc {
						if x == bc[i] {
							found = true
						}
					}
					if !found {
						what := b.Options[i].Name
						for k := range g.Options {
							if g.Options[k].Name == b.Options[i].Name {
								what += fmt.Sprintf(" (differs at %v)", refl.Diff(b.Options[i], g.Options[k], 3))
								break
							}
						}
						missing = append(missing, what)
					}
				}
			}
			c.fail("frame: unselected option changed by "+name, fmt.Sprintf("the options of %s that are not selected do not re-appear unchanged and in order; changed or missing: %v", bID(b), missing))
			return
		}
	}
	for _, sg := range segs {
		run, group := b.Options[sg.i:sg.k], g.Options[sg.pos:sg.end]
		if len(run) == 1 {
			c.optionContract(b, &run[0], group)
		} else if split := c.split(run, bc[sg.i:sg.k], group, gc[sg.pos:sg.end]); split != nil {
			at := 0
			for x := range run {
				c.optionContract(b, &run[x], group[at:at+split[x]])
				at += split[x]
			}
		} else {
			c.stats.contractSkipped += len(run)
		}
	}
}

// split distributes the result options of a run of adjacent selected options
// (nil if no distribution has a plausible number of results per option).
func (c *ctx) split(run []ast.Option, runCanon []string, group []ast.Option, groupCanon []string) []int {
	many := func(o *ast.Option) int {
		switch c.rule.Kind {
		case "unfold_boolean":
			return 2
		case "struct_fields_as_options":
			if len(o.Args) > 0 {
				if t, _ := resolveOnce(c.seed.Pristine, o.Args[0].Type); t.Kind == ast.KindStruct {
					return len(c.pickFields(t.Struct))
				}
			}
		case "disjunction_as_options":
			if c.rule.ArgIdx < len(o.Args) {
				t := o.Args[c.rule.ArgIdx].Type
				if t.Kind == ast.KindDisjunction {
					return len(t.Disjunction.Branches)
				} else if rt, _ := resolve(c.seed.Pristine, t); t.Kind == ast.KindRef && rt.Kind == ast.KindStruct {
					return len(rt.Struct.Fields)
				}
			}
		}
		return 1
	}
	out := make([]int, len(run))
	var rec func(i, at int) bool
	rec = func(i, at int) bool {
		if i == len(run) {
			return at == len(group)
		}
		var sizes []int
		switch c.rule.Kind {
		case "omit":
			sizes = []int{0}
		case "duplicate":
			sizes = []int{2}
		case "unfold_boolean", "struct_fields_as_options", "disjunction_as_options":
			if at < len(group) && groupCanon[at] == runCanon[i] {
				sizes = []int{1} // left unchanged
			} else if n := many(&run[i]); n != 1 {
				sizes = []int{n, 1}
			} else {
				sizes = []int{1}
			}
		default:
			sizes = []int{1}
		}
		for _, s := range sizes {
			if at+s <= len(group) {
				out[i] = s
				if rec(i+1, at+s) {
					return true
				}
			}
		}
		return false
	}
	if rec(0, 0) {
		return out
	}
	return nil
}

func (c *ctx) pickFields(st *ast.StructType) []ast.StructField {
	var out []ast.StructField
	for _, f := range st.Fields {
		if c.rule.Fields != nil {
			ok := false
			for _, n := range c.rule.Fields {
				if n == f.Name {
					ok = true
				}
			}
			if !ok {
				continue
			}
		}
		out = append(out, f)
	}
	return out
}

func samePath(a, b ast.Path) bool { return canonOf(a) == canonOf(b) }

func unchanged(o *ast.Option, group []ast.Option) bool {
	return len(group) == 1 && canonOf(*o) == canonOf(group[0])
}

// optionContract checks what the rule documents for one selected option o of
// builder b whose results are group.
func (c *ctx) optionContract(b *ast.Builder, o *ast.Option, group []ast.Option) {
	r := c.rule
	name := r.Name()
	sch := c.seed.Pristine
	c.stats.contractChecked++
	id := fmt.Sprintf("option %s of %s", o.Name, bID(b))
	single := func() *ast.Option {
		if len(group) != 1 {
			c.fail(fmt.Sprintf("%s: one option expected, not %s", name, count(len(group))), fmt.Sprintf("%s became %d options", id, len(group)))
			return nil
		}
		if !isPrefix(o.VeneerTrail, group[0].VeneerTrail) {
			c.fail(name+": rewrites the veneer trail", id)
		}
		return &group[0]
	}
	switch r.Kind {
	case "omit":
		if len(group) != 0 {
			c.fail("o.omit: selected option still present", id)
		}
	case "rename":
		if g := single(); g != nil {
			if g.Name != r.As {
				c.fail("o.rename: name not set", fmt.Sprintf("%s is named %q, not %q", id, g.Name, r.As))
			}
			if d := fieldDiff(*o, *g, "Name", "VeneerTrail"); len(d) > 0 {
				c.fail("o.rename: changes more than the name ("+strings.Join(d, ",")+")", fmt.Sprintf("%s: %v", id, refl.Diff(*o, *g, 3)))
			}
		}
	case "add_comments":
		if g := single(); g != nil {
			if d := fieldDiff(*o, *g, "Comments", "VeneerTrail"); len(d) > 0 {
				c.fail("o.add_comments: changes more than the comments ("+strings.Join(d, ",")+")", fmt.Sprintf("%s: %v", id, refl.Diff(*o, *g, 3)))
			}
			if !isPrefix(o.Comments, g.Comments) {
				c.fail("o.add_comments: existing comments changed", id)
			}
		}
	case "add_assignment":
		if g := single(); g != nil {
			if d := fieldDiff(*o, *g, "Assignments", "VeneerTrail"); len(d) > 0 {
				c.fail("o.add_assignment: changes more than the assignments ("+strings.Join(d, ",")+")", fmt.Sprintf("%s: %v", id, refl.Diff(*o, *g, 3)))
			}
			if !canonPrefix(o.Assignments, g.Assignments) || len(g.Assignments) > len(o.Assignments)+1 {
				c.fail("o.add_assignment: existing assignments changed", id)
			}
		}
	case "duplicate":
		// "an identical copy under the new name (defaults ... included)", sharing nothing
		if len(group) != 2 {
			c.fail(fmt.Sprintf("o.duplicate: two options expected, not %s", count(len(group))), id)
			return
		}
		if d := fieldDiff(*o, group[0]); len(d) > 0 {
			c.fail("o.duplicate: source option changed ("+strings.Join(d, ",")+")", fmt.Sprintf("%s: %v", id, refl.Diff(*o, group[0], 3)))
		}
		cp := &group[1]
		if cp.Name != r.As {
			c.fail("o.duplicate: copy not under the new name", fmt.Sprintf("%s: copy named %q", id, cp.Name))
		}
		if d := fieldDiff(*o, *cp, "Name", "VeneerTrail"); len(d) > 0 {
			want := clone(*o)
			want.Name, want.VeneerTrail = cp.Name, cp.VeneerTrail
			c.fail("o.duplicate: copy differs from the source at "+culprit(refl.Diff(want, *cp, 1)), fmt.Sprintf("%s: copy differs in %v: %v", id, d, refl.Diff(*o, *cp, 4)))
		}
		if !isPrefix(o.VeneerTrail, cp.VeneerTrail) {
			c.fail("o.duplicate: copy loses the veneer trail", id)
		}
		if sh := refl.Shared(group[0], *cp); len(sh) > 0 {
			c.fail("o.duplicate: copy shares memory with the source at "+sharedSummary(sh), fmt.Sprintf("%s: shared %v", id, sh))
		}
	case "rename_arguments":
		if len(r.AsList) != len(o.Args) {
			// nothing is documented for a name list of another length: unchanged or renamed, both accepted
			return
		}
		if g := single(); g != nil {
			// "argument names change consistently in the option and in every assignment/constraint using them"
			want := clone(*o)
			renameArgs(&want, r.AsList)
			if d := fieldDiff(want, *g, "VeneerTrail"); len(d) > 0 {
				want.VeneerTrail = g.VeneerTrail
				c.fail("o.rename_arguments: not a consistent renaming at "+culprit(refl.Diff(want, *g, 1)), fmt.Sprintf("%s renamed to %v: %v", id, r.AsList, refl.Diff(want, *g, 4)))
			}
		}
	case "array_to_append":
		applicable := len(o.Args) == 1 && o.Args[0].Type.Kind == ast.KindArray
		if !applicable {
			if !unchanged(o, group) {
				c.fail("o.array_to_append: option without a single array argument not left unchanged", id)
			}
			return
		}
		if unchanged(o, group) {
			return // lenient: the action may decline; the option still assigns the same target
		}
		if g := single(); g != nil && len(o.Assignments) > 0 {
			elem := o.Args[0].Type.Array.ValueType
			if len(g.Args) != 1 || !typeEq(g.Args[0].Type, elem) {
				c.fail("o.array_to_append: argument type is not the element type", fmt.Sprintf("%s: arguments %s", id, canonOf(g.Args)))
			}
			if len(g.Assignments) == 0 || !samePath(g.Assignments[0].Path, o.Assignments[0].Path) {
				c.fail("o.array_to_append: does not assign the same path", id)
			} else {
				if g.Assignments[0].Method != ast.AppendAssignment {
					c.fail("o.array_to_append: method is not append", id)
				}
				if a := g.Assignments[0].Value.Argument; o.Assignments[0].Value.Argument != nil && (a == nil || len(g.Args) != 1 || a.Name != g.Args[0].Name || !typeEq(a.Type, g.Args[0].Type)) {
					c.fail("o.array_to_append: appended value is not the new argument", id)
				}
			}
			if !restKept(o, g) {
				c.fail("o.array_to_append: the other assignments of the option no longer assign the same paths", id)
			}
			if d := fieldDiff(*o, *g, "Args", "Assignments", "VeneerTrail"); len(d) > 0 {
				c.fail("o.array_to_append: changes other parts of the option ("+strings.Join(d, ",")+")", id)
			}
		}
	case "map_to_index":
		applicable := len(o.Args) == 1 && o.Args[0].Type.Kind == ast.KindMap
		if !applicable {
			if !unchanged(o, group) {
				c.fail("o.map_to_index: option without a single map argument not left unchanged", id)
			}
			return
		}
		if unchanged(o, group) {
			return // lenient: the action may decline; the option still assigns the same target
		}
		if g := single(); g != nil && len(o.Assignments) > 0 {
			m := o.Args[0].Type.Map
			if len(g.Args) != 2 || !typeEq(g.Args[0].Type, m.IndexType) || !typeEq(g.Args[1].Type, m.ValueType) {
				c.fail("o.map_to_index: arguments are not (key: index type, value: value type)", fmt.Sprintf("%s: arguments %s", id, canonOf(g.Args)))
				return
			}
			if len(g.Assignments) == 0 {
				c.fail("o.map_to_index: does not assign the same path", id)
				return
			}
			ga, oa := g.Assignments[0], o.Assignments[0]
			if len(ga.Path) != len(oa.Path)+1 || !samePath(ga.Path[:len(oa.Path)], oa.Path) {
				c.fail("o.map_to_index: path is not the same path plus an index", fmt.Sprintf("%s: %s", id, pathString(ga.Path)))
				return
			}
			last := ga.Path[len(ga.Path)-1]
			if last.Index == nil || last.Index.Argument == nil || last.Index.Argument.Name != g.Args[0].Name || !typeEq(last.Index.Argument.Type, g.Args[0].Type) {
				c.fail("o.map_to_index: index is not the key argument", id)
			}
			if !typeEq(last.Type, m.ValueType) {
				c.fail("o.map_to_index: indexed path element is not typed with the value type", fmt.Sprintf("%s: %s", id, typeLabel(last.Type)))
			}
			if ga.Method != ast.IndexAssignment {
				c.fail("o.map_to_index: method is not index", id)
			}
			if !restKept(o, g) {
				c.fail("o.map_to_index: the other assignments of the option no longer assign the same paths", id)
			}
			if a := ga.Value.Argument; oa.Value.Argument != nil && (a == nil || a.Name != g.Args[1].Name || !typeEq(a.Type, g.Args[1].Type)) {
				c.fail("o.map_to_index: assigned value is not the value argument", id)
			}
		}
	case "unfold_boolean":
		if unchanged(o, group) {
			// Lenient: the doc comment speaks of "an option accepting a boolean
			// argument" while the action looks at the type of the target; an
			// option left as it was still assigns the same target, which is
			// all the statement demands.
			return
		}
		if len(group) != 2 || len(o.Assignments) == 0 {
			c.fail(fmt.Sprintf("o.unfold_boolean: two options expected, not %s", count(len(group))), id)
			return
		}
		for k, want := range []bool{true, false} {
			g := &group[k]
			wantName := []string{r.TrueAs, r.FalseAs}[k]
			if g.Name != wantName || len(g.Args) != 0 {
				c.fail("o.unfold_boolean: results are not two argument-less options under the given names", fmt.Sprintf("%s: result %d is %s(%v)", id, k, g.Name, argNames(g.Args)))
			}
			if len(g.Assignments) != 1 || !samePath(g.Assignments[0].Path, o.Assignments[0].Path) {
				c.fail("o.unfold_boolean: does not assign the same path", id)
			} else if g.Assignments[0].Value.Constant != want {
				c.fail("o.unfold_boolean: does not assign true/false", fmt.Sprintf("%s: result %d assigns %v", id, k, g.Assignments[0].Value.Constant))
			}
		}
	case "struct_fields_as_arguments", "struct_fields_as_options":
		var st ast.Type
		if len(o.Args) > 0 {
			st, _ = resolveOnce(sch, o.Args[0].Type)
		}
		if len(o.Args) == 0 || st.Kind != ast.KindStruct {
			if !unchanged(o, group) {
				c.fail(name+": option whose first argument is not a struct not left unchanged", id)
			}
			return
		}
		if len(o.Assignments) == 0 {
			return // nothing to re-target
		}
		if unchanged(o, group) {
			// Lenient (as for unfold_boolean): the action may decline, e.g.
			// when the first assignment does not store the argument as-is into
			// a struct (after array_to_append / disjunction_as_options); an
			// option left as it was still assigns the same target.
			return
		}
		fields := c.pickFields(st.Struct)
		prefix := o.Assignments[0].Path
		if len(fields) == 0 {
			return // no selected field exists: nothing is documented
		}
		if r.Kind == "struct_fields_as_options" {
			if len(group) != len(fields) {
				c.fail(fmt.Sprintf("o.struct_fields_as_options: one option per selected field expected"), fmt.Sprintf("%s: %d fields, %d options", id, len(fields), len(group)))
				return
			}
			for k, f := range fields {
				g := &group[k]
				want := append(append(ast.Path{}, prefix...), ast.PathItem{Identifier: f.Name, Type: f.Type})
				if len(g.Assignments) != 1 || !samePathModDefault(g.Assignments[0].Path, want) {
					c.fail("o.struct_fields_as_options: option does not assign path.field", fmt.Sprintf("%s: field %s", id, f.Name))
				}
				if len(g.Args) != 1 || !typeEq(g.Args[0].Type, f.Type) {
					c.fail("o.struct_fields_as_options: argument is not typed with the field type", fmt.Sprintf("%s: field %s", id, f.Name))
				}
			}
			return
		}
		g := single()
		if g == nil {
			return
		}
		intoList := prefix[len(prefix)-1].Type.Kind == ast.KindArray
		// expected arguments: one per selected, non-constant field (then the remaining old arguments)
		var wantArgs []ast.StructField
		for _, f := range fields {
			if f.Type.Kind == ast.KindScalar && f.Type.Scalar.Value != nil {
				continue
			}
			wantArgs = append(wantArgs, f)
		}
		if len(g.Args) != len(wantArgs)+len(o.Args)-1 {
			c.fail("o.struct_fields_as_arguments: not one argument per selected field", fmt.Sprintf("%s: arguments %v", id, argNames(g.Args)))
		} else {
			for k, f := range wantArgs {
				if g.Args[k].Name != f.Name || !typeEq(g.Args[k].Type, f.Type) {
					c.fail("o.struct_fields_as_arguments: argument does not match the field", fmt.Sprintf("%s: argument %d is %s", id, k, g.Args[k].Name))
				}
			}
		}
		if intoList {
			if len(g.Assignments) == 0 || !samePath(g.Assignments[0].Path, prefix) || g.Assignments[0].Value.Envelope == nil {
				c.fail("o.struct_fields_as_arguments: does not assign the same path", id)
			}
			return
		}
		if len(g.Assignments) < len(fields) {
			c.fail("o.struct_fields_as_arguments: not one assignment per selected field", id)
			return
		}
		for k, f := range fields {
			want := append(append(ast.Path{}, prefix...), ast.PathItem{Identifier: f.Name, Type: f.Type})
			if !samePathModDefault(g.Assignments[k].Path, want) {
				c.fail("o.struct_fields_as_arguments: assignment does not target path.field", fmt.Sprintf("%s: field %s is assigned at %s", id, f.Name, pathString(g.Assignments[k].Path)))
			}
		}
	case "disjunction_as_options":
		if unchanged(o, group) {
			return // still assigns the same target (lenient, as for unfold_boolean)
		}
		// "one option per branch, each assigning the same path"
		var targets []string
		for _, a := range o.Assignments {
			targets = append(targets, canonOf(a.Path)+string(a.Method))
		}
		for k := range group {
			var got []string
			for _, a := range group[k].Assignments {
				got = append(got, canonOf(a.Path)+string(a.Method))
			}
			if strings.Join(got, "\n") != strings.Join(targets, "\n") {
				c.fail("o.disjunction_as_options: option does not assign the same path", fmt.Sprintf("%s: result %s", id, group[k].Name))
			}
		}
		if r.ArgIdx < len(o.Args) && o.Args[r.ArgIdx].Type.Kind == ast.KindDisjunction {
			if n := len(o.Args[r.ArgIdx].Type.Disjunction.Branches); n != len(group) {
				c.fail("o.disjunction_as_options: not one option per branch", fmt.Sprintf("%s: %d branches, %d options", id, n, len(group)))
			}
		}
	}
}

func count(n int) string {
	switch {
	case n == 0:
		return "none"
	case n == 1:
		return "one"
	case n == 2:
		return "two"
	}
	return "several"
}

// samePathModDefault compares two paths ignoring the top-level Default of
// the item types (see typeEq).
func samePathModDefault(a, b ast.Path) bool {
	if len(a) != len(b) {
		return false
	}
	a, b = clone(a), clone(b)
	for i := range a {
		a[i].Type.Default, b[i].Type.Default = nil, nil
	}
	return samePath(a, b)
}

// renameArgs applies the simultaneous renaming old[i] -> names[i] to every
// place of the option that mentions an argument.
func renameArgs(o *ast.Option, names []string) {
	m := map[string]string{}
	for i, a := range o.Args {
		if _, dup := m[a.Name]; !dup {
			m[a.Name] = names[i]
		}
	}
	for i := range o.Args {
		o.Args[i].Name = names[i]
	}
	ren := func(a *ast.Argument) {
		if n, ok := m[a.Name]; ok {
			a.Name = n
		}
	}
	var val func(v *ast.AssignmentValue)
	val = func(v *ast.AssignmentValue) {
		if v.Argument != nil {
			ren(v.Argument)
		}
		if v.Envelope != nil {
			for i := range v.Envelope.Values {
				val(&v.Envelope.Values[i].Value)
			}
		}
	}
	for i := range o.Assignments {
		a := &o.Assignments[i]
		val(&a.Value)
		for k := range a.Path {
			if a.Path[k].Index != nil && a.Path[k].Index.Argument != nil {
				ren(a.Path[k].Index.Argument)
			}
		}
		for k := range a.Constraints {
			ren(&a.Constraints[k].Argument)
		}
	}
}
