//go:build verif

package main

import (
	"context"
	"encoding/json"
	"fmt"
	"os"
	"path/filepath"
	"regexp"
	"sort"
	"strings"
	"sync"
	"time"

	"github.com/getkin/kin-openapi/openapi3"
	"github.com/grafana/cog/verifx/vx"
	jsv "github.com/santhosh-tekuri/jsonschema/v5"
)

// ---- Python jsonschema (independent implementation) -------------------------------------------

const pyScript = `import sys, json
from jsonschema import Draft7Validator, validators
cache = {}
for line in sys.stdin:
    req = json.loads(line)
    try:
        if req["op"] == "check":
            with open(req["path"]) as fh:
                sch = json.load(fh)
            cls = validators.validator_for(sch, default=Draft7Validator)
            cls.check_schema(sch)
            cache[req["id"]] = (cls, sch)
            out = {"ok": True, "validator": cls.__name__}
        elif req["op"] == "validate":
            if req["id"] not in cache:
                out = {"unknown": True}
            else:
                cls, sch = cache[req["id"]]
                wrapper = {"$ref": req["ref"], "definitions": sch.get("definitions", {})}
                errs = sorted((e.message for e in cls(wrapper).iter_errors(json.loads(req["doc"]))))
                out = {"ok": not errs, "err": errs[0] if errs else ""}
        else:
            out = {"harness_error": "unknown op"}
    except Exception as e:
        out = {"ok": False, "err": type(e).__name__ + ": " + str(e).split("\n")[0][:300]}
    sys.stdout.write(json.dumps(out) + "\n")
    sys.stdout.flush()
`

type pyWorker struct {
	mu sync.Mutex
	wk *vx.Worker
}

func newPyWorker(dir string) *pyWorker {
	script := filepath.Join(dir, "c12_validate.py")
	if err := os.WriteFile(script, []byte(pyScript), 0o644); err != nil {
		vx.Fatalf("%v", err)
	}
	return &pyWorker{wk: &vx.Worker{Bin: "python3-vt", Args: []string{script}, Timeout: 60 * time.Second}}
}

func (p *pyWorker) do(req map[string]any) map[string]any {
	p.mu.Lock()
	defer p.mu.Unlock()
	b, _ := json.Marshal(req)
	out, died := p.wk.Do(b)
	if died {
		vx.Fatalf("the python3-vt validator process died on %s", b)
	}
	var resp map[string]any
	if err := json.Unmarshal(out, &resp); err != nil {
		vx.Fatalf("python validator: bad answer %q", out)
	}
	if e, ok := resp["harness_error"]; ok {
		vx.Fatalf("python validator: %v", e)
	}
	return resp
}

func (p *pyWorker) close() { p.wk.Close() }

// ---- santhosh-tekuri ------------------------------------------------------------------------

// compileJS compiles the emitted JSON Schema (or the sub-schema at a JSON
// pointer fragment such as "#/definitions/Root") under the draft its $schema
// declares (draft-07 when it declares none).
func compileJS(text, fragment string) (*jsv.Schema, error) {
	c := jsv.NewCompiler()
	c.Draft = jsv.Draft7
	if err := c.AddResource("emitted.json", strings.NewReader(text)); err != nil {
		return nil, err
	}
	return c.Compile("emitted.json" + fragment)
}

// leafError picks, deterministically, the most specific cause of a validation error.
func leafError(err error) (keyword, msg string) {
	ve, ok := err.(*jsv.ValidationError)
	if !ok {
		return "?", err.Error()
	}
	var leaves []*jsv.ValidationError
	var walk func(e *jsv.ValidationError)
	walk = func(e *jsv.ValidationError) {
		if len(e.Causes) == 0 {
			leaves = append(leaves, e)
			return
		}
		for _, c := range e.Causes {
			walk(c)
		}
	}
	walk(ve)
	sort.Slice(leaves, func(i, j int) bool {
		if leaves[i].KeywordLocation != leaves[j].KeywordLocation {
			return leaves[i].KeywordLocation < leaves[j].KeywordLocation
		}
		return leaves[i].InstanceLocation < leaves[j].InstanceLocation
	})
	l := leaves[0]
	kw := l.KeywordLocation
	if i := strings.LastIndex(kw, "/"); i >= 0 {
		kw = kw[i+1:]
	}
	return kw, l.Message
}

// ---- kin-openapi ----------------------------------------------------------------------------

func loadOpenAPI(text string) (*openapi3.T, error) {
	return openapi3.NewLoader().LoadFromData([]byte(text))
}

func validateOpenAPI(doc *openapi3.T) error {
	return doc.Validate(context.Background())
}

// navigateOpenAPI follows JSON path components below components.schemas.
func navigateOpenAPI(doc *openapi3.T, steps []string) *openapi3.Schema {
	if doc == nil || doc.Components == nil || len(steps) == 0 {
		return nil
	}
	cur := doc.Components.Schemas[steps[0]]
	i := 1
	for cur != nil && cur.Value != nil && i < len(steps) {
		s := cur.Value
		switch steps[i] {
		case "properties":
			if i+1 >= len(steps) {
				return nil
			}
			cur = s.Properties[steps[i+1]]
			i += 2
		case "items":
			cur = s.Items
			i++
		case "additionalProperties":
			cur = s.AdditionalProperties.Schema
			i++
		case "anyOf", "oneOf", "allOf":
			if i+1 >= len(steps) {
				return nil
			}
			var n int
			fmt.Sscan(steps[i+1], &n)
			l := map[string]openapi3.SchemaRefs{"anyOf": s.AnyOf, "oneOf": s.OneOf, "allOf": s.AllOf}[steps[i]]
			if n >= len(l) {
				return nil
			}
			cur = l[n]
			i += 2
		default:
			return nil
		}
	}
	if cur == nil {
		return nil
	}
	return cur.Value
}

// ---- diagnostics ----------------------------------------------------------------------------

var (
	reQuoted  = regexp.MustCompile(`"[^"]*"|'[^']*'`)
	reDigits  = regexp.MustCompile(`[0-9]+`)
	rePaths   = regexp.MustCompile(`(file://)?/var/tmp/[^\s:'"#]+`)
	reIDs     = regexp.MustCompile(`s[0-9]{4}[a-z]+`)
	reYAMLErr = regexp.MustCompile(`, yaml error:.*$`)
	rePkgTag  = regexp.MustCompile(`^(\w+: )?\[[pqr]\] `)
)

var (
	reGotNull  = regexp.MustCompile(`expected (\w+(, \w+)*|\w+ or \w+), but got null`)
	reGotOther = regexp.MustCompile(`expected (\w+), but got \w+`)
)

func normDiag(s string) string {
	s = strings.ReplaceAll(s, "\n", " ")
	s = reGotNull.ReplaceAllString(s, "null not accepted")
	s = reGotOther.ReplaceAllString(s, "expected $1, got another type")
	s = reYAMLErr.ReplaceAllString(s, "")
	s = rePkgTag.ReplaceAllString(s, "$1")
	s = rePaths.ReplaceAllString(s, "<path>")
	s = reIDs.ReplaceAllString(s, "<id>")
	s = reQuoted.ReplaceAllString(s, `"…"`)
	s = reDigits.ReplaceAllString(s, "N")
	if len(s) > 140 {
		s = strings.ToValidUTF8(s[:140], "") // never cut a character in two: keys must survive a JSON round trip
	}
	return strings.TrimSpace(s)
}
