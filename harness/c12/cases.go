//go:build verif

package main

import (
	"encoding/json"
	"fmt"
	"regexp"
	"sort"
	"strings"

	"github.com/grafana/cog/verifx/genrun"
	"github.com/grafana/cog/verifx/gschema"
	"github.com/grafana/cog/verifx/irgen"
)

// kase is one (abstract schema, input rendering) pair pushed through one
// pipeline run that emits Go + JSON Schema + OpenAPI together.
type kase struct {
	Index  int
	Schema gschema.Schema
	// Format is the input rendering: jsonschema | openapi | cue (one package
	// "p") or openapi+q | cue+q (two inputs: the support objects and the objects
	// whose name starts with Q live in a second package "q" and are referenced
	// across packages).
	Format string
	Unit   genrun.Unit
	Result *genrun.Result
	// Packages the unit defines ("p", and "q" for two-package cases).
	Pkgs        []string
	CompileErrs []string
	InDriver    bool
	// Targets are the objects clause 3 is applied to (the root object; every
	// object of every package for the three-package cases). DriverPkgs: the
	// packages of the unit that are linked into the driver.
	Targets    []target
	DriverPkgs map[string]bool
	// HangSuspect: a foreign object refers to itself (generated under a short timeout).
	HangSuspect bool
}

// target is one object whose Go encodings are validated against the emitted
// definition of the same name in the document of its package.
type target struct {
	Pkg, Name string
}

// driverKey is the registry prefix of a package of the unit.
func (c *kase) driverKey(pkg string) string {
	if pkg == gschema.Pkg {
		return c.Unit.ID
	}
	return c.Unit.ID + "~" + pkg
}

// rooted is the abstract schema with the named object first (the root of the
// reference validators and of the document alphabet).
func (c *kase) rooted(name string) gschema.Schema {
	if c.Schema.Objs[0].Name == name {
		return c.Schema
	}
	var objs []gschema.Obj
	for _, o := range c.Schema.Objs {
		if o.Name == name {
			objs = append([]gschema.Obj{o}, objs...)
		} else {
			objs = append(objs, o)
		}
	}
	return gschema.Schema{Objs: objs}
}

func (c *kase) Witness() string  { return c.Format + " :: " + c.Schema.String() }
func (c *kase) RootType() string { return c.Unit.ID + "." + c.Schema.Objs[0].Name }
func (c *kase) Reversed() bool   { return strings.HasSuffix(c.Format, reversedInputs) }
func (c *kase) TwoPkg() bool {
	return strings.HasSuffix(strings.TrimSuffix(c.Format, reversedInputs), "+q")
}
func (c *kase) ThreePkg() bool {
	return strings.HasSuffix(strings.TrimSuffix(c.Format, reversedInputs), "+qr")
}
func (c *kase) Variant() bool { return strings.HasSuffix(c.Format, boundsVariant) }
func (c *kase) BaseFormat() string {
	return strings.TrimSuffix(strings.TrimSuffix(strings.TrimSuffix(strings.TrimSuffix(c.Format, reversedInputs), "+qr"), "+q"), boundsVariant)
}

// reversedInputs marks a multi-package case whose inputs are listed in the
// opposite order in the pipeline configuration (q before p; r, q, p): the
// order of the inputs is the order in which the packages reach the passes and
// the jennies.
const reversedInputs = "(rev)"

func reverseInputs(inputYAML string) string {
	l := strings.Split(inputYAML, "\n  ")
	for i, j := 0, len(l)-1; i < j; i, j = i+1, j-1 {
		l[i], l[j] = l[j], l[i]
	}
	return strings.Join(l, "\n  ")
}

// boundsVariant marks a rendering in which the numeric constraints of grammar
// G (integers >=0 and <5, floats >=0.5) are replaced by the complementary
// operators (integers >0 and <=5, floats >0.5), so that all four bound
// operators of the IR occur in the space.
const boundsVariant = "(>,<=)"

var allFormats = []string{"jsonschema", "openapi", "cue", "jsonschema" + boundsVariant, "openapi" + boundsVariant, "cue" + boundsVariant, "openapi+q", "cue+q", "openapi+qr", "cue+qr",
	"openapi+q" + reversedInputs, "cue+q" + reversedInputs, "openapi+qr" + reversedInputs, "cue+qr" + reversedInputs}

func formatRank(f string) int {
	for i, x := range allFormats {
		if x == f {
			return i
		}
	}
	return 9
}

// Parents of a case for the frontier: the reductions of the schema in every
// format, the same schema in earlier single-package formats and, for a
// two-package case, the same schema as ONE package in the same input language
// (a failure that does not need the package split is reported there).
func (c *kase) Parents() []string {
	out := genrun.CaseParents(c.Schema, c.BaseFormat())
	if c.Reversed() {
		// a failure that does not depend on the order of the inputs is reported for the usual order
		normal := strings.TrimSuffix(c.Format, reversedInputs)
		out = append(out, normal+" :: "+c.Schema.String())
		for _, r := range c.Schema.Reductions() {
			out = append(out, c.Format+" :: "+r.String(), strings.Replace(c.Format, "cue", "openapi", 1)+" :: "+r.String())
		}
		if c.BaseFormat() == "cue" {
			out = append(out, strings.Replace(c.Format, "cue", "openapi", 1)+" :: "+c.Schema.String())
		}
	}
	if c.Variant() {
		for _, r := range c.Schema.Reductions() {
			for _, f := range gschema.Formats {
				out = append(out, f+boundsVariant+" :: "+r.String())
			}
		}
		for _, f := range gschema.Formats {
			if f == c.BaseFormat() {
				break
			}
			out = append(out, f+boundsVariant+" :: "+c.Schema.String())
		}
	}
	if c.ThreePkg() {
		out = append(out, c.BaseFormat()+" :: "+c.Schema.String(), c.BaseFormat()+"+q :: "+c.Schema.String())
		for _, r := range c.Schema.Reductions() {
			out = append(out, "openapi+qr :: "+r.String(), "cue+qr :: "+r.String())
		}
		if c.Format == "cue+qr" {
			out = append(out, "openapi+qr :: "+c.Schema.String())
		}
	}
	if c.TwoPkg() {
		out = append(out, c.BaseFormat()+" :: "+c.Schema.String())
		for _, r := range c.Schema.Reductions() {
			out = append(out, "openapi+q :: "+r.String(), "cue+q :: "+r.String())
		}
		if c.Format == "cue+q" {
			out = append(out, "openapi+q :: "+c.Schema.String())
		}
	}
	return out
}

func ref(n string) gschema.Term { return irgen.Ref(gschema.Pkg + "." + n) }

// extraSchemas are the constructs the property statement names (constants,
// intersections) that gschema.Enumerate does not list: allOf intersections
// and constant references.
func extraSchemas() []gschema.Schema {
	var out []gschema.Schema
	z := irgen.Struct1("z", false, irgen.S("string"))
	for _, req := range []bool{true, false} {
		out = append(out,
			gschema.Field1(irgen.Inter(ref("S"), z), req),
			gschema.Field1(irgen.ConstRef(gschema.Pkg+".E"), req),
		)
	}
	out = append(out, gschema.WithSupport(gschema.Obj{Name: "Root", T: irgen.Inter(ref("S"), z)}))
	out = append(out, unionRefSchemas()...)
	return out
}

func constant(v string) gschema.Term { return gschema.Term{K: "const", A: "disc:" + v} }

// unionObjects are named objects that are themselves unions: of several
// constants of one underlying type, of one scalar kind under different
// constraints, of distinct scalars, of references to structs.
func unionObjects() map[string]gschema.Term {
	cs := irgen.S("string")
	cs.Constr = true
	return map[string]gschema.Term{
		"LV": irgen.Disj(constant("low"), constant("high")),
		"LC": irgen.Disj(cs, irgen.S("bool")),
		"LS": irgen.Disj(cs, irgen.S("string")),
		"LU": irgen.Disj(irgen.S("string"), irgen.S("bool")),
		"LD": {K: "disj", Sub: []gschema.Term{ref("S"), ref("T")}, Disc: true},
	}
}

// unionRefSchemas: unions one of whose branches is a REFERENCE - to an object
// that is itself a union (unionObjects), to an enum, to an alias, to a struct -
// next to a scalar / constant / other reference branch, as a field, an array
// item, a map value and as a named object; plus unions nested inline.
func unionRefSchemas() []gschema.Schema {
	uo := unionObjects()
	with := func(root gschema.Term) gschema.Schema {
		objs := []gschema.Obj{{Name: "Root", T: root}}
		for _, n := range []string{"LV", "LC", "LS", "LU", "LD"} {
			used := false
			var walk func(t gschema.Term)
			walk = func(t gschema.Term) {
				if t.K == "ref" && t.A == gschema.Pkg+"."+n {
					used = true
				}
				for _, x := range t.Sub {
					walk(x)
				}
			}
			walk(root)
			if used {
				objs = append(objs, gschema.Obj{Name: n, T: uo[n]})
			}
		}
		return gschema.WithSupport(objs...)
	}
	i64, str, boolean := irgen.S("int64"), irgen.S("string"), irgen.S("bool")
	unions := []gschema.Term{
		irgen.Disj(ref("LV"), i64),
		irgen.Disj(i64, ref("LV")),
		irgen.Disj(ref("LV"), constant("mid")),
		irgen.Disj(ref("LC"), i64),
		irgen.Disj(ref("LS"), i64),
		irgen.Disj(ref("LU"), i64),
		irgen.Disj(ref("LV"), ref("LU")),
		irgen.Disj(ref("E"), i64),
		irgen.Disj(ref("N"), str),
		irgen.Disj(ref("A"), i64),
		irgen.Disj(ref("E"), ref("N")),
		irgen.Disj(ref("LD"), str),
		irgen.Disj(ref("S"), str),
		irgen.Disj(irgen.Disj(constant("low"), constant("high")), i64),
		irgen.Disj(irgen.Disj(str, boolean), i64),
	}
	var out []gschema.Schema
	for _, u := range unions {
		out = append(out, with(irgen.Struct1("f", true, u)), with(irgen.Struct1("f", false, u)))
	}
	for _, u := range unions[:2] {
		out = append(out, with(irgen.Struct1("f", false, irgen.Array(u))), with(irgen.Struct1("f", false, irgen.Map(u))))
	}
	// the union as a named object, referred to by the root
	for _, u := range []gschema.Term{unions[0], unions[3], unions[7]} {
		s := with(irgen.Struct1("f", true, ref("LW")))
		objs := append([]gschema.Obj{s.Objs[0], {Name: "LW", T: u}}, with(u).Objs[1:]...)
		out = append(out, gschema.WithSupport(objs...))
	}
	// references to the union objects outside any union (neighbours / reductions)
	for _, n := range []string{"LV", "LC", "LS", "LU"} {
		out = append(out, with(irgen.Struct1("f", true, ref(n))), with(irgen.Struct1("f", false, ref(n))))
	}
	return out
}

// inQ decides where an object lives in a two-package rendering.
func inQ(name string) bool {
	switch name {
	case "S", "T", "E", "N", "A", "K", "P":
		return true
	}
	return strings.HasPrefix(name, "Q")
}

// qName is the name an object of package q gets there: the Q prefix is
// dropped, so that QL becomes q.L - an object whose name also exists in p.
func qName(name string) string {
	if len(name) > 1 && strings.HasPrefix(name, "Q") {
		return name[1:]
	}
	return name
}

// twoPackageSchemas: a handful of schemas rendered as two inputs with
// cross-package references in every position (field, array item, map value,
// union branch, via a local object, and from a foreign object to another
// foreign object).
func twoPackageSchemas() []gschema.Schema {
	f1 := gschema.Field1
	def := ref("E")
	def.Default = "scalar"
	out := []gschema.Schema{
		f1(ref("S"), true),
		f1(ref("S"), false),
		f1(ref("E"), true),
		f1(def, false),
		f1(ref("P"), true),
		f1(ref("A"), false),
		f1(irgen.Array(ref("S")), false),
		f1(irgen.Array(ref("E")), true),
		f1(irgen.Map(ref("S")), false),
		f1(irgen.Map(ref("P")), true),
		f1(irgen.Struct1("g", true, ref("S")), true),
		f1(irgen.Nullable(ref("S")), false),
		f1(gschema.Term{K: "disj", Sub: []gschema.Term{ref("S"), ref("T")}, Disc: true}, true),
		// through a local object
		gschema.WithSupport(gschema.Obj{Name: "Root", T: irgen.Struct1("f", true, ref("L"))}, gschema.Obj{Name: "L", T: irgen.Struct1("g", false, ref("S"))}),
		// a foreign object that references another foreign object (closure of the inlining)
		gschema.WithSupport(gschema.Obj{Name: "Root", T: irgen.Struct1("f", true, ref("QM"))}, gschema.Obj{Name: "QM", T: irgen.Struct1("g", true, ref("S"))}),
		gschema.WithSupport(gschema.Obj{Name: "Root", T: irgen.Struct1("f", false, ref("QM"))}, gschema.Obj{Name: "QM", T: irgen.Struct1("g", false, irgen.Map(ref("P")))}),
		// two objects called L, one in each package
		gschema.WithSupport(gschema.Obj{Name: "Root", T: irgen.StructN([]irgen.Field{{Name: "a", Required: true}, {Name: "b", Required: false}}, []gschema.Term{ref("L"), ref("QL")})},
			gschema.Obj{Name: "L", T: irgen.Struct1("g", true, irgen.S("string"))}, gschema.Obj{Name: "QL", T: irgen.Struct1("w", true, irgen.S("int64"))}),
		// unions mixing a foreign reference with a local one / a scalar, and a
		// reference to a union object of the other package
		gschema.WithSupport(gschema.Obj{Name: "Root", T: irgen.Struct1("f", true, gschema.Term{K: "disj", Sub: []gschema.Term{ref("S"), ref("L")}, Disc: true})},
			gschema.Obj{Name: "L", T: irgen.StructN([]irgen.Field{{Name: "kind", Required: true}, {Name: "w", Required: false}}, []gschema.Term{constant("l"), irgen.S("int64")})}),
		gschema.WithSupport(gschema.Obj{Name: "Root", T: irgen.Struct1("f", true, gschema.Term{K: "disj", Sub: []gschema.Term{ref("L"), ref("S")}, Disc: true})},
			gschema.Obj{Name: "L", T: irgen.StructN([]irgen.Field{{Name: "kind", Required: true}, {Name: "w", Required: false}}, []gschema.Term{constant("l"), irgen.S("int64")})}),
		f1(irgen.Disj(ref("S"), irgen.S("string")), true),
		f1(irgen.Disj(ref("E"), irgen.S("int64")), false),
		gschema.WithSupport(gschema.Obj{Name: "Root", T: irgen.Struct1("f", true, irgen.Disj(ref("QV"), irgen.S("int64")))},
			gschema.Obj{Name: "QV", T: irgen.Disj(constant("low"), constant("high"))}),
		gschema.WithSupport(gschema.Obj{Name: "Root", T: irgen.Struct1("f", false, ref("QV"))},
			gschema.Obj{Name: "QV", T: irgen.Disj(constant("low"), constant("high"))}),
		// two objects called Sh, one in each package, the one of p sorted AFTER the objects that refer to q's
		gschema.WithSupport(gschema.Obj{Name: "Root", T: irgen.StructN([]irgen.Field{{Name: "a", Required: true}, {Name: "b", Required: false}}, []gschema.Term{ref("Sh"), ref("QSh")})},
			gschema.Obj{Name: "Sh", T: irgen.Struct1("g", true, irgen.S("string"))}, gschema.Obj{Name: "QSh", T: irgen.Struct1("w", true, irgen.S("int64"))}),
		gschema.WithSupport(gschema.Obj{Name: "Root", T: irgen.Struct1("b", true, ref("QSh"))},
			gschema.Obj{Name: "Sh", T: irgen.Struct1("g", true, irgen.S("string"))}, gschema.Obj{Name: "QSh", T: irgen.Struct1("w", true, irgen.S("int64"))}),
		gschema.WithSupport(gschema.Obj{Name: "Root", T: irgen.StructN([]irgen.Field{{Name: "a", Required: false}, {Name: "b", Required: false}}, []gschema.Term{irgen.Map(ref("Sh")), irgen.Array(ref("QSh"))})},
			gschema.Obj{Name: "Sh", T: irgen.Struct1("g", true, irgen.S("string"))}, gschema.Obj{Name: "QSh", T: irgen.Enum("str")}),
		gschema.WithSupport(gschema.Obj{Name: "Root", T: irgen.StructN([]irgen.Field{{Name: "a", Required: true}, {Name: "c", Required: false}}, []gschema.Term{ref("Al"), ref("Sh")})},
			gschema.Obj{Name: "Al", T: irgen.Struct1("b", true, ref("QSh"))},
			gschema.Obj{Name: "Sh", T: irgen.Struct1("g", true, irgen.S("string"))}, gschema.Obj{Name: "QSh", T: irgen.Struct1("w", true, irgen.S("int64"))}),
		// an object named like its package (q.Q), not referred to by p
		gschema.WithSupport(gschema.Obj{Name: "Root", T: irgen.Struct1("f", true, ref("S"))}, gschema.Obj{Name: "Q", T: irgen.Struct1("h", false, irgen.S("string"))}),
		gschema.WithSupport(gschema.Obj{Name: "Root", T: irgen.Struct1("f", true, ref("Q"))}, gschema.Obj{Name: "Q", T: irgen.Struct1("h", false, ref("S"))}),
		// two fields, local and foreign
		gschema.WithSupport(gschema.Obj{Name: "Root", T: irgen.StructN([]irgen.Field{{Name: "a", Required: true}, {Name: "b", Required: false}}, []gschema.Term{ref("S"), irgen.Array(ref("P"))})}),
	}
	return out
}

// ---- three packages: p and q both refer to the same objects of r ---------------------------------

// place3 decides where an object lives in a three-package rendering: the
// support objects and the objects called R<Upper>… in r, the objects called
// Q<Upper>… in q, the rest (Root) in p. Names are kept.
func place3(name string) string {
	switch name {
	case "S", "T", "E", "N", "A", "K", "P":
		return "r"
	}
	switch name {
	case "Q": // an object named like its package (the entry point the schema outputs infer)
		return "q"
	case "R":
		return "r"
	}
	if len(name) > 1 && name[1] >= 'A' && name[1] <= 'Z' {
		switch name[0] {
		case 'R':
			return "r"
		case 'Q':
			return "q"
		}
	}
	return "p"
}

// threePackageSchemas: p.Root and q.QX both refer to the same object(s) of r -
// a struct, an enum, a constrained struct, a chain r.RA -> r.RB, in field /
// array / map positions - plus p referring to q.QX as well, and a foreign
// object that refers to itself.
func threePackageSchemas() []gschema.Schema {
	one := func(name string, req bool, t gschema.Term) gschema.Obj {
		return gschema.Obj{Name: name, T: irgen.Struct1(map[string]string{"Root": "f", "QX": "h"}[name], req, t)}
	}
	return []gschema.Schema{
		gschema.WithSupport(one("Root", true, ref("S")), one("QX", true, ref("S"))),
		gschema.WithSupport(one("Root", false, irgen.Array(ref("S"))), one("QX", true, ref("S"))),
		gschema.WithSupport(one("Root", false, irgen.Map(ref("E"))), one("QX", true, irgen.Array(ref("E")))),
		gschema.WithSupport(one("Root", true, ref("E")), one("QX", false, ref("E"))),
		gschema.WithSupport(one("Root", true, ref("P")), one("QX", false, irgen.Array(ref("P")))),
		gschema.WithSupport(one("Root", true, ref("RA")), one("QX", false, irgen.Array(ref("RA"))),
			gschema.Obj{Name: "RA", T: irgen.Struct1("a", true, ref("RB"))}, gschema.Obj{Name: "RB", T: irgen.Struct1("b", false, irgen.S("string"))}),
		gschema.WithSupport(one("Root", false, irgen.Map(ref("RA"))), one("QX", true, ref("RB")),
			gschema.Obj{Name: "RA", T: irgen.Struct1("a", false, irgen.Array(ref("RB")))}, gschema.Obj{Name: "RB", T: irgen.Struct1("b", true, ref("E"))}),
		gschema.WithSupport(gschema.Obj{Name: "Root", T: irgen.StructN([]irgen.Field{{Name: "f", Required: true}, {Name: "g", Required: false}}, []gschema.Term{ref("S"), ref("QX")})},
			one("QX", true, ref("S"))),
		// objects named like their package: q.Q (next to r, which has no such object), r.R
		gschema.WithSupport(one("Root", true, ref("S")), gschema.Obj{Name: "Q", T: irgen.Struct1("h", true, ref("S"))}),
		gschema.WithSupport(one("Root", true, ref("S")), one("QX", false, ref("S")), gschema.Obj{Name: "Q", T: irgen.Struct1("h", false, irgen.S("string"))}),
		gschema.WithSupport(one("Root", true, ref("R")), one("QX", false, ref("S")), gschema.Obj{Name: "R", T: irgen.Struct1("b", false, irgen.S("string"))}),
		// a foreign object that refers to itself
		gschema.WithSupport(one("Root", false, ref("RNode")), one("QX", false, ref("RNode")),
			gschema.Obj{Name: "RNode", T: irgen.StructN([]irgen.Field{{Name: "v", Required: true}, {Name: "next", Required: false}}, []gschema.Term{irgen.S("string"), ref("RNode")})}),
	}
}

// selfRefForeign: an object outside p refers to itself.
func selfRefForeign(s gschema.Schema) bool {
	for _, o := range s.Objs {
		if place3(o.Name) == "p" {
			continue
		}
		found := false
		var walk func(t gschema.Term)
		walk = func(t gschema.Term) {
			if t.K == "ref" && t.A == gschema.Pkg+"."+o.Name {
				found = true
			}
			for _, x := range t.Sub {
				walk(x)
			}
		}
		walk(o.T)
		if found {
			return true
		}
	}
	return false
}

func renderThree(s gschema.Schema, format string) (map[string]string, string, error) {
	r, err := s.Render(format)
	if err != nil {
		return nil, "", err
	}
	switch format {
	case "openapi":
		return renderThreeOpenAPI(r.Main)
	case "cue":
		return renderThreeCUE(r.Main)
	}
	return nil, "", fmt.Errorf("format cannot express cross-package references")
}

var threePkgs = []string{"p", "q", "r"}

func renderThreeOpenAPI(main string) (map[string]string, string, error) {
	v, err := decodeJSON(main)
	if err != nil {
		return nil, "", err
	}
	comps := v.(map[string]any)["components"].(map[string]any)["schemas"].(map[string]any)
	const prefix = "#/components/schemas/"
	files := map[string]string{}
	var in []string
	for _, pkg := range threePkgs {
		out := map[string]any{}
		for name, def := range comps {
			if place3(name) != pkg {
				continue
			}
			out[name] = rewriteRefs(def, func(r string) string {
				if tp := place3(strings.TrimPrefix(r, prefix)); tp != pkg {
					return tp + ".json" + r
				}
				return r
			})
		}
		b, _ := json.MarshalIndent(map[string]any{
			"openapi": "3.0.0", "info": map[string]any{"title": pkg, "version": "1"}, "paths": map[string]any{},
			"components": map[string]any{"schemas": out},
		}, "", " ")
		files[pkg+".json"] = string(b)
		in = append(in, fmt.Sprintf("- openapi: {path: '%%DIR%%/%s.json', package: %s}", pkg, pkg))
	}
	return files, strings.Join(in, "\n  "), nil
}

func renderThreeCUE(main string) (map[string]string, string, error) {
	lines := map[string][]string{}
	uses := map[string]map[string]bool{"p": {}, "q": {}, "r": {}}
	for _, l := range strings.Split(main, "\n") {
		i := strings.Index(l, ": ")
		if i <= 0 || strings.HasPrefix(l, "package") || strings.HasPrefix(l, "import") {
			continue
		}
		name := l[:i]
		pkg := place3(name)
		segs := strings.Split(l[i+2:], `"`)
		for k := 0; k < len(segs); k += 2 {
			segs[k] = reIdent.ReplaceAllStringFunc(segs[k], func(id string) string {
				if tp := place3(id); tp != pkg && tp != "p" {
					uses[pkg][tp] = true
					return tp + "." + id
				}
				return id
			})
		}
		lines[pkg] = append(lines[pkg], name+": "+strings.Join(segs, `"`))
	}
	files := map[string]string{}
	var in []string
	for _, pkg := range threePkgs {
		body := strings.Join(lines[pkg], "\n") + "\n"
		var imports []string
		for tp := range uses[pkg] {
			imports = append(imports, "example.com/"+tp)
		}
		if strings.Contains(body, "strings.") {
			imports = append(imports, "strings")
		}
		sort.Strings(imports)
		head := "package " + pkg + "\n\n"
		for _, im := range imports {
			head += fmt.Sprintf("import %q\n", im)
		}
		if len(imports) > 0 {
			head += "\n"
		}
		files[pkg+"/schema.cue"] = head + body
		var libs []string
		for _, tp := range threePkgs {
			if tp != pkg && pkg != "r" && tp != "p" {
				libs = append(libs, fmt.Sprintf("'%%DIR%%/%s:example.com/%s'", tp, tp))
			}
		}
		in = append(in, fmt.Sprintf("- cue: {entrypoint: '%%DIR%%/%s', cue_imports: [%s]}", pkg, strings.Join(libs, ", ")))
	}
	return files, strings.Join(in, "\n  "), nil
}

// buildCases enumerates the complete case list of the tier.
func buildCases(thorough bool) (cases []*kase, schemas []gschema.Schema, skipped map[string]int) {
	skipped = map[string]int{}
	seen := map[string]int{}
	add := func(s gschema.Schema) int {
		if i, ok := seen[s.String()]; ok {
			return i
		}
		seen[s.String()] = len(schemas)
		schemas = append(schemas, s)
		return len(schemas) - 1
	}
	single := append(gschema.Enumerate(thorough), extraSchemas()...)
	for _, s := range single {
		add(s)
	}
	nSingle := len(schemas)
	two := map[int]bool{}
	for _, s := range twoPackageSchemas() {
		two[add(s)] = true
	}
	three := map[int]bool{}
	for _, s := range threePackageSchemas() {
		three[add(s)] = true
	}
	for i, s := range schemas {
		if three[i] {
			for _, f := range []string{"openapi+qr", "cue+qr"} {
				files, in, err := renderThree(s, strings.TrimSuffix(f, "+qr"))
				if err != nil {
					skipped[f]++
					continue
				}
				u := genrun.Unit{ID: fmt.Sprintf("s%04d%st", i, f[:1]), Files: files, InputYAML: in}
				c := &kase{Index: i, Schema: s, Format: f, Unit: u, Pkgs: threePkgs, HangSuspect: selfRefForeign(s)}
				for _, o := range s.Objs {
					c.Targets = append(c.Targets, target{Pkg: place3(o.Name), Name: o.Name})
				}
				cases = append(cases, c)
				ru := genrun.Unit{ID: u.ID + "v", Files: files, InputYAML: reverseInputs(in)}
				cases = append(cases, &kase{Index: i, Schema: s, Format: f + reversedInputs, Unit: ru, Pkgs: threePkgs, HangSuspect: c.HangSuspect, Targets: c.Targets})
			}
		}
		if i < nSingle {
			for _, f := range gschema.Formats {
				r, err := s.Render(f)
				if err != nil {
					skipped[f]++
					continue
				}
				u := genrun.Unit{ID: fmt.Sprintf("s%04d%s", i, f[:1]), Files: r.Files, InputYAML: r.InputYAML}
				cases = append(cases, &kase{Index: i, Schema: s, Format: f, Unit: u, Pkgs: []string{"p"}})
				if hasNumericBounds(s) {
					files, ok := flipBounds(f, r.Files)
					if !ok {
						panic("c12: bounds variant of " + s.String() + " in " + f + " is identical")
					}
					u := genrun.Unit{ID: fmt.Sprintf("s%04d%sb", i, f[:1]), Files: files, InputYAML: r.InputYAML}
					cases = append(cases, &kase{Index: i, Schema: s, Format: f + boundsVariant, Unit: u, Pkgs: []string{"p"}})
				}
			}
		}
		if two[i] {
			for _, f := range []string{"openapi+q", "cue+q"} {
				files, in, err := renderTwo(s, strings.TrimSuffix(f, "+q"))
				if err != nil {
					skipped[f]++
					continue
				}
				u := genrun.Unit{ID: fmt.Sprintf("s%04d%sq", i, f[:1]), Files: files, InputYAML: in}
				cases = append(cases, &kase{Index: i, Schema: s, Format: f, Unit: u, Pkgs: []string{"p", "q"}})
				ru := genrun.Unit{ID: u.ID + "v", Files: files, InputYAML: reverseInputs(in)}
				cases = append(cases, &kase{Index: i, Schema: s, Format: f + reversedInputs, Unit: ru, Pkgs: []string{"p", "q"}})
			}
		}
	}
	for _, c := range cases {
		if c.Targets == nil {
			c.Targets = []target{{Pkg: gschema.Pkg, Name: c.Schema.Objs[0].Name}}
		}
		c.DriverPkgs = map[string]bool{}
		c.Unit.Types = true
		// the strict unmarshaller is switched on as in C01: without it the generated
		// Go of every scalar union fails to compile (unused import), which would
		// block clause 3 for unions
		c.Unit.Go = &genrun.GoOpts{JSONMarshaller: true, StrictUnmarshaller: true}
		c.Unit.JSONSchema = true
		c.Unit.OpenAPI = true
	}
	return cases, schemas, skipped
}

// ---- bounds variant ---------------------------------------------------------------------------

// hasNumericBounds: a single-object schema whose own type carries a numeric constraint.
func hasNumericBounds(s gschema.Schema) bool {
	if len(s.Objs) != 1 {
		return false
	}
	found := false
	var walk func(t gschema.Term)
	walk = func(t gschema.Term) {
		if t.K == "scalar" && t.Constr && t.A != "string" {
			found = true
		}
		for _, x := range t.Sub {
			walk(x)
		}
	}
	walk(s.Objs[0].T)
	return found
}

func flipJSON(v any, oapi bool) any {
	switch x := v.(type) {
	case map[string]any:
		out := map[string]any{}
		for k, e := range x {
			out[k] = flipJSON(e, oapi)
		}
		_, isProps := out["type"].(string)
		if !isProps {
			return out
		}
		if oapi {
			if _, ok := out["minimum"]; ok {
				out["exclusiveMinimum"] = true
			}
			delete(out, "exclusiveMaximum")
		} else {
			if m, ok := out["minimum"]; ok {
				out["exclusiveMinimum"] = m
				delete(out, "minimum")
			}
			if m, ok := out["exclusiveMaximum"]; ok {
				out["maximum"] = m
				delete(out, "exclusiveMaximum")
			}
		}
		return out
	case []any:
		out := make([]any, len(x))
		for i, e := range x {
			out[i] = flipJSON(e, oapi)
		}
		return out
	}
	return v
}

func flipBounds(format string, files map[string]string) (map[string]string, bool) {
	out := map[string]string{}
	changed := false
	for name, text := range files {
		nt := text
		if format == "cue" {
			nt = strings.NewReplacer(">=0 & <5", ">0 & <=5", ">=0.5", ">0.5").Replace(text)
		} else {
			v, err := decodeJSON(text)
			if err != nil {
				panic(err)
			}
			b, _ := json.MarshalIndent(flipJSON(v, format == "openapi"), "", " ")
			nt = string(b)
			if !strings.Contains(nt, "exclusiveMinimum") {
				nt = text
			}
		}
		if nt != text {
			changed = true
		}
		out[name] = nt
	}
	return out, changed
}

// ---- two-package renderings -----------------------------------------------------------------

func renderTwo(s gschema.Schema, format string) (map[string]string, string, error) {
	r, err := s.Render(format)
	if err != nil {
		return nil, "", err
	}
	nq := 0
	for _, o := range s.Objs {
		if inQ(o.Name) {
			nq++
		}
	}
	if nq == 0 || inQ(s.Objs[0].Name) {
		return nil, "", fmt.Errorf("nothing to put in package q")
	}
	switch format {
	case "openapi":
		return renderTwoOpenAPI(r.Main)
	case "cue":
		return renderTwoCUE(r.Main)
	}
	// the JSON Schema front-end gives every reference the package of the
	// document it is read from (walkRef), so cross-package references cannot
	// be written in that input language.
	return nil, "", fmt.Errorf("format cannot express cross-package references")
}

func rewriteRefs(v any, f func(string) string) any {
	switch x := v.(type) {
	case map[string]any:
		out := map[string]any{}
		for k, e := range x {
			if s, ok := e.(string); ok && k == "$ref" {
				out[k] = f(s)
				continue
			}
			out[k] = rewriteRefs(e, f)
		}
		return out
	case []any:
		out := make([]any, len(x))
		for i, e := range x {
			out[i] = rewriteRefs(e, f)
		}
		return out
	}
	return v
}

func decodeJSON(text string) (any, error) {
	dec := json.NewDecoder(strings.NewReader(text))
	dec.UseNumber()
	var v any
	err := dec.Decode(&v)
	return v, err
}

func renderTwoOpenAPI(main string) (map[string]string, string, error) {
	v, err := decodeJSON(main)
	if err != nil {
		return nil, "", err
	}
	doc := v.(map[string]any)
	comps := doc["components"].(map[string]any)["schemas"].(map[string]any)
	const prefix = "#/components/schemas/"
	mk := func(q bool) string {
		out := map[string]any{}
		for name, def := range comps {
			if inQ(name) != q {
				continue
			}
			key := name
			if q {
				key = qName(name)
			}
			out[key] = rewriteRefs(def, func(r string) string {
				target := strings.TrimPrefix(r, prefix)
				switch {
				case !q && inQ(target):
					return "q.json" + prefix + qName(target)
				case q && !inQ(target):
					return "p.json" + r
				case q:
					return prefix + qName(target)
				}
				return r
			})
		}
		title := "p"
		if q {
			title = "q"
		}
		b, _ := json.MarshalIndent(map[string]any{
			"openapi": "3.0.0", "info": map[string]any{"title": title, "version": "1"}, "paths": map[string]any{},
			"components": map[string]any{"schemas": out},
		}, "", " ")
		return string(b)
	}
	files := map[string]string{"p.json": mk(false), "q.json": mk(true)}
	in := "- openapi: {path: '%DIR%/p.json', package: p}\n  - openapi: {path: '%DIR%/q.json', package: q}"
	return files, in, nil
}

var reIdent = regexp.MustCompile(`\b[A-Z][A-Za-z0-9]*\b`)

// qualify prefixes, outside string literals, every identifier that names an object of package q.
func qualify(line, prefix string) string {
	segs := strings.Split(line, `"`)
	for i := 0; i < len(segs); i += 2 {
		segs[i] = reIdent.ReplaceAllStringFunc(segs[i], func(id string) string {
			if inQ(id) {
				return prefix + qName(id)
			}
			return id
		})
	}
	return strings.Join(segs, `"`)
}

func renderTwoCUE(main string) (map[string]string, string, error) {
	var pl, ql []string
	for _, l := range strings.Split(main, "\n") {
		i := strings.Index(l, ": ")
		if i <= 0 || strings.HasPrefix(l, "package") || strings.HasPrefix(l, "import") {
			continue
		}
		name := l[:i]
		if inQ(name) {
			ql = append(ql, qName(name)+": "+qualify(l[i+2:], ""))
		} else {
			pl = append(pl, name+": "+qualify(l[i+2:], "q."))
		}
	}
	file := func(pkg string, lines []string, imports ...string) string {
		body := strings.Join(lines, "\n") + "\n"
		if strings.Contains(body, "strings.") {
			imports = append(imports, "strings")
		}
		sort.Strings(imports)
		head := "package " + pkg + "\n\n"
		for _, im := range imports {
			head += fmt.Sprintf("import %q\n", im)
		}
		if len(imports) > 0 {
			head += "\n"
		}
		return head + body
	}
	files := map[string]string{
		"p/schema.cue": file("p", pl, "example.com/q"),
		"q/schema.cue": file("q", ql),
	}
	in := "- cue: {entrypoint: '%DIR%/p', cue_imports: ['%DIR%/q:example.com/q']}\n  - cue: {entrypoint: '%DIR%/q'}"
	return files, in, nil
}
