//go:build verif

package main

import (
	"encoding/json"
	"fmt"
	"sort"
	"strings"

	"github.com/getkin/kin-openapi/openapi3"
	"github.com/grafana/cog/internal/ast"
	"github.com/grafana/cog/verifx/gschema"
)

// docView is one emitted document (JSON Schema or OpenAPI) of one package.
type docView struct {
	Kind string // "jsonschema" | "openapi"
	Pkg  string
	Text string
	Root map[string]any
	// Defs is the object holding the named definitions and DefPath its JSON path.
	Defs    map[string]any
	DefPath []string
	// reference validators of the document's own dialect (nil when the document does not load)
	oapi   *openapi3.T
	jsOK   bool
	report func(clause, diag, what string)
	count  func(key string)
	// All is the whole IR of the run (to follow references into other
	// packages); foreignSeen the inlined foreign definitions already compared.
	All         ast.Schemas
	foreignSeen map[string]bool
	// Pre is the IR before the schema languages' own compiler passes (checkUnions).
	Pre ast.Schemas
}

// hasHomonym tells whether a package other than the referred one defines an object of the same name.
func (v *docView) hasHomonym(ref *ast.RefType) bool {
	for _, s := range v.All {
		if s.Package == ref.ReferredPkg {
			continue
		}
		if _, found := s.LocateObject(ref.ReferredType); found {
			return true
		}
	}
	return false
}

func canonOf(v any) string {
	b, err := json.Marshal(v)
	if err != nil {
		return "!" + err.Error()
	}
	c, err := gschema.CanonJSON(string(b))
	if err != nil {
		return "!" + string(b)
	}
	return c
}

func typeClass(t ast.Type) string {
	s := string(t.Kind)
	switch t.Kind {
	case ast.KindScalar:
		if t.Scalar.Value != nil {
			s = "constant scalar"
		}
	case ast.KindRef:
		s = "reference"
	case ast.KindConstantRef:
		s = "constant reference"
	}
	return s
}

// acceptsNull asks the reference validator of the document's own dialect
// whether the sub-schema at the given path accepts null.
func (v *docView) acceptsNull(steps []string) (accepts, known bool) {
	switch v.Kind {
	case "jsonschema":
		if !v.jsOK {
			return false, false
		}
		ptr := "#"
		for _, s := range append(append([]string{}, v.DefPath...), steps...) {
			ptr += "/" + strings.NewReplacer("~", "~0", "/", "~1", "%", "%25").Replace(s)
		}
		sch, err := compileJS(v.Text, ptr)
		if err != nil {
			return false, false
		}
		return sch.Validate(nil) == nil, true
	case "openapi":
		s := navigateOpenAPI(v.oapi, steps)
		if s == nil {
			return false, false
		}
		return s.VisitJSON(nil) == nil, true
	}
	return false, false
}

func asMap(x any) (map[string]any, bool) { m, ok := x.(map[string]any); return m, ok }

func join(steps []string, more ...string) []string {
	return append(append([]string{}, steps...), more...)
}

// checkSchema compares the IR of one package with the emitted document:
// clause (2) names, clause (4) required-ness / constraints / enum values /
// defaults / nullable.
func (v *docView) checkSchema(schema *ast.Schema) {
	schema.Objects.Iterate(func(_ string, obj ast.Object) {
		v.count("ir-objects")
		def, ok := v.Defs[obj.Name]
		if !ok {
			v.report("object of the IR does not appear under its own name", typeClass(obj.Type)+" object",
				fmt.Sprintf("object %s.%s has no definition named %s", schema.Package, obj.Name, obj.Name))
			return
		}
		v.cmpType(obj.Type, def, []string{obj.Name}, "object")
	})
}

func (v *docView) cmpType(t ast.Type, frag any, steps []string, pos string) {
	v.count("ir-positions-compared")
	at := strings.Join(steps, "/")
	m, ok := asMap(frag)
	if !ok {
		v.report("definition is not a JSON object", pos, fmt.Sprintf("%s: %v", at, frag))
		return
	}
	if t.Nullable {
		v.count("nullable-positions")
		if acc, known := v.acceptsNull(steps); !known {
			v.count("nullable-positions-not-judged(document does not load)")
		} else if !acc {
			v.report("nullable position rejects null", pos+" of type "+typeClass(t),
				fmt.Sprintf("%s is nullable in the IR; the emitted sub-schema %s does not accept null", at, short(frag)))
		}
	}
	switch t.Kind {
	case ast.KindStruct:
		props, _ := asMap(m["properties"])
		required := map[string]bool{}
		if l, ok := m["required"].([]any); ok {
			for _, r := range l {
				if s, ok := r.(string); ok {
					required[s] = true
				}
			}
		}
		for _, f := range t.Struct.Fields {
			v.count("ir-fields")
			p, ok := props[f.Name]
			if !ok {
				v.report("field of the IR does not appear under its own name", "field of "+pos,
					fmt.Sprintf("%s: no property %q in %s", at, f.Name, short(frag)))
				continue
			}
			switch {
			case f.Required && !required[f.Name]:
				v.report("required-ness not carried over", "required field not listed in required",
					fmt.Sprintf("%s: field %s is required in the IR; emitted required = %v", at, f.Name, m["required"]))
			case !f.Required && required[f.Name]:
				v.report("required-ness not carried over", "optional field listed in required",
					fmt.Sprintf("%s: field %s is optional in the IR; emitted required = %v", at, f.Name, m["required"]))
			}
			pm, _ := asMap(p)
			emitted, has := pm["default"]
			switch {
			case f.Type.Default != nil && !has:
				v.report("default not carried over", typeClass(f.Type)+" field",
					fmt.Sprintf("%s.%s: IR default %s; emitted property %s has none", at, f.Name, canonOf(f.Type.Default), short(p)))
			case f.Type.Default != nil && canonOf(f.Type.Default) != canonOf(emitted):
				v.report("default differs", typeClass(f.Type)+" field",
					fmt.Sprintf("%s.%s: IR default %s, emitted %s", at, f.Name, canonOf(f.Type.Default), canonOf(emitted)))
			case f.Type.Default == nil && has:
				v.report("default invented", typeClass(f.Type)+" field",
					fmt.Sprintf("%s.%s: no default in the IR, emitted %s", at, f.Name, canonOf(emitted)))
			}
			if f.Type.Default != nil {
				v.count("defaults-compared")
			}
			v.cmpType(f.Type, p, join(steps, "properties", f.Name), "field")
		}
	case ast.KindScalar:
		v.cmpConstraints(t, m, at, pos)
		if t.Scalar.Value != nil {
			v.count("constants-compared")
			v.cmpConstant(t.Scalar.Value, m, at, typeClass(t))
		}
	case ast.KindConstantRef:
		v.count("constants-compared")
		v.cmpConstant(t.ConstantReference.ReferenceValue, m, at, "constant reference")
	case ast.KindEnum:
		v.count("enums-compared")
		var want []string
		for _, ev := range t.Enum.Values {
			want = append(want, canonOf(ev.Value))
		}
		sort.Strings(want)
		l, ok := m["enum"].([]any)
		if !ok {
			v.report("enum values not carried over", "no enum keyword", fmt.Sprintf("%s: IR members %v, emitted %s", at, want, short(frag)))
			break
		}
		var got []string
		for _, e := range l {
			got = append(got, canonOf(e))
		}
		sort.Strings(got)
		if strings.Join(got, ",") != strings.Join(want, ",") {
			v.report("enum values differ", pos, fmt.Sprintf("%s: IR member values %v, emitted %v", at, want, got))
		}
	case ast.KindArray:
		if items, ok := m["items"]; ok {
			v.cmpType(t.Array.ValueType, items, join(steps, "items"), "array item")
		}
	case ast.KindMap:
		if ap, ok := asMap(m["additionalProperties"]); ok {
			v.cmpType(t.Map.ValueType, ap, join(steps, "additionalProperties"), "map value")
		}
	case ast.KindRef:
		r, ok := m["$ref"].(string)
		if !ok {
			break
		}
		last := r[strings.LastIndex(r, "/")+1:]
		if t.Ref.ReferredPkg == v.Pkg {
			if last != t.Ref.ReferredType {
				v.report("reference emitted under another name", pos, fmt.Sprintf("%s: IR reference to %s, emitted $ref %s", at, t.Ref.String(), r))
			}
			break
		}
		// An object of another package is copied into the document. The
		// statement fixes the names of the package's own objects only (the
		// copy cannot keep its name when the package has an object of that
		// name), so the name is free; the definition the $ref points to must
		// describe the referred object.
		if last != t.Ref.ReferredType && !v.hasHomonym(t.Ref) {
			// no other object of the run bears that name: nothing forces another name
			v.report("reference emitted under another name", pos, fmt.Sprintf("%s: IR reference to %s, emitted $ref %s", at, t.Ref.String(), r))
			break
		}
		obj, found := v.All.LocateObject(t.Ref.ReferredPkg, t.Ref.ReferredType)
		def, has := v.Defs[last]
		key := t.Ref.String() + " -> " + last
		if !found || !has || v.foreignSeen[key] {
			break // a dangling $ref is reported by checkRefs
		}
		if v.foreignSeen == nil {
			v.foreignSeen = map[string]bool{}
		}
		v.foreignSeen[key] = true
		v.count("inlined-foreign-objects-compared")
		v.cmpType(obj.Type, def, []string{last}, "inlined object of another package")
	case ast.KindDisjunction:
		for _, key := range []string{"anyOf", "oneOf"} {
			if l, ok := m[key].([]any); ok && len(l) == len(t.Disjunction.Branches) {
				for i, b := range t.Disjunction.Branches {
					v.cmpType(b, l[i], join(steps, key, fmt.Sprint(i)), "union branch")
				}
				break
			}
		}
	case ast.KindIntersection:
		if l, ok := m["allOf"].([]any); ok && len(l) == len(t.Intersection.Branches) {
			for i, b := range t.Intersection.Branches {
				v.cmpType(b, l[i], join(steps, "allOf", fmt.Sprint(i)), "intersection branch")
			}
			break
		}
		// the branches are not emitted: every field they declare is missing
		for _, b := range t.Intersection.Branches {
			if b.Kind == ast.KindStruct && len(b.Struct.Fields) > 0 {
				v.report("field of the IR does not appear under its own name", "field of an intersection branch",
					fmt.Sprintf("%s: the intersection's struct branch declares field %q; emitted %s", at, b.Struct.Fields[0].Name, short(frag)))
				break
			}
		}
	}
}

func (v *docView) cmpConstant(want any, m map[string]any, at, class string) {
	if c, ok := m["const"]; ok {
		if canonOf(c) != canonOf(want) {
			v.report("constant value differs", class, fmt.Sprintf("%s: IR constant %s, emitted const %s", at, canonOf(want), canonOf(c)))
		}
		return
	}
	if l, ok := m["enum"].([]any); ok && len(l) == 1 {
		if canonOf(l[0]) != canonOf(want) {
			v.report("constant value differs", class, fmt.Sprintf("%s: IR constant %s, emitted enum %s", at, canonOf(want), canonOf(l)))
		}
		return
	}
	v.report("constant value not carried over", class, fmt.Sprintf("%s: IR constant %s, emitted %s", at, canonOf(want), short(m)))
}

// cmpConstraints judges the scalar constraints by the document's own dialect:
// draft-07 has numeric exclusiveMinimum/exclusiveMaximum, OpenAPI 3.0 a
// boolean flag next to minimum/maximum.
func (v *docView) cmpConstraints(t ast.Type, m map[string]any, at, pos string) {
	type demand struct {
		key   string
		bound string
		excl  bool // OpenAPI only: the exclusive flag must be true
	}
	var demands []demand
	for _, c := range t.Scalar.Constraints {
		if len(c.Args) == 0 {
			continue
		}
		b := canonOf(c.Args[0])
		switch c.Op {
		case ast.MinLengthOp:
			demands = append(demands, demand{"minLength", b, false})
		case ast.MaxLengthOp:
			demands = append(demands, demand{"maxLength", b, false})
		case ast.MultipleOfOp:
			demands = append(demands, demand{"multipleOf", b, false})
		case ast.GreaterThanEqualOp:
			demands = append(demands, demand{"minimum", b, false})
		case ast.LessThanEqualOp:
			demands = append(demands, demand{"maximum", b, false})
		case ast.GreaterThanOp:
			if v.Kind == "openapi" {
				demands = append(demands, demand{"minimum", b, true})
			} else {
				demands = append(demands, demand{"exclusiveMinimum", b, false})
			}
		case ast.LessThanOp:
			if v.Kind == "openapi" {
				demands = append(demands, demand{"maximum", b, true})
			} else {
				demands = append(demands, demand{"exclusiveMaximum", b, false})
			}
		}
	}
	if v.Kind == "openapi" {
		for _, k := range []string{"exclusiveMinimum", "exclusiveMaximum"} {
			if x, ok := m[k]; ok {
				if _, isBool := x.(bool); !isBool {
					v.report("numeric "+k+" in a 3.0 document", "",
						fmt.Sprintf("%s: OpenAPI 3.0 defines %s as a boolean modifier of %s; emitted %s", at, k, strings.ToLower(k[9:10])+k[10:], short(m)))
				}
			}
		}
	}
	wanted := map[string]bool{}
	for _, d := range demands {
		v.count("constraints-compared")
		name := d.key
		if d.excl {
			name = "exclusive" + strings.ToUpper(d.key[:1]) + d.key[1:]
		}
		wanted[d.key] = true
		got, ok := m[d.key]
		if !ok && d.excl {
			if x, isNum := m[name].(json.Number); isNum && canonOf(x) == d.bound {
				continue // the bound is there in draft-07 spelling: reported once, as the numeric form
			}
		}
		switch {
		case !ok:
			v.report("constraint not carried over", name, fmt.Sprintf("%s: IR constraint %s %s; emitted %s", at, name, d.bound, short(m)))
			continue
		case canonOf(got) != d.bound:
			v.report("constraint bound differs", name, fmt.Sprintf("%s: IR constraint %s %s; emitted %s = %s", at, name, d.bound, d.key, canonOf(got)))
			continue
		}
		if v.Kind == "openapi" {
			flagKey := "exclusive" + strings.ToUpper(d.key[:1]) + d.key[1:]
			flag, _ := m[flagKey].(bool)
			if flag != d.excl {
				v.report("constraint not carried over", name+" (exclusive flag)", fmt.Sprintf("%s: IR constraint %s %s; emitted %s", at, name, d.bound, short(m)))
			}
			wanted[flagKey] = true
		}
	}
	for _, k := range []string{"minLength", "maxLength", "multipleOf", "minimum", "maximum", "exclusiveMinimum", "exclusiveMaximum"} {
		if _, ok := m[k]; ok && !wanted[k] {
			if v.Kind == "openapi" && strings.HasPrefix(k, "exclusive") {
				continue // judged above (numeric form) or as the flag of a demanded bound
			}
			v.report("constraint invented", k, fmt.Sprintf("%s: the IR has no such constraint; emitted %s", at, short(m)))
		}
	}
}

func short(v any) string {
	b, _ := json.Marshal(v)
	if len(b) > 200 {
		return strings.ToValidUTF8(string(b[:200]), "") + "…"
	}
	return string(b)
}

// ---- clause (2): every $ref resolves inside the document ---------------------------------------

func resolvePointer(root any, ref string) bool {
	if !strings.HasPrefix(ref, "#") {
		return false
	}
	p := strings.TrimPrefix(ref, "#")
	if p == "" {
		return true
	}
	if !strings.HasPrefix(p, "/") {
		return false
	}
	cur := root
	for _, seg := range strings.Split(p[1:], "/") {
		seg = strings.NewReplacer("~1", "/", "~0", "~").Replace(seg)
		switch x := cur.(type) {
		case map[string]any:
			n, ok := x[seg]
			if !ok {
				return false
			}
			cur = n
		case []any:
			var i int
			if _, err := fmt.Sscan(seg, &i); err != nil || i < 0 || i >= len(x) {
				return false
			}
			cur = x[i]
		default:
			return false
		}
	}
	return true
}

// checkRefs walks every sub-schema of the document (not the data carried by
// default/const/enum/required, and treating the keys below
// properties/definitions/schemas as names).
func (v *docView) checkRefs() {
	var walk func(node any, pos string, names bool)
	walk = func(node any, pos string, names bool) {
		switch x := node.(type) {
		case map[string]any:
			keys := make([]string, 0, len(x))
			for k := range x {
				keys = append(keys, k)
			}
			sort.Strings(keys)
			for _, k := range keys {
				e := x[k]
				if names {
					walk(e, pos, false)
					continue
				}
				switch k {
				case "$ref":
					s, ok := e.(string)
					if !ok {
						continue
					}
					v.count("refs-checked")
					if !strings.HasPrefix(s, "#") {
						v.report("$ref does not resolve inside the document", "external reference at "+pos, fmt.Sprintf("$ref %q", s))
					} else if !resolvePointer(v.Root, s) {
						v.report("$ref does not resolve inside the document", "dangling reference at "+pos, fmt.Sprintf("$ref %q has no target in package %s's %s document", s, v.Pkg, v.Kind))
					}
				case "default", "const", "enum", "required", "example", "examples", "info", "discriminator":
				case "properties", "definitions", "schemas", "patternProperties":
					p := pos
					switch k {
					case "properties":
						p = "a property"
					case "definitions", "schemas":
						p = "a definition"
					}
					walk(e, p, true)
				case "items":
					walk(e, "array items", false)
				case "additionalProperties":
					walk(e, "map values", false)
				case "anyOf", "oneOf", "allOf":
					walk(e, "a branch of "+k, false)
				default:
					walk(e, pos, false)
				}
			}
		case []any:
			for _, e := range x {
				walk(e, pos, false)
			}
		}
	}
	walk(v.Root, "the document root", false)
}

// ---- clause (2)/(4) for unions: every alternative of the IR is carried over ---------------------
//
// "every object ... of the IR appears", "enum values ... carried over
// unchanged": a union of the IR (as loaded, before the emitter's own compiler
// passes) lists alternatives; each of them - a constant, the members of an
// enum, a reference, a scalar kind, an inline struct/array/map - must still
// be one of the alternatives the emitted fragment lists. Both sides are
// flattened first (A | (B | C) = A | B | C, also through references to objects
// that are unions), so a legitimate flattening or un-flattening is neutral.
// Leniences: `any`, null (judged by the nullable clause), intersections,
// constant references and composable slots are not demanded; an emitted
// alternative `{}` (accepts everything) satisfies every demand.

func (v *docView) checkUnions(schema *ast.Schema) {
	schema.Objects.Iterate(func(_ string, obj ast.Object) {
		if def, ok := v.Defs[obj.Name]; ok {
			v.walkUnions(obj.Type, def, obj.Name, "object", 0)
		}
	})
}

func (v *docView) walkUnions(t ast.Type, frag any, at, pos string, depth int) {
	m, ok := asMap(frag)
	if !ok || depth > 8 {
		return
	}
	switch t.Kind {
	case ast.KindStruct:
		props, _ := asMap(m["properties"])
		for _, f := range t.Struct.Fields {
			if p, ok := props[f.Name]; ok {
				v.walkUnions(f.Type, p, at+"."+f.Name, "field", depth+1)
			}
		}
	case ast.KindArray:
		if items, ok := m["items"]; ok {
			v.walkUnions(t.Array.ValueType, items, at+"[]", "array item", depth+1)
		}
	case ast.KindMap:
		if ap, ok := m["additionalProperties"]; ok {
			v.walkUnions(t.Map.ValueType, ap, at+"{}", "map value", depth+1)
		}
	case ast.KindDisjunction:
		v.count("unions-compared")
		want := v.irAlternatives(t, map[string]bool{}, 0)
		got := v.emittedAlternatives(m, map[string]bool{}, 0)
		for _, g := range got {
			if len(g) == 0 {
				return // an alternative that accepts everything
			}
		}
		for _, w := range want {
			v.count("union-alternatives-compared")
			if class, missing := v.alternativeMissing(w, got); missing {
				v.report("union alternative of the IR does not appear", class+" in a "+pos,
					fmt.Sprintf("%s: the union of the IR lists %s; the emitted alternatives are %s", at, class+" "+describeAlt(w), short(got)))
			}
		}
	}
}

func describeAlt(t ast.Type) string {
	switch t.Kind {
	case ast.KindScalar:
		if t.Scalar.Value != nil {
			return canonOf(t.Scalar.Value)
		}
		return string(t.Scalar.ScalarKind)
	case ast.KindEnum:
		var l []string
		for _, m := range t.Enum.Values {
			l = append(l, canonOf(m.Value))
		}
		return "[" + strings.Join(l, ",") + "]"
	case ast.KindRef:
		return t.Ref.String()
	}
	return string(t.Kind)
}

// irAlternatives flattens a union of the IR: nested unions and references to objects that are unions.
func (v *docView) irAlternatives(t ast.Type, seen map[string]bool, depth int) []ast.Type {
	if depth > 8 {
		return nil
	}
	switch t.Kind {
	case ast.KindDisjunction:
		var out []ast.Type
		for _, b := range t.Disjunction.Branches {
			out = append(out, v.irAlternatives(b, seen, depth+1)...)
		}
		return out
	case ast.KindRef:
		if obj, ok := v.Pre.LocateObject(t.Ref.ReferredPkg, t.Ref.ReferredType); ok && obj.Type.Kind == ast.KindDisjunction && !seen[t.Ref.String()] {
			seen[t.Ref.String()] = true
			return v.irAlternatives(obj.Type, seen, depth+1)
		}
	}
	return []ast.Type{t}
}

// emittedAlternatives flattens anyOf / oneOf lists, also through $refs to definitions that are such lists.
func (v *docView) emittedAlternatives(m map[string]any, seen map[string]bool, depth int) []map[string]any {
	if depth > 8 {
		return nil
	}
	for _, key := range []string{"anyOf", "oneOf"} {
		if l, ok := m[key].([]any); ok {
			var out []map[string]any
			for _, e := range l {
				if em, ok := asMap(e); ok {
					out = append(out, v.emittedAlternatives(em, seen, depth+1)...)
				}
			}
			return out
		}
	}
	if r, ok := m["$ref"].(string); ok && !seen[r] {
		if target, ok := asMap(v.Defs[r[strings.LastIndex(r, "/")+1:]]); ok {
			_, any1 := target["anyOf"].([]any)
			_, one := target["oneOf"].([]any)
			if any1 || one {
				seen[r] = true
				return v.emittedAlternatives(target, seen, depth+1)
			}
		}
	}
	return []map[string]any{m}
}

func jsonTypeOf(k ast.ScalarKind) string {
	switch k {
	case ast.KindString, ast.KindBytes:
		return "string"
	case ast.KindBool:
		return "boolean"
	case ast.KindFloat32, ast.KindFloat64:
		return "number"
	case ast.KindAny, ast.KindNull:
		return ""
	}
	return "integer"
}

func hasType(m map[string]any, want ...string) bool {
	var types []string
	switch x := m["type"].(type) {
	case string:
		types = []string{x}
	case []any:
		for _, e := range x {
			if s, ok := e.(string); ok {
				types = append(types, s)
			}
		}
	}
	for _, t := range types {
		for _, w := range want {
			if t == w || w == "integer" && t == "number" {
				return true
			}
		}
	}
	return false
}

// carriesValue: the alternative names the value (const, or a member of its enum).
func carriesValue(m map[string]any, value any) bool {
	want := canonOf(value)
	if c, ok := m["const"]; ok && canonOf(c) == want {
		return true
	}
	if l, ok := m["enum"].([]any); ok {
		for _, e := range l {
			if canonOf(e) == want {
				return true
			}
		}
	}
	return false
}

func (v *docView) alternativeMissing(w ast.Type, got []map[string]any) (class string, missing bool) {
	anyAlt := func(pred func(m map[string]any) bool) bool {
		for _, g := range got {
			if pred(g) {
				return true
			}
		}
		return false
	}
	switch w.Kind {
	case ast.KindScalar:
		if w.Scalar.Value != nil {
			return "constant", !anyAlt(func(m map[string]any) bool { return carriesValue(m, w.Scalar.Value) })
		}
		jt := jsonTypeOf(w.Scalar.ScalarKind)
		if jt == "" {
			return "", false
		}
		if len(w.Scalar.Constraints) == 0 {
			// an unconstrained alternative is only carried over by an alternative that does not restrict the type
			return "unconstrained scalar", !anyAlt(func(m map[string]any) bool {
				for _, k := range []string{"const", "enum", "minLength", "maxLength", "pattern", "minimum", "maximum", "exclusiveMinimum", "exclusiveMaximum", "multipleOf"} {
					if _, restricted := m[k]; restricted {
						return false
					}
				}
				return hasType(m, jt)
			})
		}
		return "scalar", !anyAlt(func(m map[string]any) bool { return hasType(m, jt) })
	case ast.KindEnum:
		for _, member := range w.Enum.Values {
			member := member
			if !anyAlt(func(m map[string]any) bool { return carriesValue(m, member.Value) }) {
				return "enum member", true
			}
		}
	case ast.KindRef:
		return "reference", !anyAlt(func(m map[string]any) bool {
			r, ok := m["$ref"].(string)
			return ok && strings.HasSuffix(r[strings.LastIndex(r, "/")+1:], w.Ref.ReferredType)
		})
	case ast.KindStruct, ast.KindMap:
		return "inline " + string(w.Kind), !anyAlt(func(m map[string]any) bool { return hasType(m, "object") })
	case ast.KindArray:
		return "inline array", !anyAlt(func(m map[string]any) bool { return hasType(m, "array") })
	}
	return "", false
}
