//go:build verif

// C12: the JSON Schema and OpenAPI documents cog emits are valid documents of
// their kind, self-contained, name-preserving, accept every encoding of the
// generated Go types and carry required-ness / constraints / enum values /
// defaults over unchanged. DESIGN.md §6 C12.
//
// Space: grammar G of the tier (gschema.Enumerate) plus intersections and
// constant references, each in every input language that can express it, plus a
// handful of two-package inputs with cross-package references. One real
// pipeline run per case emits Go (json marshaller) + JSON Schema + OpenAPI.
// Oracle clauses (each cites the property statement):
//
//	(1) "valid documents of their kind - accepted by independent loaders and by
//	    cog's own parsers": santhosh-tekuri compile, Python jsonschema
//	    check_schema, kin-openapi load + Validate, and a second pipeline run
//	    that reads the emitted file back as a jsonschema / openapi input.
//	(2) "every $ref resolves and every object and field of the IR appears under
//	    its own name": JSON-pointer lookup of every $ref; IR walk.
//	(3) "every JSON document obtained by encoding a value of the generated Go
//	    types validates against the emitted JSON Schema for that object": the Go
//	    re-encoding of every document of C01's set (accepted by all reference
//	    validators of the input and by the Go decoder) and the encoding of
//	    NewRoot() are validated against #/definitions/<Root> by santhosh-tekuri
//	    AND Python jsonschema; only what both reject is reported.
//	(4) "required-ness, constraints, enum values and defaults are carried over
//	    unchanged": IR walk against the emitted fragments, each document judged
//	    by its own dialect (draft-07 vs OpenAPI 3.0); nullable positions must
//	    accept null according to the dialect's reference validator.
package main

import (
	"context"
	"encoding/json"
	"fmt"
	"os"
	"path/filepath"
	"runtime"
	"sort"
	"strings"
	"sync"
	"time"

	"github.com/grafana/cog/internal/ast"
	"github.com/grafana/cog/internal/codegen"
	"github.com/grafana/cog/verifx/genrun"
	"github.com/grafana/cog/verifx/gschema"
	"github.com/grafana/cog/verifx/vx"
)

type emitted struct {
	c    *kase
	kind string // jsonschema | openapi
	pkg  string
	text string
	view *docView
}

func (e *emitted) id() string { return e.c.Unit.ID + "x" + e.kind[:1] + e.pkg }

// loadIR re-runs, in process, the part of the pipeline that precedes the
// jennies: the schemas the jsonschema / openapi jennies were given.
//
// pre is the IR as the pipeline loads it (inputs + common passes), BEFORE the
// compiler passes the two schema languages declare for themselves: those
// passes (internal/jennies/{jsonschema,openapi}/jennies.go) are part of the
// emitters, so what they lose is lost by the emitter.
func loadIR(cfg string) (pre, js, oa ast.Schemas, err error) {
	p := vx.CatchStack(func() {
		var pl0 *codegen.Pipeline
		pl0, err = codegen.PipelineFromFile(cfg, codegen.Parameters(nil))
		if err != nil {
			return
		}
		pre, err = pl0.LoadSchemas(context.Background())
		if err != nil {
			return
		}
		for _, lang := range []string{"jsonschema", "openapi"} {
			var pl *codegen.Pipeline
			pl, err = codegen.PipelineFromFile(cfg, codegen.Parameters(nil))
			if err != nil {
				return
			}
			var schemas ast.Schemas
			schemas, err = pl.LoadSchemas(context.Background())
			if err != nil {
				return
			}
			langs, e := pl.OutputLanguages()
			if e != nil {
				err = e
				return
			}
			target, ok := langs[lang]
			if !ok {
				err = fmt.Errorf("no %s output configured", lang)
				return
			}
			ctx, e := pl.ContextForLanguage(target, schemas)
			if e != nil {
				err = e
				return
			}
			if lang == "jsonschema" {
				js = ctx.Schemas
			} else {
				oa = ctx.Schemas
			}
		}
	})
	if p != nil {
		err = fmt.Errorf("panic: %s at %s", p.Value, p.Site)
	}
	return
}

var dumpMu sync.Mutex

func debugf(format string, a ...any) {
	if os.Getenv("C12_DEBUG") != "" {
		fmt.Fprintf(os.Stderr, "debug: "+format+"\n", a...)
	}
}

func main() {
	r := vx.Start("C12")
	genrun.MaybeServe()
	r.PerKindSmallest = true
	cases, schemas, skipped := buildCases(r.Thorough())
	if r.Replay != "" {
		_, witness, _ := r.ReplayFile()
		want := witness[strings.Index(witness, " :: ")+4:]
		all, _, _ := buildCases(true)
		var pick []*kase
		for _, c := range all {
			if c.Schema.String() == want {
				pick = append(pick, c)
			}
		}
		if len(pick) == 0 {
			vx.Fatalf("replay: schema %q is not in the explored space", want)
		}
		cases = pick
		fmt.Println("replaying", witness)
	}
	ws := genrun.NewWorkspace("c12")
	defer ws.Close()

	var mu sync.Mutex
	counts := map[string]int{}
	bump := func(k string) { mu.Lock(); counts[k]++; mu.Unlock() }
	samples := &vx.Samples{N: 6}
	transitions := 0

	fail := func(c *kase, docKind, clause, diag, what string, extra map[string]any) {
		kind := docKind + ": " + clause
		if d := normDiag(diag); d != "" {
			kind += ": " + d
		}
		detail := map[string]any{"format": c.Format, "schema": c.Schema.String(), "input": c.Unit.Files, "input_yaml": c.Unit.InputYAML}
		for k, v := range extra {
			detail[k] = v
		}
		if f := os.Getenv("C12_DUMP"); f != "" {
			dumpMu.Lock()
			if fh, err := os.OpenFile(f, os.O_APPEND|os.O_CREATE|os.O_WRONLY, 0o644); err == nil {
				fmt.Fprintf(fh, "%s @ %s\t%s\n", kind, c.Witness(), strings.ReplaceAll(what, "\n", " "))
				fh.Close()
			}
			dumpMu.Unlock()
		}
		r.Fail(vx.Failure{
			Kind:    kind,
			Witness: c.Witness(),
			Size:    c.Schema.Size()*10 + formatRank(c.Format),
			Parents: c.Parents(),
			What:    fmt.Sprintf("%s input %s: %s", c.Format, c.Schema.String(), what),
			Detail:  detail,
		})
	}

	// ---- generation (real pipeline, isolated workers) -----------------------------------------
	// Cases in which a foreign object refers to itself are known to make the
	// unchanged tree loop forever in the schema jenny (a hang is C04's business):
	// they run on their own workers under a short timeout (a run takes
	// milliseconds) and are counted as blocked when they do not come back.
	var units []genrun.Unit
	var suspects []*kase
	for _, c := range cases {
		if c.HangSuspect {
			suspects = append(suspects, c)
		} else {
			units = append(units, c.Unit)
		}
	}
	suspectRes := make([]*genrun.Result, len(suspects))
	var swg sync.WaitGroup
	for i, c := range suspects {
		swg.Add(1)
		go func(i int, c *kase) {
			defer swg.Done()
			wk := &vx.Worker{Args: []string{"--genrun-worker", ws.Dir}, Env: []string{"GOMAXPROCS=2"}, Timeout: 20 * time.Second}
			defer wk.Close()
			b, _ := json.Marshal(c.Unit)
			resp, died := wk.Do(b)
			res := &genrun.Result{ID: c.Unit.ID}
			switch {
			case died && wk.Hung:
				res.Status, res.Err = "hang", "no answer within 20 s (a run takes milliseconds)"
			case died:
				res.Status, res.Err = "fatal", "the process died"
			default:
				if err := json.Unmarshal(resp, res); err != nil {
					vx.Fatalf("bad worker answer: %v", err)
				}
			}
			suspectRes[i] = res
		}(i, c)
	}
	results := ws.Generate(units)
	swg.Wait()
	for i, c := range suspects {
		results[c.Unit.ID] = suspectRes[i]
	}
	transitions += len(cases)
	// A run that fails (a refusal or crash outside the schema jennies belongs to
	// C01 / C04) is repeated without the Go output, so that clauses 1, 2 and 4
	// still judge what the two schema jennies emit for that input.
	var retry []genrun.Unit
	retryCase := map[string]*kase{}
	for _, c := range cases {
		res := results[c.Unit.ID]
		if res.Status != "ok" && res.Status != "hang" && !strings.Contains(res.PanicSite, "jennies/jsonschema") && !strings.Contains(res.PanicSite, "jennies/openapi") {
			u := c.Unit
			u.ID += "n"
			u.Go = nil
			retry = append(retry, u)
			retryCase[u.ID] = c
		}
	}
	if len(retry) > 0 {
		for id, res := range ws.Generate(retry) {
			c := retryCase[id]
			debugf("generation with Go: %s %s: %s %s; without Go: %s", results[c.Unit.ID].Status, c.Witness(), results[c.Unit.ID].Err, results[c.Unit.ID].PanicSite, res.Status)
			if res.Status == "ok" || strings.Contains(res.PanicSite, "jennies/jsonschema") || strings.Contains(res.PanicSite, "jennies/openapi") {
				bump("cases generated without the Go output (the run with Go fails: C01/C04)")
				c.Unit.ID, c.Unit.Go = id, nil
				results[id] = res
			}
		}
		transitions += len(retry)
	}
	var docs []*emitted
	for _, c := range cases {
		c.Result = results[c.Unit.ID]
		if c.Result.Status != "ok" {
			site := c.Result.PanicSite
			if strings.Contains(site, "jennies/jsonschema") || strings.Contains(site, "jennies/openapi") {
				bump("emission-panics")
				fail(c, "jsonschema", "emission panics", c.Result.Err+" at "+site, "the schema jenny panics: "+c.Result.Err+" at "+site, nil)
				continue
			}
			// a refusal / failure elsewhere in the run belongs to C01 / C04
			bump("blocked: generation-" + c.Result.Status)
			continue
		}
		bump("cases-generated")
		for _, pkg := range c.Pkgs {
			for _, k := range []string{"jsonschema", "openapi"} {
				p := filepath.Join(ws.Dir, "out", k, c.Unit.ID, pkg+"."+k+".json")
				b, err := os.ReadFile(p)
				if err != nil {
					fail(c, k, "no document emitted for a package of the IR", "", "the run succeeds but emits no "+pkg+"."+k+".json", nil)
					continue
				}
				docs = append(docs, &emitted{c: c, kind: k, pkg: pkg, text: string(b)})
			}
		}
	}

	// ---- Go build + driver (for clause 3) -----------------------------------------------------
	errs := ws.BuildGo()
	if e, ok := errs["verifgen/?"]; ok {
		vx.Fatalf("go build reported errors outside any package: %v", e)
	}
	var pkgs []genrun.DriverPkg
	for _, c := range cases {
		if c.Result.Status != "ok" {
			continue
		}
		prefix := "verifgen/" + c.Unit.ID + "/"
		for imp, e := range errs {
			if strings.HasPrefix(imp, prefix) {
				c.CompileErrs = append(c.CompileErrs, e...)
			}
		}
		if len(c.CompileErrs) > 0 {
			sort.Strings(c.CompileErrs)
			debugf("does not compile %s: %s", c.Witness(), c.CompileErrs[0])
			continue
		}
		for _, t := range c.Targets {
			if c.DriverPkgs[t.Pkg] {
				continue
			}
			has := false
			for _, d := range ws.GoPkgDirs(c.Result) {
				if d == c.Unit.ID+"/"+t.Pkg {
					has = true
				}
			}
			if !has {
				continue
			}
			api, err := ws.ParseGoAPI(c.Unit.ID + "/" + t.Pkg)
			if err != nil {
				continue
			}
			c.DriverPkgs[t.Pkg] = true
			pkgs = append(pkgs, genrun.DriverPkg{Key: c.driverKey(t.Pkg), Import: prefix + t.Pkg, API: api})
		}
		c.InDriver = c.DriverPkgs[gschema.Pkg]
	}
	driver, err := ws.BuildDriver(pkgs, nil)
	if err != nil {
		ws.Close()
		vx.Fatalf("%v", err)
	}
	defer driver.Close()

	// ---- clauses (1) in-process loaders, (2), (4) ---------------------------------------------
	byCase := map[*kase][]*emitted{}
	for _, d := range docs {
		byCase[d.c] = append(byCase[d.c], d)
	}
	var wg sync.WaitGroup
	ch := make(chan *kase)
	for i := 0; i < runtime.NumCPU(); i++ {
		wg.Add(1)
		go func() {
			defer wg.Done()
			for c := range ch {
				irPre, irJS, irOA, err := loadIR(filepath.Join(ws.Dir, "in", c.Unit.ID, "pipeline.yaml"))
				if err != nil {
					bump("blocked: IR not reloadable in process")
					irPre, irJS, irOA = nil, nil, nil
				}
				for _, d := range byCase[c] {
					d := d
					v := &docView{Kind: d.kind, Pkg: d.pkg, Text: d.text, count: func(k string) { bump(d.kind + ": " + k) }}
					v.report = func(clause, diag, what string) {
						fail(c, d.kind, clause, diag, fmt.Sprintf("package %s %s document: %s", d.pkg, d.kind, what), map[string]any{"emitted": d.text, "package": d.pkg})
					}
					d.view = v
					root, err := decodeJSON(d.text)
					rm, ok := root.(map[string]any)
					if err != nil || !ok {
						v.report("emitted file is not a JSON object", fmt.Sprint(err), "not JSON")
						continue
					}
					v.Root = rm
					ir := irJS
					if d.kind == "jsonschema" {
						v.DefPath = []string{"definitions"}
						v.Defs, _ = asMap(rm["definitions"])
						bump("jsonschema: documents")
						if _, err := compileJS(d.text, ""); err != nil {
							v.report("rejected by santhosh-tekuri/jsonschema", err.Error(), "does not compile: "+err.Error())
						} else {
							v.jsOK = true
							bump("jsonschema: accepted by santhosh-tekuri")
						}
					} else {
						ir = irOA
						v.DefPath = []string{"components", "schemas"}
						if comps, ok := asMap(rm["components"]); ok {
							v.Defs, _ = asMap(comps["schemas"])
						}
						bump("openapi: documents")
						doc, err := loadOpenAPI(d.text)
						if err != nil {
							v.report("rejected by the kin-openapi loader", err.Error(), "does not load: "+err.Error())
						} else {
							v.oapi = doc
							if err := validateOpenAPI(doc); err != nil {
								v.report("rejected by kin-openapi Validate", err.Error(), "loads but is not a valid OpenAPI 3.0 document: "+err.Error())
							} else {
								bump("openapi: accepted by kin-openapi")
							}
						}
					}
					if v.Defs == nil {
						v.Defs = map[string]any{}
					}
					v.checkRefs()
					v.All = ir
					if s, ok := ir.Locate(d.pkg); ok && ir != nil {
						v.checkSchema(s)
						if ps, ok := irPre.Locate(d.pkg); ok {
							v.Pre = irPre
							v.checkUnions(ps)
						}
					} else if ir != nil {
						vx.Fatalf("package %s of unit %s is not in the reloaded IR", d.pkg, c.Unit.ID)
					}
				}
			}
		}()
	}
	for _, c := range cases {
		if c.Result.Status == "ok" {
			ch <- c
		}
	}
	close(ch)
	wg.Wait()

	// ---- clause (1): Python jsonschema check_schema (independent implementation) ---------------
	py := newPyWorker(ws.Dir)
	defer py.close()
	for _, d := range docs {
		if d.kind != "jsonschema" {
			continue
		}
		resp := py.do(map[string]any{"op": "check", "id": d.id(), "path": filepath.Join(ws.Dir, "out", d.kind, d.c.Unit.ID, d.pkg+"."+d.kind+".json")})
		if ok, _ := resp["ok"].(bool); ok {
			bump("jsonschema: accepted by python jsonschema check_schema")
		} else {
			d.view.report("rejected by python jsonschema check_schema", fmt.Sprint(resp["err"]), fmt.Sprint(resp["err"]))
		}
	}

	// ---- clause (1): cog's own parsers read the emitted documents back -------------------------
	var reUnits []genrun.Unit
	reDoc := map[string]*emitted{}
	for _, d := range docs {
		u := genrun.Unit{ID: d.id(), Files: map[string]string{d.pkg + ".json": d.text}, Types: true,
			InputYAML: fmt.Sprintf("- %s: {path: '%%DIR%%/%s.json', package: %s}", d.kind, d.pkg, d.pkg)}
		if d.kind == "jsonschema" {
			u.JSONSchema = true
		} else {
			u.OpenAPI = true
		}
		reUnits = append(reUnits, u)
		reDoc[u.ID] = d
	}
	reResults := ws.Generate(reUnits)
	transitions += len(reUnits)
	for _, u := range reUnits {
		d, res := reDoc[u.ID], reResults[u.ID]
		if res.Status == "ok" {
			bump(d.kind + ": read back by cog's own " + d.kind + " parser")
			continue
		}
		d.view.report("rejected by cog's own "+d.kind+" input parser", res.Status+": "+res.Err+" "+res.PanicSite,
			fmt.Sprintf("a pipeline whose only input is the emitted document ends with %s: %s %s", res.Status, res.Err, res.PanicSite))
	}

	// ---- clause (3): Go encodings validate against the emitted JSON Schema ---------------------
	validated := 0
	type c3 struct {
		c *kase
		t target
	}
	var c3s []c3
	for _, c := range cases {
		if c.Result.Status == "ok" {
			for _, t := range c.Targets {
				c3s = append(c3s, c3{c, t})
			}
		}
	}
	for _, x := range c3s {
		c, tgt := x.c, x.t
		var d *emitted
		for _, e := range byCase[c] {
			if e.kind == "jsonschema" && e.pkg == tgt.Pkg {
				d = e
			}
		}
		switch {
		case d == nil:
			continue
		case c.Variant():
			// the reference validators of gschema describe the unflipped bounds
			bump("clause3 not applied to the bounds variants")
			continue
		case len(c.CompileErrs) > 0:
			bump("clause3 blocked_by=C02 (generated Go does not compile)")
			continue
		case !c.DriverPkgs[tgt.Pkg]:
			bump("clause3 blocked: no Go package for p")
			continue
		case !d.view.jsOK:
			bump("clause3 blocked: emitted JSON Schema does not compile")
			continue
		}
		rootName := tgt.Name
		rootType := c.driverKey(tgt.Pkg) + "." + tgt.Name
		abstract := c.rooted(tgt.Name)
		if _, ok := d.view.Defs[rootName]; !ok {
			bump("clause3 blocked: no definition for the root object")
			continue
		}
		frag := "#/definitions/" + rootName
		sch, err := compileJS(d.text, frag)
		if err != nil {
			bump("clause3 blocked: root definition does not compile")
			continue
		}
		bump("clause3 cases judged")
		judge := func(source, doc, encoding string) {
			validated++
			v, err := decodeJSON(encoding)
			if err != nil {
				fail(c, "jsonschema", "go-encoding is not JSON", err.Error(), fmt.Sprintf("%s of %s encodes to %s", source, doc, encoding), nil)
				return
			}
			verr := sch.Validate(v)
			resp := py.do(map[string]any{"op": "validate", "id": d.id(), "ref": frag, "doc": encoding})
			if _, unknown := resp["unknown"]; unknown {
				bump("clause3 encodings not judged: python rejected the schema")
				return
			}
			pyOK, _ := resp["ok"].(bool)
			if (verr == nil) != pyOK {
				bump("clause3 encodings on which the two validators disagree (excluded)")
				return
			}
			if verr == nil {
				bump("clause3 encodings accepted")
				if source == "round-trip" {
					samples.Add(map[string]any{"format": c.Format, "schema": c.Schema.String(), "document": doc, "go_encoding": encoding, "emitted_definition": short(d.view.Defs[rootName])})
				}
				return
			}
			kw, msg := leafError(verr)
			fail(c, "jsonschema", "go-encoding rejected ("+source+")", kw+": "+msg,
				fmt.Sprintf("%s: the Go encoding %s (of %s) does not validate against the emitted definition %s: %s %s", source, encoding, doc, short(d.view.Defs[rootName]), kw, msg),
				map[string]any{"doc": doc, "encoding": encoding, "emitted": d.text})
		}
		// the default constructor
		if resp, died := driver.Do(map[string]any{"op": "default", "type": rootType}); !died {
			if enc, ok := resp["json"].(string); ok && resp["encode_err"] == nil && resp["ctor_panic"] == nil {
				transitions++
				judge("default constructor", "New"+rootName+"()", enc)
			} else {
				bump("clause3 no default constructor / encoding error")
			}
		}
		vals, _ := abstract.Validators()
		for _, doc := range abstract.Documents() {
			accepted, agree := gschema.Accepted(vals, doc)
			if !agree || !accepted {
				bump("clause3 documents outside C01's set")
				continue
			}
			resp, died := driver.Do(map[string]any{"op": "roundtrip", "type": rootType, "doc": doc})
			transitions++
			if died {
				bump("clause3 blocked: generated code kills the process (C01)")
				continue
			}
			enc, ok := resp["reencoded"].(string)
			if !ok || resp["decode_err"] != nil {
				bump("clause3 documents the Go decoder refuses (C01)")
				continue
			}
			judge("round-trip", doc, enc)
		}
	}

	var cnt []string
	for k, v := range counts {
		cnt = append(cnt, fmt.Sprintf("%s=%d", k, v))
	}
	sort.Strings(cnt)
	var sk []string
	for f, n := range skipped {
		sk = append(sk, fmt.Sprintf("%s=%d", f, n))
	}
	sort.Strings(sk)
	twoPkg, threePkg, hangs := 0, 0, 0
	for _, c := range cases {
		if c.TwoPkg() {
			twoPkg++
		}
		if c.ThreePkg() {
			threePkg++
		}
		if c.Result != nil && c.Result.Status == "hang" {
			hangs++
		}
	}
	py.close()
	driver.Close()
	ws.Close()
	if r.Replay != "" {
		kind, witness, _ := r.ReplayFile()
		hit := false
		for _, f := range r.Frontier() {
			fmt.Println("  ", f.Kind, "@", f.Witness, "\n     ", f.What)
			if f.Kind == kind && f.Witness == witness {
				hit = true
			}
		}
		if hit {
			fmt.Printf("VIOLATION property=C12 replay=%s\n", r.Replay)
			os.Exit(1)
		}
		fmt.Println("replay: the recorded failure does not occur on this tree")
		os.Exit(0)
	}
	r.Finish(map[string]any{
		"states":                        len(cases),
		"transitions":                   transitions,
		"traces_validated_against_impl": transitions,
		"samples":                       samples.L,
		"exhaustive":                    true,
		"abstract_schemas":              len(schemas),
		"schema_format_cases":           len(cases),
		"two_package_cases":             twoPkg,
		"three_package_cases":           threePkg,
		"generation_hangs_counted_as_blocked_C04":       hangs,
		"emitted_documents":                             len(docs),
		"go_encodings_validated_against_emitted_schema": validated,
		"counts":          cnt,
		"formats_skipped": sk,
		"explanation":     "grammar G of the tier + intersections + constant references in every input language that can express them, plus two-package inputs with cross-package references; one real pipeline run per case emits Go + JSON Schema + OpenAPI; every emitted document is loaded by santhosh-tekuri / python jsonschema / kin-openapi and by cog's own parsers (second pipeline run), walked for $ref resolution and compared with the IR the jennies were given; every Go re-encoding of C01's documents and of NewRoot() is validated against the emitted root definition",
	}, []string{
		"clause 3 reports an encoding only when santhosh-tekuri and python jsonschema both reject it; C01's document set (accepted by all reference validators of the input) restricted to what the Go decoder accepts",
		"generation failures and non-compiling Go are counted as blocked (C01/C02/C04), not failed; OpenAPI nullable/constraint clauses are judged by kin-openapi / the 3.0 dialect, JSON Schema ones by draft-07",
		"the JSON Schema input language cannot express cross-package references (two-package cases exist for OpenAPI and CUE inputs only)",
		"a union/intersection whose branches are emitted with another arity, and arrays/maps emitted without items/additionalProperties, are not descended into",
	})
}
