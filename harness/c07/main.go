//go:build verif

// C07: outputs are independent of sibling languages and of input order;
// unrelated inputs change nothing; same-package inputs merge to the union or
// fail; transformation chains never modify the schemas they are handed.
// DESIGN.md §6 C07.
package main

import (
	"context"
	"crypto/sha256"
	"encoding/json"
	"flag"
	"fmt"
	"os"
	"path/filepath"
	"sort"
	"strings"
	"time"

	"github.com/grafana/cog/internal/ast"
	"github.com/grafana/cog/internal/ast/compiler"
	"github.com/grafana/cog/internal/codegen"
	"github.com/grafana/cog/internal/languages"
	"github.com/grafana/cog/verifx/irgen"
	"github.com/grafana/cog/verifx/refl"
	verifsched "github.com/grafana/cog/verifx/sched"
	"github.com/grafana/cog/verifx/vx"
)

const runSite = "github.com/grafana/cog/internal/codegen.*Pipeline.Run#1"

var langSnippets = map[string]string{
	"go":         "go: {package_root: gen, generate_json_marshaller: true, generate_strict_unmarshaller: true, generate_equal: true, generate_validate: true}",
	"python":     "python: {generate_json_marshaller: true}",
	"java":       "java: {package_path: com.example}",
	"typescript": "typescript: {}",
	"php":        "php: {namespace_root: Ex}",
	"jsonschema": "jsonschema: {}",
	"openapi":    "openapi: {}",
}

var allLangs = []string{"go", "java", "jsonschema", "openapi", "php", "python", "typescript"}

type input struct {
	Kind, File, Pkg string // Kind: jsonschema | openapi | cue
	Extra           string
}

type config struct {
	GoPlain bool // Go without the optional methods (intersections are refused by some of their templates)
	Inputs  []input
	Langs   []string
	Passes  string // file name under passes/ ("" = none)
	Veneers bool
	// VeneersDir: directory of rule files ("" = veneers)
	VeneersDir string
	Outputs    string // "" = everything
}

func (c config) yaml(dir string) string {
	var b strings.Builder
	b.WriteString("inputs:\n")
	for _, in := range c.Inputs {
		switch in.Kind {
		case "cue":
			fmt.Fprintf(&b, "  - cue: {entrypoint: '%s'%s}\n", in.File, in.Extra)
		default:
			fmt.Fprintf(&b, "  - %s: {path: '%s/in/%s', package: %s%s}\n", in.Kind, dir, in.File, in.Pkg, in.Extra)
		}
	}
	if c.Passes != "" || c.Veneers {
		b.WriteString("transformations:\n")
		if c.Passes != "" {
			fmt.Fprintf(&b, "  schemas: ['%s/passes/%s']\n", dir, c.Passes)
		}
		if c.Veneers {
			vd := c.VeneersDir
			if vd == "" {
				vd = "veneers"
			}
			fmt.Fprintf(&b, "  builders: ['%s/%s']\n", dir, vd)
		}
	}
	b.WriteString("output:\n  directory: './out/%l'\n  types: true\n  builders: true\n  converters: true\n  api_reference: true\n  languages:\n")
	for _, l := range c.Langs {
		if l == "go" && c.GoPlain {
			b.WriteString("    - go: {package_root: gen}\n")
			continue
		}
		b.WriteString("    - " + langSnippets[l] + "\n")
	}
	return b.String()
}

type outcome struct {
	status string
	err    string
	files  map[string]string // path -> sha
}

var executions int

type runReq struct {
	Dir     string `json:"dir"`
	Cfg     string `json:"cfg"`
	Reverse bool   `json:"reverse"`
	Load    bool   `json:"load"` // only LoadSchemas, return the IR as JSON per object
	// part (e): run language chain Chain on spec number Spec
	Chain    string `json:"chain,omitempty"`
	Spec     int    `json:"spec"`
	Thorough bool   `json:"thorough"`
}

type runResp struct {
	Status  string            `json:"status"`
	Err     string            `json:"err"`
	Files   map[string]string `json:"files"`
	Objects map[string]string `json:"objects,omitempty"`
}

// A pipeline run takes well under a second; 30 s without an answer is a hang.
var pipeWorker = &vx.Worker{Args: []string{"--worker"}, Timeout: 30 * time.Second}
var hangs int

func run(dir string, c config, reverseLangOrder bool) outcome {
	if hangs >= 2 {
		// two runs already hung: do not spend the budget on more of the same
		return outcome{status: "skipped-after-hangs", files: map[string]string{}}
	}
	executions++
	cfgPath := filepath.Join(dir, fmt.Sprintf("pipeline-%d.yaml", executions))
	if err := os.WriteFile(cfgPath, []byte(c.yaml(dir)), 0o644); err != nil {
		vx.Fatalf("%v", err)
	}
	defer os.Remove(cfgPath)
	b, _ := json.Marshal(runReq{Dir: dir, Cfg: cfgPath, Reverse: reverseLangOrder})
	resp, died := pipeWorker.Do(b)
	if died {
		if pipeWorker.Hung {
			hangs++
			return outcome{status: "hang", err: "no answer within 30 s (a run normally takes < 1 s)", files: map[string]string{}}
		}
		return outcome{status: "fatal", err: "the process died (fatal error such as stack overflow)", files: map[string]string{}}
	}
	var rr runResp
	json.Unmarshal(resp, &rr)
	if rr.Files == nil {
		rr.Files = map[string]string{}
	}
	return outcome{status: rr.Status, err: rr.Err, files: rr.Files}
}

var (
	chainsCache map[string]compiler.Passes
	specsCache  []irgen.SchemaSpec
)

func partESpecs(thorough bool) []irgen.SchemaSpec {
	var specs []irgen.SchemaSpec
	specs = append(specs, irgen.SeedSchemas()...)
	depth := 2
	if thorough {
		depth = 3
	}
	for _, t := range irgen.Types(irgen.Config{Depth: depth, Decorate: thorough}) {
		specs = append(specs, irgen.WithField(t, false))
	}
	// allOf compositions with inline structs (optional fields, inline enums, nested structs):
	// the shapes whose copies the chains rewrite in place
	inline := []irgen.Term{
		irgen.Struct1("a", false, irgen.S("string")),
		irgen.Struct1("a", false, irgen.Enum("str")),
		irgen.Struct1("a", true, irgen.Struct1("b", false, irgen.S("int64"))),
		irgen.Struct1("a", false, irgen.Disj(irgen.S("string"), irgen.Null())),
	}
	for _, in := range inline {
		inter := irgen.Inter(irgen.Ref(irgen.Pkg+".S"), in)
		specs = append(specs, irgen.WithRoot(inter), irgen.WithField(inter, true), irgen.WithField(inter, false), irgen.WithField(irgen.Array(inter), false))
	}
	return specs
}

func serveChain(q runReq) []byte {
	if chainsCache == nil {
		chainsCache = languageChains()
		specsCache = partESpecs(q.Thorough)
	}
	sp := specsCache[q.Spec]
	schemas := sp.Build()
	before := refl.Canon(schemas)
	out := runResp{Status: "ok"}
	p := vx.Catch(func() { _, _ = chainsCache[q.Chain].Process(schemas) })
	if p != nil {
		out.Status = "panic"
	} else if after := refl.Canon(schemas); after != before {
		d := refl.Diff(sp.Build(), schemas, 3)
		out.Status = "modified"
		out.Err = strings.Join(d, "; ")
		if len(d) > 0 {
			out.Files = map[string]string{"culprit": refl.Culprit(strings.SplitN(d[0], ": ", 2)[0])}
		}
	}
	b, _ := json.Marshal(out)
	return b
}

func serve(req []byte) []byte {
	var q runReq
	json.Unmarshal(req, &q)
	if q.Chain != "" {
		return serveChain(q)
	}
	os.Chdir(q.Dir)
	var pol map[string]int
	if q.Reverse {
		pol = map[string]int{runSite: verifsched.PolicyReverse}
	}
	out := runResp{Files: map[string]string{}}
	verifsched.Begin(nil, pol)
	p := vx.Catch(func() {
		pl, err := codegen.PipelineFromFile(q.Cfg, codegen.Parameters(nil))
		if err != nil {
			out.Status, out.Err = "config-error", err.Error()
			return
		}
		if q.Load {
			s, err := pl.LoadSchemas(context.Background())
			if err != nil {
				out.Status, out.Err = "error", err.Error()
				return
			}
			out.Status = "ok"
			out.Objects = map[string]string{}
			for _, sch := range s {
				sch.Objects.Iterate(func(name string, o ast.Object) {
					o.PassesTrail = nil
					b, _ := json.Marshal(o)
					out.Objects[sch.Package+"."+name] = string(b)
				})
			}
			return
		}
		fs, err := pl.Run(context.Background())
		if err != nil {
			out.Status, out.Err = "error", err.Error()
			return
		}
		out.Status = "ok"
		for _, f := range fs.AsFiles() {
			h := sha256.Sum256(f.Data)
			out.Files[f.RelativePath] = fmt.Sprintf("%x", h[:8])
		}
	})
	verifsched.End()
	if p != nil {
		out.Status, out.Err = "panic", fmt.Sprint(p)
	}
	b, _ := json.Marshal(out)
	return b
}

func langOf(path string) string {
	parts := strings.Split(filepath.ToSlash(path), "/")
	if len(parts) >= 2 && parts[0] == "out" {
		return parts[1]
	}
	return ""
}

func filesOfLang(o outcome, lang string) map[string]string {
	m := map[string]string{}
	for p, h := range o.files {
		if langOf(p) == lang {
			m[p] = h
		}
	}
	return m
}

func diffFiles(a, b map[string]string) []string {
	var d []string
	for p, h := range a {
		if g, ok := b[p]; !ok {
			d = append(d, "-"+p)
		} else if g != h {
			d = append(d, "~"+p)
		}
	}
	for p := range b {
		if _, ok := a[p]; !ok {
			d = append(d, "+"+p)
		}
	}
	sort.Strings(d)
	return d
}

func short(d []string) []string {
	if len(d) > 5 {
		return append(append([]string{}, d[:5]...), fmt.Sprintf("… %d more", len(d)-5))
	}
	return d
}

// fileClass abstracts a path to its kind of file for the failure kind.
func fileClass(d []string) string {
	seen := map[string]bool{}
	for _, p := range d {
		base := filepath.Base(p[1:])
		ext := filepath.Ext(base)
		cls := string(p[0]) + "*" + ext
		if strings.Contains(base, "builder") || strings.Contains(base, "Builder") {
			cls = string(p[0]) + "*builder*" + ext
		} else if strings.Contains(base, "converter") || strings.Contains(base, "Converter") {
			cls = string(p[0]) + "*converter*" + ext
		}
		seen[cls] = true
	}
	var out []string
	for c := range seen {
		out = append(out, c)
	}
	sort.Strings(out)
	return strings.Join(out, " ")
}

func main() {
	isWorker := flag.Bool("worker", false, "internal: worker mode")
	r := vx.Start("C07")
	if *isWorker {
		vx.ServeWorker(serve)
		return
	}
	defer pipeWorker.Close()
	r.PerKindSmallest = true
	dir, err := os.MkdirTemp("/var/tmp", "verif.c07.")
	if err != nil {
		vx.Fatalf("%v", err)
	}
	cleanup := func() { os.RemoveAll(dir) }
	defer cleanup()
	writeInputs(dir, r.Repo)
	os.Chdir(dir)
	samples := &vx.Samples{N: 8}
	counts := map[string]int{}
	distinct := map[string]bool{}
	note := func(part string, o outcome) {
		counts[part]++
		keys := make([]string, 0, len(o.files))
		for k, v := range o.files {
			keys = append(keys, k+"="+v)
		}
		sort.Strings(keys)
		h := sha256.Sum256([]byte(o.status + strings.Join(keys, "\n")))
		distinct[fmt.Sprintf("%x", h[:8])] = true
	}

	seeds := seedConfigs(r.Thorough())

	// ---- (a) sibling languages --------------------------------------------------------------
	for _, seed := range seeds {
		alone := map[string]outcome{}
		for _, l := range allLangs {
			c := seed.cfg
			c.Langs = []string{l}
			alone[l] = run(dir, c, false)
			note("a:alone", alone[l])
		}
		check := func(label string, langs []string, rev bool) {
			c := seed.cfg
			c.Langs = langs
			o := run(dir, c, rev)
			note("a:together", o)
			samples.Add(map[string]any{"part": "a", "seed": seed.name, "languages": langs, "reversed_run_order": rev, "status": o.status})
			okAlone := true
			for _, l := range langs {
				if alone[l].status != "ok" {
					okAlone = false
				}
			}
			if o.status == "skipped-after-hangs" {
				return
			}
			if o.status != "ok" {
				if okAlone {
					r.Fail(vx.Failure{Kind: "languages: run fails together but every language succeeds alone", Witness: seed.name + " " + label, Size: len(langs),
						What: fmt.Sprintf("seed %s languages %v: %s (%s) although each language alone succeeds", seed.name, langs, o.status, o.err), Detail: map[string]any{"part": "a", "seed": seed.name, "langs": langs, "rev": rev}})
				}
				return
			}
			for _, l := range langs {
				if alone[l].status != "ok" {
					continue
				}
				if d := diffFiles(filesOfLang(alone[l], l), filesOfLang(o, l)); len(d) > 0 {
					others := []string{}
					for _, x := range langs {
						if x != l {
							others = append(others, x)
						}
					}
					r.Fail(vx.Failure{Kind: fmt.Sprintf("languages: %s output changes when generated with other languages (%s)", l, fileClass(d)), Witness: seed.name + " " + label, Size: len(langs),
						What:   fmt.Sprintf("seed %s: files of %s differ between alone and together with %v (run order reversed=%v): %v", seed.name, l, others, rev, short(d)),
						Detail: map[string]any{"part": "a", "seed": seed.name, "langs": langs, "rev": rev}})
				}
			}
		}
		for _, l1 := range allLangs {
			for _, l2 := range allLangs {
				if l1 == l2 {
					continue
				}
				// ordered pair (l1 runs first): the Run loop iterates the languages map in sorted order unless reversed
				check(fmt.Sprintf("pair %s,%s", l1, l2), []string{l1, l2}, l1 > l2)
			}
		}
		check("all-7 asc", allLangs, false)
		check("all-7 desc", allLangs, true)
	}

	// ---- (b) input order, (c) unrelated input ------------------------------------------------
	type bcVariant struct {
		name, passes string
		bases        [][]int // part (c): input sets to which the remaining package is added
		unrelated    int     // part (c): the package added
		needs        map[int]int
		ins          []input
	}
	abg := []input{{"jsonschema", "a.json", "alpha", ""}, {"jsonschema", "b.json", "beta", ""}, {"jsonschema", "g.json", "gamma", ""}}
	variants := []bcVariant{{name: "plain", bases: [][]int{{0}, {1}, {0, 1}}, unrelated: 2, ins: abg}}
	// package i refers to Part of package j; the third package (which has its own Part) is unrelated
	pkgNames := []string{"alpha", "beta", "gamma"}
	// the referred object is a struct (Part) or an alias of a list / a map (Tags: some languages
	// inline those at the places that refer to them)
	for _, target := range []string{"Part", "Tags"} {
		suffix, tsuffix := "", ""
		if target != "Part" {
			suffix, tsuffix = "-"+target, "."+target
		}
		for i := range pkgNames {
			for j := range pkgNames {
				if i == j {
					continue
				}
				u := 3 - i - j
				variants = append(variants, bcVariant{name: "xref " + pkgNames[i] + "->" + pkgNames[j] + tsuffix, passes: "xref-" + pkgNames[i] + "-" + pkgNames[j] + suffix + ".yaml",
					bases: [][]int{{j, i}, {i, j}}, unrelated: u, needs: map[int]int{i: j}, ins: abg})
			}
		}
		// the referring package has no object of that name (so nothing forces another name on the
		// copy it gets) and sorts before / after the two others; the unrelated package has one
		for _, rname := range []string{"aardvark", "zeta"} {
			for _, su := range [][2]int{{0, 2}, {2, 0}} {
				sIn, uIn := abg[su[0]], abg[su[1]]
				variants = append(variants, bcVariant{name: "xref " + rname + "->" + sIn.Pkg + tsuffix + " (unrelated " + uIn.Pkg + ")", passes: "xref-" + rname + "-" + sIn.Pkg + suffix + ".yaml",
					bases: [][]int{{0, 2}, {2, 0}}, unrelated: 1, needs: map[int]int{2: 0},
					ins: []input{sIn, uIn, {"jsonschema", "z.json", rname, ""}}})
			}
		}
	}
	for _, variant := range variants {
		vtag := ""
		if variant.name != "plain" {
			vtag = " [" + variant.name + "]"
		}
		ins := variant.ins
		pkgNames := []string{ins[0].Pkg, ins[1].Pkg, ins[2].Pkg}
		perms := [][]int{{0, 1, 2}, {0, 2, 1}, {1, 0, 2}, {1, 2, 0}, {2, 0, 1}, {2, 1, 0}}
		var first outcome
		for i, pm := range perms {
			c := config{Langs: allLangs, Passes: variant.passes}
			for _, k := range pm {
				c.Inputs = append(c.Inputs, ins[k])
			}
			o := run(dir, c, false)
			note("b:permutation", o)
			if i == 0 {
				first = o
				if o.status == "skipped-after-hangs" {
					break
				}
				if o.status != "ok" {
					// the three inputs are independent packages (xref: beta needs alpha): if the
					// inputs that can stand alone do, the failure comes from putting them together
					alone := true
					for k := range ins {
						if _, dependent := variant.needs[k]; dependent {
							continue
						}
						ca := config{Langs: allLangs, Inputs: []input{ins[k]}}
						if oa := run(dir, ca, false); oa.status != "ok" {
							alone = false
						}
					}
					if !alone {
						vx.Fatalf("part b: base configuration fails: %s", o.err)
					}
					r.Fail(vx.Failure{Kind: "input set: run fails although every input alone succeeds" + vtag, Witness: fmt.Sprint(pm) + vtag, Size: i,
						What: fmt.Sprintf("inputs %v in order %v%s: %s (%s) although each input generates alone", pkgNames, pm, vtag, o.status, o.err), Detail: map[string]any{"part": "b", "perm": pm, "variant": variant.name}})
					break
				}
				continue
			}
			if o.status == "skipped-after-hangs" {
				continue
			}
			if o.status != first.status {
				r.Fail(vx.Failure{Kind: "input order: status changes" + vtag, Witness: fmt.Sprint(pm) + vtag, Size: i, What: fmt.Sprintf("inputs in order %v%s: %s (%s)", pm, vtag, o.status, o.err), Detail: map[string]any{"part": "b", "perm": pm, "variant": variant.name}})
				continue
			}
			if d := diffFiles(first.files, o.files); len(d) > 0 {
				r.Fail(vx.Failure{Kind: "input order: generated files change (" + fileClass(d) + ")" + vtag, Witness: fmt.Sprint(pm) + vtag, Size: i,
					What: fmt.Sprintf("reordering inputs of different packages to %v%s changes files: %v", pm, vtag, short(d)), Detail: map[string]any{"part": "b", "perm": pm, "variant": variant.name}})
			}
			samples.Add(map[string]any{"part": "b", "input_order": pm, "files": len(o.files)})
		}
		// (c) each subset S of {alpha,beta} plus the unrelated gamma: files of the other packages unchanged
		for _, base := range variant.bases {
			c := config{Langs: allLangs, Passes: variant.passes}
			for _, k := range base {
				c.Inputs = append(c.Inputs, ins[k])
			}
			without := run(dir, c, false)
			for _, pos := range []string{"last", "first"} {
				cw := c
				if pos == "last" {
					cw.Inputs = append(append([]input{}, c.Inputs...), ins[2])
				} else {
					cw.Inputs = append([]input{ins[2]}, c.Inputs...)
				}
				with := run(dir, cw, false)
				note("c:unrelated", with)
				if without.status == "skipped-after-hangs" || with.status == "skipped-after-hangs" {
					continue
				}
				if without.status != "ok" || with.status != "ok" {
					if without.status == "ok" {
						r.Fail(vx.Failure{Kind: "unrelated input: run fails" + vtag, Witness: fmt.Sprint(base) + vtag, What: "adding the unrelated package " + pkgNames[variant.unrelated] + " makes the run fail: " + with.err, Detail: map[string]any{"part": "c", "base": base, "variant": variant.name}})
					}
					continue
				}
				var d []string
				for p, h := range without.files {
					lp := strings.ToLower(p)
					owned := false
					for _, k := range base {
						if strings.Contains(lp, ins[k].Pkg) {
							owned = true
						}
					}
					if !owned {
						continue // shared files (runtime, indexes, registries) may legitimately list the new package
					}
					if g, ok := with.files[p]; !ok {
						d = append(d, "-"+p)
					} else if g != h {
						d = append(d, "~"+p)
					}
				}
				sort.Strings(d)
				if len(d) > 0 {
					r.Fail(vx.Failure{Kind: "unrelated input: files of other packages change (" + fileClass(d) + ")" + vtag, Witness: fmt.Sprint(base) + " +" + pkgNames[variant.unrelated] + " " + pos + vtag, Size: len(base),
						What: fmt.Sprintf("adding unrelated package "+pkgNames[variant.unrelated]+" ("+pos+") to %v%s changes files of the other packages: %v", base, vtag, short(d)), Detail: map[string]any{"part": "c", "base": base, "variant": variant.name}})
				}
				samples.Add(map[string]any{"part": "c", "base_packages": base, "unrelated_input_position": pos, "package_files_compared": len(without.files)})
			}
		}
	}

	// ---- (d) same-package inputs merge to the union or fail ------------------------------------
	partD(r, dir, samples, counts, "", map[string]map[int]string{
		"X": {1: `{"type":"object","properties":{"a":{"type":"string"}}}`, 2: `{"type":"object","properties":{"a":{"type":"integer"}}}`},
		"Y": {1: `{"type":"string","enum":["p","q"]}`, 2: `{"type":"string","enum":["p","r"]}`},
	})
	// definitions that differ in the TYPE of their values only (same printed form)
	partD(r, dir, samples, counts, " [same rendering]", map[string]map[int]string{
		"X": {1: `{"type":"integer","enum":[1,2,3]}`, 2: `{"type":"string","enum":["1","2","3"]}`},
		"Y": {1: `{"type":"string","const":"1"}`, 2: `{"type":"integer","const":1}`},
	})

	// ---- (e) transformation chains never modify the schemas they are handed ----------------------
	partE(r, samples, counts)

	total := 0
	var parts []string
	for k, v := range counts {
		total += v
		parts = append(parts, fmt.Sprintf("%s=%d", k, v))
	}
	sort.Strings(parts)
	cleanup()
	r.Finish(map[string]any{
		"states":                        len(distinct) + counts["d:pair"] + counts["e:chain"],
		"transitions":                   executions + counts["e:chain"],
		"traces_validated_against_impl": executions + counts["e:chain"],
		"samples":                       samples.L,
		"exhaustive":                    hangs < 2,
		"runs_that_hung":                hangs,
		"pipeline_runs":                 executions,
		"per_part":                      parts,
		"distinct_run_outcomes":         len(distinct),
		"explanation":                   "(a) per seed: each of 7 languages alone, all 42 ordered pairs (run order forced through the scheduler), all seven in both orders - each language's files must equal its alone run; (b) all 6 orders of 3 inputs; (c) every base set plus one unrelated package; (d) every pair of same-package inputs over {absent,v1,v2}^2 definitions x entry points; (e) every language chain and pass list on every seed IR with a before/after snapshot of the argument",
	}, []string{
		"in (c) only files whose path names one of the pre-existing packages are compared; shared runtime/index files may legitimately mention the new package",
		"a run that fails for a language alone is not judged for that language",
	})
}

type seedCfg struct {
	name string
	cfg  config
}

func seedConfigs(thorough bool) []seedCfg {
	s := []seedCfg{
		{"two-packages", config{Inputs: []input{{"jsonschema", "a.json", "alpha", ""}, {"jsonschema", "b.json", "beta", ""}}}},
		{"passes+veneers", config{Inputs: []input{{"jsonschema", "a.json", "alpha", ""}, {"jsonschema", "b.json", "beta", ""}}, Passes: "common.yaml", Veneers: true}},
		{"more-veneers", config{Inputs: []input{{"jsonschema", "a.json", "alpha", ""}, {"jsonschema", "b.json", "beta", ""}}, Veneers: true, VeneersDir: "veneers2"}},
		{"openapi", config{Inputs: []input{{"openapi", "api.json", "api", ""}}}},
		{"allof", config{GoPlain: true, Inputs: []input{{"jsonschema", "i.json", "inter", ""}}}},
	}
	return s
}

// ---------------------------------------------------------------------------------------------

func loadOnly(dir string, ins []input) (map[string]string, string, string) {
	executions++
	c := config{Inputs: ins, Langs: []string{"go"}}
	cfgPath := filepath.Join(dir, fmt.Sprintf("pipeline-%d.yaml", executions))
	os.WriteFile(cfgPath, []byte(c.yaml(dir)), 0o644)
	defer os.Remove(cfgPath)
	b, _ := json.Marshal(runReq{Dir: dir, Cfg: cfgPath, Load: true})
	resp, died := pipeWorker.Do(b)
	if died {
		return nil, "panic", "the process died (fatal error)"
	}
	var rr runResp
	json.Unmarshal(resp, &rr)
	return rr.Objects, rr.Status, rr.Err
}

// partD: two inputs contributing to package "m": object X and Y each absent / v1 / v2 in each input.
func partD(r *vx.Run, dir string, samples *vx.Samples, counts map[string]int, tag string, defs map[string]map[int]string) {
	mk := func(x, y int, root string) string {
		var parts, props []string
		if x > 0 {
			parts = append(parts, `"X":`+defs["X"][x])
			props = append(props, `"x":{"$ref":"#/definitions/X"}`)
		}
		if y > 0 {
			parts = append(parts, `"Y":`+defs["Y"][y])
			props = append(props, `"y":{"$ref":"#/definitions/Y"}`)
		}
		props = append(props, `"z":{"type":"boolean"}`)
		parts = append(parts, `"`+root+`":{"type":"object","properties":{`+strings.Join(props, ",")+`}}`)
		return `{"$schema":"http://json-schema.org/draft-07/schema#","$ref":"#/definitions/` + root + `","definitions":{` + strings.Join(parts, ",") + `}}`
	}
	objJSON := func(s map[string]string, pkg, name string) string { return s[pkg+"."+name] }
	single := map[string]map[string]string{}
	parse1 := func(x, y int, root string) map[string]string {
		key := fmt.Sprintf("%d%d%s", x, y, root)
		if s, ok := single[key]; ok {
			return s
		}
		os.WriteFile(filepath.Join(dir, "in", "m_single.json"), []byte(mk(x, y, root)), 0o644)
		s, st, msg := loadOnly(dir, []input{{"jsonschema", "m_single.json", "m", ""}})
		if st != "ok" {
			vx.Fatalf("part d: single input %s does not load: %s", key, msg)
		}
		single[key] = s
		return s
	}
	for x1 := 0; x1 <= 2; x1++ {
		for y1 := 0; y1 <= 2; y1++ {
			for x2 := 0; x2 <= 2; x2++ {
				for y2 := 0; y2 <= 2; y2++ {
					for _, roots := range [][2]string{{"Z1", "Z2"}, {"Z", "Z"}} {
						counts["d:pair"]++
						os.WriteFile(filepath.Join(dir, "in", "m1.json"), []byte(mk(x1, y1, roots[0])), 0o644)
						os.WriteFile(filepath.Join(dir, "in", "m2.json"), []byte(mk(x2, y2, roots[1])), 0o644)
						merged, st, msg := loadOnly(dir, []input{{"jsonschema", "m1.json", "m", ""}, {"jsonschema", "m2.json", "m", ""}})
						id := fmt.Sprintf("X%d%d Y%d%d roots=%s/%s%s", x1, x2, y1, y2, roots[0], roots[1], tag)
						size := x1 + x2 + y1 + y2 + len(roots[0]) + len(roots[1])
						detail := map[string]any{"part": "d", "case": id}
						if st == "panic" {
							r.Fail(vx.Failure{Kind: "merge: panic", Witness: id, Size: size, What: id + ": " + msg, Detail: detail})
							continue
						}
						s1, s2 := parse1(x1, y1, roots[0]), parse1(x2, y2, roots[1])
						names := []string{"X", "Y", "Z", "Z1", "Z2"}
						conflict := ""
						for _, name := range names {
							if w1, w2 := objJSON(s1, "m", name), objJSON(s2, "m", name); w1 != "" && w2 != "" && w1 != w2 {
								conflict = name
							}
						}
						if conflict != "" {
							if st == "ok" {
								r.Fail(vx.Failure{Kind: "merge: unequal redefinition accepted silently", Witness: id, Size: size,
									What: id + ": the two inputs define object " + conflict + " of package m differently and the run succeeds (one definition is silently dropped)", Detail: detail})
							}
							continue
						}
						if st != "ok" {
							r.Fail(vx.Failure{Kind: "merge: compatible inputs rejected", Witness: id, Size: size, What: id + ": same-package inputs without any conflicting definition fail: " + msg, Detail: detail})
							continue
						}
						for _, name := range names {
							w1, w2 := objJSON(s1, "m", name), objJSON(s2, "m", name)
							want := w1
							if want == "" {
								want = w2
							}
							got := objJSON(merged, "m", name)
							if got != want {
								cls := "dropped"
								if got != "" {
									cls = "altered"
								}
								r.Fail(vx.Failure{Kind: "merge: definition " + cls, Witness: id + " object " + name, Size: size,
									What: fmt.Sprintf("%s: object %s of the merged package is %q, expected %q", id, name, got, want), Detail: detail})
							}
						}
						if len(samples.L) < 7 {
							samples.Add(map[string]any{"part": "d", "case": id, "status": st})
						}
					}
				}
			}
		}
	}
}

// partE: Passes.Process / language chains never modify their argument.
func partE(r *vx.Run, samples *vx.Samples, counts map[string]int) {
	specs := partESpecs(r.Thorough())
	names := append([]string{}, allLangs...)
	for i, sp := range specs {
		for _, n := range names {
			counts["e:chain"]++
			b, _ := json.Marshal(runReq{Chain: n, Spec: i, Thorough: r.Thorough()})
			resp, died := pipeWorker.Do(b)
			if died {
				continue // crashes belong to C04
			}
			var rr runResp
			json.Unmarshal(resp, &rr)
			if rr.Status == "modified" {
				r.Fail(vx.Failure{Kind: fmt.Sprintf("frame: %s chain modifies the schemas it was handed (%s)", n, rr.Files["culprit"]), Witness: sp.Name, Size: sp.Size(),
					What: fmt.Sprintf("%s chain on %s: argument differs afterwards: %s", n, sp.Name, rr.Err), Detail: map[string]any{"part": "e", "lang": n, "spec": sp.Name}})
			}
		}
	}
	samples.Add(map[string]any{"part": "e", "chains": names, "input_irs": len(specs)})
}

func languageChains() map[string]compiler.Passes {
	out := map[string]compiler.Passes{}
	dir, _ := os.MkdirTemp("/var/tmp", "verif.c07e.")
	defer os.RemoveAll(dir)
	var b strings.Builder
	b.WriteString("inputs: []\noutput:\n  directory: './out/%l'\n  types: true\n  languages:\n")
	for _, l := range allLangs {
		b.WriteString("    - " + langSnippets[l] + "\n")
	}
	p := filepath.Join(dir, "p.yaml")
	os.WriteFile(p, []byte(b.String()), 0o644)
	pl, err := codegen.PipelineFromFile(p, codegen.Parameters(nil))
	if err != nil {
		vx.Fatalf("part e: %v", err)
	}
	ls, err := pl.OutputLanguages()
	if err != nil {
		vx.Fatalf("part e: %v", err)
	}
	var ll languages.Languages = ls
	for name, l := range ll {
		out[name] = l.CompilerPasses()
	}
	return out
}
