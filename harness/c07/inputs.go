//go:build verif

package main

import (
	"os"
	"path/filepath"

	"github.com/grafana/cog/verifx/vx"
)

const schemaA = `{"$schema":"http://json-schema.org/draft-07/schema#","$ref":"#/definitions/A","definitions":{
 "A":{"type":"object","required":["pet"],"properties":{"pet":{"oneOf":[{"$ref":"#/definitions/Cat"},{"$ref":"#/definitions/Dog"}]},"k1":{"type":"string","const":"x"},"n1":{"type":"integer","const":1},"tags":{"type":"object","additionalProperties":{"type":"string"}},"level":{"type":"string","enum":["low","high"],"default":"low"},"flag":{"type":"boolean"},"part":{"$ref":"#/definitions/Part"}}},
 "Part":{"type":"object","properties":{"p":{"type":"string"}}},
 "Cat":{"type":"object","required":["type"],"properties":{"type":{"type":"string","const":"cat"},"lives":{"type":"integer","minimum":0,"maximum":9}}},
 "Dog":{"type":"object","required":["type"],"properties":{"type":{"type":"string","const":"dog"},"name":{"type":"string","minLength":1}}},
 "C1":{"type":"string","const":"one"}
}}`

const schemaB = `{"$schema":"http://json-schema.org/draft-07/schema#","$ref":"#/definitions/B","definitions":{
 "B":{"type":"object","properties":{"x":{"type":"string"},"items":{"type":"array","items":{"oneOf":[{"type":"string"},{"type":"boolean"}]}},"nested":{"type":"object","properties":{"deep":{"type":"string","enum":["u","v"]}}}}},
 "D1":{"type":"integer","const":1}
}}`

// gamma is referenced by nothing and references nothing else
const schemaG = `{"$schema":"http://json-schema.org/draft-07/schema#","$ref":"#/definitions/G","definitions":{
 "G":{"type":"object","properties":{"g":{"type":"string"},"either":{"oneOf":[{"type":"string"},{"type":"boolean"}]}}},
 "Part":{"type":"object","properties":{"q":{"type":"integer"}}},
 "GAlias":{"$ref":"#/definitions/Part"}
}}`

// an allOf composition with an inline object carrying an optional field and an inline enum
const schemaI = `{"$schema":"http://json-schema.org/draft-07/schema#","$ref":"#/definitions/Ext","definitions":{
 "Base":{"type":"object","properties":{"id":{"type":"string"}}},
 "Ext":{"allOf":[{"$ref":"#/definitions/Base"},{"type":"object","properties":{"kind":{"type":"string","enum":["small","large"]},"note":{"type":"string"}}}]},
 "Holder":{"type":"object","properties":{"e":{"$ref":"#/definitions/Ext"}}}
}}`

const openapiDoc = `{"openapi":"3.0.0","info":{"title":"t","version":"1"},"paths":{},"components":{"schemas":{
 "Root":{"type":"object","required":["pet"],"properties":{"pet":{"oneOf":[{"$ref":"#/components/schemas/Cat"},{"$ref":"#/components/schemas/Dog"}],"discriminator":{"propertyName":"type"}},"n":{"type":"integer","format":"int32","minimum":1},"labels":{"type":"object","additionalProperties":{"type":"string"}}}},
 "Cat":{"type":"object","required":["type"],"properties":{"type":{"type":"string","enum":["cat"]},"lives":{"type":"integer"}}},
 "Dog":{"type":"object","required":["type"],"properties":{"type":{"type":"string","enum":["dog"]},"name":{"type":"string"}}},
 "Level":{"type":"string","enum":["low","high"]}
}}}`

const passes = `passes:
  - retype_field:
      field: alpha.Cat.lives
      as: {kind: scalar, nullable: true, scalar: {scalar_kind: int32}}
  - retype_object:
      object: alpha.C1
      as: {kind: scalar, scalar: {scalar_kind: string, value: uno}}
  - add_object:
      object: alpha.Added
      as:
        kind: struct
        struct:
          fields:
            - {name: when, required: true, type: {kind: scalar, scalar: {scalar_kind: string}}}
            - {name: cat, type: {kind: ref, nullable: true, ref: {referred_pkg: alpha, referred_type: Cat}}}
  - add_fields:
      to: alpha.Dog
      fields:
        - {name: toy, type: {kind: array, nullable: true, array: {value_type: {kind: scalar, scalar: {scalar_kind: string}}}}}
  - fields_set_default:
      defaults:
        alpha.Dog.name: rex
  - rename_object:
      from: beta.B
      to: Bee
`

const veneers = `language: all
package: alpha
builders:
  - duplicate:
      by_name: Dog
      as: Puppy
options:
  - rename:
      by_name: Dog.name
      as: called
  - unfold_boolean:
      by_name: A.flag
      true_as: on
      false_as: off
`

func writeInputs(dir, repo string) {
	files := map[string]string{
		"in/a.json": schemaA, "in/b.json": schemaB, "in/g.json": schemaG, "in/api.json": openapiDoc, "in/i.json": schemaI,
		"passes/common.yaml": passes, "veneers/alpha.yaml": veneers,
	}
	for rel, content := range files {
		p := filepath.Join(dir, rel)
		if err := os.MkdirAll(filepath.Dir(p), 0o755); err != nil {
			vx.Fatalf("%v", err)
		}
		if err := os.WriteFile(p, []byte(content), 0o644); err != nil {
			vx.Fatalf("%v", err)
		}
	}
}
