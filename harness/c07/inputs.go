//go:build verif

package main

import (
	"os"
	"path/filepath"

	"github.com/grafana/cog/verifx/vx"
)

const schemaA = `{"$schema":"http://json-schema.org/draft-07/schema#","$ref":"#/definitions/A","definitions":{
 "A":{"type":"object","required":["pet"],"properties":{"pet":{"oneOf":[{"$ref":"#/definitions/Cat"},{"$ref":"#/definitions/Dog"}]},"k1":{"type":"string","const":"x"},"n1":{"type":"integer","const":1},"tags":{"type":"object","additionalProperties":{"type":"string"}},"level":{"type":"string","enum":["low","high"],"default":"low"},"flag":{"type":"boolean"},"part":{"$ref":"#/definitions/Part"},"tg":{"$ref":"#/definitions/Tags"}}},
 "Tags":{"type":"array","items":{"type":"string"}},
 "Part":{"type":"object","properties":{"p":{"type":"string"}}},
 "Cat":{"type":"object","required":["type"],"properties":{"type":{"type":"string","const":"cat"},"lives":{"type":"integer","minimum":0,"maximum":9}}},
 "Dog":{"type":"object","required":["type"],"properties":{"type":{"type":"string","const":"dog"},"name":{"type":"string","minLength":1}}},
 "C1":{"type":"string","const":"one"}
}}`

const schemaB = `{"$schema":"http://json-schema.org/draft-07/schema#","$ref":"#/definitions/B","definitions":{
 "B":{"type":"object","properties":{"x":{"type":"string"},"items":{"type":"array","items":{"oneOf":[{"type":"string"},{"type":"boolean"}]}},"nested":{"type":"object","properties":{"deep":{"type":"string","enum":["u","v"]}}},"bp":{"$ref":"#/definitions/Part"},"btg":{"$ref":"#/definitions/Tags"}}},
 "Tags":{"type":"array","items":{"type":"integer"}},
 "Part":{"type":"object","properties":{"r":{"type":"boolean"}}},
 "D1":{"type":"integer","const":1}
}}`

// gamma is referenced by nothing and references nothing else
const schemaG = `{"$schema":"http://json-schema.org/draft-07/schema#","$ref":"#/definitions/G","definitions":{
 "G":{"type":"object","properties":{"g":{"type":"string"},"either":{"oneOf":[{"type":"string"},{"type":"boolean"}]},"gp":{"$ref":"#/definitions/Part"},"ga":{"$ref":"#/definitions/GAlias"},"gtg":{"$ref":"#/definitions/Tags"}}},
 "Tags":{"type":"object","additionalProperties":{"type":"string"}},
 "Part":{"type":"object","properties":{"q":{"type":"integer"}}},
 "GAlias":{"$ref":"#/definitions/Part"}
}}`

// an allOf composition with an inline object carrying an optional field and an inline enum
const schemaI = `{"$schema":"http://json-schema.org/draft-07/schema#","$ref":"#/definitions/Ext","definitions":{
 "Base":{"type":"object","properties":{"id":{"type":"string"}}},
 "Ext":{"allOf":[{"$ref":"#/definitions/Base"},{"type":"object","properties":{"kind":{"type":"string","enum":["small","large"]},"note":{"type":"string"}}}]},
 "Holder":{"type":"object","properties":{"e":{"$ref":"#/definitions/Ext"}}}
}}`

const openapiDoc = `{"openapi":"3.0.0","info":{"title":"t","version":"1"},"paths":{},"components":{"schemas":{
 "Root":{"type":"object","required":["pet"],"properties":{"pet":{"oneOf":[{"$ref":"#/components/schemas/Cat"},{"$ref":"#/components/schemas/Dog"}],"discriminator":{"propertyName":"type"}},"n":{"type":"integer","format":"int32","minimum":1},"labels":{"type":"object","additionalProperties":{"type":"string"}}}},
 "Cat":{"type":"object","required":["type"],"properties":{"type":{"type":"string","enum":["cat"]},"lives":{"type":"integer"}}},
 "Dog":{"type":"object","required":["type"],"properties":{"type":{"type":"string","enum":["dog"]},"name":{"type":"string"}}},
 "Level":{"type":"string","enum":["low","high"]}
}}}`

const passes = `passes:
  - retype_field:
      field: alpha.Cat.lives
      as: {kind: scalar, nullable: true, scalar: {scalar_kind: int32}}
  - retype_object:
      object: alpha.C1
      as: {kind: scalar, scalar: {scalar_kind: string, value: uno}}
  - add_object:
      object: alpha.Added
      as:
        kind: struct
        struct:
          fields:
            - {name: when, required: true, type: {kind: scalar, scalar: {scalar_kind: string}}}
            - {name: cat, type: {kind: ref, nullable: true, ref: {referred_pkg: alpha, referred_type: Cat}}}
  - add_fields:
      to: alpha.Dog
      fields:
        - {name: toy, type: {kind: array, nullable: true, array: {value_type: {kind: scalar, scalar: {scalar_kind: string}}}}}
  - fields_set_default:
      defaults:
        alpha.Dog.name: rex
  - rename_object:
      from: beta.B
      to: Bee
`

const veneers = `language: all
package: alpha
builders:
  - duplicate:
      by_name: Dog
      as: Puppy
options:
  - rename:
      by_name: Dog.name
      as: called
  - unfold_boolean:
      by_name: A.flag
      true_as: on
      false_as: off
`

// a second set of rule files: every kind of rule that resolves paths or types against the
// schemas of the language being generated (options assigning optional fields, merged
// builders, promoted options, envelopes, constants)
const veneers2Alpha = `language: all
package: alpha
builders:
  - add_option:
      by_object: Part
      option:
        name: label
        arguments: [{name: label, type: {kind: scalar, scalar: {scalar_kind: string}}}]
        assignments: [{path: p, method: direct, value: {argument: {name: label, type: {kind: scalar, scalar: {scalar_kind: string}}}}}]
  - initialize:
      by_object: Cat
      set: [{property: lives, value: 3}]
  - properties:
      by_object: Cat
      set: [{name: extra, type: {kind: scalar, scalar: {scalar_kind: string}}}]
  - merge_into:
      destination: A
      source: Part
      under_path: part
      rename_options: {p: partP}
  - promote_options_to_constructor:
      by_object: Dog
      options: [name]
options:
  - map_to_index: {by_name: A.tags}
  - add_assignment:
      by_name: Cat.lives
      assignment: {path: type, method: direct, value: {constant: cat}}
  - add_comments:
      by_name: A.level
      comments: [hello]
`

const veneers2Beta = `language: all
package: beta
builders:
  - add_option:
      by_object: B
      option:
        name: deepest
        arguments: [{name: d, type: {kind: scalar, scalar: {scalar_kind: string}}}]
        assignments: [{path: x, method: direct, value: {argument: {name: d, type: {kind: scalar, scalar: {scalar_kind: string}}}}}]
options:
  - array_to_append: {by_name: B.items}
  - struct_fields_as_options: {by_name: B.nested}
`

// xrefField is, per package, the field that the "xref" variants turn into a reference to
// the object Part of ANOTHER package (every package has an object of that name).
var xrefField = map[string]string{"alpha": "alpha.A.flag", "beta": "beta.B.x", "gamma": "gamma.G.g", "aardvark": "aardvark.Z.zf", "zeta": "zeta.Z.zf"}

// a package WITHOUT an object called Part (loaded as package aardvark or zeta: first and
// last in alphabetical order), used as the referring side only
const schemaZ = `{"$schema":"http://json-schema.org/draft-07/schema#","$ref":"#/definitions/Z","definitions":{
 "Z":{"type":"object","properties":{"zf":{"type":"string"},"n":{"type":"integer"}}}
}}`

func passesXref(referrer, referenced, target string) string {
	return "passes:\n  - retype_field:\n      field: " + xrefField[referrer] + "\n      as: {kind: ref, ref: {referred_pkg: " + referenced + ", referred_type: " + target + "}}\n"
}

func writeInputs(dir, repo string) {
	files := map[string]string{
		"in/a.json": schemaA, "in/b.json": schemaB, "in/g.json": schemaG, "in/api.json": openapiDoc, "in/i.json": schemaI,
		"passes/common.yaml": passes, "veneers/alpha.yaml": veneers,
		"in/z.json": schemaZ, "veneers2/alpha.yaml": veneers2Alpha, "veneers2/beta.yaml": veneers2Beta,
	}
	for _, a := range []string{"alpha", "beta", "gamma", "aardvark", "zeta"} {
		for _, b := range []string{"alpha", "beta", "gamma"} {
			if a != b {
				files["passes/xref-"+a+"-"+b+".yaml"] = passesXref(a, b, "Part")
				files["passes/xref-"+a+"-"+b+"-Tags.yaml"] = passesXref(a, b, "Tags")
			}
		}
	}
	for rel, content := range files {
		p := filepath.Join(dir, rel)
		if err := os.MkdirAll(filepath.Dir(p), 0o755); err != nil {
			vx.Fatalf("%v", err)
		}
		if err := os.WriteFile(p, []byte(content), 0o644); err != nil {
			vx.Fatalf("%v", err)
		}
	}
}
