//go:build verif

// Package genrun is the "genrun" pipeline of DESIGN.md §2.4: it runs the real
// codegen.Pipeline for batches of units (one schema + one output
// configuration each) in crash-isolated worker processes, writes the
// generated trees to a scratch workspace, compiles the generated Go packages,
// and links the ones that compile into one reflective driver binary that
// answers JSONL requests.
package genrun

import (
	"context"
	"encoding/json"
	"flag"
	"fmt"
	"os"
	"path/filepath"
	"runtime"
	"sort"
	"strings"
	"sync"
	"time"

	"github.com/grafana/cog/internal/codegen"
	"github.com/grafana/cog/verifx/vx"
)

// GoOpts are the per-language flags of the Go output.
type GoOpts struct {
	JSONMarshaller, StrictUnmarshaller, Equal, Validate, AnyAsInterface, SkipRuntime bool
}

// Unit is one pipeline run.
type Unit struct {
	ID string `json:"id"` // directory-safe, unique in the workspace
	// Files of the input (relative to the unit's input dir) and the inputs stanza (with %DIR%).
	Files     map[string]string `json:"files"`
	InputYAML string            `json:"input_yaml"`
	// PassesYAML, when set, is written to passes.yaml and applied as common transformations.
	PassesYAML string `json:"passes_yaml,omitempty"`
	// VeneersYAML: file name -> content, applied as builder transformations.
	VeneersYAML map[string]string `json:"veneers_yaml,omitempty"`
	// ExtraPkgs names the packages, besides gschema.Pkg, that the unit's inputs define (a unit whose
	// InputYAML lists several inputs): PrepareGo links them into the driver too, under the registry
	// prefix "<unit id>/<package>".
	ExtraPkgs []string `json:"extra_pkgs,omitempty"`

	Types, Builders, Converters, APIRef bool
	Go                                  *GoOpts `json:"go,omitempty"`
	Python                              bool    `json:"python,omitempty"`
	PythonJSON                          bool    `json:"python_json,omitempty"`
	PythonSkipRuntime                   bool    `json:"python_skip_runtime,omitempty"`
	Java                                bool    `json:"java,omitempty"`
	JavaJSON                            bool    `json:"java_json,omitempty"`
	JavaSkipRuntime                     bool    `json:"java_skip_runtime,omitempty"`
	Typescript                          bool    `json:"typescript,omitempty"`
	TSEnumsAsUnion                      bool    `json:"ts_enums_as_union,omitempty"`
	TSSkipRuntime                       bool    `json:"ts_skip_runtime,omitempty"`
	PHP                                 bool    `json:"php,omitempty"`
	PHPJSON                             bool    `json:"php_json,omitempty"`
	JSONSchema                          bool    `json:"jsonschema,omitempty"`
	OpenAPI                             bool    `json:"openapi,omitempty"`
}

// Result of one unit.
type Result struct {
	ID     string   `json:"id"`
	Status string   `json:"status"` // ok | error | config-error | panic | fatal | hang
	Err    string   `json:"err,omitempty"`
	Files  []string `json:"files,omitempty"` // paths relative to the workspace
	// PanicSite is the top cog frame of a recovered panic.
	PanicSite string `json:"panic_site,omitempty"`
}

func b2s(b bool) string {
	if b {
		return "true"
	}
	return "false"
}

// PipelineYAML renders the unit's pipeline configuration; ws is the workspace root.
func (u Unit) PipelineYAML(ws string) string {
	var b strings.Builder
	in := filepath.Join(ws, "in", u.ID)
	b.WriteString("inputs:\n  " + strings.ReplaceAll(u.InputYAML, "%DIR%", in) + "\n")
	if u.PassesYAML != "" || len(u.VeneersYAML) > 0 {
		b.WriteString("transformations:\n")
		if u.PassesYAML != "" {
			fmt.Fprintf(&b, "  schemas: ['%s/passes.yaml']\n", in)
		}
		if len(u.VeneersYAML) > 0 {
			fmt.Fprintf(&b, "  builders: ['%s/veneers']\n", in)
		}
	}
	fmt.Fprintf(&b, "output:\n  directory: 'out/%%l/%s'\n  types: %s\n  builders: %s\n  converters: %s\n  api_reference: %s\n  languages:\n",
		u.ID, b2s(u.Types), b2s(u.Builders), b2s(u.Converters), b2s(u.APIRef))
	if u.Go != nil {
		g := u.Go
		fmt.Fprintf(&b, "    - go: {package_root: 'verifgen/%s', generate_json_marshaller: %s, generate_strict_unmarshaller: %s, generate_equal: %s, generate_validate: %s, any_as_interface: %s, skip_runtime: %s}\n",
			u.ID, b2s(g.JSONMarshaller), b2s(g.StrictUnmarshaller), b2s(g.Equal), b2s(g.Validate), b2s(g.AnyAsInterface), b2s(g.SkipRuntime))
	}
	if u.Python {
		fmt.Fprintf(&b, "    - python: {generate_json_marshaller: %s, skip_runtime: %s}\n", b2s(u.PythonJSON), b2s(u.PythonSkipRuntime))
	}
	if u.Java {
		fmt.Fprintf(&b, "    - java: {package_path: 'verifgen.%s', generate_json_marshaller: %s, skip_runtime: %s}\n", u.ID, b2s(u.JavaJSON), b2s(u.JavaSkipRuntime))
	}
	if u.Typescript {
		fmt.Fprintf(&b, "    - typescript: {enums_as_union_types: %s, skip_runtime: %s}\n", b2s(u.TSEnumsAsUnion), b2s(u.TSSkipRuntime))
	}
	if u.PHP {
		fmt.Fprintf(&b, "    - php: {namespace_root: 'Verifgen', generate_json_marshaller: %s}\n", b2s(u.PHPJSON))
	}
	if u.JSONSchema {
		b.WriteString("    - jsonschema: {}\n")
	}
	if u.OpenAPI {
		b.WriteString("    - openapi: {}\n")
	}
	return b.String()
}

// ---- worker side -----------------------------------------------------------------------

var workerFlag = flag.String("genrun-worker", "", "internal: genrun worker mode (workspace dir)")

// MaybeServe turns the process into a generation worker when it was started
// as one. Call it right after flag parsing (vx.Start).
func MaybeServe() {
	if *workerFlag == "" {
		return
	}
	ws := *workerFlag
	if err := os.Chdir(ws); err != nil {
		fmt.Fprintln(os.Stderr, "genrun worker:", err)
		os.Exit(2)
	}
	vx.ServeWorker(func(req []byte) []byte {
		var u Unit
		if err := json.Unmarshal(req, &u); err != nil {
			return []byte(`{"status":"harness-error"}`)
		}
		res := generate(ws, u)
		b, _ := json.Marshal(res)
		return b
	})
	os.Exit(0)
}

func generate(ws string, u Unit) Result {
	res := Result{ID: u.ID}
	in := filepath.Join(ws, "in", u.ID)
	write := func(rel, content string) {
		p := filepath.Join(in, rel)
		os.MkdirAll(filepath.Dir(p), 0o755)
		os.WriteFile(p, []byte(content), 0o644)
	}
	for rel, c := range u.Files {
		write(rel, c)
	}
	if u.PassesYAML != "" {
		write("passes.yaml", u.PassesYAML)
	}
	for name, c := range u.VeneersYAML {
		write(filepath.Join("veneers", name), c)
	}
	cfg := filepath.Join(in, "pipeline.yaml")
	os.WriteFile(cfg, []byte(u.PipelineYAML(ws)), 0o644)
	p := vx.CatchStack(func() {
		pl, err := codegen.PipelineFromFile(cfg, codegen.Parameters(nil))
		if err != nil {
			res.Status, res.Err = "config-error", err.Error()
			return
		}
		fs, err := pl.Run(context.Background())
		if err != nil {
			res.Status, res.Err = "error", err.Error()
			return
		}
		res.Status = "ok"
		for _, f := range fs.AsFiles() {
			dst := filepath.Join(ws, f.RelativePath)
			os.MkdirAll(filepath.Dir(dst), 0o755)
			if err := os.WriteFile(dst, f.Data, 0o644); err != nil {
				res.Status, res.Err = "harness-error", err.Error()
				return
			}
			res.Files = append(res.Files, f.RelativePath)
		}
	})
	if p != nil {
		res.Status, res.Err, res.PanicSite = "panic", p.Value, p.Site
	}
	return res
}

// ---- parent side ------------------------------------------------------------------------

// Workspace is a scratch directory holding inputs and generated trees.
type Workspace struct {
	Dir string
}

func NewWorkspace(prefix string) *Workspace {
	dir, err := os.MkdirTemp("/var/tmp", "verif."+prefix+".")
	if err != nil {
		vx.Fatalf("%v", err)
	}
	for _, d := range []string{"in", "out/go"} {
		os.MkdirAll(filepath.Join(dir, d), 0o755)
	}
	os.WriteFile(filepath.Join(dir, "out/go/go.mod"), []byte("module verifgen\n\ngo 1.23\n"), 0o644)
	prepareGenCache()
	return &Workspace{Dir: dir}
}

func (w *Workspace) Close() { os.RemoveAll(w.Dir) }

// Generate runs all units on a pool of worker processes and returns results by unit ID.
func (w *Workspace) Generate(units []Unit) map[string]*Result {
	out := make(map[string]*Result, len(units))
	var mu sync.Mutex
	ch := make(chan Unit)
	var wg sync.WaitGroup
	n := runtime.NumCPU()
	if n > len(units) {
		n = len(units)
	}
	for i := 0; i < n; i++ {
		wg.Add(1)
		go func() {
			defer wg.Done()
			wk := &vx.Worker{Args: []string{"--genrun-worker", w.Dir}, Env: []string{"GOMAXPROCS=2"}, Timeout: 60 * time.Second}
			defer wk.Close()
			for u := range ch {
				b, _ := json.Marshal(u)
				resp, died := wk.Do(b)
				r := &Result{ID: u.ID}
				if died {
					r.Status = "fatal"
					r.Err = "the process died (fatal error: stack overflow, out of memory, ...)"
					if wk.Hung {
						r.Status = "hang"
						r.Err = "no answer within 60 s (a run takes milliseconds)"
					}
				} else if err := json.Unmarshal(resp, r); err != nil {
					vx.Fatalf("genrun: bad worker answer: %v", err)
				}
				mu.Lock()
				out[u.ID] = r
				mu.Unlock()
			}
		}()
	}
	for _, u := range units {
		ch <- u
	}
	close(ch)
	wg.Wait()
	return out
}

// GoPkgDirs lists the generated Go package directories of a unit (relative to out/go).
func (w *Workspace) GoPkgDirs(r *Result) []string {
	seen := map[string]bool{}
	var out []string
	for _, f := range r.Files {
		if strings.HasPrefix(f, "out/go/") && strings.HasSuffix(f, ".go") {
			d := filepath.Dir(strings.TrimPrefix(f, "out/go/"))
			if !seen[d] {
				seen[d] = true
				out = append(out, d)
			}
		}
	}
	sort.Strings(out)
	return out
}
