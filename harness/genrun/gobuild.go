//go:build verif

package genrun

import (
	"bufio"
	"bytes"
	"encoding/json"
	"fmt"
	"go/ast"
	"go/parser"
	"go/token"
	"os"
	"os/exec"
	"path/filepath"
	"regexp"
	"sort"
	"strings"
	"sync"
	"syscall"
	"time"

	"github.com/grafana/cog/verifx/vx"
)

// GenGoCache is the build cache used for generated code. Generated packages
// are unique per run, so compiling them in the user's default cache would
// grow it without bound; a new generation is started every genCacheRuns workspaces.
var GenGoCache = func() string {
	if d := os.Getenv("VERIF_GEN_GOCACHE"); d != "" {
		return d
	}
	return "/var/tmp/verif-gocache"
}()

const genCacheRuns = 30

// genCacheDir is the cache generation this process compiles in (set by prepareGenCache).
var genCacheDir string

// genCacheLock stays open (and share-locked) for the life of the process.
var genCacheLock *os.File

// prepareGenCache picks the current cache generation `<GenGoCache>/g<k>` (a new
// one every genCacheRuns workspaces) and removes older generations that no
// live process uses. Checks may run concurrently: every process holds a shared
// lock on `g<k>.lock` while it lives and a generation is only removed under the
// exclusive lock, so a cache is never deleted under a running build.
func prepareGenCache() {
	if genCacheDir != "" {
		return
	}
	os.MkdirAll(GenGoCache, 0o755)
	n := 0
	if cl, err := os.OpenFile(filepath.Join(GenGoCache, "counter.lock"), os.O_CREATE|os.O_RDWR, 0o644); err == nil {
		syscall.Flock(int(cl.Fd()), syscall.LOCK_EX)
		counter := filepath.Join(GenGoCache, "verif-runs")
		if b, err := os.ReadFile(counter); err == nil {
			fmt.Sscan(string(b), &n)
		}
		os.WriteFile(counter, []byte(fmt.Sprint(n+1)), 0o644)
		syscall.Flock(int(cl.Fd()), syscall.LOCK_UN)
		cl.Close()
	}
	gen := fmt.Sprintf("g%d", n/genCacheRuns)
	if lf, err := os.OpenFile(filepath.Join(GenGoCache, gen+".lock"), os.O_CREATE|os.O_RDWR, 0o644); err == nil {
		syscall.Flock(int(lf.Fd()), syscall.LOCK_SH)
		genCacheLock = lf
	}
	genCacheDir = filepath.Join(GenGoCache, gen)
	os.MkdirAll(genCacheDir, 0o755)
	entries, _ := os.ReadDir(GenGoCache)
	for _, e := range entries {
		name := e.Name()
		if !e.IsDir() || name == gen || !genDirName.MatchString(name) {
			continue
		}
		lf, err := os.OpenFile(filepath.Join(GenGoCache, name+".lock"), os.O_CREATE|os.O_RDWR, 0o644)
		if err != nil {
			continue
		}
		if syscall.Flock(int(lf.Fd()), syscall.LOCK_EX|syscall.LOCK_NB) == nil {
			os.RemoveAll(filepath.Join(GenGoCache, name))
			syscall.Flock(int(lf.Fd()), syscall.LOCK_UN)
		}
		lf.Close()
	}
}

func goEnv() []string {
	prepareGenCache()
	return append(os.Environ(), "GOFLAGS=-mod=mod", "GOPROXY=off", "GOSUMDB=off", "GOTOOLCHAIN=local", "GOWORK=off", "CGO_ENABLED=0", "GOCACHE="+genCacheDir)
}

// GoEnv is the environment for compiling generated Go code.
func GoEnv() []string { return goEnv() }

var genDirName = regexp.MustCompile(`^g[0-9]+$`)

var pkgHeader = regexp.MustCompile(`^# (verifgen/\S+)`)

// BuildGo compiles every generated Go package of the workspace with the Go
// toolchain (`go build ./...`; `go vet` is not run) and returns the compiler
// diagnostics per import path ("verifgen/<id>/<pkg>"); packages that compile
// are absent from the map.
func (w *Workspace) BuildGo(extraArgs ...string) map[string][]string {
	dir := filepath.Join(w.Dir, "out/go")
	args := append([]string{"build", "-gcflags=-e"}, extraArgs...)
	args = append(args, "./...")
	cmd := exec.Command("go", args...)
	cmd.Dir = dir
	cmd.Env = goEnv()
	out, _ := cmd.CombinedOutput()
	errs := map[string][]string{}
	cur := ""
	sc := bufio.NewScanner(bytes.NewReader(out))
	sc.Buffer(make([]byte, 1<<20), 1<<26)
	for sc.Scan() {
		l := sc.Text()
		if m := pkgHeader.FindStringSubmatch(l); m != nil {
			cur = m[1]
			continue
		}
		if strings.TrimSpace(l) == "" {
			continue
		}
		if cur == "" {
			// e.g. "pattern ./...: ..." or import cycle messages: attribute by path prefix
			cur = "verifgen/?"
		}
		errs[cur] = append(errs[cur], l)
	}
	return errs
}

// GoAPI describes the exported surface of one generated package, found by parsing its files.
type GoAPI struct {
	Types []string // exported type names
	Funcs []string // exported top-level functions
	// Methods: "Type.Method"
	Methods []string
}

func (a GoAPI) HasFunc(n string) bool   { return contains(a.Funcs, n) }
func (a GoAPI) HasType(n string) bool   { return contains(a.Types, n) }
func (a GoAPI) HasMethod(n string) bool { return contains(a.Methods, n) }
func contains(l []string, s string) bool {
	for _, x := range l {
		if x == s {
			return true
		}
	}
	return false
}

// ParseGoAPI parses the package in out/go/<rel>.
func (w *Workspace) ParseGoAPI(rel string) (GoAPI, error) {
	fset := token.NewFileSet()
	pkgs, err := parser.ParseDir(fset, filepath.Join(w.Dir, "out/go", rel), nil, 0)
	if err != nil {
		return GoAPI{}, err
	}
	var api GoAPI
	for _, p := range pkgs {
		for _, f := range p.Files {
			for _, d := range f.Decls {
				switch x := d.(type) {
				case *ast.GenDecl:
					for _, s := range x.Specs {
						if ts, ok := s.(*ast.TypeSpec); ok && ts.Name.IsExported() {
							api.Types = append(api.Types, ts.Name.Name)
						}
					}
				case *ast.FuncDecl:
					if x.Recv == nil {
						if x.Name.IsExported() {
							api.Funcs = append(api.Funcs, x.Name.Name)
						}
						continue
					}
					if len(x.Recv.List) == 1 {
						t := x.Recv.List[0].Type
						if st, ok := t.(*ast.StarExpr); ok {
							t = st.X
						}
						if id, ok := t.(*ast.Ident); ok {
							api.Methods = append(api.Methods, id.Name+"."+x.Name.Name)
						}
					}
				}
			}
		}
	}
	sort.Strings(api.Types)
	sort.Strings(api.Funcs)
	sort.Strings(api.Methods)
	return api, nil
}

// DriverPkg is one generated package linked into the driver.
type DriverPkg struct {
	Key    string // registry prefix, normally the unit ID
	Import string // "verifgen/<id>/<pkg>"
	API    GoAPI
	// Extra is appended verbatim to the registry file (inside func init) for
	// property-specific hooks; it may use the import alias returned by Alias().
	Extra string
}

func (p DriverPkg) Alias() string {
	return "g_" + strings.NewReplacer("/", "_", "-", "_", ".", "_").Replace(strings.TrimPrefix(p.Import, "verifgen/"))
}

// Driver is a running driver binary.
type Driver struct {
	mu sync.Mutex
	wk *vx.Worker
}

// BuildDriver links the given packages into out/go/driver and starts it.
// extraFiles are additional Go files (name -> source) of the driver's main package.
func (w *Workspace) BuildDriver(pkgs []DriverPkg, extraFiles map[string]string) (*Driver, error) {
	dir := filepath.Join(w.Dir, "out/go/driver")
	os.RemoveAll(dir)
	os.MkdirAll(dir, 0o755)
	var reg strings.Builder
	reg.WriteString("package main\n\nimport (\n")
	for _, p := range pkgs {
		fmt.Fprintf(&reg, "\t%s %q\n", p.Alias(), p.Import)
	}
	reg.WriteString(")\n\nfunc init() {\n")
	for _, p := range pkgs {
		a := p.Alias()
		for _, t := range p.API.Types {
			fmt.Fprintf(&reg, "\tregistry[%q] = func() any { return new(%s.%s) }\n", p.Key+"."+t, a, t)
			if p.API.HasFunc("New" + t) {
				fmt.Fprintf(&reg, "\tctors[%q] = func() any { return %s.New%s() }\n", p.Key+"."+t, a, t)
			}
		}
		if p.Extra != "" {
			reg.WriteString(p.Extra)
			reg.WriteString("\n")
		}
	}
	reg.WriteString("}\n")
	os.WriteFile(filepath.Join(dir, "registry_gen.go"), []byte(reg.String()), 0o644)
	os.WriteFile(filepath.Join(dir, "main.go"), []byte(driverMain), 0o644)
	for name, src := range extraFiles {
		os.WriteFile(filepath.Join(dir, name), []byte(src), 0o644)
	}
	bin := filepath.Join(w.Dir, "driver.bin")
	cmd := exec.Command("go", "build", "-o", bin, "./driver")
	cmd.Dir = filepath.Join(w.Dir, "out/go")
	cmd.Env = goEnv()
	if out, err := cmd.CombinedOutput(); err != nil {
		return nil, fmt.Errorf("driver build failed: %v\n%s", err, out)
	}
	d := &Driver{wk: &vx.Worker{Bin: bin, Timeout: 60 * time.Second}}
	return d, nil
}

// Do sends one request to the driver. died reports a fatal crash or hang of
// the generated code on this request (the driver is restarted).
func (d *Driver) Do(req map[string]any) (resp map[string]any, died bool) {
	d.mu.Lock()
	defer d.mu.Unlock()
	b, _ := json.Marshal(req)
	out, died := d.wk.Do(b)
	if died {
		return nil, true
	}
	dec := json.NewDecoder(bytes.NewReader(out))
	dec.UseNumber()
	if err := dec.Decode(&resp); err != nil {
		vx.Fatalf("driver: bad answer %q: %v", out, err)
	}
	return resp, false
}

func (d *Driver) Close() { d.wk.Close() }
