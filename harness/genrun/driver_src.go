//go:build verif

package genrun

// driverMain is the main.go of the generated-code driver: a JSONL server over
// a registry of generated types, using reflection for the optional methods.
const driverMain = `package main

import (
	"bufio"
	"encoding/json"
	"fmt"
	"os"
	"reflect"
	"runtime/debug"
)

var registry = map[string]func() any{}
var ctors = map[string]func() any{}

// hooks: property-specific operations registered by extra files
var hooks = map[string]func(req map[string]any) map[string]any{}

func errString(err error) any {
	if err == nil {
		return nil
	}
	return err.Error()
}

func callErr(v any, method string, args ...any) (has bool, res any) {
	m := reflect.ValueOf(v).MethodByName(method)
	if !m.IsValid() {
		return false, nil
	}
	in := make([]reflect.Value, len(args))
	for i, a := range args {
		in[i] = reflect.ValueOf(a)
	}
	out := m.Call(in)
	if len(out) == 1 {
		if e, ok := out[0].Interface().(error); ok && e != nil {
			return true, e.Error()
		}
		if out[0].Kind() == reflect.Bool {
			return true, out[0].Bool()
		}
	}
	return true, nil
}

func guarded(resp map[string]any, key string, f func()) {
	defer func() {
		if r := recover(); r != nil {
			resp[key+"_panic"] = fmt.Sprint(r)
			resp["stack"] = string(debug.Stack())
		}
	}()
	f()
}

func handle(req map[string]any) map[string]any {
	resp := map[string]any{}
	op, _ := req["op"].(string)
	typ, _ := req["type"].(string)
	if h, ok := hooks[op]; ok {
		guarded(resp, "hook", func() {
			for k, v := range h(req) {
				resp[k] = v
			}
		})
		return resp
	}
	mk, ok := registry[typ]
	if !ok {
		resp["error"] = "unknown type " + typ
		return resp
	}
	switch op {
	case "roundtrip":
		doc := []byte(req["doc"].(string))
		v := mk()
		decoded := false
		guarded(resp, "decode", func() {
			err := json.Unmarshal(doc, v)
			resp["decode_err"] = errString(err)
			decoded = err == nil
		})
		if decoded {
			guarded(resp, "encode", func() {
				b, err := json.Marshal(v)
				resp["encode_err"] = errString(err)
				if err == nil {
					resp["reencoded"] = string(b)
				}
			})
			guarded(resp, "validate", func() {
				has, e := callErr(v, "Validate")
				resp["has_validate"] = has
				resp["validate_err"] = e
			})
		}
		s := mk()
		guarded(resp, "strict", func() {
			has, e := callErr(s, "UnmarshalJSONStrict", doc)
			resp["has_strict"] = has
			resp["strict_err"] = e
			if has && e == nil {
				b, err := json.Marshal(s)
				if err == nil {
					resp["strict_reencoded"] = string(b)
				}
				hasV, ve := callErr(s, "Validate")
				if hasV {
					resp["strict_validate_err"] = ve
				}
			}
		})
	case "default":
		c, ok := ctors[typ]
		if !ok {
			resp["error"] = "no constructor"
			return resp
		}
		guarded(resp, "ctor", func() {
			b, err := json.Marshal(c())
			resp["encode_err"] = errString(err)
			resp["json"] = string(b)
		})
	case "equals":
		a, b := mk(), mk()
		guarded(resp, "equals", func() {
			if err := json.Unmarshal([]byte(req["doc"].(string)), a); err != nil {
				resp["decode_err"] = err.Error()
				return
			}
			if err := json.Unmarshal([]byte(req["doc2"].(string)), b); err != nil {
				resp["decode_err"] = err.Error()
				return
			}
			m := reflect.ValueOf(a).MethodByName("Equals")
			if !m.IsValid() {
				resp["has_equals"] = false
				return
			}
			resp["has_equals"] = true
			out := m.Call([]reflect.Value{reflect.ValueOf(b).Elem()})
			resp["equals"] = out[0].Bool()
			ja, _ := json.Marshal(a)
			jb, _ := json.Marshal(b)
			resp["json_a"], resp["json_b"] = string(ja), string(jb)
		})
	default:
		resp["error"] = "unknown op " + op
	}
	return resp
}

func main() {
	in := bufio.NewScanner(os.Stdin)
	in.Buffer(make([]byte, 1<<20), 1<<28)
	out := bufio.NewWriter(os.Stdout)
	for in.Scan() {
		var req map[string]any
		if err := json.Unmarshal(in.Bytes(), &req); err != nil {
			fmt.Fprintln(os.Stderr, "driver: bad request:", err)
			os.Exit(2)
		}
		b, _ := json.Marshal(handle(req))
		out.Write(b)
		out.WriteByte('\n')
		out.Flush()
	}
}
`
