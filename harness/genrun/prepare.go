//go:build verif

package genrun

import (
	"fmt"
	"sort"
	"strings"

	"github.com/grafana/cog/verifx/gschema"
)

// Case is one (schema, input format) pair pushed through generation.
type Case struct {
	Index  int
	Schema gschema.Schema
	Format string
	Unit   Unit
	Result *Result
	// CompileErrs of the generated Go packages of this unit (nil = compiles).
	CompileErrs []string
	// InDriver: the unit's package "p" is linked into the driver.
	InDriver bool
	API      GoAPI
}

func (c *Case) Key() string { return c.Unit.ID }

// Prepared is a generated, compiled and linked batch.
type Prepared struct {
	WS      *Workspace
	Cases   []*Case
	Driver  *Driver
	Skipped map[string]int // format -> number of schemas it cannot express
	// Validators per schema index.
	Validators []map[string]gschema.Validator
}

// Configure customises a unit before generation.
type Configure func(u *Unit)

// PrepareGo renders every schema in every format that can express it,
// generates Go with the given configuration, compiles everything and links
// the compiling packages into a driver. driverExtra returns per-package
// registry additions (may be nil).
func PrepareGo(ws *Workspace, schemas []gschema.Schema, conf Configure, driverExtra func(c *Case, alias string) string, extraFiles map[string]string) (*Prepared, error) {
	p := &Prepared{WS: ws, Skipped: map[string]int{}}
	var units []Unit
	for i, s := range schemas {
		vals, _ := s.Validators()
		p.Validators = append(p.Validators, vals)
		for _, f := range gschema.Formats {
			r, err := s.Render(f)
			if err != nil {
				p.Skipped[f]++
				continue
			}
			u := Unit{ID: fmt.Sprintf("s%04d%s", i, f[:1]), Files: r.Files, InputYAML: r.InputYAML, Types: true}
			conf(&u)
			p.Cases = append(p.Cases, &Case{Index: i, Schema: s, Format: f, Unit: u})
			units = append(units, u)
		}
	}
	results := ws.Generate(units)
	for _, c := range p.Cases {
		c.Result = results[c.Unit.ID]
	}
	errs := ws.BuildGo()
	var pkgs []DriverPkg
	for _, c := range p.Cases {
		if c.Result.Status != "ok" {
			continue
		}
		prefix := "verifgen/" + c.Unit.ID + "/"
		for imp, e := range errs {
			if strings.HasPrefix(imp, prefix) {
				c.CompileErrs = append(c.CompileErrs, e...)
			}
		}
		if len(c.CompileErrs) > 0 {
			sort.Strings(c.CompileErrs)
			continue
		}
		hasP := false
		for _, d := range ws.GoPkgDirs(c.Result) {
			if d == c.Unit.ID+"/"+gschema.Pkg {
				hasP = true
			}
		}
		if !hasP {
			continue
		}
		api, err := ws.ParseGoAPI(c.Unit.ID + "/" + gschema.Pkg)
		if err != nil {
			continue
		}
		c.API = api
		c.InDriver = true
		dp := DriverPkg{Key: c.Unit.ID, Import: prefix + gschema.Pkg, API: api}
		if driverExtra != nil {
			dp.Extra = driverExtra(c, dp.Alias())
		}
		pkgs = append(pkgs, dp)
		for _, extra := range c.Unit.ExtraPkgs {
			xapi, err := ws.ParseGoAPI(c.Unit.ID + "/" + extra)
			if err != nil {
				continue
			}
			pkgs = append(pkgs, DriverPkg{Key: c.Unit.ID + "/" + extra, Import: prefix + extra, API: xapi})
		}
	}
	if e, ok := errs["verifgen/?"]; ok {
		return nil, fmt.Errorf("go build reported errors outside any package: %v", e)
	}
	d, err := ws.BuildDriver(pkgs, extraFiles)
	if err != nil {
		return nil, err
	}
	p.Driver = d
	return p, nil
}

// RootType is the driver registry key of the schema's root object.
func (c *Case) RootType() string { return c.Unit.ID + "." + c.Schema.Objs[0].Name }

// CaseParents lists the witnesses ("<format> :: <schema>") of the one-step
// reductions of a (schema, format) case: every schema reduction in every
// format, and the same schema in the formats that come earlier in
// gschema.Formats (a failure that also shows in the JSON Schema rendering is
// reported there only).
func CaseParents(s gschema.Schema, format string) []string {
	var out []string
	for _, r := range s.Reductions() {
		rs := r.String()
		for _, f := range gschema.Formats {
			out = append(out, f+" :: "+rs)
		}
	}
	for _, f := range gschema.Formats {
		if f == format {
			break
		}
		out = append(out, f+" :: "+s.String())
	}
	return out
}
