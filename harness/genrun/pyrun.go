//go:build verif

package genrun

import (
	"bytes"
	"encoding/json"
	"os"
	"path/filepath"
	"sync"
	"time"

	"github.com/grafana/cog/verifx/vx"
)

// pyDriverSrc is the Python side of the generated-code driver (DESIGN §2.4
// step 4): ONE long-lived python3 process answering JSONL requests. It is
// written into the workspace at start-up (go:embed does not see overlays).
//
// Units generated with `Python: true` land in <ws>/out/python/<id>/ and each of
// those directories is a regular Python package (the jennies emit
// __init__.py, models/, cog/, builders/). <ws>/out/python is put on sys.path,
// so every unit is imported under its own top-level name
// `<id>.models.<pkg>` / `<id>.cog.encoder`: hundreds of units with identically
// named sub-packages coexist in one interpreter, and the relative imports the
// generated code uses (`from ..cog import …`, `from ..models import …`) resolve
// inside the unit.
//
// Requests: {"op": "import"|"roundtrip"|"default", "unit": id, "pkg": "p", "class": "Root", "doc": "<json text>"}
// Answers (always one JSON object):
//
//	import_error: {type, msg}            the unit's models module (or its encoder) does not import
//	error: "…"                           the request itself is unusable (no such class, bad op)
//	from_json_exc | ctor_exc | encode_exc: {type, msg}   exception of that stage
//	json: "<text>"                       json.dumps(obj, cls=JSONEncoder) — what a user of the SDK writes
//	py_types: {field: type name}         (roundtrip/default) Python type of every attribute of the object
//	shape: tree                          (roundtrip/default) the object graph with JSON values abstracted:
//	                                     instance of a generated class -> {"$class": name, "fields": {attr: tree}},
//	                                     dict -> {"$dict": {key: tree}}, list -> [tree], anything else -> its type name
const pyDriverSrc = `import sys, json, importlib, enum

root = sys.argv[1]
sys.path.insert(0, root)
sys.setrecursionlimit(2000)
_cache = {}


def describe(e):
    return {"type": type(e).__name__, "msg": str(e).split("\n")[0][:300]}


def load(unit, pkg):
    key = unit + "/" + pkg
    if key not in _cache:
        try:
            mod = importlib.import_module(unit + ".models." + pkg)
            enc = importlib.import_module(unit + ".cog.encoder").JSONEncoder
            _cache[key] = (mod, enc, None)
        except BaseException as e:  # SyntaxError, ImportError, NameError at class creation, ...
            if isinstance(e, (KeyboardInterrupt, SystemExit)):
                raise
            _cache[key] = (None, None, describe(e))
    return _cache[key]


def shape(v, depth=0):
    if depth > 40:
        return "..."
    if isinstance(v, dict):
        return {"$dict": {str(k): shape(x, depth + 1) for k, x in v.items()}}
    if isinstance(v, (list, tuple)):
        return [shape(x, depth + 1) for x in v]
    if isinstance(v, enum.Enum):
        return "enum:" + type(v).__name__
    if hasattr(v, "__dict__") and type(v).__module__ not in ("builtins",):
        return {"$class": type(v).__name__, "fields": {k: shape(x, depth + 1) for k, x in vars(v).items()}}
    return type(v).__name__


def types_of(obj):
    out = {}
    for k, v in sorted(getattr(obj, "__dict__", {}).items()):
        out[k] = type(v).__name__
    return out


def handle(req):
    op = req.get("op")
    mod, enc, err = load(req["unit"], req.get("pkg", "p"))
    if err is not None:
        return {"import_error": err}
    if op == "import":
        return {"classes": sorted(k for k, v in vars(mod).items() if isinstance(v, type) and getattr(v, "__module__", "") == mod.__name__)}
    cls = getattr(mod, req.get("class", ""), None)
    if cls is None:
        return {"error": "no class " + str(req.get("class")) + " in " + mod.__name__}
    resp = {}
    if op == "roundtrip":
        if not hasattr(cls, "from_json"):
            return {"error": "class has no from_json"}
        try:
            data = json.loads(req["doc"])
        except Exception as e:
            return {"error": "bad document: " + str(e)}
        try:
            obj = cls.from_json(data)
        except RecursionError as e:
            return {"from_json_exc": describe(e)}
        except Exception as e:
            return {"from_json_exc": describe(e)}
    elif op == "default":
        try:
            obj = cls()
        except Exception as e:
            return {"ctor_exc": describe(e)}
    else:
        return {"error": "unknown op " + str(op)}
    resp["py_types"] = types_of(obj)
    try:
        resp["shape"] = shape(obj)
    except Exception as e:
        resp["shape_error"] = type(e).__name__ + ": " + str(e)
    try:
        resp["json"] = json.dumps(obj, cls=enc)
    except Exception as e:
        resp["encode_exc"] = describe(e)
    return resp


def main():
    out = sys.stdout
    for line in sys.stdin:
        line = line.strip()
        if not line:
            continue
        try:
            resp = handle(json.loads(line))
        except Exception as e:  # a bug of the driver itself, reported as such
            resp = {"error": "driver: " + type(e).__name__ + ": " + str(e)}
        out.write(json.dumps(resp))
        out.write("\n")
        out.flush()


main()
`

// PyDriver is a running Python driver process.
type PyDriver struct {
	mu sync.Mutex
	wk *vx.Worker
}

// StartPython writes the driver script into the workspace and returns a
// handle on ONE long-lived python3 process serving it (started lazily,
// restarted after a crash or hang of the generated code).
func (w *Workspace) StartPython() *PyDriver {
	script := filepath.Join(w.Dir, "pydriver.py")
	if err := os.WriteFile(script, []byte(pyDriverSrc), 0o644); err != nil {
		vx.Fatalf("writing the python driver: %v", err)
	}
	root := filepath.Join(w.Dir, "out/python")
	os.MkdirAll(root, 0o755)
	return &PyDriver{wk: &vx.Worker{
		Bin:     "python3",
		Args:    []string{"-u", "-B", script, root},
		Env:     []string{"PYTHONHASHSEED=0"},
		Timeout: 60 * time.Second,
	}}
}

// Do sends one request; died reports that the interpreter crashed or hung on
// this request (it is restarted for the next one).
func (d *PyDriver) Do(req map[string]any) (resp map[string]any, died bool) {
	d.mu.Lock()
	defer d.mu.Unlock()
	b, _ := json.Marshal(req)
	out, died := d.wk.Do(b)
	if died {
		return nil, true
	}
	dec := json.NewDecoder(bytes.NewReader(out))
	dec.UseNumber()
	if err := dec.Decode(&resp); err != nil {
		vx.Fatalf("python driver: bad answer %q: %v", out, err)
	}
	if e, _ := resp["error"].(string); len(e) > 7 && e[:7] == "driver:" {
		vx.Fatalf("python driver: %s", e)
	}
	return resp, false
}

// PyExc extracts an exception record ({type, msg}) from an answer; ok is false when the key is absent.
func PyExc(resp map[string]any, key string) (typ, msg string, ok bool) {
	m, ok := resp[key].(map[string]any)
	if !ok {
		return "", "", false
	}
	typ, _ = m["type"].(string)
	msg, _ = m["msg"].(string)
	return typ, msg, true
}

func (d *PyDriver) Close() { d.wk.Close() }
