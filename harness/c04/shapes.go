//go:build verif

package main

import (
	"fmt"
	"sort"
	"strings"
)

// Shape is one well-formed (for its schema language) but unusual document:
// a shape the parsers treat specially (DESIGN §6 C04 (a)). Hand-rendered per format.
type Shape struct {
	Format string // jsonschema | openapi | cue
	Name   string
	Doc    string
	// Extra files next to the document (OpenAPI external references).
	Extra map[string]string
	// Inputs, when set, replaces the `inputs:` entries of the pipeline (runs
	// with several inputs); %NOVALIDATE% is replaced by the validation flag.
	Inputs string
}

const (
	draft07   = "http://json-schema.org/draft-07/schema#"
	draft2020 = "https://json-schema.org/draft/2020-12/schema"
)

func jsDoc(defs string) string {
	return `{"$schema":"` + draft07 + `","$ref":"#/definitions/Root","definitions":{` + defs + `}}`
}

func oaDoc(schemas string) string {
	return `{"openapi":"3.0.0","info":{"title":"t","version":"1"},"paths":{},"components":{"schemas":{` + schemas + `}}}`
}

func cueDoc(body string) string { return "package p\n\n" + body + "\n" }

// the support definitions references can point to
const (
	jsS = `"S":{"type":"object","properties":{"kind":{"type":"string","const":"s"},"x":{"type":"string"}},"required":["kind"]}`
	jsT = `"T":{"type":"object","properties":{"kind":{"type":"string","const":"t"},"y":{"type":"integer"}},"required":["kind"]}`
	jsE = `"E":{"type":"string","enum":["a","b"]}`
	oaS = `"S":{"type":"object","properties":{"kind":{"type":"string","enum":["s"]},"x":{"type":"string"}},"required":["kind"]}`
	oaT = `"T":{"type":"object","properties":{"kind":{"type":"string","enum":["t"]},"y":{"type":"integer"}},"required":["kind"]}`
	oaE = `"E":{"type":"string","enum":["a","b"]}`
)

// field wraps a type as the single field f of Root.
func jsField(t string, more ...string) string {
	return strings.Join(append([]string{`"Root":{"type":"object","properties":{"f":` + t + `}}`}, more...), ",")
}

func jsRoot(t string, more ...string) string {
	return strings.Join(append([]string{`"Root":` + t}, more...), ",")
}

var jsonDefaults = []struct{ name, v string }{
	{"int", `3`}, {"float", `1.5`}, {"string", `"s"`}, {"bool", `true`}, {"null", `null`},
	{"list", `[1,"a"]`}, {"object", `{"a":1}`}, {"emptylist", `[]`}, {"emptyobject", `{}`}, {"bigint", `18446744073709551616`},
}

func jsonSchemaShapes() []Shape {
	var out []Shape
	// every shape under two drafts: draft-07 and 2020-12 differ in what their
	// metaschemas let through (an empty `enum`, tuple `items`, ...)
	add := func(name, defs string) {
		out = append(out, Shape{Format: "jsonschema", Name: name, Doc: jsDoc(defs)})
		out = append(out, Shape{Format: "jsonschema", Name: name + "@2020-12", Doc: strings.Replace(jsDoc(defs), draft07, draft2020, 1)})
	}
	raw := func(name, doc string) { out = append(out, Shape{Format: "jsonschema", Name: name, Doc: doc}) }
	both := func(name, t string, more ...string) {
		add(name+"/field", jsField(t, more...))
		add(name+"/root", jsRoot(t, more...))
	}

	// enums
	both("enum-no-type-strings", `{"enum":["a","b"]}`)
	both("enum-no-type-ints", `{"enum":[1,2]}`)
	both("enum-no-type-mixed", `{"enum":["a",1,null,true]}`)
	both("enum-no-type-int-first-mixed", `{"enum":[1,"a"]}`)
	both("enum-of-objects", `{"enum":[{"a":1},[1]]}`)
	both("enum-empty", `{"enum":[]}`)
	both("enum-empty-typed", `{"type":"string","enum":[]}`)
	both("enum-empty-string-member", `{"type":"string","enum":["","a"]}`)
	both("enum-duplicate-members", `{"type":"string","enum":["a","a"]}`)
	both("enum-members-same-after-sanitising", `{"type":"string","enum":["a-b","a_b","a b","A B"]}`)
	both("enum-floats", `{"type":"number","enum":[1.5,2.5]}`)
	both("enum-bools", `{"type":"boolean","enum":[true,false]}`)
	both("enum-only-null", `{"enum":[null]}`)
	both("enum-type-mismatch", `{"type":"integer","enum":["a","b"]}`)
	both("enum-numeric-strings", `{"type":"string","enum":["1","-2","+3","1.5"]}`)
	both("enum-odd-names", `{"type":"string","enum":[" ","-","$","é","a\nb","type","class"]}`)
	both("enum-with-default-not-member", `{"type":"string","enum":["a","b"],"default":"c"}`)
	both("enum-with-default-int", `{"type":"string","enum":["a","b"],"default":1}`)
	both("enum-int-with-default", `{"type":"integer","enum":[1,2],"default":2}`)
	both("enum-nullable", `{"oneOf":[{"type":"string","enum":["a","b"]},{"type":"null"}]}`)
	both("enum-large-int", `{"enum":[9223372036854775808]}`)

	// arrays
	both("array-without-items", `{"type":"array"}`)
	both("array-tuple-items", `{"type":"array","items":[{"type":"string"},{"type":"integer"}]}`)
	both("array-tuple-items-empty", `{"type":"array","items":[]}`)
	both("array-items-true", `{"type":"array","items":true}`)
	both("array-items-false", `{"type":"array","items":false}`)
	both("array-items-empty-schema", `{"type":"array","items":{}}`)
	both("array-of-array-without-items", `{"type":"array","items":{"type":"array"}}`)
	both("array-contains", `{"type":"array","contains":{"type":"string"}}`)
	both("array-additional-items", `{"type":"array","items":[{"type":"string"}],"additionalItems":{"type":"integer"}}`)
	both("array-of-enum", `{"type":"array","items":{"enum":["a","b"]}}`)
	both("array-of-oneof", `{"type":"array","items":{"oneOf":[{"type":"string"},{"type":"integer"}]}}`)
	both("array-of-const", `{"type":"array","items":{"const":"k"}}`)
	both("array-of-null", `{"type":"array","items":{"type":"null"}}`)

	// defaults of every JSON type on every schema type
	types := []struct{ name, t string }{
		{"string", `"type":"string"`}, {"integer", `"type":"integer"`}, {"number", `"type":"number"`}, {"boolean", `"type":"boolean"`},
		{"array", `"type":"array","items":{"type":"string"}`},
		{"struct", `"type":"object","properties":{"a":{"type":"string"}}`}, {"map", `"type":"object","additionalProperties":{"type":"string"}`},
		{"ref-struct", `"$ref":"#/definitions/S"`}, {"ref-enum", `"$ref":"#/definitions/E"`}, {"enum", `"type":"string","enum":["a","b"]`},
		{"any", ``}, {"oneof", `"oneOf":[{"type":"string"},{"type":"integer"}]`}, {"const", `"const":"k"`}, {"null", `"type":"null"`},
		{"datetime", `"type":"string","format":"date-time"`}, {"allof", `"allOf":[{"$ref":"#/definitions/S"}]`},
	}
	for _, ty := range types {
		for _, d := range jsonDefaults {
			body := ty.t
			if body != "" {
				body += ","
			}
			add("default-"+d.name+"-on-"+ty.name, jsField(`{`+body+`"default":`+d.v+`}`, jsS, jsE))
		}
	}
	add("default-on-root-struct", jsRoot(`{"type":"object","properties":{"a":{"type":"string"}},"default":{"a":"x"}}`))
	add("default-on-root-scalar", jsRoot(`{"type":"integer","default":3}`))
	add("default-nested-struct", jsField(`{"type":"object","properties":{"a":{"type":"object","properties":{"b":{"type":"integer"}}}},"default":{"a":{"b":3,"zz":[1]}}}`))

	// allOf
	both("allof-one-ref", `{"allOf":[{"$ref":"#/definitions/S"}]}`, jsS)
	both("allof-ref-and-struct", `{"allOf":[{"$ref":"#/definitions/S"},{"type":"object","properties":{"z":{"type":"string"}}}]}`, jsS)
	both("allof-two-refs", `{"allOf":[{"$ref":"#/definitions/S"},{"$ref":"#/definitions/T"}]}`, jsS, jsT)
	both("allof-scalars", `{"allOf":[{"type":"string"},{"minLength":1}]}`)
	both("allof-one-scalar", `{"allOf":[{"type":"string"}]}`)
	both("allof-ref-enum", `{"allOf":[{"$ref":"#/definitions/E"}]}`, jsE)
	both("allof-ref-and-scalar", `{"allOf":[{"$ref":"#/definitions/S"},{"type":"string"}]}`, jsS)
	both("allof-nested", `{"allOf":[{"allOf":[{"$ref":"#/definitions/S"}]},{"type":"object","properties":{"z":{"type":"string"}}}]}`, jsS)
	both("allof-with-oneof", `{"allOf":[{"oneOf":[{"$ref":"#/definitions/S"},{"$ref":"#/definitions/T"}]},{"type":"object","properties":{"z":{"type":"string"}}}]}`, jsS, jsT)
	both("allof-array-and-struct", `{"allOf":[{"type":"array","items":{"type":"string"}},{"type":"object","properties":{"z":{"type":"string"}}}]}`)
	both("allof-ref-to-alias", `{"allOf":[{"$ref":"#/definitions/Al"},{"type":"object","properties":{"z":{"type":"string"}}}]}`, `"Al":{"$ref":"#/definitions/S"}`, jsS)
	both("allof-any", `{"allOf":[{},{}]}`)
	both("allof-with-default", `{"allOf":[{"$ref":"#/definitions/S"}],"default":{"kind":"s"}}`, jsS)
	both("allof-same-field-twice", `{"allOf":[{"type":"object","properties":{"z":{"type":"string"}}},{"type":"object","properties":{"z":{"type":"integer"}}}]}`)
	add("allof-struct-alias-and-array-use", jsRoot(`{"type":"object","properties":{"l":{"type":"array","items":{"$ref":"#/definitions/S"}},"m":{"type":"object","additionalProperties":{"$ref":"#/definitions/S"}}}}`, `"Al":{"$ref":"#/definitions/S"}`, `"User":{"allOf":[{"$ref":"#/definitions/Al"}]}`, jsS))

	// oneOf / anyOf and discriminators
	disc := func(name, kindS, kindT string) {
		s := `"S":{"type":"object","properties":{` + kindS + `"x":{"type":"string"}}}`
		t := `"T":{"type":"object","properties":{` + kindT + `"y":{"type":"integer"}}}`
		both("oneof-"+name, `{"oneOf":[{"$ref":"#/definitions/S"},{"$ref":"#/definitions/T"}]}`, s, t)
		add("anyof-"+name+"/field", jsField(`{"anyOf":[{"$ref":"#/definitions/S"},{"$ref":"#/definitions/T"}]}`, s, t))
	}
	disc("disc-string-const", `"kind":{"const":"s"},`, `"kind":{"const":"t"},`)
	disc("disc-int-const", `"kind":{"const":1},`, `"kind":{"const":2},`)
	disc("disc-bool-const", `"kind":{"const":true},`, `"kind":{"const":false},`)
	disc("disc-float-const", `"kind":{"const":1.5},`, `"kind":{"const":2.5},`)
	disc("disc-null-const", `"kind":{"const":null},`, `"kind":{"const":"t"},`)
	disc("disc-missing", ``, ``)
	disc("disc-missing-in-one", `"kind":{"const":"s"},`, ``)
	disc("disc-not-constant", `"kind":{"type":"string"},`, `"kind":{"type":"string"},`)
	disc("disc-same-constant", `"kind":{"const":"s"},`, `"kind":{"const":"s"},`)
	disc("disc-enum-single", `"kind":{"type":"string","enum":["s"]},`, `"kind":{"type":"string","enum":["t"]},`)
	disc("disc-different-field-names", `"kind":{"const":"s"},`, `"type":{"const":"t"},`)
	disc("disc-two-candidates", `"kind":{"const":"s"},"type":{"const":"s2"},`, `"kind":{"const":"t"},"type":{"const":"t2"},`)
	both("oneof-struct-or-scalar-alias", `{"oneOf":[{"$ref":"#/definitions/S"},{"$ref":"#/definitions/Count"}]}`, jsS, `"Count":{"type":"integer"}`)
	both("oneof-struct-or-enum-ref", `{"oneOf":[{"$ref":"#/definitions/S"},{"$ref":"#/definitions/E"}]}`, jsS, jsE)
	both("oneof-struct-or-array-alias", `{"oneOf":[{"$ref":"#/definitions/S"},{"$ref":"#/definitions/L"}]}`, jsS, `"L":{"type":"array","items":{"type":"string"}}`)
	both("oneof-struct-or-map-alias", `{"oneOf":[{"$ref":"#/definitions/S"},{"$ref":"#/definitions/M"}]}`, jsS, `"M":{"type":"object","additionalProperties":{"type":"string"}}`)
	both("oneof-struct-or-alias-of-struct", `{"oneOf":[{"$ref":"#/definitions/S"},{"$ref":"#/definitions/Al"}]}`, jsS, jsT, `"Al":{"$ref":"#/definitions/T"}`)
	both("oneof-struct-or-any-alias", `{"oneOf":[{"$ref":"#/definitions/S"},{"$ref":"#/definitions/Any"}]}`, jsS, `"Any":{}`)
	both("oneof-two-scalar-aliases", `{"oneOf":[{"$ref":"#/definitions/A"},{"$ref":"#/definitions/Count"}]}`, `"A":{"type":"string"}`, `"Count":{"type":"integer"}`)
	both("oneof-single-branch", `{"oneOf":[{"$ref":"#/definitions/S"}]}`, jsS)
	both("oneof-single-scalar", `{"oneOf":[{"type":"string"}]}`)
	both("oneof-empty", `{"oneOf":[]}`)
	both("anyof-empty", `{"anyOf":[]}`)
	both("oneof-same-ref-twice", `{"oneOf":[{"$ref":"#/definitions/S"},{"$ref":"#/definitions/S"}]}`, jsS)
	both("oneof-ref-or-null", `{"oneOf":[{"$ref":"#/definitions/S"},{"type":"null"}]}`, jsS)
	both("oneof-null-only", `{"oneOf":[{"type":"null"}]}`)
	both("oneof-null-twice", `{"oneOf":[{"type":"null"},{"type":"null"}]}`)
	both("oneof-three-with-null", `{"oneOf":[{"$ref":"#/definitions/S"},{"$ref":"#/definitions/T"},{"type":"null"}]}`, jsS, jsT)
	both("oneof-anonymous-structs", `{"oneOf":[{"type":"object","properties":{"a":{"type":"string"}}},{"type":"object","properties":{"b":{"type":"integer"}}}]}`)
	both("oneof-anonymous-struct-or-scalar", `{"oneOf":[{"type":"object","properties":{"a":{"type":"string"}}},{"type":"string"}]}`)
	both("oneof-nested", `{"oneOf":[{"oneOf":[{"type":"string"},{"type":"integer"}]},{"type":"boolean"}]}`)
	both("oneof-nested-refs", `{"oneOf":[{"oneOf":[{"$ref":"#/definitions/S"},{"$ref":"#/definitions/T"}]},{"type":"string"}]}`, jsS, jsT)
	both("oneof-arrays", `{"oneOf":[{"type":"array","items":{"type":"string"}},{"type":"array","items":{"type":"integer"}}]}`)
	both("oneof-maps", `{"oneOf":[{"type":"object","additionalProperties":{"type":"string"}},{"type":"string"}]}`)
	both("oneof-constants", `{"oneOf":[{"const":"a"},{"const":"b"}]}`)
	both("oneof-constants-mixed", `{"oneOf":[{"const":"a"},{"const":1}]}`)
	both("oneof-enums", `{"oneOf":[{"enum":["a"]},{"enum":["b","c"]}]}`)
	both("oneof-any-branches", `{"oneOf":[{},{}]}`)
	both("oneof-scalar-with-default", `{"oneOf":[{"type":"string"},{"type":"integer"}],"default":3}`)
	both("oneof-all-scalars", `{"oneOf":[{"type":"string"},{"type":"integer"},{"type":"number"},{"type":"boolean"},{"type":"array","items":{"type":"string"}}]}`)
	both("oneof-ref-to-union", `{"oneOf":[{"$ref":"#/definitions/U"},{"type":"string"}]}`, `"U":{"oneOf":[{"$ref":"#/definitions/S"},{"$ref":"#/definitions/T"}]}`, jsS, jsT)
	add("array-of-disc-union", jsField(`{"type":"array","items":{"oneOf":[{"$ref":"#/definitions/S"},{"$ref":"#/definitions/T"}]}}`, jsS, jsT))
	add("map-of-disc-union", jsField(`{"type":"object","additionalProperties":{"oneOf":[{"$ref":"#/definitions/S"},{"$ref":"#/definitions/T"}]}}`, jsS, jsT))

	// reference cycles and references to nowhere
	add("alias-cycle-2", jsRoot(`{"$ref":"#/definitions/B"}`, `"B":{"$ref":"#/definitions/Root"}`))
	add("alias-cycle-2-used-in-field", jsField(`{"$ref":"#/definitions/A"}`, `"A":{"$ref":"#/definitions/B"}`, `"B":{"$ref":"#/definitions/A"}`))
	add("alias-cycle-3", jsField(`{"$ref":"#/definitions/A"}`, `"A":{"$ref":"#/definitions/B"}`, `"B":{"$ref":"#/definitions/C"}`, `"C":{"$ref":"#/definitions/A"}`))
	add("alias-self", jsRoot(`{"$ref":"#/definitions/Root"}`))
	add("alias-self-in-field", jsField(`{"$ref":"#/definitions/A"}`, `"A":{"$ref":"#/definitions/A"}`))
	add("cycle-through-array", jsRoot(`{"type":"array","items":{"$ref":"#/definitions/Root"}}`))
	add("cycle-through-map", jsRoot(`{"type":"object","additionalProperties":{"$ref":"#/definitions/Root"}}`))
	add("cycle-through-oneof", jsRoot(`{"oneOf":[{"$ref":"#/definitions/Root"},{"type":"string"}]}`))
	add("cycle-through-oneof-null", jsRoot(`{"oneOf":[{"$ref":"#/definitions/Root"},{"type":"null"}]}`))
	add("cycle-through-allof", jsRoot(`{"allOf":[{"$ref":"#/definitions/Root"}]}`))
	add("cycle-through-allof-struct", jsRoot(`{"allOf":[{"$ref":"#/definitions/Root"},{"type":"object","properties":{"z":{"type":"string"}}}]}`))
	add("cycle-through-required-field", jsRoot(`{"type":"object","properties":{"next":{"$ref":"#/definitions/Root"}},"required":["next"]}`))
	add("cycle-mutual-structs-required", jsRoot(`{"type":"object","properties":{"b":{"$ref":"#/definitions/B"}},"required":["b"]}`, `"B":{"type":"object","properties":{"a":{"$ref":"#/definitions/Root"}},"required":["a"]}`))
	add("cycle-disc-union-self", jsRoot(`{"oneOf":[{"$ref":"#/definitions/S"},{"$ref":"#/definitions/Root"}]}`, jsS))
	// aliases that are recursive through an array / a map, alone and used in a field
	for _, rec := range []struct{ name, defs string }{
		{"array-self", `"A":{"type":"array","items":{"$ref":"#/definitions/A"}}`},
		{"map-self", `"A":{"type":"object","additionalProperties":{"$ref":"#/definitions/A"}}`},
		{"array-2", `"A":{"type":"array","items":{"$ref":"#/definitions/B"}},"B":{"type":"array","items":{"$ref":"#/definitions/A"}}`},
		{"map-2", `"A":{"type":"object","additionalProperties":{"$ref":"#/definitions/B"}},"B":{"type":"object","additionalProperties":{"$ref":"#/definitions/A"}}`},
		{"array-map", `"A":{"type":"array","items":{"$ref":"#/definitions/B"}},"B":{"type":"object","additionalProperties":{"$ref":"#/definitions/A"}}`},
		{"array-of-array-self", `"A":{"type":"array","items":{"type":"array","items":{"$ref":"#/definitions/A"}}}`},
		{"array-through-alias", `"A":{"type":"array","items":{"$ref":"#/definitions/Al"}},"Al":{"$ref":"#/definitions/A"}`},
		{"array-self-nullable", `"A":{"type":"array","items":{"oneOf":[{"$ref":"#/definitions/A"},{"type":"null"}]}}`},
	} {
		add("recursive-alias-"+rec.name+"/field", jsField(`{"$ref":"#/definitions/A"}`, rec.defs))
		add("recursive-alias-"+rec.name+"/required-field", jsRoot(`{"type":"object","properties":{"f":{"$ref":"#/definitions/A"}},"required":["f"]}`, rec.defs))
		add("recursive-alias-"+rec.name+"/array-field", jsField(`{"type":"array","items":{"$ref":"#/definitions/A"}}`, rec.defs))
		add("recursive-alias-"+rec.name+"/map-field", jsField(`{"type":"object","additionalProperties":{"$ref":"#/definitions/A"}}`, rec.defs))
		add("recursive-alias-"+rec.name+"/union-field", jsField(`{"oneOf":[{"$ref":"#/definitions/A"},{"type":"string"}]}`, rec.defs))
		add("recursive-alias-"+rec.name+"/root", jsRoot(`{"$ref":"#/definitions/A"}`, rec.defs))
	}
	add("alias-chain-to-struct", jsField(`{"$ref":"#/definitions/A1"}`, `"A1":{"$ref":"#/definitions/A2"}`, `"A2":{"$ref":"#/definitions/S"}`, jsS))
	add("alias-chain-to-enum-with-default", jsField(`{"$ref":"#/definitions/A1","default":"b"}`, `"A1":{"$ref":"#/definitions/E"}`, jsE))
	raw("ref-to-nowhere", jsDoc(jsField(`{"$ref":"#/definitions/Missing"}`)))
	raw("ref-to-other-file", jsDoc(jsField(`{"$ref":"other.json#/definitions/X"}`)))
	raw("ref-empty", jsDoc(jsField(`{"$ref":""}`)))
	raw("ref-to-document-root", jsDoc(jsField(`{"$ref":"#"}`)))
	raw("root-self-ref", `{"$ref":"#"}`)
	raw("root-ref-to-nowhere", `{"$ref":"#/definitions/Missing"}`)
	raw("root-ref-to-property", `{"$ref":"#/properties/a","properties":{"a":{"type":"string"}}}`)
	raw("ref-to-property-of-definition", jsDoc(jsField(`{"$ref":"#/definitions/S/properties/x"}`, jsS)))
	raw("ref-same-last-segment", jsDoc(jsField(`{"$ref":"#/definitions/S/properties/S"}`, `"S":{"type":"object","properties":{"S":{"type":"integer"}}}`)))
	raw("ref-with-siblings", jsDoc(jsField(`{"$ref":"#/definitions/S","default":{"kind":"s"},"description":"d"}`, jsS)))
	raw("ref-to-defs-2020", `{"$schema":"https://json-schema.org/draft/2020-12/schema","$ref":"#/$defs/Root","$defs":{"Root":{"type":"object","properties":{"f":{"type":"array","prefixItems":[{"type":"string"}],"items":{"type":"integer"}}}}}}`)
	raw("root-is-true", `true`)
	raw("root-is-false", `false`)
	raw("root-is-empty", `{}`)
	raw("root-is-scalar", `{"type":"string"}`)
	raw("root-is-array", `{"type":"array","items":{"type":"string"}}`)
	raw("root-is-enum", `{"enum":["a","b"]}`)
	raw("root-is-oneof", `{"oneOf":[{"type":"string"},{"type":"integer"}]}`)
	raw("root-is-struct-no-defs", `{"type":"object","properties":{"a":{"type":"string"}}}`)
	raw("root-only-definitions", `{"definitions":{"A":{"type":"string"}}}`)
	raw("root-ref-with-slash-name", `{"$ref":"#/definitions/a~1b","definitions":{"a/b":{"type":"object","properties":{"f":{"type":"string"}}}}}`)
	raw("root-ref-percent-name", `{"$ref":"#/definitions/a%20b","definitions":{"a b":{"type":"object","properties":{"f":{"type":"string"}}}}}`)
	raw("definition-name-empty", `{"$ref":"#/definitions/","definitions":{"":{"type":"object","properties":{"f":{"type":"string"}}}}}`)
	raw("definition-names-odd", jsDoc(jsField(`{"$ref":"#/definitions/a-b"}`, `"a-b":{"type":"object","properties":{"x":{"$ref":"#/definitions/1"}}}`, `"1":{"type":"string"}`)))
	raw("definition-names-differ-in-case", jsDoc(jsRoot(`{"type":"object","properties":{"a":{"$ref":"#/definitions/thing"},"b":{"$ref":"#/definitions/Thing"}}}`, `"thing":{"type":"object","properties":{"x":{"type":"string"}}}`, `"Thing":{"type":"object","properties":{"y":{"type":"string"}}}`)))
	raw("definition-named-like-builtin", jsDoc(jsRoot(`{"type":"object","properties":{"a":{"$ref":"#/definitions/string"},"b":{"$ref":"#/definitions/Builder"},"c":{"$ref":"#/definitions/any"}}}`, `"string":{"type":"object","properties":{"x":{"type":"string"}}}`, `"Builder":{"type":"object","properties":{"x":{"type":"string"}}}`, `"any":{"type":"integer"}`)))

	// property names
	both("property-name-empty", `{"type":"object","properties":{"":{"type":"string"}}}`)
	both("property-name-empty-required", `{"type":"object","properties":{"":{"type":"string"}},"required":[""]}`)
	both("property-names-duplicate", `{"type":"object","properties":{"a":{"type":"string"},"a":{"type":"integer"}}}`)
	both("property-names-odd", `{"type":"object","properties":{"a-b":{"type":"string"},"1":{"type":"string"},"type":{"type":"string"},"class":{"type":"string"},"é":{"type":"string"},"a b":{"type":"string"},"$ref2":{"type":"string"},"_":{"type":"string"}}}`)
	both("property-names-same-after-sanitising", `{"type":"object","properties":{"a-b":{"type":"string"},"a_b":{"type":"string"},"aB":{"type":"string"},"AB":{"type":"string"}}}`)
	both("property-names-differ-in-case", `{"type":"object","properties":{"a":{"type":"string"},"A":{"type":"integer"}}}`)
	both("required-names-missing-property", `{"type":"object","properties":{"a":{"type":"string"}},"required":["zz"]}`)
	both("required-without-properties", `{"type":"object","required":["zz"]}`)
	both("property-true-false", `{"type":"object","properties":{"a":true,"b":false}}`)
	both("property-anonymous-struct-with-enum", `{"type":"object","properties":{"a":{"type":"object","properties":{"e":{"enum":["x"]}}},"b":{"type":"object","properties":{"e":{"enum":["y"]}}}}}`)
	both("property-empty-anonymous-struct", `{"type":"object","properties":{"a":{"type":"object","properties":{}}}}`)

	// additionalProperties / patternProperties
	for _, ap := range []struct{ name, v string }{{"false", `false`}, {"true", `true`}, {"empty", `{}`}, {"string", `{"type":"string"}`}, {"ref", `{"$ref":"#/definitions/S"}`}, {"nested", `{"type":"object","additionalProperties":false}`}} {
		both("additional-properties-"+ap.name+"-without-properties", `{"type":"object","additionalProperties":`+ap.v+`}`, jsS)
		both("additional-properties-"+ap.name+"-with-properties", `{"type":"object","properties":{"a":{"type":"string"}},"additionalProperties":`+ap.v+`}`, jsS)
		both("additional-properties-"+ap.name+"-no-type", `{"additionalProperties":`+ap.v+`}`, jsS)
		both("additional-properties-"+ap.name+"-empty-properties", `{"type":"object","properties":{},"additionalProperties":`+ap.v+`}`, jsS)
	}
	both("pattern-properties-only", `{"type":"object","patternProperties":{"^x":{"type":"string"}}}`)
	both("pattern-properties-no-type", `{"patternProperties":{"^x":{"type":"string"}}}`)
	both("pattern-properties-with-properties", `{"type":"object","properties":{"a":{"type":"string"}},"patternProperties":{"^x":{"type":"string"}}}`)
	both("pattern-properties-and-additional-false", `{"type":"object","patternProperties":{"^x":{"type":"string"}},"additionalProperties":false}`)
	both("pattern-properties-and-additional-schema", `{"patternProperties":{"^x":{"type":"string"}},"additionalProperties":{"type":"integer"}}`)
	both("property-names-keyword", `{"type":"object","propertyNames":{"pattern":"^x"}}`)
	both("object-without-anything", `{"type":"object"}`)
	both("object-min-properties", `{"type":"object","minProperties":1}`)

	// type lists
	for _, tl := range []struct{ name, v string }{
		{"empty", `[]`}, {"one", `["string"]`}, {"string-null", `["string","null"]`}, {"null-string", `["null","string"]`}, {"object-null", `["object","null"]`},
		{"array-string", `["array","string"]`}, {"object-string", `["object","string"]`}, {"three", `["string","integer","null"]`},
		{"all", `["string","integer","number","boolean","null","array","object"]`}, {"null-only", `["null"]`}, {"dup", `["string","string"]`},
	} {
		both("type-list-"+tl.name, `{"type":`+tl.v+`}`)
	}
	both("type-list-with-default", `{"type":["string","null"],"default":"x"}`)
	both("type-list-with-enum", `{"type":["string","null"],"enum":["a",null]}`)
	both("type-list-with-properties", `{"type":["object","null"],"properties":{"a":{"type":"string"}}}`)
	both("type-list-with-items", `{"type":["array","null"],"items":{"type":"string"}}`)
	both("type-list-with-const", `{"type":["string","integer"],"const":"k"}`)

	// constants
	for _, c := range []struct{ name, v string }{{"string", `"k"`}, {"int", `7`}, {"float", `1.5`}, {"bool", `true`}, {"null", `null`}, {"object", `{"a":1}`}, {"array", `[1]`}, {"empty-string", `""`}, {"bigint", `9223372036854775808`}, {"bigfloat", `1e400`}, {"negzero", `-0`}, {"exp", `1e2`}} {
		both("const-"+c.name+"-untyped", `{"const":`+c.v+`}`)
	}
	both("const-string-typed", `{"type":"string","const":"k"}`)
	both("const-int-typed", `{"type":"integer","const":7}`)
	both("const-float-on-integer", `{"type":"integer","const":1.5}`)
	both("const-int-on-number", `{"type":"number","const":7}`)
	both("const-int-on-string", `{"type":"string","const":3}`)
	both("const-string-on-integer", `{"type":"integer","const":"k"}`)
	both("const-string-on-boolean", `{"type":"boolean","const":"k"}`)
	both("const-null-on-string", `{"type":"string","const":null}`)
	both("const-object-on-object", `{"type":"object","const":{"a":1}}`)
	both("const-array-on-array", `{"type":"array","const":[1]}`)
	both("const-with-default", `{"type":"string","const":"k","default":"other"}`)
	both("const-pattern", `{"type":"string","pattern":"^math$"}`)
	both("const-pattern-and-const", `{"type":"string","pattern":"^math$","const":"other"}`)
	both("pattern-on-integer", `{"type":"integer","pattern":"^math$"}`)
	both("pattern-empty-constant", `{"type":"string","pattern":"^$"}`)
	both("pattern-escaped", `{"type":"string","pattern":"^a\\.b$"}`)

	// scalars with unusual facets
	both("string-negative-length", `{"type":"string","minLength":0,"maxLength":0}`)
	both("string-huge-length", `{"type":"string","maxLength":9223372036854775807}`)
	both("integer-huge-bounds", `{"type":"integer","minimum":-1e400,"maximum":1e400}`)
	both("integer-float-bounds", `{"type":"integer","minimum":0.5,"exclusiveMaximum":2.5}`)
	both("integer-all-bounds", `{"type":"integer","minimum":1,"exclusiveMinimum":0,"maximum":5,"exclusiveMaximum":6,"multipleOf":2}`)
	both("number-bigint-bounds", `{"type":"number","minimum":18446744073709551616}`)
	both("format-datetime-on-integer", `{"type":"integer","format":"date-time"}`)
	both("format-datetime-with-default", `{"type":"string","format":"date-time","default":"not a date"}`)
	both("format-unknown", `{"type":"string","format":"zz"}`)
	both("not-keyword", `{"not":{"type":"string"}}`)
	both("if-then-else", `{"if":{"type":"string"},"then":{"minLength":1},"else":{"type":"integer"}}`)
	both("description-odd", `{"type":"string","description":"*/ --> \"\"\" \\ \n ${x} {{ . }} <?php"}`)
	both("title-and-comment", `{"type":"object","title":"*/","$comment":"c","properties":{"a":{"type":"string","description":"line1\nline2\r\n*/"}}}`)
	both("unknown-type-keyword", `{"type":"float"}`)
	both("nullable-everything", `{"oneOf":[{"type":"object","properties":{"a":{"oneOf":[{"type":"array","items":{"oneOf":[{"type":"string"},{"type":"null"}]}},{"type":"null"}]}}},{"type":"null"}]}`)
	both("deep-arrays", strings.Repeat(`{"type":"array","items":`, 12)+`{"type":"string"}`+strings.Repeat(`}`, 12))
	both("deep-maps", strings.Repeat(`{"type":"object","additionalProperties":`, 12)+`{"type":"string"}`+strings.Repeat(`}`, 12))
	both("deep-structs", strings.Repeat(`{"type":"object","properties":{"a":`, 8)+`{"type":"string"}`+strings.Repeat(`}}`, 8))
	both("map-of-enum", `{"type":"object","additionalProperties":{"enum":["a","b"]}}`)
	both("map-of-anonymous-struct", `{"type":"object","additionalProperties":{"type":"object","properties":{"a":{"type":"string"}}}}`)
	both("array-of-anonymous-struct", `{"type":"array","items":{"type":"object","properties":{"a":{"type":"string"}}}}`)
	return out
}

func openAPIShapes() []Shape {
	var out []Shape
	add := func(name, schemas string) {
		out = append(out, Shape{Format: "openapi", Name: name, Doc: oaDoc(schemas)})
	}
	raw := func(name, doc string, extra map[string]string) {
		out = append(out, Shape{Format: "openapi", Name: name, Doc: doc, Extra: extra})
	}
	field := func(t string, more ...string) string {
		return strings.Join(append([]string{`"Root":{"type":"object","properties":{"f":` + t + `}}`}, more...), ",")
	}
	root := func(t string, more ...string) string {
		return strings.Join(append([]string{`"Root":` + t}, more...), ",")
	}
	both := func(name, t string, more ...string) {
		add(name+"/field", field(t, more...))
		add(name+"/root", root(t, more...))
	}

	both("enum-no-type", `{"enum":["a","b"]}`)
	both("enum-no-type-ints", `{"enum":[1,2]}`)
	both("enum-empty", `{"type":"string","enum":[]}`)
	both("enum-empty-no-type", `{"enum":[]}`)
	both("enum-mixed", `{"type":"string","enum":["a",1,null,true]}`)
	both("enum-empty-string-and-duplicates", `{"type":"string","enum":["","a","a"]}`)
	both("enum-integer", `{"type":"integer","enum":[1,2]}`)
	both("enum-number", `{"type":"number","enum":[1.5,2.5]}`)
	both("enum-boolean", `{"type":"boolean","enum":[true]}`)
	both("enum-object-type", `{"type":"object","enum":[{"a":1}]}`)
	both("enum-array-type", `{"type":"array","items":{"type":"string"},"enum":[["a"]]}`)
	both("enum-nullable", `{"type":"string","enum":["a","b",null],"nullable":true}`)
	both("enum-with-default", `{"type":"string","enum":["a","b"],"default":"b"}`)
	both("enum-with-default-not-member", `{"type":"string","enum":["a","b"],"default":3}`)
	both("enum-members-same-after-sanitising", `{"type":"string","enum":["a-b","a_b","a b"]}`)
	both("enum-numeric-strings", `{"type":"string","enum":["1","-2","1.5"]}`)
	both("enum-type-mismatch", `{"type":"integer","enum":["a","b"]}`)

	both("array-without-items", `{"type":"array"}`)
	both("array-items-empty", `{"type":"array","items":{}}`)
	both("array-items-ref", `{"type":"array","items":{"$ref":"#/components/schemas/S"}}`, oaS)
	both("array-nullable-with-default", `{"type":"array","items":{"type":"string"},"nullable":true,"default":["a"]}`)
	both("array-of-oneof", `{"type":"array","items":{"oneOf":[{"type":"string"},{"type":"integer"}]}}`)

	types := []struct{ name, t string }{
		{"string", `"type":"string"`}, {"integer", `"type":"integer"`}, {"int32", `"type":"integer","format":"int32"`}, {"number", `"type":"number"`}, {"double", `"type":"number","format":"double"`}, {"boolean", `"type":"boolean"`},
		{"array", `"type":"array","items":{"type":"string"}`}, {"struct", `"type":"object","properties":{"a":{"type":"string"}}`}, {"map", `"type":"object","additionalProperties":{"type":"string"}`},
		{"enum", `"type":"string","enum":["a","b"]`}, {"any", ``}, {"oneof", `"oneOf":[{"type":"string"},{"type":"integer"}]`}, {"allof", `"allOf":[{"$ref":"#/components/schemas/S"}]`},
		{"datetime", `"type":"string","format":"date-time"`}, {"byte", `"type":"string","format":"byte"`},
	}
	for _, ty := range types {
		for _, d := range jsonDefaults {
			body := ty.t
			if body != "" {
				body += ","
			}
			add("default-"+d.name+"-on-"+ty.name, field(`{`+body+`"default":`+d.v+`}`, oaS))
		}
	}

	both("allof-one-ref", `{"allOf":[{"$ref":"#/components/schemas/S"}]}`, oaS)
	both("allof-ref-and-struct", `{"allOf":[{"$ref":"#/components/schemas/S"},{"type":"object","properties":{"z":{"type":"string"}}}]}`, oaS)
	both("allof-scalars", `{"allOf":[{"type":"string"},{"minLength":1}]}`)
	both("allof-empty", `{"allOf":[]}`)
	both("allof-ref-enum", `{"allOf":[{"$ref":"#/components/schemas/E"}]}`, oaE)
	both("allof-ref-and-scalar", `{"allOf":[{"$ref":"#/components/schemas/S"},{"type":"string"}]}`, oaS)
	both("allof-nullable", `{"allOf":[{"$ref":"#/components/schemas/S"}],"nullable":true}`, oaS)
	both("allof-with-oneof", `{"allOf":[{"oneOf":[{"$ref":"#/components/schemas/S"},{"$ref":"#/components/schemas/T"}]}]}`, oaS, oaT)

	disc := func(name, discriminator string, more ...string) {
		both("oneof-"+name, `{"oneOf":[{"$ref":"#/components/schemas/S"},{"$ref":"#/components/schemas/T"}]`+discriminator+`}`, append([]string{oaS, oaT}, more...)...)
		add("anyof-"+name+"/field", field(`{"anyOf":[{"$ref":"#/components/schemas/S"},{"$ref":"#/components/schemas/T"}]`+discriminator+`}`, append([]string{oaS, oaT}, more...)...))
	}
	disc("no-discriminator", ``)
	disc("discriminator", `,"discriminator":{"propertyName":"kind"}`)
	disc("discriminator-missing-property", `,"discriminator":{"propertyName":"nope"}`)
	disc("discriminator-empty-property", `,"discriminator":{"propertyName":""}`)
	disc("discriminator-mapping", `,"discriminator":{"propertyName":"kind","mapping":{"s":"#/components/schemas/S","t":"#/components/schemas/T"}}`)
	disc("discriminator-mapping-short-names", `,"discriminator":{"propertyName":"kind","mapping":{"s":"S","t":"T"}}`)
	disc("discriminator-mapping-to-nowhere", `,"discriminator":{"propertyName":"kind","mapping":{"s":"#/components/schemas/Missing"}}`)
	disc("discriminator-mapping-partial", `,"discriminator":{"propertyName":"kind","mapping":{"s":"#/components/schemas/S"}}`)
	disc("discriminator-mapping-empty-value", `,"discriminator":{"propertyName":"kind","mapping":{"":""}}`)
	disc("discriminator-mapping-to-scalar", `,"discriminator":{"propertyName":"kind","mapping":{"s":"#/components/schemas/Count"}}`, `"Count":{"type":"integer"}`)
	s2 := `"S":{"type":"object","properties":{"kind":{"type":"integer","enum":[1]},"x":{"type":"string"}}}`
	t2 := `"T":{"type":"object","properties":{"kind":{"type":"integer","enum":[2]},"y":{"type":"integer"}}}`
	both("oneof-discriminator-int", `{"oneOf":[{"$ref":"#/components/schemas/S"},{"$ref":"#/components/schemas/T"}],"discriminator":{"propertyName":"kind"}}`, s2, t2)
	s3 := `"S":{"type":"object","properties":{"kind":{"type":"string"},"x":{"type":"string"}}}`
	t3 := `"T":{"type":"object","properties":{"kind":{"type":"string"},"y":{"type":"integer"}}}`
	both("oneof-discriminator-not-constant", `{"oneOf":[{"$ref":"#/components/schemas/S"},{"$ref":"#/components/schemas/T"}],"discriminator":{"propertyName":"kind"}}`, s3, t3)
	both("oneof-discriminator-on-scalars", `{"oneOf":[{"type":"string"},{"type":"integer"}],"discriminator":{"propertyName":"kind"}}`)
	both("oneof-discriminator-on-anonymous-structs", `{"oneOf":[{"type":"object","properties":{"kind":{"type":"string","enum":["a"]}}},{"type":"object","properties":{"kind":{"type":"string","enum":["b"]}}}],"discriminator":{"propertyName":"kind"}}`)
	both("oneof-struct-or-scalar-alias", `{"oneOf":[{"$ref":"#/components/schemas/S"},{"$ref":"#/components/schemas/Count"}]}`, oaS, `"Count":{"type":"integer"}`)
	both("oneof-struct-or-scalar-alias-discriminator", `{"oneOf":[{"$ref":"#/components/schemas/S"},{"$ref":"#/components/schemas/Count"}],"discriminator":{"propertyName":"kind"}}`, oaS, `"Count":{"type":"integer"}`)
	both("oneof-struct-or-enum-discriminator", `{"oneOf":[{"$ref":"#/components/schemas/S"},{"$ref":"#/components/schemas/E"}],"discriminator":{"propertyName":"kind"}}`, oaS, oaE)
	both("oneof-empty", `{"oneOf":[]}`)
	both("oneof-single", `{"oneOf":[{"$ref":"#/components/schemas/S"}]}`, oaS)
	both("oneof-single-nullable", `{"oneOf":[{"$ref":"#/components/schemas/S"}],"nullable":true}`, oaS)
	both("oneof-nullable-scalars", `{"oneOf":[{"type":"string"},{"type":"integer"}],"nullable":true}`)
	both("oneof-nested", `{"oneOf":[{"oneOf":[{"type":"string"},{"type":"integer"}]},{"type":"boolean"}]}`)
	both("oneof-with-default", `{"oneOf":[{"type":"string"},{"type":"integer"}],"default":3}`)

	add("alias-cycle-2", root(`{"$ref":"#/components/schemas/B"}`, `"B":{"$ref":"#/components/schemas/Root"}`))
	add("alias-cycle-2-in-field", field(`{"$ref":"#/components/schemas/A"}`, `"A":{"$ref":"#/components/schemas/B"}`, `"B":{"$ref":"#/components/schemas/A"}`))
	add("alias-self", root(`{"$ref":"#/components/schemas/Root"}`))
	add("cycle-through-array", root(`{"type":"array","items":{"$ref":"#/components/schemas/Root"}}`))
	add("cycle-through-allof", root(`{"allOf":[{"$ref":"#/components/schemas/Root"}]}`))
	add("cycle-through-oneof", root(`{"oneOf":[{"$ref":"#/components/schemas/Root"},{"type":"string"}]}`))
	add("cycle-through-required-field", root(`{"type":"object","properties":{"next":{"$ref":"#/components/schemas/Root"}},"required":["next"]}`))
	for _, rec := range []struct{ name, defs string }{
		{"array-self", `"A":{"type":"array","items":{"$ref":"#/components/schemas/A"}}`},
		{"map-self", `"A":{"type":"object","additionalProperties":{"$ref":"#/components/schemas/A"}}`},
		{"array-2", `"A":{"type":"array","items":{"$ref":"#/components/schemas/B"}},"B":{"type":"array","items":{"$ref":"#/components/schemas/A"}}`},
		{"array-map", `"A":{"type":"array","items":{"$ref":"#/components/schemas/B"}},"B":{"type":"object","additionalProperties":{"$ref":"#/components/schemas/A"}}`},
	} {
		add("recursive-alias-"+rec.name+"/field", field(`{"$ref":"#/components/schemas/A"}`, rec.defs))
		add("recursive-alias-"+rec.name+"/required-field", root(`{"type":"object","properties":{"f":{"$ref":"#/components/schemas/A"}},"required":["f"]}`, rec.defs))
		add("recursive-alias-"+rec.name+"/array-field", field(`{"type":"array","items":{"$ref":"#/components/schemas/A"}}`, rec.defs))
		add("recursive-alias-"+rec.name+"/map-field", field(`{"type":"object","additionalProperties":{"$ref":"#/components/schemas/A"}}`, rec.defs))
	}
	add("alias-chain", field(`{"$ref":"#/components/schemas/A1"}`, `"A1":{"$ref":"#/components/schemas/A2"}`, `"A2":{"$ref":"#/components/schemas/S"}`, oaS))
	add("ref-to-nowhere", field(`{"$ref":"#/components/schemas/Missing"}`))
	add("ref-empty", field(`{"$ref":""}`))
	add("ref-to-property", field(`{"$ref":"#/components/schemas/S/properties/x"}`, oaS))
	add("ref-nullable-sibling", field(`{"$ref":"#/components/schemas/S","nullable":true}`, oaS))
	add("ref-nullable-via-allof", field(`{"allOf":[{"$ref":"#/components/schemas/S"}],"nullable":true,"default":{"kind":"s"}}`, oaS))
	add("ref-nullable-via-oneof", field(`{"oneOf":[{"$ref":"#/components/schemas/S"}],"nullable":true}`, oaS))
	ext := map[string]string{"other.json": oaDoc(`"X":{"type":"object","properties":{"a":{"type":"string"},"y":{"$ref":"#/components/schemas/Y"}}},"Y":{"type":"string","enum":["a"]}`)}
	raw("ref-external-file", oaDoc(field(`{"$ref":"other.json#/components/schemas/X"}`)), ext)
	raw("ref-external-file-missing", oaDoc(field(`{"$ref":"missing.json#/components/schemas/X"}`)), nil)
	raw("ref-external-file-missing-object", oaDoc(field(`{"$ref":"other.json#/components/schemas/Nope"}`)), ext)
	raw("ref-external-in-oneof-discriminator", oaDoc(field(`{"oneOf":[{"$ref":"other.json#/components/schemas/X"},{"$ref":"#/components/schemas/S"}],"discriminator":{"propertyName":"kind","mapping":{"x":"other.json#/components/schemas/X"}}}`, oaS)), ext)
	raw("ref-external-yml", oaDoc(field(`{"$ref":"dir/other.yml#/components/schemas/X"}`)), map[string]string{"dir/other.yml": "openapi: 3.0.0\ninfo: {title: t, version: '1'}\npaths: {}\ncomponents:\n  schemas:\n    X: {type: string}\n"})
	raw("ref-external-whole-file", oaDoc(field(`{"$ref":"frag.json"}`)), map[string]string{"frag.json": `{"type":"object","properties":{"a":{"type":"string"}}}`})
	raw("no-components", `{"openapi":"3.0.0","info":{"title":"t","version":"1"},"paths":{}}`, nil)
	raw("empty-schemas", oaDoc(``), nil)
	raw("components-null", `{"openapi":"3.0.0","info":{"title":"t","version":"1"},"paths":{},"components":null}`, nil)
	raw("openapi-3.1-type-list", `{"openapi":"3.1.0","info":{"title":"t","version":"1"},"paths":{},"components":{"schemas":{"Root":{"type":["string","null"]}}}}`, nil)
	raw("openapi-3.1-type-list-empty", `{"openapi":"3.1.0","info":{"title":"t","version":"1"},"paths":{},"components":{"schemas":{"Root":{"type":[]}}}}`, nil)
	raw("openapi-3.1-enum-type-list", `{"openapi":"3.1.0","info":{"title":"t","version":"1"},"paths":{},"components":{"schemas":{"Root":{"type":["string","integer"],"enum":["a",1]}}}}`, nil)
	raw("swagger-2", `{"swagger":"2.0","info":{"title":"t","version":"1"},"paths":{},"definitions":{"Root":{"type":"string"}}}`, nil)
	raw("yaml-document", "openapi: 3.0.0\ninfo: {title: t, version: '1'}\npaths: {}\ncomponents:\n  schemas:\n    Root:\n      type: object\n      properties:\n        f: {type: string, default: 3}\n", nil)
	raw("schema-name-empty", oaDoc(`"":{"type":"object","properties":{"f":{"type":"string"}}}`), nil)
	raw("schema-names-odd", oaDoc(`"a-b":{"type":"object","properties":{"x":{"$ref":"#/components/schemas/1"}}},"1":{"type":"string"},"a.b":{"type":"integer"}`), nil)
	raw("schema-names-differ-in-case", oaDoc(`"thing":{"type":"object","properties":{"x":{"type":"string"}}},"Thing":{"type":"object","properties":{"y":{"$ref":"#/components/schemas/thing"}}}`), nil)

	both("property-name-empty", `{"type":"object","properties":{"":{"type":"string"}}}`)
	both("property-names-odd", `{"type":"object","properties":{"a-b":{"type":"string"},"1":{"type":"string"},"type":{"type":"string"},"class":{"type":"string"},"a b":{"type":"string"}}}`)
	both("property-names-same-after-sanitising", `{"type":"object","properties":{"a-b":{"type":"string"},"a_b":{"type":"string"},"aB":{"type":"string"}}}`)
	both("required-names-missing-property", `{"type":"object","properties":{"a":{"type":"string"}},"required":["zz"]}`)
	for _, ap := range []struct{ name, v string }{{"false", `false`}, {"true", `true`}, {"empty", `{}`}, {"string", `{"type":"string"}`}, {"ref", `{"$ref":"#/components/schemas/S"}`}} {
		both("additional-properties-"+ap.name+"-without-properties", `{"type":"object","additionalProperties":`+ap.v+`}`, oaS)
		both("additional-properties-"+ap.name+"-with-properties", `{"type":"object","properties":{"a":{"type":"string"}},"additionalProperties":`+ap.v+`}`, oaS)
		both("additional-properties-"+ap.name+"-no-type", `{"additionalProperties":`+ap.v+`}`, oaS)
	}
	both("object-without-anything", `{"type":"object"}`)
	both("object-nullable", `{"type":"object","properties":{"a":{"type":"string"}},"nullable":true}`)
	both("no-type-with-properties", `{"properties":{"a":{"type":"string"}}}`)
	both("no-type-with-items", `{"items":{"type":"string"}}`)
	both("not-keyword", `{"not":{"type":"string"}}`)
	both("unknown-type", `{"type":"float"}`)
	both("unknown-format", `{"type":"integer","format":"uint128"}`)
	both("string-pattern-constant", `{"type":"string","pattern":"^math$"}`)
	both("string-all-constraints", `{"type":"string","minLength":1,"maxLength":3,"pattern":"^a"}`)
	both("integer-all-constraints", `{"type":"integer","minimum":0,"maximum":5,"exclusiveMinimum":true,"exclusiveMaximum":true,"multipleOf":2}`)
	both("number-huge-bounds", `{"type":"number","minimum":-1e308,"maximum":1e308}`)
	both("nullable-scalars", `{"type":"object","properties":{"a":{"type":"string","nullable":true},"b":{"type":"integer","nullable":true},"c":{"type":"boolean","nullable":true},"d":{"type":"number","nullable":true}}}`)
	both("read-write-only", `{"type":"object","properties":{"a":{"type":"string","readOnly":true},"b":{"type":"string","writeOnly":true,"deprecated":true}}}`)
	both("description-odd", `{"type":"string","description":"*/ --> \"\"\" \\ \n ${x} {{ . }}"}`)
	both("deep-arrays", strings.Repeat(`{"type":"array","items":`, 12)+`{"type":"string"}`+strings.Repeat(`}`, 12))
	both("map-of-enum", `{"type":"object","additionalProperties":{"type":"string","enum":["a","b"]}}`)
	return out
}

func cueShapes() []Shape {
	var out []Shape
	add := func(name, body string) { out = append(out, Shape{Format: "cue", Name: name, Doc: cueDoc(body)}) }
	raw := func(name, doc string) { out = append(out, Shape{Format: "cue", Name: name, Doc: doc}) }
	const S = "S: {kind: \"s\", x?: string}\nT: {kind: \"t\", y?: int64}\nE: \"a\" | \"b\"\n"
	both := func(name, t string, more ...string) {
		add(name+"/field", "Root: {f: "+t+"}\n"+strings.Join(more, "\n"))
		add(name+"/optfield", "Root: {f?: "+t+"}\n"+strings.Join(more, "\n"))
		add(name+"/root", "Root: "+t+"\n"+strings.Join(more, "\n"))
	}
	both("selector-into-struct", `S.x`, S)
	both("selector-into-definition", `#D.x`, "#D: {x: string}")
	both("selector-index", `L[0]`, `L: ["a", "b"]`)
	both("selector-missing", `S.nope`, S)
	both("closed-list", `[string, int]`)
	both("closed-list-one", `[string]`)
	both("closed-list-empty", `[]`)
	both("closed-list-with-tail", `[string, ...int]`)
	both("open-list-any", `[...]`)
	both("open-list-top", `[..._]`)
	both("list-of-disjunction", `[...(string | int)]`)
	both("list-of-struct", `[...{a: string}]`)
	both("list-of-list", `[...[...string]]`)
	both("list-default", `[...string] | *["a"]`)
	both("list-default-empty", `[...string] | *[]`)
	both("list-concrete", `["a", "b"]`)
	both("list-concrete-mixed", `["a", 1, true, null]`)
	both("list-constrained-length", `[...string] & list.MinItems(1)`, "")
	add("list-constrained-length-import", "import \"list\"\n\nRoot: {f: [...string] & list.MinItems(1)}")
	add("time-Time", "import \"time\"\n\nRoot: {f: time.Time, g?: time.Duration, h: string & time.Time}")
	add("time-Format", "import \"time\"\n\nRoot: {f: time.Format(\"2006-01-02\")}")
	add("strings-constraints", "import \"strings\"\n\nRoot: {f: strings.MinRunes(1) & strings.MaxRunes(3), g: string & strings.MinRunes(1), h: strings.HasPrefix(\"a\")}")
	add("regex-constraint", "Root: {f: =~\"^a\", g: string & =~\"^math$\", h: !~\"x\"}")
	both("disjunction-default-scalar", `string | *"x"`)
	both("disjunction-default-int", `int | *3`)
	both("disjunction-default-not-member", `"a" | "b" | *"c"`)
	both("disjunction-two-defaults", `*"a" | *"b" | string`)
	both("disjunction-default-struct", `{a: string} | *{a: "x"}`)
	both("disjunction-default-null", `string | *null`)
	both("disjunction-default-list", `[...string] | *["a", "b"]`)
	both("disjunction-default-ref", `S | *{kind: "s"}`, S)
	both("disjunction-scalars", `string | int | bool`)
	both("disjunction-with-null", `string | null`)
	both("disjunction-only-null", `null`)
	both("disjunction-null-null", `null | null`)
	both("disjunction-refs", `S | T`, S)
	both("disjunction-refs-null", `S | T | null`, S)
	both("disjunction-ref-scalar-alias", `S | Count`, S, "Count: int64")
	both("disjunction-ref-enum", `S | E`, S)
	both("disjunction-ref-string", `S | string`, S)
	both("disjunction-structs", `{a: string} | {b: int}`)
	both("disjunction-nested", `(string | int) | (bool | null)`)
	both("disjunction-same-twice", `string | string`)
	both("disjunction-constants-mixed", `"a" | 1`)
	both("disjunction-constants-int", `1 | 2 | 3`)
	both("disjunction-constants-int-enum-attr", `1 | 2 @cog(kind="enum",memberNames="one|two")`)
	both("disjunction-enum-attr-too-few-names", `1 | 2 | 3 @cog(kind="enum",memberNames="one|two")`)
	both("disjunction-enum-attr-no-names", `1 | 2 @cog(kind="enum")`)
	both("disjunction-enum-attr-empty-names", `1 | 2 @cog(kind="enum",memberNames="")`)
	both("disjunction-enum-attr-on-strings", `"a" | "b" @cog(kind="enum",memberNames="x|y|z")`)
	both("disjunction-enum-attr-on-scalar", `string @cog(kind="enum",memberNames="x")`)
	both("attr-unknown-kind", `string @cog(kind="zz")`)
	both("attr-empty", `string @cog()`)
	both("attr-malformed", `string @cog(kind=,=,)`)
	both("attr-other", `string @grafana(TSVeneer="type") @cuetsy(kind="enum")`)
	both("enum-string-default", `"a" | *"b"`)
	both("enum-empty-string-member", `"" | "a"`)
	both("enum-duplicate-members", `"a" | "a"`)
	both("enum-same-after-sanitising", `"a-b" | "a_b" | "a b"`)
	both("enum-numeric-strings", `"1" | "-2" | "1.5"`)
	both("enum-one-member", `"a"`)
	both("enum-floats", `1.5 | 2.5`)
	both("enum-bools", `true | false`)
	both("enum-bytes", `'a' | 'b'`)
	both("const-all", `{a: "k", b: 7, c: 1.5, d: true, e: null, f: 'b', g: {x: 1}, h: [1]}`)
	both("const-ref-to-enum-member", `E & "a"`, S)
	both("const-ref-not-member", `E & "zz"`, S)
	both("const-ref-to-scalar", `A & "a"`, "A: string")
	both("bottom", `_|_`)
	both("bottom-from-conflict", `string & int`)
	both("top", `_`)
	both("top-struct", `{...}`)
	both("empty-struct", `{}`)
	both("struct-open", `{a: string, ...}`)
	both("struct-pattern-constraint", `{[string]: int}`)
	both("struct-pattern-regex", `{[=~"^x"]: int}`)
	both("struct-pattern-and-fields", `{a: string, [string]: string}`)
	both("struct-pattern-of-ref", `{[string]: S}`, S)
	both("struct-pattern-enum-key", `{[E]: string}`, S)
	both("struct-hidden-field", `{_a: string, b: string}`)
	both("struct-definition-field", `{#D: string, b: #D}`)
	both("struct-quoted-names", `{"a-b": string, "1": int, "": bool, "type": string, "class": string}`)
	both("struct-same-after-sanitising", `{"a-b": string, a_b: string, aB: string}`)
	both("struct-required-marker", `{a!: string, b?: int}`)
	both("struct-embedding", `{S, z: string}`, S)
	both("struct-unification", `S & {z: string}`, S)
	both("struct-unification-refs", `S & T2`, S, "T2: {z: int}")
	both("struct-comprehension", `{for k, v in {a: 1} {"\(k)": v}}`)
	both("struct-let", `{let x = 3, a: x}`)
	both("struct-if", `{a: int, if a > 0 {b: string}}`)
	both("struct-nested-deep", strings.Repeat("{a: ", 8)+"string"+strings.Repeat("}", 8))
	add("nested-definitions", "#A: {#B: {c: string}, b: #B}\nRoot: {f: #A, g: #A.#B}")
	add("definition-root", "#Root: {f: string}")
	add("only-hidden", "_x: string")
	add("alias-cycle-2", "Root: B\nB: Root")
	add("alias-self", "Root: Root")
	add("alias-cycle-in-field", "Root: {f: A}\nA: B\nB: A")
	add("recursive-struct", "Root: {next?: Root}")
	add("recursive-struct-required", "Root: {next: Root}")
	add("recursive-list", "Root: {children: [...Root]}")
	add("recursive-disjunction", "Root: string | [...Root]")
	add("recursive-map", "Root: {[string]: Root}")
	for _, rec := range []struct{ name, defs string }{
		{"array-self", "A: [...A]"},
		{"map-self", "A: {[string]: A}"},
		{"array-2", "A: [...B]\nB: [...A]"},
		{"array-map", "A: [...B]\nB: {[string]: A}"},
	} {
		add("recursive-alias-"+rec.name+"/field", "Root: {f: A}\n"+rec.defs)
		add("recursive-alias-"+rec.name+"/optfield", "Root: {f?: A}\n"+rec.defs)
		add("recursive-alias-"+rec.name+"/array-field", "Root: {f: [...A]}\n"+rec.defs)
		add("recursive-alias-"+rec.name+"/map-field", "Root: {f: {[string]: A}}\n"+rec.defs)
	}
	add("ref-to-nowhere", "Root: {f: Missing}")
	add("ref-to-import-unused", "import \"strings\"\n\nRoot: {f: string}")
	add("ref-to-unknown-import", "import \"example.com/nope\"\n\nRoot: {f: nope.X}")
	add("ref-to-builtin-func", "import \"strings\"\n\nRoot: {f: strings.ToUpper(\"a\")}")
	add("alias-chain-with-default", "Root: {f: A1 | *\"b\"}\nA1: A2\nA2: E\n"+S)
	add("ref-with-default-struct", "Root: {f: S | *{kind: \"s\", x: \"d\"}}\n"+S)
	add("ref-nullable", "Root: {f: S | null, g?: null | S, h: *null | S}\n"+S)
	both("numbers-all-kinds", `{a: int8, b: uint8, c: int16, d: uint16, e: int32, f: uint32, g: int64, h: uint64, i: float32, j: float64, k: int, l: float, m: number, n: uint, o: rune, p: bytes}`)
	both("number-bounds", `{a: int64 & >=0 & <5, b: >=0, c: number & <=5, d: >0.5, e: int & !=3, f: uint8 & <300, g: >=1 & <=1}`)
	both("number-bounds-big", `{a: uint64 & <=18446744073709551615, b: int64 & >=-9223372036854775808, c: float64 & <1e400}`)
	both("number-default-out-of-bounds", `int64 & >=0 | *-1`)
	both("number-default-float-on-int", `int64 | *1.5`)
	both("number-default-big", `uint64 | *18446744073709551615`)
	both("string-default-on-int", `int64 | *"x"`)
	both("bool-default", `bool | *true`)
	both("bytes-default", `bytes | *'ab'`)
	both("interpolation", `"a\(1+1)b"`)
	both("arithmetic", `1 + 2`)
	both("multiline-string", "\"\"\"\n\tline1\n\tline2 */\n\t\"\"\"")
	both("comments-odd", "string // */ --> \"\"\" {{ . }}")
	raw("no-package-clause", "Root: {f: string}\n")
	raw("other-package-clause", "package other\n\nRoot: {f: string}\n")
	raw("empty-file", "package p\n")
	raw("only-comment", "package p\n\n// nothing\n")
	raw("top-level-scalar-fields", "package p\n\na: string\nb: 3\nc: [...int]\nd: null\n")
	raw("top-level-embedded-scalar", "package p\n\n\"x\"\n")
	raw("top-level-list", "package p\n\n[1, 2]\n")
	raw("top-level-ellipsis", "package p\n\nRoot: {f: string}\n...\n")
	raw("top-level-quoted-names", "package p\n\n\"a-b\": {f: string}\n\"\": {g: string}\n\"1\": string\n")
	raw("top-level-names-differ-in-case", "package p\n\nthing: {x: string}\nThing: {y: thing}\n")
	raw("top-level-pattern", "package p\n\n[string]: {f: string}\nRoot: {g: int}\n")
	return out
}

// allShapes returns the hand-rendered shapes, sorted by (format, size, name).
func allShapes() []Shape {
	out := append(append(jsonSchemaShapes(), openAPIShapes()...), cueShapes()...)
	out = append(out, structDefaultShapes()...)
	out = append(out, crossPackageShapes()...)
	out = append(out, refGraphShapes()...)
	out = append(out, enumUnionShapes()...)
	seen := map[string]bool{}
	for _, s := range out {
		k := s.Format + "/" + s.Name
		if seen[k] {
			panic(fmt.Sprintf("duplicate shape %s", k))
		}
		seen[k] = true
	}
	rank := map[string]int{"jsonschema": 0, "openapi": 1, "cue": 2}
	sort.SliceStable(out, func(i, j int) bool {
		if rank[out[i].Format] != rank[out[j].Format] {
			return rank[out[i].Format] < rank[out[j].Format]
		}
		if len(out[i].Doc) != len(out[j].Doc) {
			return len(out[i].Doc) < len(out[j].Doc)
		}
		return out[i].Name < out[j].Name
	})
	return out
}
