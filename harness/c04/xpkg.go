//go:build verif

package main

import "strings"

// The "several packages" family: every other document of part (a) is one
// package. Here a run has two inputs, package p referring to the objects of
// package `shared` (OpenAPI: references to another file are references to the
// package named after the file; CUE: imports + cue_imports) from every
// position a reference can take — and `shared` referring back to p. The passes
// and jennies that resolve references inside "the schema being visited"
// instead of across all schemas only show with such inputs.

type xTarget struct{ Name, OA, CUE string }

// the objects of package `shared`
var xTargets = []xTarget{
	{"ID", `{"type":"string"}`, `string`},
	{"Count", `{"type":"integer"}`, `int64`},
	{"Flag", `{"type":"boolean"}`, `bool`},
	{"E", `{"type":"string","enum":["a","b"]}`, `"a" | "b"`},
	{"K", `{"type":"string","enum":["k"]}`, `"k"`},
	{"S", `{"type":"object","properties":{"kind":{"type":"string","enum":["s"]},"k":{"type":"string"}},"required":["kind"]}`, `{kind: "s", k?: string}`},
	{"T", `{"type":"object","properties":{"kind":{"type":"string","enum":["t"]},"y":{"type":"integer"}},"required":["kind"]}`, `{kind: "t", y?: int64}`},
	{"MA", `{"type":"object","additionalProperties":{"type":"string"}}`, `{[string]: string}`},
	{"LA", `{"type":"array","items":{"type":"string"}}`, `[...string]`},
	{"U", `{"oneOf":[{"type":"string"},{"type":"integer"}]}`, `string | int64`},
	{"N", `{"type":"string","nullable":true}`, `string | null`},
	{"Al", `{"$ref":"#/components/schemas/ID"}`, `ID`},
	{"Al2", `{"$ref":"#/components/schemas/Al"}`, `Al`},
	{"AlS", `{"$ref":"#/components/schemas/S"}`, `S`},
	{"Any", `{}`, `_`},
}

func sharedOpenAPI(back bool) string {
	var parts []string
	for _, t := range xTargets {
		parts = append(parts, `"`+t.Name+`":`+t.OA)
	}
	if back {
		// a reference back into p: a cycle of packages
		parts = append(parts, `"Back":{"$ref":"p.json#/components/schemas/Local"}`, `"BackS":{"type":"object","properties":{"up":{"$ref":"p.json#/components/schemas/Root"}}}`)
	}
	return oaDoc(strings.Join(parts, ","))
}

func sharedCUE() string {
	var b strings.Builder
	b.WriteString("package shared\n\n")
	for _, t := range xTargets {
		b.WriteString(t.Name + ": " + t.CUE + "\n")
	}
	return b.String()
}

const (
	xOAInputs  = "  - openapi: {path: '%DIR%/p.json', package: p%NOVALIDATE%}\n  - openapi: {path: '%DIR%/shared.json', package: shared%NOVALIDATE%}\n"
	xOAInputs1 = "  - openapi: {path: '%DIR%/shared.json', package: shared%NOVALIDATE%}\n  - openapi: {path: '%DIR%/p.json', package: p%NOVALIDATE%}\n"
	xCUEInputs = "  - cue: {entrypoint: '%DIR%/p', cue_imports: ['%DIR%/shared:example.com/shared']}\n  - cue: {entrypoint: '%DIR%/shared'}\n"
)

// crossPackageShapes: every target × every position of the reference.
func crossPackageShapes() []Shape {
	var out []Shape
	localOA := `,"Local":{"type":"string"},"LocalInt":{"type":"integer"},"LocalS":{"type":"object","properties":{"kind":{"type":"string","enum":["l"]}},"required":["kind"]}`
	for _, t := range xTargets {
		ref := `{"$ref":"shared.json#/components/schemas/` + t.Name + `"}`
		positions := []struct{ name, oa, cue string }{
			{"field", `"Root":{"type":"object","properties":{"f":` + ref + `}}`, "Root: {f?: shared." + t.Name + "}"},
			{"required-field", `"Root":{"type":"object","required":["f"],"properties":{"f":` + ref + `}}`, "Root: {f: shared." + t.Name + "}"},
			{"alias", `"Root":` + ref, "Root: shared." + t.Name},
			{"array", `"Root":{"type":"object","properties":{"f":{"type":"array","items":` + ref + `}}}`, "Root: {f?: [...shared." + t.Name + "]}"},
			{"map", `"Root":{"type":"object","properties":{"f":{"type":"object","additionalProperties":` + ref + `}}}`, "Root: {f?: {[string]: shared." + t.Name + "}}"},
			{"union-first-with-string", `"Root":{"type":"object","properties":{"f":{"oneOf":[` + ref + `,{"type":"string"}]}}}`, "Root: {f?: shared." + t.Name + " | string}"},
			{"union-second-with-string", `"Root":{"type":"object","properties":{"f":{"oneOf":[{"type":"string"},` + ref + `]}}}`, "Root: {f?: string | shared." + t.Name + "}"},
			{"union-first-with-integer", `"Root":{"type":"object","properties":{"f":{"oneOf":[` + ref + `,{"type":"integer"}]}}}`, "Root: {f?: shared." + t.Name + " | int64}"},
			{"union-first-with-local-alias", `"Root":{"type":"object","properties":{"f":{"oneOf":[` + ref + `,{"$ref":"#/components/schemas/Local"}]}}}`, "Root: {f?: shared." + t.Name + " | Local}\nLocal: string"},
			{"union-second-with-local-alias", `"Root":{"type":"object","properties":{"f":{"oneOf":[{"$ref":"#/components/schemas/LocalInt"},` + ref + `]}}}`, "Root: {f?: LocalInt | shared." + t.Name + "}\nLocalInt: int64"},
			{"union-with-local-struct", `"Root":{"type":"object","properties":{"f":{"oneOf":[` + ref + `,{"$ref":"#/components/schemas/LocalS"}],"discriminator":{"propertyName":"kind"}}}}`, "Root: {f?: shared." + t.Name + " | LocalS}\nLocalS: {kind: \"l\"}"},
			{"union-both-cross", `"Root":{"type":"object","properties":{"f":{"oneOf":[` + ref + `,{"$ref":"shared.json#/components/schemas/ID"}]}}}`, "Root: {f?: shared." + t.Name + " | shared.ID}"},
			{"union-cross-structs", `"Root":{"type":"object","properties":{"f":{"oneOf":[` + ref + `,{"$ref":"shared.json#/components/schemas/T"}],"discriminator":{"propertyName":"kind","mapping":{"x":"shared.json#/components/schemas/` + t.Name + `"}}}}}`, "Root: {f?: shared." + t.Name + " | shared.T}"},
			{"union-named", `"Root":{"type":"object","properties":{"f":{"$ref":"#/components/schemas/Un"}}},"Un":{"oneOf":[` + ref + `,{"type":"string"}]}`, "Root: {f?: Un}\nUn: shared." + t.Name + " | string"},
			{"nullable", `"Root":{"type":"object","properties":{"f":{"allOf":[` + ref + `],"nullable":true}}}`, "Root: {f?: shared." + t.Name + " | null}"},
			{"allof", `"Root":{"allOf":[` + ref + `,{"type":"object","properties":{"z":{"type":"string"}}}]}`, "Root: shared." + t.Name + " & {z?: string}"},
			{"default", `"Root":{"type":"object","properties":{"f":{"allOf":[` + ref + `],"default":"a"}}}`, "Root: {f?: shared." + t.Name + " | *\"a\"}"},
			{"default-map", `"Root":{"type":"object","properties":{"f":{"allOf":[` + ref + `],"default":{"k":"v"}}}}`, "Root: {f?: shared." + t.Name + " | *{k: \"v\"}}"},
			{"constant-member", ``, "Root: {f: shared." + t.Name + " & \"a\", g?: string}"},
		}
		for _, p := range positions {
			if p.oa != "" {
				for _, order := range []struct{ name, inputs string }{{"", xOAInputs}, {"/shared-first", xOAInputs1}} {
					out = append(out, Shape{Format: "openapi", Name: "xpkg/" + p.name + "/" + t.Name + order.name, Doc: oaDoc(p.oa + localOA),
						Extra: map[string]string{"shared.json": sharedOpenAPI(false)}, Inputs: order.inputs})
				}
				out = append(out, Shape{Format: "openapi", Name: "xpkg/" + p.name + "/" + t.Name + "/package-cycle", Doc: oaDoc(p.oa + localOA),
					Extra: map[string]string{"shared.json": sharedOpenAPI(true)}, Inputs: xOAInputs})
			}
			out = append(out, Shape{Format: "cue", Name: "xpkg/" + p.name + "/" + t.Name, Doc: "package p\n\nimport \"example.com/shared\"\n\n" + p.cue + "\n",
				Extra: map[string]string{"shared/schema.cue": sharedCUE()}, Inputs: xCUEInputs})
		}
	}
	return out
}
