//go:build verif

// C04: no input or configuration makes cog panic or hang (DESIGN.md §6 C04).
//
// Four exhaustively enumerated input spaces, every member executed on the real
// code in crash-isolated worker processes (this binary in --c04-worker mode,
// started under `ulimit -v` with debug.SetMaxStack(64 MiB)), each call under
// recover:
//
//	(a) shapes     hand-rendered well-formed documents the parsers treat
//	               specially + grammar G, × 3 formats (OpenAPI with and without
//	               validation) × {types, +builders, +converters} × every output
//	               language with all flags on: PipelineFromFile + Pipeline.Run
//	(b) malformed  every truncation and every single-token mutation (12-symbol
//	               alphabet) of ~25 seeds per entry point, plus all symbol
//	               strings of length ≤ 3 (thorough 4): Input.LoadSchemas /
//	               PipelineFromFile / CompilerLoader / VeneersLoader; every
//	               distinct IR a mutant still loads into is then run through
//	               the whole pipeline ("a-reach")
//	(c) config     valid pipeline / pass / veneer templates with every scalar
//	               position replaced by each wrong-type value, `if:` expressions,
//	               allowed_objects, `as:` types with inconsistent kind/payload,
//	               every rule on every object/option of a small schema, all 16
//	               combinations of requested outputs: loaded AND run
//	(d) IR         grammar I (depth 2, thorough 3) with dangling/cyclic
//	               references, empty enums/structs/unions, empty names: every
//	               user pass (through the YAML loader), BuilderGenerator, and
//	               every language's chain + builders + veneers + jennies
//
// Oracle (the property statement, nothing else): a call returns (files or an
// error). A recovered panic, a dead worker (fatal error: stack overflow, out of
// memory) or no answer within 30 s (a call takes milliseconds; reported only
// if it reproduces three times in isolation) is a failure. Errors are never
// failures, whatever their text. Leniences: inputs over the network (`url:`)
// are not enumerated; panics inside template *functions* are turned into
// errors by text/template and therefore count as "returns an error".
//
// Finding identity: Kind = "panic @ <innermost cog frame>: <message class>" /
// "fatal @ <innermost cog frame or part>: <what>" / "hang @ <frame>"; Witness =
// the smallest input reaching that site (PerKindSmallest); Detail = the request
// itself (replayable).
package main

import (
	"crypto/sha256"
	"encoding/json"
	"fmt"
	"os"
	"os/signal"
	"regexp"
	"sort"
	"strings"
	"sync"
	"sync/atomic"
	"syscall"
	"time"

	"github.com/grafana/cog/verifx/gschema"
	"github.com/grafana/cog/verifx/vx"
)

// hangsSeen counts the hang verdicts of the run. Once a few have been seen the
// tree under test obviously has a termination problem, and waiting 30 s for
// each of the (possibly hundreds of) inputs reaching it only costs time: the
// watchdog of the remaining requests is tightened to 10 s; candidates are
// confirmed with the full 30 s, three times, in isolation.
var hangsSeen atomic.Int64

type best struct {
	f     vx.Failure
	c     *Case
	out   Out
	count int
}

type harness struct {
	r     *vx.Run
	p     *pool
	st    *stats
	mu    sync.Mutex
	kinds map[string]*best
	hangs map[string]*best
	// hangCands: per hang kind, the smallest candidate inputs
	hangCands map[string][]*best
	outs      int64
	// reach: IR hash -> smallest document that loads into it
	reach   map[string]*Case
	samples map[string][]any
}

func kindOf(part string, o Out) string {
	switch o.St {
	case "panic":
		return "panic @ " + o.Site + ": " + panicClass(o.Err)
	case "fatal":
		site := o.Site
		if site == "" || site == "?" {
			site = "part " + part
		}
		return "fatal @ " + site + ": " + o.Err
	case "hang":
		site := o.Site
		if site == "" || site == "?" {
			site = "part " + part
		}
		return "hang @ " + site
	}
	return ""
}

func langRank(l string) int {
	for i, x := range allLanguages {
		if x == l {
			return i
		}
	}
	return 0
}

func (h *harness) sink(c *Case, outs []Out, hash string) {
	for _, o := range outs {
		h.st.add(c, o)
	}
	h.mu.Lock()
	defer h.mu.Unlock()
	h.outs += int64(len(outs))
	if len(h.samples[c.Part]) < 3 && len(outs) > 0 {
		h.samples[c.Part] = append(h.samples[c.Part], map[string]any{"part": c.Part, "entry": c.Entry, "input": short(c.ID, 200), "outcomes": summarise(outs)})
	}
	if hash != "" && c.Part == "b-malformed" {
		// the IR is what every later stage sees: identical IRs (whatever the
		// format they were parsed from) are run once, from the smallest document
		key := hash
		if old, ok := h.reach[key]; !ok || c.Size < old.Size || c.Size == old.Size && c.ID < old.ID {
			h.reach[key] = c
		}
	}
	for _, o := range outs {
		kind := kindOf(c.Part, o)
		if kind == "" {
			continue
		}
		wit := c.ID
		size := c.Size
		if o.Lang != "" && o.Lang != "-" {
			wit += " [" + o.Lang + "]"
			size += langRank(o.Lang)
		}
		f := vx.Failure{
			Kind:    kind,
			Witness: wit,
			Size:    size,
			What:    fmt.Sprintf("%s: %s (%s) on input %s", o.St, short(o.Err, 160), o.Site, short(wit, 300)),
			Detail:  map[string]any{"part": c.Part, "entry": c.Entry, "id": c.ID, "lang": o.Lang, "request": c.Req, "input": c.Input},
		}
		m := h.kinds
		if o.St == "hang" {
			// hang verdicts are only candidates until confirmed in isolation:
			// the three smallest inputs of each kind are kept
			hangsSeen.Add(1)
			l := append(h.hangCands[kind], &best{f: f, c: c, out: o})
			sort.SliceStable(l, func(i, j int) bool {
				if l[i].f.Size != l[j].f.Size {
					return l[i].f.Size < l[j].f.Size
				}
				return l[i].f.Witness < l[j].f.Witness
			})
			if len(l) > 3 {
				l = l[:3]
			}
			h.hangCands[kind] = l
			continue
		}
		b := m[kind]
		if b == nil {
			m[kind] = &best{f: f, c: c, out: o, count: 1}
			continue
		}
		b.count++
		if f.Size < b.f.Size || f.Size == b.f.Size && f.Witness < b.f.Witness {
			b.f, b.c, b.out = f, c, o
		}
	}
}

func summarise(outs []Out) []string {
	var s []string
	for _, o := range outs {
		x := o.St
		if o.Lang != "" {
			x = o.Lang + ":" + x
		}
		if o.Err != "" {
			x += " (" + short(o.Err, 80) + ")"
		}
		if o.N > 0 {
			x += fmt.Sprintf(" n=%d", o.N)
		}
		s = append(s, x)
	}
	return s
}

func short(s string, n int) string {
	s = strings.ReplaceAll(s, "\n", "⏎")
	if len(s) > n {
		return s[:n] + "…"
	}
	return s
}

func sha8(s string) string {
	h := sha256.Sum256([]byte(s))
	return fmt.Sprintf("%x", h[:4])
}

// ---- part (a) ------------------------------------------------------------------------------

var programmingLanguagesBlock = func() string {
	var keep []string
	for _, l := range strings.Split(strings.TrimRight(languagesBlock, "\n"), "\n") {
		if strings.Contains(l, "- jsonschema:") || strings.Contains(l, "- openapi:") {
			continue
		}
		keep = append(keep, l)
	}
	return strings.Join(keep, "\n") + "\n"
}()

var modes = []struct {
	name                       string
	builders, converters, all7 bool
	flagsOff                   bool
}{{"types", false, false, true, false}, {"types+builders", true, false, false, false}, {"types+builders+converters", true, true, false, false},
	// every per-language generation flag off (`- go: {}` ...): what the flags
	// add must not hide what the plain generators do
	{"types+builders/language-flags-off", true, false, false, true}}

const flagsOffLanguagesBlock = "    - go: {package_root: 'verifgen/x'}\n    - java: {package_path: 'verifgen.x'}\n    - php: {namespace_root: 'Verifgen'}\n    - python: {}\n    - typescript: {}\n"

func inputLine(format string) (line string, file string) {
	switch format {
	case "jsonschema":
		return "  - jsonschema: {path: '%DIR%/p.json', package: p}\n", "p.json"
	case "openapi":
		return "  - openapi: {path: '%DIR%/p.json', package: p}\n", "p.json"
	case "openapi-novalidate":
		return "  - openapi: {path: '%DIR%/p.json', package: p, no_validate: true}\n", "p.json"
	case "cue":
		return "  - cue: {entrypoint: '%DIR%/p'}\n", "p/schema.cue"
	}
	panic("format " + format)
}

var thoroughTier bool

func pipelineCases(part, format, name, doc string, extra map[string]string, sizeBase int, inputs string) []*Case {
	var out []*Case
	in, file := inputLine(format)
	if inputs != "" {
		nv := ""
		if format == "openapi-novalidate" {
			nv = ", no_validate: true"
		}
		in = strings.ReplaceAll(inputs, "%NOVALIDATE%", nv)
	}
	for mi, m := range modes {
		if (strings.HasPrefix(name, "G:") || !thoroughTier) && m.name == "types+builders" {
			// types alone and everything on; the middle mode only matters when a
			// converter jenny crashes before a builder jenny has run: thorough tier,
			// special shapes only
			continue
		}
		if m.flagsOff && (strings.HasPrefix(name, "G:") || (strings.HasPrefix(name, "sdef/") || strings.HasPrefix(name, "xpkg/") || strings.HasPrefix(name, "enumunion/") || strings.HasPrefix(name, "refgraph/")) && !thoroughTier) {
			continue
		}
		langs := programmingLanguagesBlock
		if m.all7 {
			langs = languagesBlock
		}
		if m.flagsOff {
			langs = flagsOffLanguagesBlock
		}
		files := map[string]string{file: doc, "pipeline.yaml": pipelineYAML(in, "", true, m.builders, m.converters, false, langs)}
		for k, v := range extra {
			files[k] = v
		}
		out = append(out, &Case{Part: part, Entry: format, ID: fmt.Sprintf("%s/%s/%s/%s", part[:1], format, name, m.name), Size: sizeBase*10 + mi*3,
			Req: Req{Op: "config", Files: files}, Input: map[string]any{"format": format, "document": doc, "extra": extra, "mode": m.name}})
	}
	return out
}

// thoroughOnlyShape: variants of the two big families the quick tier leaves
// to the thorough one (input order, package cycles, further member layouts).
func thoroughOnlyShape(name string) bool {
	if strings.HasPrefix(name, "xpkg/") {
		return strings.HasSuffix(name, "/shared-first") || strings.HasSuffix(name, "/package-cycle")
	}
	if strings.HasPrefix(name, "enumunion/") {
		return strings.HasSuffix(name, "@2020-12") || strings.Contains(name, "/typed-integer/") || strings.Contains(name, "/typed-array/")
	}
	if strings.HasPrefix(name, "refgraph/") {
		return strings.HasPrefix(name, "refgraph/tail-3/") || strings.HasSuffix(name, "/required-field") || strings.HasSuffix(name, "/union-second")
	}
	for _, p := range []string{"sdef/ref-first/", "sdef/ref-middle-required/", "sdef/ref-first-required/", "sdef/named-middle/", "sdef/required-field/", "sdef/optfield/"} {
		if strings.HasPrefix(name, p) {
			return true
		}
	}
	return false
}

func formatRank(f string) int {
	switch f {
	case "jsonschema":
		return 0
	case "openapi":
		return 1
	case "openapi-novalidate":
		return 2
	}
	return 3
}

func shapeCases(thorough bool) (cases []*Case, nShapes, nG int, skipped map[string]int) {
	skipped = map[string]int{}
	for _, s := range allShapes() {
		if !thorough && thoroughOnlyShape(s.Name) {
			continue
		}
		formats := []string{s.Format}
		if s.Format == "openapi" {
			formats = append(formats, "openapi-novalidate")
		}
		for _, f := range formats {
			cases = append(cases, pipelineCases("a-shapes", f, s.Name, s.Doc, s.Extra, len(s.Doc)+formatRank(f), s.Inputs)...)
		}
		nShapes++
	}
	for _, g := range gschema.Enumerate(thorough) {
		for _, f := range gschema.Formats {
			rd, err := g.Render(f)
			if err != nil {
				skipped[f]++
				continue
			}
			cases = append(cases, pipelineCases("a-shapes", f, "G:"+g.String(), rd.Main, nil, len(rd.Main)+formatRank(f), "")...)
			nG++
		}
	}
	sort.SliceStable(cases, func(i, j int) bool { return cases[i].Size < cases[j].Size })
	return
}

// ---- part (b) ------------------------------------------------------------------------------

func joinRules(key string, ts []Template, head string) string {
	var b strings.Builder
	b.WriteString(head + key + ":\n")
	for _, t := range ts {
		i := strings.Index(t.YAML, key+": [")
		if i < 0 {
			continue
		}
		inner := strings.TrimSpace(t.YAML[i+len(key)+3:])
		inner = strings.TrimSuffix(inner, "]")
		b.WriteString("  - " + inner + "\n")
	}
	return b.String()
}

func yamlSeeds() []Seed {
	var out []Seed
	out = append(out,
		Seed{"yaml:pipeline", "full", fullPipeline()},
		Seed{"yaml:pipeline", "minimal", "inputs:\n  - jsonschema: {path: 'p.json'}\noutput:\n  directory: out\n  types: true\n  languages:\n    - go: {}\n"},
		Seed{"yaml:pipeline", "block-style", "debug: true\nparameters:\n  a: b\ninputs:\n  - if: 'true'\n    cue:\n      entrypoint: x\n      cue_imports:\n        - 'a:b'\n      allowed_objects:\n        - A\n      metadata:\n        kind: core\ntransformations:\n  schemas:\n    - a.yaml\noutput:\n  directory: o\n  builders: true\n  languages:\n    - typescript:\n        path_prefix: src\n        packages_import_map:\n          a: b\n"},
		Seed{"yaml:passes", "all-passes", joinRules("passes", passTemplates, "")},
		Seed{"yaml:passes", "retype", "passes:\n  - retype_object:\n      object: p.S\n      as:\n        kind: disjunction\n        disjunction:\n          branches:\n            - kind: ref\n              ref: {referred_pkg: p, referred_type: T}\n            - kind: scalar\n              nullable: true\n              scalar: {scalar_kind: string, value: x, constraints: [{op: minLength, args: [1]}]}\n          discriminator: kind\n          discriminator_mapping: {a: T}\n      comments: [c]\n"},
		Seed{"yaml:passes", "add_fields", passTemplates[8].YAML},
		Seed{"yaml:passes", "empty", "passes: []\n"},
		Seed{"yaml:veneers", "all-builder-rules", joinRules("builders", builderRuleTemplates, "language: all\npackage: p\n")},
		Seed{"yaml:veneers", "all-option-rules", joinRules("options", optionRuleTemplates, "language: all\npackage: p\n")},
		Seed{"yaml:veneers", "minimal", "language: go\npackage: p\nbuilders:\n  - omit: {by_object: T}\noptions:\n  - omit: {by_name: Root.count}\n"},
	)
	return out
}

func malformedCases(r *vx.Run, shapes []Shape, thorough bool) (cases []*Case, seeds []Seed) {
	nRepo := 6
	if thorough {
		nRepo = 14
	}
	seeds = append(seeds, shapeSeeds(shapes, "jsonschema", jsonSchemaSeedNames)...)
	seeds = append(seeds, repoSeeds(r.Repo, "jsonschema", []string{"testdata/jsonschema/*/schema.json", "testdata/jennies/rawtypes/*/JSONSchema/*.json"}, 1500, nRepo)...)
	seeds = append(seeds, shapeSeeds(shapes, "openapi", openAPISeedNames)...)
	seeds = append(seeds, repoSeeds(r.Repo, "openapi", []string{"testdata/openapi/*/schema.json"}, 1500, nRepo)...)
	seeds = append(seeds, shapeSeeds(shapes, "cue", cueSeedNames)...)
	seeds = append(seeds, repoSeeds(r.Repo, "cue", []string{"testdata/simplecue/*/schema.cue", "testdata/jennies/rawtypes/*/schema.cue", "testdata/jennies/builders/*/schema.cue"}, 1500, nRepo)...)
	seeds = append(seeds, yamlSeeds()...)
	// OpenAPI seeds are also explored with validation off (a documented input flag)
	var more []Seed
	for _, s := range seeds {
		if s.Entry == "openapi" {
			more = append(more, Seed{Entry: "openapi-novalidate", Name: s.Name, Text: s.Text})
		}
	}
	seeds = append(seeds, more...)

	seen := map[[32]byte]bool{}
	mk := func(entry, id, text string) *Case {
		req := Req{Op: "load", Fmt: entry, Data: []byte(text)}
		if strings.HasPrefix(entry, "yaml:") {
			req = Req{Op: "yaml", Fmt: strings.TrimPrefix(entry, "yaml:"), Data: []byte(text)}
		}
		return &Case{Part: "b-malformed", Entry: entry, ID: "b/" + entry + "/" + id + "#" + sha8(text), Size: len(text)*10 + formatRank(entry), Req: req, Input: text}
	}
	for _, s := range seeds {
		// the seed itself
		h := sha256.Sum256([]byte(s.Entry + "\x00" + s.Text))
		if !seen[h] {
			seen[h] = true
			cases = append(cases, mk(s.Entry, s.Name+"/seed", s.Text))
		}
		for _, m := range neighbourhood(s, seen) {
			cases = append(cases, mk(s.Entry, s.Name+"/"+m.Desc, m.Text))
		}
	}
	n := 3
	if thorough {
		n = 4
	}
	for _, entry := range []string{"jsonschema", "openapi", "openapi-novalidate", "cue", "yaml:pipeline", "yaml:passes", "yaml:veneers"} {
		for _, s := range shortStrings(n) {
			text := s
			if entry == "cue" {
				text = "package p\n" + s + "\n"
			}
			h := sha256.Sum256([]byte(entry + "\x00" + text))
			if seen[h] {
				continue
			}
			seen[h] = true
			cases = append(cases, mk(entry, "symbols/"+s, text))
		}
	}
	return cases, seeds
}

// stageOf says how far a malformed document got (vacuity figure only).
func stageOf(entry string, o Out) string {
	if o.St != "error" {
		return o.St
	}
	e := o.Err
	// type errors of the decoding stage come after the syntax stage
	for _, s := range []string{"cannot unmarshal", "not found in type", "cannot construct"} {
		if strings.Contains(e, s) {
			return "rejected-by-decoder-types"
		}
	}
	syntax := []string{"invalid character", "unexpected end of JSON", "unexpected EOF", "EOF", "yaml: ", "expected ", "illegal ", "not terminated", "missing ',", "invalid JSON", "error converting YAML", "looking for beginning of"}
	for _, s := range syntax {
		if strings.Contains(e, s) {
			return "rejected-as-syntax"
		}
	}
	return "rejected-past-syntax"
}

// ---- main ------------------------------------------------------------------------------------

func main() {
	r := vx.Start("C04")
	maybeServeWorker()
	r.PerKindSmallest = true
	thoroughTier = r.Thorough()

	scratch, err := os.MkdirTemp("/var/tmp", "verif.c04.")
	if err != nil {
		vx.Fatalf("%v", err)
	}
	cleanup := func() { os.RemoveAll(scratch) }
	sigc := make(chan os.Signal, 1)
	signal.Notify(sigc, syscall.SIGINT, syscall.SIGTERM)
	go func() { <-sigc; cleanup(); os.Exit(2) }()

	h := &harness{r: r, p: newPool(scratch), st: newStats(), kinds: map[string]*best{}, hangs: map[string]*best{}, hangCands: map[string][]*best{}, reach: map[string]*Case{}, samples: map[string][]any{}}
	if r.Replay != "" {
		code := h.replay()
		cleanup()
		os.Exit(code)
	}

	// Safety net only (a loaded machine): the quick tier needs ~15 CPU-minutes,
	// i.e. 1.5-3 min wall on 16 cores. A part cut by the deadline is reported as
	// exhaustive:false, never as a failure.
	budget := 10 * time.Minute
	if r.Thorough() {
		budget = 40 * time.Minute
	}
	if v := os.Getenv("VERIF_C04_BUDGET_S"); v != "" {
		var s int
		fmt.Sscan(v, &s)
		budget = time.Duration(s) * time.Second
	}
	deadline := time.Now().Add(budget)
	only := os.Getenv("VERIF_C04_PARTS") // development aid: e.g. "ac"
	want := func(p string) bool { return only == "" || strings.Contains(only, p) }

	exhaustive := map[string]bool{}
	sizes := map[string]any{}
	timing := map[string]string{}
	runPart := func(name string, cases []*Case) {
		t0 := time.Now()
		done := h.p.run(cases, deadline, h.sink)
		exhaustive[name] = done == len(cases)
		sizes[name+"_cases"] = len(cases)
		sizes[name+"_completed"] = done
		timing[name] = fmt.Sprintf("%.1fs", time.Since(t0).Seconds())
		fmt.Fprintf(os.Stderr, "c04: part %s: %d/%d cases in %.1fs\n", name, done, len(cases), time.Since(t0).Seconds())
	}

	shapes := allShapes()

	// (c) first: its templates are preconditions for everything configuration-related
	if want("c") {
		cases, templates := configSpace(r.Thorough())
		for _, t := range templates {
			c := &Case{Part: "c-config", Entry: "config", ID: "c/" + t.ID, Size: len(t.Doc) * 10, Req: Req{Op: "config", Files: t.Files}, Input: t.Doc}
			outs := h.p.single(c)
			for _, o := range outs {
				// a template must be a *valid* configuration: it has to load. (What cog
				// then does with it — including failing with an error — is not judged.)
				if o.St == "config-error" || o.St == "error" && templateLoadError.MatchString(o.Err) {
					cleanup()
					vx.Fatalf("configuration template %s is not valid: %s: %s", t.ID, o.St, o.Err)
				}
				if o.St == "error" {
					fmt.Fprintf(os.Stderr, "c04: note: template %s [%s] runs into an error: %s\n", t.ID, o.Lang, short(o.Err, 200))
				}
			}
			h.sink(c, outs, "")
		}
		var cs []*Case
		for _, t := range cases {
			cs = append(cs, &Case{Part: "c-config", Entry: "config", ID: "c/" + t.ID, Size: len(t.Doc) * 10, Req: Req{Op: "config", Files: t.Files, Extra: t.Extra, TimeoutMS: t.TimeoutMS}, Input: t.Doc})
		}
		sizes["c-config_templates"] = len(templates)
		runPart("c-config", cs)
	}
	if want("a") {
		cases, nShapes, nG, skipped := shapeCases(r.Thorough())
		sizes["a-shapes_hand_rendered_documents"] = nShapes
		sizes["a-shapes_grammar_G_documents"] = nG
		sizes["a-shapes_G_formats_skipped"] = fmt.Sprint(skipped)
		runPart("a-shapes", cases)
	}
	if want("d") {
		// which special shapes do the parsers of this tree emit?
		reachable := map[string]bool{}
		var unreachable []string
		var values, unbuildable []string
		const probeChunks = 48
		var probes []*Case
		for k := 0; k < probeChunks; k++ {
			probes = append(probes, &Case{Part: "d-ir", Entry: "probe", ID: fmt.Sprintf("d/probe %d", k), Req: Req{Op: "probe", Stage: fmt.Sprintf("%d/%d", k, probeChunks)}})
		}
		var probeMu sync.Mutex
		var probeOuts []Out
		if done := h.p.run(probes, time.Time{}, func(_ *Case, outs []Out, _ string) {
			probeMu.Lock()
			probeOuts = append(probeOuts, outs...)
			probeMu.Unlock()
		}); done != len(probes) {
			cleanup()
			vx.Fatalf("probe incomplete")
		}
		seenValue := map[string]bool{}
		sort.SliceStable(probeOuts, func(i, j int) bool { return probeOuts[i].Lang < probeOuts[j].Lang })
		for _, o := range probeOuts {
			if o.St == "fatal" || o.St == "hang" {
				// a document that kills the parser is part (a)'s business; the probe just loses a chunk
				continue
			}
			if o.St == "value" {
				if seenValue[o.Lang] {
					continue
				}
				seenValue[o.Lang] = true
				if strings.HasPrefix(o.Lang, "unbuildable:") {
					unbuildable = append(unbuildable, o.Lang)
				} else {
					values = append(values, o.Lang)
				}
				continue
			}
			if o.St == "ok" && o.N == 1 {
				reachable[o.Lang] = true
			} else {
				unreachable = append(unreachable, fmt.Sprintf("%s (%s %s)", o.Lang, o.St, short(o.Err, 60)))
			}
		}
		sizes["d-ir_special_shapes_reachable_from_documents"] = len(reachable)
		sizes["d-ir_special_shapes_not_reachable"] = unreachable
		sizes["d-ir_value_triples_observed"] = values
		sizes["d-ir_value_triples_not_built"] = unbuildable
		inputs := irSpace(r.Thorough(), reachable, values)
		stages := irStages()
		var cases []*Case
		for _, in := range inputs {
			spec := in.Spec
			for si, st := range stages {
				cases = append(cases, &Case{Part: "d-ir", Entry: "ir:" + strings.SplitN(st, ":", 2)[0], ID: "d/" + in.ID + " / " + st, Size: 1000000 + in.Size*100 + si,
					Req: Req{Op: "ir", Spec: &spec, Stage: st}, Input: map[string]any{"ir": in.ID, "stage": st}})
			}
		}
		sizes["d-ir_schemas"] = len(inputs)
		sizes["d-ir_stages"] = len(stages)
		runPart("d-ir", cases)
	}
	if want("b") {
		cases, seeds := malformedCases(r, shapes, r.Thorough())
		perEntry := map[string]int{}
		for _, s := range seeds {
			perEntry[s.Entry]++
		}
		sizes["b-malformed_seeds_per_entry"] = fmt.Sprint(perEntry)
		// stage statistics are taken in the sink wrapper
		inner := h.sink
		sink := func(c *Case, outs []Out, hash string) {
			for _, o := range outs {
				h.st.stage(c.Entry, stageOf(c.Entry, o))
			}
			inner(c, outs, hash)
		}
		t0 := time.Now()
		done := h.p.run(cases, deadline, sink)
		exhaustive["b-malformed"] = done == len(cases)
		sizes["b-malformed_cases"] = len(cases)
		sizes["b-malformed_completed"] = done
		timing["b-malformed"] = fmt.Sprintf("%.1fs", time.Since(t0).Seconds())
		fmt.Fprintf(os.Stderr, "c04: part b-malformed: %d/%d cases in %.1fs\n", done, len(cases), time.Since(t0).Seconds())

		// every distinct IR a malformed document still loads into goes through the whole pipeline
		var keys []string
		for k := range h.reach {
			keys = append(keys, k)
		}
		sort.Strings(keys)
		var rc []*Case
		for _, k := range keys {
			c := h.reach[k]
			if strings.Contains(c.ID, "/shape:") && strings.Contains(c.ID, "/seed#") {
				continue // the IR of an unmodified shape: already run in part (a), in every mode
			}
			in, file := inputLine(c.Entry)
			files := map[string]string{file: string(c.Req.Data), "pipeline.yaml": pipelineYAML(in, "", true, true, true, false, languagesBlock)}
			rc = append(rc, &Case{Part: "a-reach", Entry: c.Entry, ID: "r" + c.ID[1:], Size: c.Size + 5, Req: Req{Op: "config", Files: files}, Input: string(c.Req.Data)})
		}
		sort.SliceStable(rc, func(i, j int) bool { return rc[i].Size < rc[j].Size })
		sizes["a-reach_distinct_IRs_from_malformed_documents"] = len(rc)
		runPart("a-reach", rc)
	}

	// hang verdicts must reproduce three times in isolation
	hangsConfirmed, hangsDropped := 0, 0
	hangsSeen.Store(-1 << 40) // confirmation runs always get the full 30 s
	var hangKinds []string
	for k := range h.hangCands {
		hangKinds = append(hangKinds, k)
	}
	sort.Strings(hangKinds)
	for _, k := range hangKinds {
		confirmed := false
		for _, b := range h.hangCands[k] { // smallest first
			ok := true
			confirm := *b.c
			confirm.Req.TimeoutMS = 0
			for i := 0; i < 3 && ok; i++ {
				ok = false
				for _, o := range h.p.single(&confirm) {
					if o.St == "hang" {
						ok = true
					}
				}
			}
			if ok {
				confirmed = true
				r.Fail(b.f)
				break
			}
		}
		if confirmed {
			hangsConfirmed++
		} else {
			hangsDropped++
		}
	}
	// panics and fatal errors: one confirmation run in a fresh process; a case
	// that does not fail the same way again is harness nondeterminism (exit 2)
	var failingExecutions int
	var kindCounts []string
	for _, k := range sortedKeys(h.kinds) {
		b := h.kinds[k]
		failingExecutions += b.count
		kindCounts = append(kindCounts, fmt.Sprintf("%d× %s", b.count, k))
		again := false
		var seenKinds []string
		for _, o := range h.p.single(b.c) {
			kk := kindOf(b.c.Part, o)
			seenKinds = append(seenKinds, kk)
			if kk == k {
				again = true
			}
		}
		if !again {
			cleanup()
			vx.Fatalf("failure %q on %s did not reproduce in a fresh process (got %v)", k, b.f.Witness, seenKinds)
		}
		r.Fail(b.f)
	}
	cleanup()

	allExhaustive := true
	var parts []string
	for p, ok := range exhaustive {
		parts = append(parts, fmt.Sprintf("%s=%v", p, ok))
		allExhaustive = allExhaustive && ok
	}
	sort.Strings(parts)
	var samples []any
	for _, p := range []string{"a-shapes", "b-malformed", "a-reach", "c-config", "d-ir"} {
		samples = append(samples, h.samples[p]...)
	}
	states := 0
	for _, p := range []string{"a-shapes", "b-malformed", "a-reach", "c-config", "d-ir"} {
		if n, ok := sizes[p+"_completed"].(int); ok {
			states += n
		}
	}
	errTop := map[string][]string{}
	for k, m := range h.st.errs {
		errTop[k] = topClasses(m, 6)
	}
	r.Finish(map[string]any{
		"states":                        states,
		"transitions":                   h.outs,
		"traces_validated_against_impl": h.outs,
		"samples":                       samples,
		"exhaustive":                    allExhaustive,
		"exhaustive_per_part":           parts,
		"sizes":                         sizes,
		"wall_per_part":                 timing,
		"worker_requests":               h.p.execs.Load(),
		"worker_deaths":                 h.p.deaths.Load(),
		"outcomes_per_part":             flat(h.st.byPart),
		"outcomes_per_entry":            flat(h.st.byEntry),
		"malformed_stage_reached":       flat(h.st.stages),
		"distinct_error_classes":        distinctCounts(h.st.errs),
		"most_frequent_error_classes":   errTop,
		"failing_executions":            failingExecutions,
		"failing_executions_per_kind":   kindCounts,
		"hangs_confirmed":               hangsConfirmed,
		"hangs_not_reproduced":          hangsDropped,
		"explanation":                   "every member of the four enumerated spaces is executed on the real code (PipelineFromFile+Pipeline.Run per output language, Input.LoadSchemas, the three YAML loaders, Passes.Process, BuilderGenerator, ContextForLanguage+jennies) in worker processes under recover, ulimit -v and a 64 MiB stack limit; states = distinct inputs executed, transitions = executions of cog entry points (a configuration case runs once per output language)",
	}, []string{
		"an error return is never a failure, whatever its text; only a recovered panic, a dead worker process or a call exceeding 30 s (1000x the normal cost, confirmed 3 times in isolation) is",
		"panics inside text/template function calls are converted to errors by text/template and count as errors",
		"inputs fetched over the network (url:) are not enumerated; kind_registry/kindsys inputs only with missing or empty directories",
		"IRs of part (d) keep the payload pointer of their Kind set (as every parser does); kind/payload mismatches are enumerated through the `as:` types of part (c), their only source",
		"finding identity is the crash site: the same site reached by a larger input or another route is the same finding",
	})
}

var templateLoadError = regexp.MustCompile(`yaml:|cannot unmarshal|not found in type|could not load|empty rule|empty compiler pass|empty selector|no such file`)

func sortedKeys(m map[string]*best) []string {
	var out []string
	for k := range m {
		out = append(out, k)
	}
	sort.Strings(out)
	return out
}

// replay re-executes the recorded request in a fresh worker.
func (h *harness) replay() int {
	kind, witness, detail := h.r.ReplayFile()
	var d struct {
		Part    string `json:"part"`
		Entry   string `json:"entry"`
		ID      string `json:"id"`
		Request Req    `json:"request"`
	}
	if err := json.Unmarshal(detail, &d); err != nil {
		vx.Fatalf("replay: %v", err)
	}
	fmt.Println("replaying", short(witness, 300))
	c := &Case{Part: d.Part, Entry: d.Entry, ID: d.ID, Req: d.Request}
	runs := 1
	if strings.HasPrefix(kind, "hang") {
		runs = 3
	}
	hit := true
	for i := 0; i < runs; i++ {
		this := false
		for _, o := range h.p.single(c) {
			k := kindOf(d.Part, o)
			fmt.Printf("  %s %s: %s %s\n", o.Lang, o.St, short(o.Err, 200), o.Site)
			if k == kind {
				this = true
			}
		}
		hit = hit && this
	}
	if hit {
		fmt.Printf("VIOLATION property=C04 replay=%s\n  kind: %s\n", h.r.Replay, kind)
		return 1
	}
	fmt.Println("replay: the recorded failure does not occur on this tree")
	return 0
}
