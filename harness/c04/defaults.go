//go:build verif

package main

import (
	"fmt"
	"strings"
)

// The "struct-level default" family (a crash found outside C04's space:
// TypeScript defaultValueForStructs on `inner: Inner | *{third: {p: "1"}}` with
// `third` a map): defaults that are objects, set on an inline struct, on a
// named struct that is referred to, on a reference wrapped in allOf, through
// fields_set_default, and on fields of every kind. The member values range
// over one alphabet holding, for every member kind, a scalar of the right
// type, scalars of wrong types, null, [], [x], {}, {k: v} and {k: {k: v}}.

type dvalue struct{ Name, JSON string }

var defaultAlphabet = []dvalue{
	{"string", `"s"`}, {"member", `"a"`}, {"int", `3`}, {"bool", `true`}, {"null", `null`},
	{"emptylist", `[]`}, {"list", `["x"]`}, {"emptymap", `{}`}, {"map", `{"k":"v"}`}, {"nestedmap", `{"k":{"k":"v"}}`},
}

// member kinds, rendered per format ("" = the format can not express it)
type mkind struct{ Name, JS, OA, CUE string }

var memberKinds = []mkind{
	{"string", `{"type":"string"}`, `{"type":"string"}`, `string`},
	{"int", `{"type":"integer"}`, `{"type":"integer"}`, `int64`},
	{"bool", `{"type":"boolean"}`, `{"type":"boolean"}`, `bool`},
	{"enum-anonymous", `{"type":"string","enum":["a","b"]}`, `{"type":"string","enum":["a","b"]}`, `"a" | "b"`},
	{"enum-ref", `{"$ref":"#/definitions/E"}`, `{"$ref":"#/components/schemas/E"}`, `E`},
	{"map", `{"type":"object","additionalProperties":{"type":"string"}}`, `{"type":"object","additionalProperties":{"type":"string"}}`, `{[string]: string}`},
	{"array", `{"type":"array","items":{"type":"string"}}`, `{"type":"array","items":{"type":"string"}}`, `[...string]`},
	{"struct", `{"type":"object","properties":{"k":{"type":"string"}}}`, `{"type":"object","properties":{"k":{"type":"string"}}}`, `{k?: string}`},
	{"ref-struct", `{"$ref":"#/definitions/S"}`, `{"$ref":"#/components/schemas/S"}`, `S`},
	{"ref-map", `{"$ref":"#/definitions/MA"}`, `{"$ref":"#/components/schemas/MA"}`, `MA`},
	{"ref-array", `{"$ref":"#/definitions/LA"}`, `{"$ref":"#/components/schemas/LA"}`, `LA`},
	{"any", `{}`, `{}`, `_`},
	{"union-scalars", `{"oneOf":[{"type":"string"},{"type":"integer"}]}`, `{"oneOf":[{"type":"string"},{"type":"integer"}]}`, `string | int64`},
	{"union-refs", `{"oneOf":[{"$ref":"#/definitions/S"},{"$ref":"#/definitions/T"}]}`, `{"oneOf":[{"$ref":"#/components/schemas/S"},{"$ref":"#/components/schemas/T"}],"discriminator":{"propertyName":"kind"}}`, `S | T`},
	{"nullable-string", `{"oneOf":[{"type":"string"},{"type":"null"}]}`, `{"type":"string","nullable":true}`, `string | null`},
	{"nullable-ref", `{"oneOf":[{"$ref":"#/definitions/S"},{"type":"null"}]}`, `{"allOf":[{"$ref":"#/components/schemas/S"}],"nullable":true}`, `S | null`},
	{"constant", `{"type":"string","const":"s"}`, `{"type":"string","enum":["s"]}`, `"s"`},
	// references to the struct holding the member / to the root (a default on a
	// self-referencing field)
	{"ref-enclosing", `{"$ref":"#/definitions/Inner"}`, `{"$ref":"#/components/schemas/Inner"}`, `Inner`},
	{"ref-root", `{"$ref":"#/definitions/Root"}`, `{"$ref":"#/components/schemas/Root"}`, `Root`},
	// a constant member of an enum: only CUE has it
	{"constant-ref", ``, ``, `E & "a"`},
}

const (
	sdefJSSupport = `"S":{"type":"object","properties":{"kind":{"type":"string","const":"s"},"k":{"type":"string"}}},` +
		`"T":{"type":"object","properties":{"kind":{"type":"string","const":"t"},"y":{"type":"integer"}}},` +
		`"E":{"type":"string","enum":["a","b"]},"MA":{"type":"object","additionalProperties":{"type":"string"}},"LA":{"type":"array","items":{"type":"string"}}`
	sdefOASupport = `"S":{"type":"object","properties":{"kind":{"type":"string","enum":["s"]},"k":{"type":"string"}}},` +
		`"T":{"type":"object","properties":{"kind":{"type":"string","enum":["t"]},"y":{"type":"integer"}}},` +
		`"E":{"type":"string","enum":["a","b"]},"MA":{"type":"object","additionalProperties":{"type":"string"}},"LA":{"type":"array","items":{"type":"string"}}`
	sdefCUESupport = "S: {kind: \"s\", k?: string}\nT: {kind: \"t\", y?: int64}\nE: \"a\" | \"b\"\nMA: {[string]: string}\nLA: [...string]\n"
)

// with adds a "default" member to a JSON object text.
func withDefault(obj, def string) string {
	if obj == "" {
		return ""
	}
	if obj == "{}" {
		return `{"default":` + def + `}`
	}
	return obj[:len(obj)-1] + `,"default":` + def + `}`
}

// structDefaultShapes renders the family in the three formats.
func structDefaultShapes() []Shape {
	var out []Shape
	js := func(name, defs string) {
		if strings.Contains(defs, `"m":,`) || strings.Contains(defs, `"m":}`) || strings.Contains(defs, `"f":}`) {
			return // the format can not express the member kind
		}
		out = append(out, Shape{Format: "jsonschema", Name: name, Doc: jsDoc(defs + "," + sdefJSSupport)})
	}
	oa := func(name, schemas string) {
		if strings.Contains(schemas, `"m":,`) || strings.Contains(schemas, `"m":}`) || strings.Contains(schemas, `"f":}`) {
			return
		}
		out = append(out, Shape{Format: "openapi", Name: name, Doc: oaDoc(schemas + "," + sdefOASupport)})
	}
	cue := func(name, body string) {
		out = append(out, Shape{Format: "cue", Name: name, Doc: cueDoc(body + "\n" + sdefCUESupport)})
	}
	for _, m := range memberKinds {
		for _, v := range defaultAlphabet {
			for _, key := range []string{"m", "zz"} {
				if key == "zz" && m.Name != "string" {
					continue // a default key naming no member: once per value
				}
				def := `{"` + key + `":` + v.JSON + `}`
				id := m.Name + "/" + v.Name
				if key == "zz" {
					id = "no-such-member/" + v.Name
				}
				// 1. default on an inline struct field
				js("sdef/inline/"+id, `"Root":{"type":"object","properties":{"inner":{"type":"object","properties":{"m":`+m.JS+`},"default":`+def+`}}}`)
				oa("sdef/inline/"+id, `"Root":{"type":"object","properties":{"inner":{"type":"object","properties":{"m":`+m.OA+`},"default":`+def+`}}}`)
				cue("sdef/inline/"+id, "Root: {inner: {m?: "+m.CUE+"} | *"+def+"}")
				// 2. default on the named struct a field refers to
				js("sdef/named/"+id, `"Root":{"type":"object","properties":{"inner":{"$ref":"#/definitions/Inner"}}},"Inner":{"type":"object","properties":{"m":`+m.JS+`},"default":`+def+`}`)
				oa("sdef/named/"+id, `"Root":{"type":"object","properties":{"inner":{"$ref":"#/components/schemas/Inner"}}},"Inner":{"type":"object","properties":{"m":`+m.OA+`},"default":`+def+`}`)
				// 3. default on the reference itself
				js("sdef/ref/"+id, `"Root":{"type":"object","properties":{"inner":{"allOf":[{"$ref":"#/definitions/Inner"}],"default":`+def+`}}},"Inner":{"type":"object","properties":{"m":`+m.JS+`}}`)
				oa("sdef/ref/"+id, `"Root":{"type":"object","properties":{"inner":{"allOf":[{"$ref":"#/components/schemas/Inner"}],"default":`+def+`}}},"Inner":{"type":"object","properties":{"m":`+m.OA+`}}`)
				cue("sdef/ref/"+id, "Root: {inner: Inner | *"+def+"}\nInner: {m?: "+m.CUE+"}")
				cue("sdef/ref-required-member/"+id, "Root: {inner: Inner | *"+def+"}\nInner: {first: string | *\"f\", m: "+m.CUE+"}")
				// the same with the member between two others (its position among
				// the fields of the struct: first, last and middle are not the same
				// for code that filters or reorders fields)
				if key == "m" {
					js("sdef/inline-middle/"+id, `"Root":{"type":"object","properties":{"inner":{"type":"object","properties":{"a":{"type":"string"},"m":`+m.JS+`,"z":{"type":"integer"}},"default":`+def+`}}}`)
					js("sdef/named-middle/"+id, `"Root":{"type":"object","properties":{"inner":{"$ref":"#/definitions/Inner"}}},"Inner":{"type":"object","properties":{"a":{"type":"string"},"m":`+m.JS+`,"z":{"type":"integer"}},"default":`+def+`}`)
					oa("sdef/ref-middle/"+id, `"Root":{"type":"object","properties":{"inner":{"allOf":[{"$ref":"#/components/schemas/Inner"}],"default":`+def+`}}},"Inner":{"type":"object","properties":{"a":{"type":"string"},"m":`+m.OA+`,"z":{"type":"integer"}}}`)
					cue("sdef/inline-middle/"+id, "Root: {inner: {a?: string, m?: "+m.CUE+", z?: int64} | *"+def+"}")
					cue("sdef/ref-middle/"+id, "Root: {inner: Inner | *"+def+"}\nInner: {a?: string, m?: "+m.CUE+", z?: int64}")
					cue("sdef/ref-first/"+id, "Root: {inner: Inner | *"+def+"}\nInner: {m?: "+m.CUE+", z?: int64}")
					cue("sdef/ref-middle-required/"+id, "Root: {inner: Inner | *{a: \"s\", m: "+v.JSON+", z: 3}}\nInner: {a: string, m: "+m.CUE+", z: int64}")
					cue("sdef/ref-first-required/"+id, "Root: {inner: Inner | *{m: "+v.JSON+", z: 3}}\nInner: {m: "+m.CUE+", z: int64}")
				}
			}
			// 4. the same alphabet as default of a field of that kind
			id := m.Name + "/" + v.Name
			js("sdef/field/"+id, `"Root":{"type":"object","properties":{"f":`+withDefault(m.JS, v.JSON)+`}}`)
			js("sdef/required-field/"+id, `"Root":{"type":"object","required":["f"],"properties":{"f":`+withDefault(m.JS, v.JSON)+`}}`)
			oa("sdef/field/"+id, `"Root":{"type":"object","properties":{"f":`+withDefault(m.OA, v.JSON)+`}}`)
			cue("sdef/field/"+id, "Root: {f: "+cueParen(m.CUE)+" | *"+v.JSON+"}")
			cue("sdef/optfield/"+id, "Root: {f?: "+cueParen(m.CUE)+" | *"+v.JSON+"}")
		}
	}
	return out
}

func cueParen(t string) string {
	if strings.Contains(t, "|") {
		return "(" + t + ")"
	}
	return t
}

// structDefaultConfigCases: the same defaults set through fields_set_default,
// on an inline struct field and on a reference to a struct.
func structDefaultConfigCases(plainPipe string) []configCase {
	var out []configCase
	for _, m := range memberKinds {
		for _, v := range defaultAlphabet {
			for _, placement := range []string{"inline", "ref"} {
				inner := `{"type":"object","properties":{"a":{"type":"string"},"m":` + m.JS + `,"n":{"type":"string"}}}`
				defs := `"Root":{"type":"object","properties":{"inner":` + inner + `}}`
				if placement == "ref" {
					defs = `"Root":{"type":"object","properties":{"inner":{"$ref":"#/definitions/Inner"}}},"Inner":` + inner
				}
				schema := jsDoc(defs + "," + sdefJSSupport)
				cueSchema := ""
				if m.JS == "" {
					cueInner := "{a?: string, m?: " + m.CUE + ", n?: string}"
					cueSchema = cueDoc("Root: {inner?: " + cueInner + "}\n" + sdefCUESupport)
					if placement == "ref" {
						cueSchema = cueDoc("Root: {inner?: Inner}\nInner: " + cueInner + "\n" + sdefCUESupport)
					}
					schema = cueSchema
				}
				for _, key := range []string{"m", "zz", "@member"} {
					if key == "zz" && m.Name != "string" {
						continue
					}
					passes := fmt.Sprintf("passes: [{fields_set_default: {defaults: {p.Root.inner: {%s: %s}}}}]\n", key, v.JSON)
					if key == "@member" {
						// the default set on the member itself
						if placement != "ref" {
							continue
						}
						passes = fmt.Sprintf("passes: [{fields_set_default: {defaults: {p.Inner.m: %s}}}]\n", v.JSON)
					}
					files := configFiles(plainPipe, passes, noVeneers)
					files["p.json"] = schema
					if cueSchema != "" {
						delete(files, "p.json")
						files["p/schema.cue"] = cueSchema
						files["pipeline.yaml"] = strings.Replace(plainPipe, plainInput, "  - cue: {entrypoint: '%DIR%/p'}\n", 1)
					}
					name := m.Name
					if key == "zz" {
						name = "no-such-member"
					}
					if key == "@member" {
						name += " (set on the member)"
					}
					out = append(out, configCase{ID: "passes/fields_set_default struct default " + placement + " member " + name + " := " + v.JSON, Files: files, Doc: passes + schema})
				}
			}
		}
	}
	return out
}
