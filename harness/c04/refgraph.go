//go:build verif

package main

import (
	"fmt"
	"strings"
)

// Reference graphs. A reference resolver can get three things wrong: the end
// of a chain (dangling, scalar, struct, container), a cycle it starts in, and a
// cycle it only walks INTO ("rho": X -> A, A -> B, B -> A). The family is the
// product tail length {0,1,2,3} × what the tail ends in {cycle of length
// 1,2,3; self-recursive array / map alias; dangling; struct; enum; scalar} ×
// where the head is used (field, required field, array, map, union branch,
// root alias), in the three formats.

func refGraphShapes() []Shape {
	var out []Shape
	type fmtDef struct {
		format string
		ref    func(string) string
		obj    func(name, typ string) string
		join   string
		types  map[string]string
		doc    func(body string) string
		uses   map[string]string // use -> Root definition with %s = reference
	}
	formats := []fmtDef{
		{"jsonschema", func(n string) string { return `{"$ref":"#/definitions/` + n + `"}` }, func(n, t string) string { return `"` + n + `":` + t }, ",",
			map[string]string{"struct": `{"type":"object","properties":{"k":{"type":"string"}}}`, "enum": `{"type":"string","enum":["a","b"]}`, "scalar": `{"type":"string"}`, "array": `{"type":"array","items":%s}`, "map": `{"type":"object","additionalProperties":%s}`},
			jsDoc, map[string]string{
				"field": `"Root":{"type":"object","properties":{"f":%s}}`, "required-field": `"Root":{"type":"object","required":["f"],"properties":{"f":%s}}`,
				"array": `"Root":{"type":"object","properties":{"f":{"type":"array","items":%s}}}`, "map": `"Root":{"type":"object","properties":{"f":{"type":"object","additionalProperties":%s}}}`,
				"union-first": `"Root":{"type":"object","properties":{"f":{"oneOf":[%s,{"type":"string"}]}}}`, "union-second": `"Root":{"type":"object","properties":{"f":{"oneOf":[{"type":"string"},%s]}}}`,
				"alias": `"Root":%s`}},
		{"openapi", func(n string) string { return `{"$ref":"#/components/schemas/` + n + `"}` }, func(n, t string) string { return `"` + n + `":` + t }, ",",
			map[string]string{"struct": `{"type":"object","properties":{"k":{"type":"string"}}}`, "enum": `{"type":"string","enum":["a","b"]}`, "scalar": `{"type":"string"}`, "array": `{"type":"array","items":%s}`, "map": `{"type":"object","additionalProperties":%s}`},
			oaDoc, map[string]string{
				"field": `"Root":{"type":"object","properties":{"f":%s}}`, "required-field": `"Root":{"type":"object","required":["f"],"properties":{"f":%s}}`,
				"array": `"Root":{"type":"object","properties":{"f":{"type":"array","items":%s}}}`, "map": `"Root":{"type":"object","properties":{"f":{"type":"object","additionalProperties":%s}}}`,
				"union-first": `"Root":{"type":"object","properties":{"f":{"oneOf":[%s,{"type":"string"}]}}}`, "union-second": `"Root":{"type":"object","properties":{"f":{"oneOf":[{"type":"string"},%s]}}}`,
				"alias": `"Root":%s`}},
		{"cue", func(n string) string { return n }, func(n, t string) string { return n + ": " + t }, "\n",
			map[string]string{"struct": `{k?: string}`, "enum": `"a" | "b"`, "scalar": `string`, "array": `[...%s]`, "map": `{[string]: %s}`},
			cueDoc, map[string]string{
				"field": `Root: {f?: %s}`, "required-field": `Root: {f: %s}`, "array": `Root: {f?: [...%s]}`, "map": `Root: {f?: {[string]: %s}}`,
				"union-first": `Root: {f?: %s | string}`, "union-second": `Root: {f?: string | %s}`, "alias": `Root: %s`}},
	}
	uses := []string{"field", "required-field", "array", "map", "union-first", "union-second", "alias"}
	for _, f := range formats {
		ends := []struct {
			name string
			head string
			objs []string
		}{
			{"cycle-1", "C1", []string{f.obj("C1", f.ref("C1"))}},
			{"cycle-2", "C1", []string{f.obj("C1", f.ref("C2")), f.obj("C2", f.ref("C1"))}},
			{"cycle-3", "C1", []string{f.obj("C1", f.ref("C2")), f.obj("C2", f.ref("C3")), f.obj("C3", f.ref("C1"))}},
			{"array-self", "C1", []string{f.obj("C1", fmt.Sprintf(f.types["array"], f.ref("C1")))}},
			{"map-self", "C1", []string{f.obj("C1", fmt.Sprintf(f.types["map"], f.ref("C1")))}},
			{"array-cycle-2", "C1", []string{f.obj("C1", fmt.Sprintf(f.types["array"], f.ref("C2"))), f.obj("C2", f.ref("C1"))}},
			{"dangling", "Missing", nil},
			{"struct", "C1", []string{f.obj("C1", f.types["struct"])}},
			{"enum", "C1", []string{f.obj("C1", f.types["enum"])}},
			{"scalar", "C1", []string{f.obj("C1", f.types["scalar"])}},
		}
		for _, end := range ends {
			for tail := 0; tail <= 3; tail++ {
				objs := append([]string{}, end.objs...)
				head := end.head
				for i := tail; i >= 1; i-- {
					name := fmt.Sprintf("X%d", i)
					objs = append(objs, f.obj(name, f.ref(head)))
					head = name
				}
				for _, use := range uses {
					body := fmt.Sprintf(f.uses[use], f.ref(head))
					all := append([]string{body}, objs...)
					out = append(out, Shape{Format: f.format, Name: fmt.Sprintf("refgraph/tail-%d/%s/%s", tail, end.name, use), Doc: f.doc(strings.Join(all, f.join))})
				}
			}
		}
	}
	return out
}

// Unions of enums. The passes that fold unions of constants/enums into one
// enum handle member VALUES (compare, name, sort them): the family is the
// product of member alphabets (strings, ints, floats, bools, null, arrays,
// objects, nested, mixed; with members repeated across the branches) × the
// way the enums are combined (oneOf / anyOf, inline / named, with a constant,
// nested union, three branches, the same enum twice) × field / root.
func enumUnionShapes() []Shape {
	var out []Shape
	alphabets := []struct{ name, a, b string }{
		{"strings", `["a","b"]`, `["b","c"]`}, {"ints", `[1,2]`, `[2,3]`}, {"floats", `[1.5,2.5]`, `[2.5,1.0]`}, {"int-and-float", `[1,2]`, `[1.0,2.5]`},
		{"bools", `[true]`, `[true,false]`}, {"nulls", `[null]`, `[null,"a"]`}, {"arrays", `[[0,1],[0,100]]`, `[[0,1],[2]]`}, {"objects", `[{"a":1},{"a":2}]`, `[{"a":1},{"b":[1]}]`},
		{"nested", `[[[1]],{"a":{"b":[1]}}]`, `[[[1]],[[2]]]`}, {"mixed", `["a",1,null,true,[1],{"a":1}]`, `[[1],{"a":1},"a"]`}, {"empty-composites", `[[],{}]`, `[{},[]]`},
		{"numeric-strings", `["1","1.0"]`, `[1,"1"]`}, {"single-array", `[[1]]`, `[[1]]`},
	}
	for _, al := range alphabets {
		combos := []struct{ name, t, more string }{
			{"oneof", `{"oneOf":[{"enum":` + al.a + `},{"enum":` + al.b + `}]}`, ""},
			{"anyof", `{"anyOf":[{"enum":` + al.a + `},{"enum":` + al.b + `}]}`, ""},
			{"oneof-named", `{"oneOf":[{"$ref":"#/definitions/EA"},{"$ref":"#/definitions/EB"}]}`, `,"EA":{"enum":` + al.a + `},"EB":{"enum":` + al.b + `}`},
			{"oneof-named-and-inline", `{"oneOf":[{"$ref":"#/definitions/EA"},{"enum":` + al.b + `}]}`, `,"EA":{"enum":` + al.a + `}`},
			{"oneof-same-twice", `{"oneOf":[{"$ref":"#/definitions/EA"},{"$ref":"#/definitions/EA"}]}`, `,"EA":{"enum":` + al.a + `}`},
			{"oneof-with-const", `{"oneOf":[{"enum":` + al.a + `},{"const":` + strings.TrimSuffix(strings.TrimPrefix(al.b, "["), "]") + `}]}`, ""},
			{"oneof-three", `{"oneOf":[{"enum":` + al.a + `},{"enum":` + al.b + `},{"enum":` + al.a + `}]}`, ""},
			{"oneof-nested", `{"oneOf":[{"oneOf":[{"enum":` + al.a + `},{"enum":` + al.b + `}]},{"enum":` + al.a + `}]}`, ""},
			{"oneof-with-null", `{"oneOf":[{"enum":` + al.a + `},{"enum":` + al.b + `},{"type":"null"}]}`, ""},
			{"oneof-with-default", `{"oneOf":[{"enum":` + al.a + `},{"enum":` + al.b + `}],"default":` + strings.SplitN(strings.TrimPrefix(al.a, "["), ",", 2)[0] + `}`, ""},
			{"array-of-oneof", `{"type":"array","items":{"oneOf":[{"enum":` + al.a + `},{"enum":` + al.b + `}]}}`, ""},
			{"single", `{"enum":` + al.a + `}`, ""},
		}
		for _, c := range combos {
			if strings.Count(c.t, "[")+strings.Count(c.t, "{") != strings.Count(c.t, "]")+strings.Count(c.t, "}") {
				continue // a constant cut out of a composite member list: not well-formed
			}
			for _, draft := range []string{draft07, draft2020} {
				suffix := ""
				if draft == draft2020 {
					suffix = "@2020-12"
				}
				out = append(out, Shape{Format: "jsonschema", Name: "enumunion/" + al.name + "/" + c.name + "/field" + suffix, Doc: strings.Replace(jsDoc(`"Root":{"type":"object","properties":{"f":`+c.t+`}}`+c.more), draft07, draft, 1)})
				out = append(out, Shape{Format: "jsonschema", Name: "enumunion/" + al.name + "/" + c.name + "/root" + suffix, Doc: strings.Replace(jsDoc(`"Root":`+c.t+c.more), draft07, draft, 1)})
			}
			// OpenAPI: enums are typed; composite members need type object/array
			for _, typ := range []string{"string", "integer", "object", "array"} {
				t := strings.ReplaceAll(c.t, `{"enum":`, `{"type":"`+typ+`","enum":`)
				more := strings.ReplaceAll(strings.ReplaceAll(c.more, `{"enum":`, `{"type":"`+typ+`","enum":`), "#/definitions/", "#/components/schemas/")
				t = strings.ReplaceAll(t, "#/definitions/", "#/components/schemas/")
				if strings.Contains(t, `"const"`) || strings.Contains(t, `{"type":"null"}`) {
					continue
				}
				if typ == "array" {
					t = strings.ReplaceAll(t, `{"type":"array","enum":`, `{"type":"array","items":{},"enum":`)
					more = strings.ReplaceAll(more, `{"type":"array","enum":`, `{"type":"array","items":{},"enum":`)
				}
				out = append(out, Shape{Format: "openapi", Name: "enumunion/" + al.name + "/" + c.name + "/typed-" + typ + "/field", Doc: oaDoc(`"Root":{"type":"object","properties":{"f":` + t + `}}` + more)})
			}
		}
	}
	return out
}
