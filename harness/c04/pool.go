//go:build verif

package main

import (
	"encoding/json"
	"fmt"
	"os"
	"path/filepath"
	"regexp"
	"runtime"
	"sort"
	"strings"
	"sync"
	"sync/atomic"
	"time"

	"github.com/grafana/cog/verifx/vx"
)

// Case is one member of an enumerated input space.
type Case struct {
	Part  string // a-shapes | b-malformed | c-config | d-ir | a-reach
	Entry string // entry point: jsonschema, openapi, cue, yaml:pipeline, ..., config, ir
	// ID is the canonical identity of the input (deterministic).
	ID   string
	Size int
	Req  Req
	// Input is the input itself, for the replay file.
	Input any
}

// ---- scratch + workers -----------------------------------------------------------------

type pool struct {
	dir     string
	n       int
	execs   atomic.Int64
	deaths  atomic.Int64
	timeout time.Duration
}

func newPool(dir string) *pool {
	n := runtime.NumCPU()
	if v := os.Getenv("VERIF_C04_WORKERS"); v != "" {
		fmt.Sscan(v, &n)
	}
	if n < 1 {
		n = 1
	}
	return &pool{dir: dir, n: n, timeout: 45 * time.Second}
}

type worker struct {
	wk      *vx.Worker
	errFile string
}

func (p *pool) newWorker(i int) *worker {
	ef := filepath.Join(p.dir, fmt.Sprintf("stderr.%d.%d", os.Getpid(), i))
	os.WriteFile(ef, nil, 0o644)
	// The worker is this binary, started through sh so that it runs under an
	// address-space limit (an allocation bomb ends in a fatal "out of memory"
	// of that process) and with its stderr kept for the post-mortem.
	return &worker{errFile: ef, wk: &vx.Worker{
		Bin:     "/bin/sh",
		Args:    []string{"-c", `ulimit -v 4000000 2>/dev/null; exec "$0" "$@" 2>>"$C04_ERRFILE"`, os.Args[0], "--c04-worker", p.dir},
		Env:     []string{"GOMAXPROCS=2", "C04_ERRFILE=" + ef},
		Timeout: p.timeout,
	}}
}

// postMortem reads (and resets) what the dead worker wrote to stderr.
func (w *worker) postMortem() (what, site string) {
	b, _ := os.ReadFile(w.errFile)
	os.WriteFile(w.errFile, nil, 0o644)
	s := string(b)
	switch {
	case strings.Contains(s, "stack overflow") || strings.Contains(s, "goroutine stack exceeds"):
		what = "stack overflow"
	case strings.Contains(s, "out of memory") || strings.Contains(s, "cannot allocate memory"):
		what = "out of memory"
	case strings.Contains(s, "fatal error:"):
		i := strings.Index(s, "fatal error:")
		l := s[i:]
		if j := strings.IndexByte(l, '\n'); j > 0 {
			l = l[:j]
		}
		what = normMsg(l)
	default:
		what = "the process died"
	}
	site = "?"
	// the first goroutine block with frames
	if i := strings.Index(s, "\ngoroutine "); i >= 0 {
		block := s[i+1:]
		if j := strings.Index(block, "\n\n"); j > 0 {
			block = block[:j]
		}
		if what == "stack overflow" {
			site = recursionSite(block)
		} else if what == "out of memory" {
			// which allocation fails is arbitrary; what keeps allocating is not:
			// the cog function that occurs most often on the stack (a runaway
			// recursion), else the innermost cog function of the failing call
			site = dominantSite(block)
		} else {
			site = siteOf(cogFrames(block, false))
		}
	}
	return what, site
}

// run executes all cases on the pool; sink is called (concurrently) with the outcomes of each.
func (p *pool) run(cases []*Case, deadline time.Time, sink func(c *Case, outs []Out, hash string)) (done int) {
	var next atomic.Int64
	var completed atomic.Int64
	var wg sync.WaitGroup
	n := p.n
	if n > len(cases) {
		n = len(cases)
	}
	for i := 0; i < n; i++ {
		wg.Add(1)
		go func(i int) {
			defer wg.Done()
			w := p.newWorker(i)
			defer w.wk.Close()
			for {
				k := int(next.Add(1)) - 1
				if k >= len(cases) {
					return
				}
				if !deadline.IsZero() && time.Now().After(deadline) {
					return
				}
				c := cases[k]
				outs, hash := p.exec(w, c)
				sink(c, outs, hash)
				completed.Add(1)
			}
		}(i)
	}
	wg.Wait()
	return int(completed.Load())
}

func (p *pool) exec(w *worker, c *Case) ([]Out, string) {
	req := c.Req
	if req.TimeoutMS == 0 && hangsSeen.Load() >= 8 {
		req.TimeoutMS = 10000
	}
	b, err := json.Marshal(req)
	if err != nil {
		vx.Fatalf("marshal request: %v", err)
	}
	p.execs.Add(1)
	line, died := w.wk.Do(b)
	if died {
		p.deaths.Add(1)
		if w.wk.Hung {
			w.postMortem()
			return []Out{{St: "hang", Err: "no answer within " + p.timeout.String(), Site: "?"}}, ""
		}
		what, site := w.postMortem()
		if subs := splitLanguages(c); len(subs) > 1 {
			// a run over several output languages died: one language took the
			// process down and hid what the others do. Run them one by one.
			var outs []Out
			for _, sub := range subs {
				o, _ := p.exec(w, sub.c)
				for i := range o {
					if o[i].Lang == "" || o[i].Lang == "-" {
						o[i].Lang = sub.lang
					}
				}
				outs = append(outs, o...)
			}
			for _, o := range outs {
				if o.St == "fatal" || o.St == "hang" {
					return outs, ""
				}
			}
			// no single language dies: the death belongs to the run as a whole
			return append(outs, Out{St: "fatal", Err: what, Site: site}), ""
		}
		if c.Req.Op == "ir" {
			if parts := splitStage(c.Req.Stage); len(parts) > 0 {
				// a grouped request died: run its stages one by one so that the
				// death is attributed to one stage and the others are still judged
				var outs []Out
				for _, st := range parts {
					sub := *c
					sub.Req.Stage = st
					o, _ := p.exec(w, &sub)
					for i := range o {
						o[i].Lang = st
					}
					outs = append(outs, o...)
				}
				return outs, ""
			}
		}
		return []Out{{St: "fatal", Err: what, Site: site}}, ""
	}
	var resp Resp
	if err := json.Unmarshal(line, &resp); err != nil {
		vx.Fatalf("bad worker answer %q: %v", string(line), err)
	}
	for _, o := range resp.Outs {
		if o.St == "harness-error" {
			vx.Fatalf("worker: %s (case %s)", o.Err, c.ID)
		}
		if o.St == "hang" {
			// the worker exited after answering
			w.wk.Close()
			w.postMortem()
		}
	}
	return resp.Outs, resp.Hash
}

var reLanguageEntry = regexp.MustCompile(`(?m)^    - (\w+): \{.*\}\n`)

type languageCase struct {
	lang string
	c    *Case
}

// splitLanguages derives, from a configuration case whose pipeline lists
// several output languages (one `    - <language>: {...}` line each, as every
// pipeline generated by this harness does), one case per language.
func splitLanguages(c *Case) []languageCase {
	if c.Req.Op != "config" {
		return nil
	}
	pipeline := c.Req.Files["pipeline.yaml"]
	entries := reLanguageEntry.FindAllStringSubmatch(pipeline, -1)
	if len(entries) < 2 {
		return nil
	}
	var out []languageCase
	for i := range entries {
		n := -1
		filtered := reLanguageEntry.ReplaceAllStringFunc(pipeline, func(line string) string {
			n++
			if n == i {
				return line
			}
			return ""
		})
		sub := *c
		sub.Req.Files = map[string]string{}
		for k, v := range c.Req.Files {
			sub.Req.Files[k] = v
		}
		sub.Req.Files["pipeline.yaml"] = filtered
		out = append(out, languageCase{lang: entries[i][1], c: &sub})
	}
	return out
}

// single runs one case in a fresh worker (isolation for confirmation runs).
func (p *pool) single(c *Case) []Out {
	w := p.newWorker(1000 + int(p.execs.Load()%1000))
	defer w.wk.Close()
	outs, _ := p.exec(w, c)
	return outs
}

// ---- message normalisation --------------------------------------------------------------

var (
	reQuoted  = regexp.MustCompile(`"[^"\n]*"|'[^'\n]*'|` + "`[^`\n]*`")
	reDigits  = regexp.MustCompile(`[0-9]+`)
	reHex     = regexp.MustCompile(`0x[0-9a-fA-F]+`)
	rePath    = regexp.MustCompile(`/var/tmp/[^\s:'"]+`)
	reSpaces  = regexp.MustCompile(`\s+`)
	reBracket = regexp.MustCompile(`\[[^\]\n]{0,40}\]`)
)

// normMsg abstracts input-derived fragments from a diagnostic.
func normMsg(s string) string {
	s = rePath.ReplaceAllString(s, "<path>")
	s = reQuoted.ReplaceAllString(s, `"…"`)
	s = reHex.ReplaceAllString(s, "0xN")
	s = reDigits.ReplaceAllString(s, "N")
	s = reSpaces.ReplaceAllString(s, " ")
	s = strings.TrimSpace(s)
	if len(s) > 110 {
		s = s[:110]
	}
	return s
}

// panicClass is the message class of a panic value: type names are kept
// (they identify the failed assertion), values are abstracted.
func panicClass(s string) string {
	// the dynamic type found by a failed assertion depends on the input, the
	// asserted type identifies the assertion
	s = reIfaceIs.ReplaceAllString(s, "interface conversion: $1 is …, not ")
	s = reUncomparable.ReplaceAllString(s, "comparing uncomparable type …")
	return normMsg(s)
}

var reUncomparable = regexp.MustCompile(`comparing uncomparable type .*`)

var reIfaceIs = regexp.MustCompile(`interface conversion: (interface \{\}|[A-Za-z0-9_.*]+) is .*?, not `)

// errClass is a coarse class of an error message (for the vacuity figures only).
func errClass(s string) string {
	s = normMsg(s)
	s = reBracket.ReplaceAllString(s, "[…]")
	if len(s) > 70 {
		s = s[:70]
	}
	return s
}

// ---- statistics --------------------------------------------------------------------------

type stats struct {
	mu       sync.Mutex
	byPart   map[string]map[string]int // part -> outcome class -> executions
	byEntry  map[string]map[string]int // part/entry -> outcome class -> executions
	errs     map[string]map[string]int // part/entry -> error class -> count
	stages   map[string]map[string]int // entry -> stage reached -> count (malformed inputs)
	cases    map[string]int            // part -> cases
	distinct map[string]map[string]bool
}

func newStats() *stats {
	return &stats{byPart: map[string]map[string]int{}, byEntry: map[string]map[string]int{}, errs: map[string]map[string]int{}, stages: map[string]map[string]int{}, cases: map[string]int{}, distinct: map[string]map[string]bool{}}
}

func bump(m map[string]map[string]int, a, b string) {
	if m[a] == nil {
		m[a] = map[string]int{}
	}
	m[a][b]++
}

func (s *stats) add(c *Case, o Out) {
	s.mu.Lock()
	defer s.mu.Unlock()
	bump(s.byPart, c.Part, o.St)
	bump(s.byEntry, c.Part+"/"+c.Entry, o.St)
	if o.St == "error" || o.St == "config-error" {
		bump(s.errs, c.Part+"/"+c.Entry, errClass(o.Err))
	}
}

func (s *stats) stage(entry, stage string) {
	s.mu.Lock()
	defer s.mu.Unlock()
	bump(s.stages, entry, stage)
}

func flat(m map[string]map[string]int) []string {
	var out []string
	for a, mm := range m {
		var parts []string
		for b, n := range mm {
			parts = append(parts, fmt.Sprintf("%s=%d", b, n))
		}
		sort.Strings(parts)
		out = append(out, a+": "+strings.Join(parts, " "))
	}
	sort.Strings(out)
	return out
}

func distinctCounts(m map[string]map[string]int) []string {
	var out []string
	for a, mm := range m {
		out = append(out, fmt.Sprintf("%s: %d distinct error classes", a, len(mm)))
	}
	sort.Strings(out)
	return out
}

func topClasses(m map[string]int, n int) []string {
	type kv struct {
		k string
		v int
	}
	var l []kv
	for k, v := range m {
		l = append(l, kv{k, v})
	}
	sort.Slice(l, func(i, j int) bool {
		if l[i].v != l[j].v {
			return l[i].v > l[j].v
		}
		return l[i].k < l[j].k
	})
	var out []string
	for i, e := range l {
		if i >= n {
			break
		}
		out = append(out, fmt.Sprintf("%d× %s", e.v, e.k))
	}
	return out
}
