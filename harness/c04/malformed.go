//go:build verif

package main

import (
	"crypto/sha256"
	"fmt"
	"os"
	"path/filepath"
	"sort"
	"strings"
)

// The 12-symbol alphabet of DESIGN §6 C04 (b).
var alphabet = []string{"{", "}", "[", "]", ":", ",", `"`, "0", "-1", "null", "true", `"$ref"`}

// token positions of a text: [start,end) byte ranges of its lexical tokens.
// One lexer for JSON, CUE and YAML: a quoted string (with escapes), a run of
// word characters (identifiers, numbers, references, paths), or any other
// single non-blank byte. Blanks (incl. newlines and indentation) stay in place.
func tokenize(s string) [][2]int {
	var out [][2]int
	isWord := func(c byte) bool {
		return c >= 'a' && c <= 'z' || c >= 'A' && c <= 'Z' || c >= '0' && c <= '9' || strings.IndexByte("_.$#/+-%~@", c) >= 0 || c >= 0x80
	}
	for i := 0; i < len(s); {
		c := s[i]
		switch {
		case c == ' ' || c == '\n' || c == '\t' || c == '\r':
			i++
		case c == '"' || c == '\'':
			j := i + 1
			for j < len(s) && s[j] != c && s[j] != '\n' {
				if s[j] == '\\' && j+1 < len(s) {
					j++
				}
				j++
			}
			if j < len(s) && s[j] == c {
				j++
			}
			out = append(out, [2]int{i, j})
			i = j
		case isWord(c):
			j := i
			for j < len(s) && isWord(s[j]) {
				j++
			}
			out = append(out, [2]int{i, j})
			i = j
		default:
			out = append(out, [2]int{i, i + 1})
			i++
		}
	}
	return out
}

// Seed is a well-formed document whose neighbourhood is enumerated.
type Seed struct {
	Entry string // jsonschema | openapi | cue | yaml:pipeline | yaml:passes | yaml:veneers
	Name  string
	Text  string
}

type mutant struct {
	Desc string
	Text string
}

// neighbourhood enumerates EVERY truncation offset and EVERY (token position ×
// operator) single-token mutation of the seed: delete, duplicate, replace by
// each alphabet symbol. Duplicated texts are kept once (first description).
func neighbourhood(seed Seed, seen map[[32]byte]bool) []mutant {
	var out []mutant
	add := func(desc, text string) {
		h := sha256.Sum256([]byte(seed.Entry + "\x00" + text))
		if seen[h] {
			return
		}
		seen[h] = true
		out = append(out, mutant{desc, text})
	}
	s := seed.Text
	for n := 0; n < len(s); n++ {
		add(fmt.Sprintf("truncate@%d", n), s[:n])
	}
	for i, t := range tokenize(s) {
		tok := s[t[0]:t[1]]
		add(fmt.Sprintf("tok%d:delete", i), s[:t[0]]+s[t[1]:])
		add(fmt.Sprintf("tok%d:duplicate", i), s[:t[1]]+" "+tok+s[t[1]:])
		for _, a := range alphabet {
			if a == tok {
				continue
			}
			add(fmt.Sprintf("tok%d:replace(%s)", i, a), s[:t[0]]+a+s[t[1]:])
		}
	}
	return out
}

// shortStrings enumerates ALL strings of at most n symbols over the alphabet
// (symbols separated by one blank, so that each stays one token), shortest first.
func shortStrings(n int) []string {
	out := []string{""}
	level := []string{""}
	for l := 1; l <= n; l++ {
		var next []string
		for _, p := range level {
			for _, a := range alphabet {
				if p == "" {
					next = append(next, a)
				} else {
					next = append(next, p+" "+a)
				}
			}
		}
		out = append(out, next...)
		level = next
	}
	return out
}

// repoSeeds reads the small fixtures of the repository (≤ maxBytes), smallest first.
func repoSeeds(repo, entry string, globs []string, maxBytes, maxCount int) []Seed {
	type f struct {
		path string
		text string
	}
	var files []f
	for _, g := range globs {
		m, _ := filepath.Glob(filepath.Join(repo, g))
		sort.Strings(m)
		for _, p := range m {
			b, err := os.ReadFile(p)
			if err != nil || len(b) == 0 || len(b) > maxBytes {
				continue
			}
			files = append(files, f{p, string(b)})
		}
	}
	sort.SliceStable(files, func(i, j int) bool {
		if len(files[i].text) != len(files[j].text) {
			return len(files[i].text) < len(files[j].text)
		}
		return files[i].path < files[j].path
	})
	var out []Seed
	for _, x := range files {
		if len(out) >= maxCount {
			break
		}
		rel, _ := filepath.Rel(repo, x.path)
		out = append(out, Seed{Entry: entry, Name: "repo:" + rel, Text: x.text})
	}
	return out
}

// shapeSeeds picks the named shapes of part (a) as seeds.
func shapeSeeds(shapes []Shape, format string, names []string) []Seed {
	by := map[string]Shape{}
	for _, s := range shapes {
		if s.Format == format {
			by[s.Name] = s
		}
	}
	var out []Seed
	for _, n := range names {
		s, ok := by[n]
		if !ok {
			panic("c04: no shape " + format + "/" + n)
		}
		out = append(out, Seed{Entry: format, Name: "shape:" + n, Text: s.Doc})
	}
	return out
}

var jsonSchemaSeedNames = []string{
	"root-is-struct-no-defs", "enum-no-type-strings/field", "array-tuple-items/field", "default-int-on-integer", "default-list-on-array",
	"allof-ref-and-struct/field", "oneof-disc-string-const/field", "oneof-struct-or-scalar-alias/field", "alias-cycle-2", "cycle-through-oneof-null",
	"additional-properties-false-without-properties/field", "additional-properties-string-with-properties/field", "pattern-properties-only/field",
	"type-list-string-null/field", "const-object-untyped/field", "const-int-typed/field", "property-name-empty/field", "integer-all-bounds/field",
	"nullable-everything/root", "ref-with-siblings",
}

var openAPISeedNames = []string{
	"empty-schemas", "enum-no-type/field", "enum-integer/field", "array-without-items/field", "array-items-ref/field", "default-int-on-integer", "default-list-on-array",
	"allof-ref-and-struct/field", "oneof-discriminator-mapping/field", "oneof-struct-or-scalar-alias-discriminator/field", "alias-cycle-2", "cycle-through-oneof",
	"additional-properties-false-without-properties/field", "additional-properties-ref-with-properties/field", "ref-nullable-via-allof", "ref-to-nowhere",
	"nullable-scalars/root", "integer-all-constraints/field", "string-pattern-constant/field", "property-name-empty/field",
}

var cueSeedNames = []string{
	"empty-file", "selector-into-struct/field", "closed-list/field", "list-default/field", "time-Time", "strings-constraints", "disjunction-default-scalar/field",
	"disjunction-refs/field", "disjunction-ref-scalar-alias/field", "disjunction-constants-int-enum-attr/field", "const-ref-to-enum-member/field", "bottom/field",
	"struct-pattern-constraint/field", "struct-unification/field", "nested-definitions", "alias-cycle-2", "recursive-struct", "ref-nullable",
	"number-bounds/root", "numbers-all-kinds/root",
}
