//go:build verif

package main

import (
	"fmt"
	"sort"
	"strings"

	"github.com/grafana/cog/verifx/vx"
	"gopkg.in/yaml.v3"
)

// ---- the small schema every configuration is applied to ----------------------------------

const smallSchema = `{"$ref":"#/definitions/Root","definitions":{
"Root":{"type":"object","required":["name","s"],"properties":{
  "name":{"type":"string","default":"n"},
  "flag":{"type":"boolean"},
  "count":{"type":"integer"},
  "tags":{"type":"array","items":{"type":"string"}},
  "labels":{"type":"object","additionalProperties":{"type":"string"}},
  "inner":{"type":"object","properties":{"a":{"type":"string"}}},
  "e":{"$ref":"#/definitions/E"},
  "u":{"oneOf":[{"$ref":"#/definitions/S"},{"$ref":"#/definitions/T"}]},
  "v":{"oneOf":[{"type":"string"},{"type":"boolean"}]},
  "s":{"$ref":"#/definitions/S"},
  "k":{"$ref":"#/definitions/K"},
  "as":{"$ref":"#/definitions/AliasS"},
  "aa":{"$ref":"#/definitions/AliasAlias"},
  "ae":{"$ref":"#/definitions/AliasE"},
  "al":{"$ref":"#/definitions/AliasList"}}},
"S":{"type":"object","required":["kind"],"properties":{"kind":{"type":"string","const":"s"},"x":{"type":"string"}}},
"T":{"type":"object","required":["kind"],"properties":{"kind":{"type":"string","const":"t"},"y":{"type":"integer"}}},
"E":{"type":"string","enum":["a","b"]},
"K":{"type":"string","const":"kk"},
"AliasS":{"$ref":"#/definitions/S"},
"AliasAlias":{"$ref":"#/definitions/AliasS"},
"AliasE":{"$ref":"#/definitions/E"},
"AliasList":{"type":"array","items":{"$ref":"#/definitions/S"}}}}
`

// oddValuesSchema is the small schema with constants, defaults and enum values
// whose JSON type is not the one their schema type calls for (the front-end
// stores them as they are: json.Number, string, bool, nil, []any, map).
const oddValuesSchema = `{"$ref":"#/definitions/Root","definitions":{
"Root":{"type":"object","required":["name","s"],"properties":{
  "name":{"type":"string","default":3},
  "flag":{"type":"boolean","default":"yes"},
  "count":{"type":"integer","default":"many"},
  "ratio":{"type":"number","default":true},
  "tags":{"type":"array","items":{"type":"string"},"default":{"a":1}},
  "labels":{"type":"object","additionalProperties":{"type":"string"},"default":[1]},
  "inner":{"type":"object","properties":{"a":{"type":"string","const":1.5}},"default":"x"},
  "e":{"$ref":"#/definitions/E"},
  "u":{"oneOf":[{"$ref":"#/definitions/S"},{"$ref":"#/definitions/T"}],"default":3},
  "v":{"oneOf":[{"type":"string"},{"type":"boolean"}],"default":{"a":[1]}},
  "s":{"$ref":"#/definitions/S"},
  "k":{"$ref":"#/definitions/K"},
  "n":{"type":"integer","const":"seven"},
  "b":{"type":"boolean","const":0}}},
"S":{"type":"object","required":["kind"],"properties":{"kind":{"type":"string","const":1},"x":{"type":"string"}}},
"T":{"type":"object","required":["kind"],"properties":{"kind":{"type":"string","const":2},"y":{"type":"integer"}}},
"E":{"enum":["a",1,null,true,{"a":1}]},
"K":{"type":"string","const":3}}}
`

// the objects and the options of builder Root (targets for the rule × target products)
var (
	smallObjects = []string{"Root", "S", "T", "E", "K", "AliasS", "AliasAlias", "AliasE", "AliasList", "Missing"}
	rootOptions  = []string{"name", "flag", "count", "tags", "labels", "inner", "e", "u", "v", "s", "k", "as", "aa", "ae", "al", "missing"}
)

// ---- templates -------------------------------------------------------------------------------

// Template is one valid configuration document.
type Template struct {
	Kind string // pipeline | passes | veneers
	Name string
	YAML string
}

const tString = `{kind: scalar, scalar: {scalar_kind: string}}`

var passTemplates = []Template{
	{"passes", "entrypoint_identification", `passes: [{entrypoint_identification: {}}]`},
	{"passes", "dataquery_identification", `passes: [{dataquery_identification: {}}]`},
	{"passes", "unspec", `passes: [{unspec: {}}]`},
	{"passes", "replace_reference", `passes: [{replace_reference: {from: p.S, to: p.T}}]`},
	{"passes", "fields_set_default", `passes: [{fields_set_default: {defaults: {p.Root.count: 3}}}]`},
	{"passes", "fields_set_required", `passes: [{fields_set_required: {fields: [p.Root.flag]}}]`},
	{"passes", "fields_set_not_required", `passes: [{fields_set_not_required: {fields: [p.Root.name]}}]`},
	{"passes", "omit", `passes: [{omit: {objects: [p.T]}}]`},
	{"passes", "add_fields", `passes: [{add_fields: {to: p.Root, fields: [{name: extra, type: ` + tString + `, required: true, comments: [c]}]}}]`},
	{"passes", "name_anonymous_struct", `passes: [{name_anonymous_struct: {field: p.Root.inner, as: Inner}}]`},
	{"passes", "add_object", `passes: [{add_object: {object: p.Added, as: {kind: struct, struct: {fields: [{name: a, type: ` + tString + `}]}}, comments: [c]}}]`},
	{"passes", "rename_object", `passes: [{rename_object: {from: p.S, to: Renamed}}]`},
	{"passes", "retype_object", `passes: [{retype_object: {object: p.E, as: ` + tString + `, comments: [c]}}]`},
	{"passes", "hint_object", `passes: [{hint_object: {object: p.Root, hints: {skip_variant_plugin_registration: true}}}]`},
	{"passes", "retype_field", `passes: [{retype_field: {field: p.Root.count, as: {kind: ref, ref: {referred_pkg: p, referred_type: S}}, comments: [c]}}]`},
	{"passes", "omit_fields", `passes: [{omit_fields: {fields: [p.Root.flag]}}]`},
	{"passes", "schema_set_identifier", `passes: [{schema_set_identifier: {package: p, identifier: Ident}}]`},
	{"passes", "schema_set_entry_point", `passes: [{schema_set_entry_point: {package: p, entry_point: S}}]`},
	{"passes", "duplicate_object", `passes: [{duplicate_object: {object: p.S, as: p.S2, omit_fields: [x]}}]`},
	{"passes", "trim_enum_values", `passes: [{trim_enum_values: {}}]`},
	{"passes", "constant_to_enum", `passes: [{constant_to_enum: {objects: [p.K]}}]`},
	{"passes", "anonymous_structs_to_named", `passes: [{anonymous_structs_to_named: {}}]`},
	{"passes", "disjunction_to_type", `passes: [{disjunction_infer_mapping: {}}, {disjunction_to_type: {}}]`},
	{"passes", "disjunction_of_anonymous_structs_to_explicit", `passes: [{disjunction_of_anonymous_structs_to_explicit: {}}]`},
	{"passes", "disjunction_infer_mapping", `passes: [{disjunction_infer_mapping: {}}]`},
	{"passes", "disjunction_with_constant_to_default", `passes: [{disjunction_with_constant_to_default: {}}]`},
}

// irPassTemplates are the reference-taking passes aimed at the positions part
// (d) puts its enumerated type at: object p.Root and field p.Root.f.
var irPassTemplates = []Template{
	{"passes", "replace_reference@root", `passes: [{replace_reference: {from: p.Root, to: p.S}}]`},
	{"passes", "replace_reference@toroot", `passes: [{replace_reference: {from: p.S, to: p.Root}}]`},
	{"passes", "fields_set_default@f", `passes: [{fields_set_default: {defaults: {p.Root.f: 3}}}]`},
	{"passes", "fields_set_default@f:string", `passes: [{fields_set_default: {defaults: {p.Root.f: s}}}]`},
	{"passes", "fields_set_required@f", `passes: [{fields_set_required: {fields: [p.Root.f]}}]`},
	{"passes", "fields_set_not_required@f", `passes: [{fields_set_not_required: {fields: [p.Root.f]}}]`},
	{"passes", "omit@root", `passes: [{omit: {objects: [p.Root]}}]`},
	{"passes", "add_fields@root", `passes: [{add_fields: {to: p.Root, fields: [{name: extra, type: ` + tString + `, required: true}]}}]`},
	{"passes", "name_anonymous_struct@f", `passes: [{name_anonymous_struct: {field: p.Root.f, as: Inner}}]`},
	{"passes", "add_object@root", `passes: [{add_object: {object: p.Root, as: ` + tString + `}}]`},
	{"passes", "rename_object@root", `passes: [{rename_object: {from: p.Root, to: Renamed}}]`},
	{"passes", "retype_object@root", `passes: [{retype_object: {object: p.Root, as: {kind: ref, ref: {referred_pkg: p, referred_type: S}}}}]`},
	{"passes", "hint_object@root", `passes: [{hint_object: {object: p.Root, hints: {implements_variant: panelcfg}}}]`},
	{"passes", "retype_field@f", `passes: [{retype_field: {field: p.Root.f, as: {kind: array, array: {value_type: {kind: ref, ref: {referred_pkg: p, referred_type: Root}}}}}}]`},
	{"passes", "omit_fields@f", `passes: [{omit_fields: {fields: [p.Root.f]}}]`},
	{"passes", "duplicate_object@root", `passes: [{duplicate_object: {object: p.Root, as: p.Root2, omit_fields: [f]}}]`},
	{"passes", "constant_to_enum@root", `passes: [{constant_to_enum: {objects: [p.Root]}}]`},
	{"passes", "constant_to_enum@all", `passes: [{constant_to_enum: {objects: [p.Root, p.K, p.A, p.E, p.S, p.Count]}}]`},
}

func passTemplateByName(n string) (Template, bool) {
	for _, t := range irPassTemplates {
		if t.Name == n {
			return t, true
		}
	}
	for _, t := range passTemplates {
		if t.Name == n {
			return t, true
		}
	}
	return Template{}, false
}

func veneer(rules string) string { return "language: all\npackage: p\n" + rules + "\n" }

var builderRuleTemplates = []Template{
	{"veneers", "b.omit", veneer(`builders: [{omit: {by_object: T}}]`)},
	{"veneers", "b.omit.by_name", veneer(`builders: [{omit: {by_name: T}}]`)},
	{"veneers", "b.omit.by_variant", veneer(`builders: [{omit: {by_variant: panelcfg}}]`)},
	{"veneers", "b.omit.from_disjunction", veneer(`builders: [{omit: {generated_from_disjunction: true}}]`)},
	{"veneers", "b.rename", veneer(`builders: [{rename: {by_object: S, as: Renamed}}]`)},
	{"veneers", "b.merge_into", veneer(`builders: [{merge_into: {destination: Root, source: S, under_path: s, exclude_options: [kind], rename_options: {x: sx}}}]`)},
	{"veneers", "b.compose", veneer(`builders: [{compose: {by_object: T, source_builder_name: p.S, plugin_discriminator_field: kind, exclude_options: [x], composition_map: {s: S}, composed_builder_name: Composed, preserve_original_builders: true}}]`)},
	{"veneers", "b.properties", veneer(`builders: [{properties: {by_object: Root, set: [{name: prop, type: ` + tString + `}]}}]`)},
	{"veneers", "b.duplicate", veneer(`builders: [{duplicate: {by_object: S, as: SCopy, exclude_options: [x]}}]`)},
	{"veneers", "b.initialize", veneer(`builders: [{initialize: {by_object: Root, set: [{property: count, value: 3}]}}]`)},
	{"veneers", "b.promote_options_to_constructor", veneer(`builders: [{promote_options_to_constructor: {by_object: Root, options: [name]}}]`)},
	{"veneers", "b.add_option", veneer(`builders: [{add_option: {by_object: Root, option: {name: added, comments: [c], arguments: [{name: val, type: ` + tString + `}], assignments: [{path: name, method: direct, value: {argument: {name: val, type: ` + tString + `}}}]}}}]`)},
	{"veneers", "b.add_option.constant", veneer(`builders: [{add_option: {by_object: Root, option: {name: added, assignments: [{path: count, method: direct, value: {constant: 3}}]}}}]`)},
	{"veneers", "b.add_option.envelope", veneer(`builders: [{add_option: {by_object: Root, option: {name: added, arguments: [{name: val, type: ` + tString + `}], assignments: [{path: s, method: direct, value: {envelope: {values: [{field: x, value: {argument: {name: val, type: ` + tString + `}}}]}}}]}}}]`)},
	{"veneers", "b.add_option.append", veneer(`builders: [{add_option: {by_object: Root, option: {name: added, arguments: [{name: val, type: ` + tString + `}], assignments: [{path: tags, method: append, value: {argument: {name: val, type: ` + tString + `}}}]}}}]`)},
	{"veneers", "b.add_factory", veneer(`builders: [{add_factory: {by_object: Root, factory: {name: preset, comments: [c], arguments: [{name: n, type: ` + tString + `}], options: [{name: name, parameters: [{argument: {name: n, type: ` + tString + `}}]}, {name: flag, parameters: [{constant: {type: {kind: scalar, scalar: {scalar_kind: bool}}, value: true}}]}]}}}]`)},
}

var optionRuleTemplates = []Template{
	{"veneers", "o.omit", veneer(`options: [{omit: {by_name: Root.count}}]`)},
	{"veneers", "o.omit.by_builder", veneer(`options: [{omit: {by_builder: Root.count}}]`)},
	{"veneers", "o.omit.by_names", veneer(`options: [{omit: {by_names: {object: Root, options: [count, flag]}}}]`)},
	{"veneers", "o.omit.by_names.builder", veneer(`options: [{omit: {by_names: {builder: Root, options: [count, flag]}}}]`)},
	{"veneers", "o.rename", veneer(`options: [{rename: {by_name: Root.name, as: title}}]`)},
	{"veneers", "o.rename_arguments", veneer(`options: [{rename_arguments: {by_name: Root.name, as: [title]}}]`)},
	{"veneers", "o.unfold_boolean", veneer(`options: [{unfold_boolean: {by_name: Root.flag, true_as: on, false_as: off}}]`)},
	{"veneers", "o.struct_fields_as_arguments", veneer(`options: [{struct_fields_as_arguments: {by_name: Root.s, fields: [x]}}]`)},
	{"veneers", "o.struct_fields_as_options", veneer(`options: [{struct_fields_as_options: {by_name: Root.s, fields: [x]}}]`)},
	{"veneers", "o.array_to_append", veneer(`options: [{array_to_append: {by_name: Root.tags}}]`)},
	{"veneers", "o.map_to_index", veneer(`options: [{map_to_index: {by_name: Root.labels}}]`)},
	{"veneers", "o.disjunction_as_options", veneer(`options: [{disjunction_as_options: {by_name: Root.v, argument_index: 0}}]`)},
	{"veneers", "o.duplicate", veneer(`options: [{duplicate: {by_name: Root.name, as: name2}}]`)},
	{"veneers", "o.add_assignment", veneer(`options: [{add_assignment: {by_name: Root.name, assignment: {path: count, method: direct, value: {constant: 3}}}}]`)},
	{"veneers", "o.add_assignment.envelope", veneer(`options: [{add_assignment: {by_name: Root.name, assignment: {path: s, method: direct, value: {envelope: {values: [{field: x, value: {constant: c}}]}}}}}]`)},
	{"veneers", "o.add_comments", veneer(`options: [{add_comments: {by_name: Root.name, comments: [c]}}]`)},
}

const languagesBlock = `    - go: {package_root: 'verifgen/x', generate_json_marshaller: true, generate_strict_unmarshaller: true, generate_equal: true, generate_validate: true, any_as_interface: true, skip_runtime: false, skip_post_formatting: false}
    - java: {package_path: 'verifgen.x', generate_json_marshaller: true, skip_runtime: false, builder_factories_class_map: {p: PFactories}}
    - jsonschema: {compact: false}
    - openapi: {compact: true}
    - php: {namespace_root: 'Verifgen', generate_json_marshaller: true, builder_factories_class_map: {p: PFactories}}
    - python: {path_prefix: 'pfx', generate_json_marshaller: true, skip_runtime: false}
    - typescript: {path_prefix: 'src', skip_runtime: false, skip_index: false, enums_as_union_types: true, packages_import_map: {q: '@scope/q'}}
`

func pipelineYAML(input string, transformations string, types, builders, converters, apiref bool, languages string) string {
	b := func(v bool) string {
		if v {
			return "true"
		}
		return "false"
	}
	return "debug: false\nparameters:\n  who: p\ninputs:\n" + input + transformations +
		"output:\n  directory: 'out/%l'\n  types: " + b(types) + "\n  builders: " + b(builders) + "\n  converters: " + b(converters) + "\n  api_reference: " + b(apiref) +
		"\n  templates_data: {a: b}\n  languages:\n" + languages
}

const fullInput = `  - if: '"%who%" == "p"'
    jsonschema:
      path: '%DIR%/p.json'
      package: p
      allowed_objects: [Root, S, T, E, K, AliasS, AliasAlias, AliasE, AliasList]
      transformations: ['%DIR%/input-passes.yaml']
      metadata: {kind: core, variant: panelcfg, identifier: Ident}
`

const plainInput = "  - jsonschema: {path: '%DIR%/p.json', package: p}\n"

const fullTransformations = "transformations:\n  schemas: ['%DIR%/passes.yaml']\n  builders: ['%DIR%/veneers']\n"

func fullPipeline() string {
	return pipelineYAML(fullInput, fullTransformations, true, true, true, true, languagesBlock)
}

const noPasses = "passes: []\n"
const noVeneers = "language: all\npackage: p\n"

// configFiles assembles the files of one configuration case.
func configFiles(pipeline, passes, veneers string) map[string]string {
	return map[string]string{
		"pipeline.yaml":     pipeline,
		"p.json":            smallSchema,
		"passes.yaml":       passes,
		"input-passes.yaml": noPasses,
		"veneers/v.yaml":    veneers,
	}
}

// ---- positions and the wrong-type alphabet --------------------------------------------------

var wrongValues = []string{`null`, `[]`, `{}`, `-1`, `""`, `"a.b.c.d"`, `"no-dot"`}

type position struct {
	Path string
	Node *yaml.Node
}

// scalarPositions lists every scalar *value* position of a document (mapping
// keys are not positions), in document order.
func scalarPositions(n *yaml.Node, path string, out *[]position) {
	switch n.Kind {
	case yaml.DocumentNode:
		for _, c := range n.Content {
			scalarPositions(c, path, out)
		}
	case yaml.MappingNode:
		for i := 0; i+1 < len(n.Content); i += 2 {
			scalarPositions(n.Content[i+1], path+"."+n.Content[i].Value, out)
		}
	case yaml.SequenceNode:
		for i, c := range n.Content {
			scalarPositions(c, fmt.Sprintf("%s[%d]", path, i), out)
		}
	case yaml.ScalarNode:
		*out = append(*out, position{Path: path, Node: n})
	}
}

func parseYAML(text string) *yaml.Node {
	var doc yaml.Node
	if err := yaml.Unmarshal([]byte(text), &doc); err != nil {
		vx.Fatalf("template is not YAML: %v\n%s", err, text)
	}
	return &doc
}

func renderYAML(doc *yaml.Node) string {
	b, err := yaml.Marshal(doc)
	if err != nil {
		vx.Fatalf("rendering a configuration document: %v", err)
	}
	return string(b)
}

type substitution struct {
	Path  string
	Value string
	Text  string
}

// substitutions replaces every scalar position by each wrong-type value.
func substitutions(text string) []substitution {
	doc := parseYAML(text)
	var pos []position
	scalarPositions(doc, "", &pos)
	var out []substitution
	for _, p := range pos {
		saved := *p.Node
		for _, w := range wrongValues {
			repl := parseYAML(w)
			*p.Node = *repl.Content[0]
			out = append(out, substitution{Path: p.Path, Value: w, Text: renderYAML(doc)})
		}
		*p.Node = saved
	}
	return out
}

// ---- the "as:" type alphabet: kind/payload combinations, consistent or not -------------------

var asTypes = []string{
	`{}`, `{kind: zz}`, `{kind: ""}`,
	`{kind: struct}`, `{kind: ref}`, `{kind: scalar}`, `{kind: array}`, `{kind: map}`, `{kind: enum}`, `{kind: disjunction}`, `{kind: intersection}`, `{kind: constant_ref}`, `{kind: composable_slot}`,
	`{kind: ref, scalar: {scalar_kind: string}}`, `{kind: struct, scalar: {scalar_kind: string}}`, `{kind: scalar, ref: {referred_pkg: p, referred_type: S}}`, `{kind: array, scalar: {scalar_kind: string}}`,
	`{kind: scalar, scalar: {}}`, `{kind: scalar, scalar: {scalar_kind: zz}}`, `{kind: scalar, scalar: {scalar_kind: "null"}}`, `{kind: scalar, scalar: {scalar_kind: any}}`, `{kind: scalar, scalar: {scalar_kind: bytes}}`,
	`{kind: scalar, scalar: {scalar_kind: string, value: 3}}`, `{kind: scalar, scalar: {scalar_kind: int64, value: x}}`, `{kind: scalar, scalar: {scalar_kind: string, constraints: [{op: zz, args: []}]}}`,
	`{kind: scalar, scalar: {scalar_kind: string, constraints: [{op: minLength, args: [x]}]}}`, `{kind: scalar, scalar: {scalar_kind: int64, constraints: [{op: ">=", args: []}]}}`,
	`{kind: scalar, scalar: {scalar_kind: string}, default: 3}`, `{kind: scalar, scalar: {scalar_kind: int64}, default: [1]}`, `{kind: scalar, scalar: {scalar_kind: bool}, default: {a: 1}}`, `{kind: scalar, scalar: {scalar_kind: string}, nullable: true}`,
	`{kind: array, array: {}}`, `{kind: array, array: {value_type: {kind: struct}}}`, `{kind: array, array: {value_type: {}}}`, `{kind: array, array: {value_type: ` + tString + `}, default: 3}`,
	`{kind: map, map: {}}`, `{kind: map, map: {indextype: ` + tString + `}}`, `{kind: map, map: {valuetype: ` + tString + `}}`, `{kind: map, map: {indextype: {kind: struct}, valuetype: {kind: ref}}}`,
	`{kind: enum, enum: {}}`, `{kind: enum, enum: {values: []}}`, `{kind: enum, enum: {values: [{name: a, value: a}]}}`, `{kind: enum, enum: {values: [{type: ` + tString + `, name: "", value: null}]}}`, `{kind: enum, enum: {values: [{type: {kind: struct}, name: a, value: [1]}]}}`,
	`{kind: enum, enum: {values: [{type: ` + tString + `, name: a, value: a}]}, default: zz}`,
	`{kind: disjunction, disjunction: {}}`, `{kind: disjunction, disjunction: {branches: []}}`, `{kind: disjunction, disjunction: {branches: [{kind: ref}]}}`, `{kind: disjunction, disjunction: {branches: [` + tString + `]}}`,
	`{kind: disjunction, disjunction: {branches: [{kind: ref, ref: {referred_pkg: p, referred_type: S}}, {kind: ref, ref: {referred_pkg: p, referred_type: Missing}}]}}`,
	`{kind: disjunction, disjunction: {branches: [{kind: ref, ref: {referred_pkg: p, referred_type: S}}, {kind: ref, ref: {referred_pkg: p, referred_type: T}}], discriminator: nope, discriminator_mapping: {a: Missing}}}`,
	`{kind: disjunction, disjunction: {branches: [{kind: ref, ref: {referred_pkg: p, referred_type: S}}, {kind: ref, ref: {referred_pkg: p, referred_type: K}}]}}`,
	`{kind: intersection, intersection: {}}`, `{kind: intersection, intersection: {branches: [{kind: ref}]}}`, `{kind: intersection, intersection: {branches: [{kind: ref, ref: {referred_pkg: p, referred_type: S}}, ` + tString + `]}}`,
	`{kind: intersection, intersection: {branches: [{kind: ref, ref: {referred_pkg: p, referred_type: Missing}}]}}`,
	`{kind: ref, ref: {}}`, `{kind: ref, ref: {referred_pkg: p}}`, `{kind: ref, ref: {referred_type: S}}`, `{kind: ref, ref: {referred_pkg: p, referred_type: Missing}}`, `{kind: ref, ref: {referred_pkg: q, referred_type: S}}`,
	`{kind: ref, ref: {referred_pkg: p, referred_type: Root}}`, `{kind: ref, ref: {referred_pkg: p, referred_type: E}}`, `{kind: ref, ref: {referred_pkg: p, referred_type: S}, default: 3}`, `{kind: ref, ref: {referred_pkg: p, referred_type: E}, default: zz}`,
	`{kind: constant_ref, constantreference: {}}`, `{kind: constant_ref, constantreference: {referred_pkg: p, referred_type: E, reference_value: zz}}`, `{kind: constant_ref, constantreference: {referred_pkg: p, referred_type: Missing, reference_value: a}}`, `{kind: constant_ref, constantreference: {referred_pkg: p, referred_type: S, reference_value: a}}`,
	`{kind: composable_slot, composable_slot: {}}`, `{kind: composable_slot, composable_slot: {variant: zz}}`, `{kind: composable_slot, composable_slot: {variant: dataquery}}`,
	`{kind: struct, struct: {}}`, `{kind: struct, struct: {fields: []}}`, `{kind: struct, struct: {fields: [{name: ""}]}}`, `{kind: struct, struct: {fields: [{name: a}]}}`, `{kind: struct, struct: {fields: [{name: a, type: {kind: struct}}]}}`,
	`{kind: struct, struct: {fields: [{name: a, type: ` + tString + `}, {name: a, type: ` + tString + `}]}}`, `{kind: struct, struct: {fields: [{name: a, type: {kind: ref, ref: {referred_pkg: p, referred_type: Missing}}, required: true}]}}`,
	`{kind: struct, struct: {fields: [{name: a, type: ` + tString + `}]}, hints: {implements_variant: zz}}`, `{kind: struct, struct: {fields: [{name: a, type: ` + tString + `}]}, hints: {implements_variant: [1]}}`,
	`{kind: scalar, scalar: {scalar_kind: string}, hints: {string_format_datetime: zz}}`, `{kind: disjunction, disjunction: {branches: [` + tString + `]}, hints: {disjunction_of_scalars: zz}}`,
}

// ---- `if:` expressions -------------------------------------------------------------------------

var ifExpressions = []string{
	`true`, `false`, `1`, `"a"`, `nil`, `[1,2]`, `{a: 1}`, `1.5`, `true ? 1 : 2`, `1 +`, `(`, `)`, `""`, ` `, `not`, `not true`, `true and`, `a`, `a.b.c.d`, `no-dot`, `%who%`, `%`, `%%`,
	`1e999999999`, `1e-999999999`, `2 ** 1000000`, `10 ** 10 ** 10`, `99999999999999999999999999`, `-9223372036854775808`, `9223372036854775807 + 1`, `1 / 0`, `1 % 0`, `0.0 / 0.0 == 0.0 / 0.0`,
	`sprintf`, `sprintf()`, `sprintf(1)`, `sprintf("%d")`, `sprintf("%s", "a") == "a"`, `sprintf("%999999d", 1) == ""`, `sprintf("%v", sprintf) == ""`,
	`semver`, `semver()`, `semver("x")`, `semver("1.2.3")`, `semver("1.2.3").Major`, `semver("1.2.3").Major > 0`, `semver("1.2.3").GT(semver("1.0.0"))`, `semver("1.2.3").GT(1)`, `semver(1)`, `semver("1.2.3").Nope`, `semver(nil)`,
	`[1,2,3][5]`, `[][0] == 1`, `{a: 1}.b == nil`, `{a: 1}.b.c == nil`, `nil.a == nil`, `nil?.a == nil`, `"a"[5] == "a"`, `"abc"[1:0] == ""`, `"abc"[-5:] == ""`, `[1,2,3][2:1] == []`,
	`len(nil) == 0`, `len(1) == 0`, `1..3 == [1,2,3]`, `len(1..1000000000) > 0`, `all(1..3, {# > 0})`, `map(1..3, {#})`, `reduce(1..3, #acc + #) > 0`, `reduce([], #acc + #) > 0`, `first([]) == nil`, `max() == 1`, `max([]) == 1`, `min(1, "a") == 1`,
	`int("a") == 1`, `float("x") == 1.0`, `string(nil) == ""`, `toJSON(sprintf) == ""`, `fromJSON("{") == nil`, `fromJSON("") == nil`, `date("x") == nil`, `duration("x") == nil`, `now() == nil`, `repeat("a", 1000000000) == ""`, `repeat("a", -1) == ""`,
	`"a" matches "("`, `"a" matches "a"`, `"a" in nil`, `1 in [1]`, `"a" contains 1`, `true == "true"`, `let x = 1; x == 1`, `let x = x; true`, `# == 1`, `#acc`, `$env == nil`, `$env.sprintf == nil`, `$env["semver"]("1.0.0").Major == 1`,
	`true // comment`, `true /* unterminated`, "true\nfalse", "\"unterminated", `'a' == "a"`, "`a` == \"a\"", `0x == 0`, `1_000 == 1000`, `1e == 1`, `.5 == 0.5`, `5. == 5.0`, `((((((((((true))))))))))`, `!!!!!!!!true`, `- - - 1 == -1`,
	`true ?: false`, `nil ?? true`, `true | false`, `1 | sprintf`, `true |`, `[true][0]`, `{"a": true}.a`, `{"a": true}["a"]`, `{(1): true}`, `{a: true`, `[true`, `true]`, `true}`, `a ? b : c`, `true ? : false`,
}

// ---- enumerating the configuration space -------------------------------------------------------

type configCase struct {
	ID    string
	Files map[string]string
	Doc   string // the document under test (for the report)
	// Extra parameters (the CLI's --parameters k=v, handed to codegen.Parameters)
	Extra map[string]string
	// TimeoutMS, when set, tightens the watchdog for the first execution
	TimeoutMS int
}

// ---- parameters ------------------------------------------------------------------------------------

type paramSet struct {
	Name  string
	File  [][2]string // parameters: of the pipeline file, in document order
	Extra map[string]string
}

func chainParams(n int) [][2]string {
	out := [][2]string{{"x", "%p01%"}}
	for i := 1; i < n; i++ {
		out = append(out, [2]string{fmt.Sprintf("p%02d", i), fmt.Sprintf("%%p%02d%%/%d", i+1, i)})
	}
	return append(out, [2]string{fmt.Sprintf("p%02d", n), "end"})
}

func doublingParams(n int) [][2]string {
	out := [][2]string{{"x", "%d01%"}}
	for i := 1; i < n; i++ {
		out = append(out, [2]string{fmt.Sprintf("d%02d", i), fmt.Sprintf("%%d%02d%%%%d%02d%%", i+1, i+1)})
	}
	return append(out, [2]string{fmt.Sprintf("d%02d", n), "ab"})
}

// the parameter named x is the one the settings use
var paramSets = []paramSet{
	{Name: "plain", File: [][2]string{{"x", "v"}}},
	{Name: "nested-later-name", File: [][2]string{{"x", "%y%/v"}, {"y", "w"}}},
	{Name: "nested-earlier-name", File: [][2]string{{"x", "%a%/v"}, {"a", "w"}}},
	{Name: "self-identity", File: [][2]string{{"x", "%x%"}}},
	{Name: "self-growing", File: [][2]string{{"x", "%x%/generated"}}},
	{Name: "self-growing-prefix", File: [][2]string{{"x", "pre/%x%"}}},
	{Name: "cycle-2", File: [][2]string{{"x", "%y%/generated"}, {"y", "%x%/.."}}},
	{Name: "cycle-2-reversed-names", File: [][2]string{{"x", "%a%/generated"}, {"a", "%x%/.."}}},
	{Name: "cycle-3", File: [][2]string{{"x", "%y%/1"}, {"y", "%z%/2"}, {"z", "%x%/3"}}},
	{Name: "cycle-not-through-x", File: [][2]string{{"x", "%y%"}, {"y", "%z%/a"}, {"z", "%y%/b"}}},
	{Name: "chain-10", File: chainParams(10)},
	{Name: "chain-40", File: chainParams(40)},
	{Name: "doubling-14", File: doublingParams(14)},
	{Name: "builtin-self", File: [][2]string{{"__config_dir", "%__config_dir%/sub"}, {"x", "%__config_dir%"}}},
	{Name: "builtin-override", File: [][2]string{{"__current_dir", "cur"}, {"x", "%__current_dir%/%__config_dir%"}}},
	{Name: "builtin-cycle", File: [][2]string{{"__config_dir", "%x%/.."}, {"x", "%__config_dir%/generated"}}},
	{Name: "empty-name", File: [][2]string{{"", "e"}, {"x", "a%%b"}}},
	{Name: "empty-name-self", File: [][2]string{{"", "%%"}, {"x", "a%%b"}}},
	{Name: "empty-value", File: [][2]string{{"x", ""}}},
	{Name: "percent", File: [][2]string{{"x", "%"}}},
	{Name: "percent-wrapped", File: [][2]string{{"x", "%%x%%"}}},
	{Name: "unknown-placeholder", File: [][2]string{{"x", "%nope%"}}},
	{Name: "value-is-placeholder-of-l", File: [][2]string{{"x", "%l"}, {"l", "%x%"}}},
	{Name: "null-value", File: [][2]string{{"x", "~"}}},
	{Name: "extra-overrides-with-self", File: [][2]string{{"x", "v"}}, Extra: map[string]string{"x": "%x%/generated"}},
	{Name: "extra-closes-cycle", File: [][2]string{{"x", "%y%/a"}}, Extra: map[string]string{"y": "%x%/b"}},
	{Name: "extra-plain-override", File: [][2]string{{"x", "v"}}, Extra: map[string]string{"x": "w"}},
	{Name: "extra-only", File: nil, Extra: map[string]string{"x": "%y%", "y": "%x%/a"}},
	{Name: "extra-builtin", File: [][2]string{{"x", "%__config_dir%"}}, Extra: map[string]string{"__config_dir": "%__config_dir%/.."}},
}

// every setting the pipeline interpolates parameters into
var paramSettings = []struct{ Name, Input, Transformations, Output, Languages string }{
	{Name: "unused"},
	{Name: "output.directory", Output: "  directory: 'out/%x%/%l'\n"},
	{Name: "output.repository_templates", Output: "  repository_templates: '%DIR%/%x%'\n"},
	{Name: "output.templates_data", Output: "  templates_data: {a: '%x%'}\n"},
	{Name: "input.path", Input: "  - jsonschema: {path: '%DIR%/p.json%x%', package: p}\n"},
	{Name: "input.package", Input: "  - jsonschema: {path: '%DIR%/p.json', package: 'p%x%'}\n"},
	{Name: "input.allowed_objects", Input: "  - jsonschema: {path: '%DIR%/p.json', package: p, allowed_objects: ['Root', '%x%']}\n"},
	{Name: "input.transformations", Input: "  - jsonschema: {path: '%DIR%/p.json', package: p, transformations: ['%DIR%/%x%.yaml']}\n"},
	{Name: "input.if", Input: "  - if: '\"%x%\" != \"\"'\n    jsonschema: {path: '%DIR%/p.json', package: p}\n"},
	{Name: "input.cue.entrypoint", Input: "  - cue: {entrypoint: '%DIR%/%x%'}\n"},
	{Name: "input.cue.cue_imports", Input: "  - cue: {entrypoint: '%DIR%/veneers', cue_imports: ['%DIR%/%x%:example.com/x']}\n"},
	{Name: "input.openapi.path", Input: "  - openapi: {path: '%DIR%/%x%', package: p}\n"},
	{Name: "input.kind_registry", Input: "  - kind_registry: {path: '%DIR%/%x%', version: '%x%'}\n"},
	{Name: "transformations.schemas", Transformations: "transformations: {schemas: ['%DIR%/%x%.yaml']}\n"},
	{Name: "transformations.builders", Transformations: "transformations: {builders: ['%DIR%/%x%']}\n"},
	{Name: "go.package_root", Languages: "    - go: {package_root: 'github.com/%x%/pkg'}\n"},
	{Name: "go.overrides_templates", Languages: "    - go: {overrides_templates: ['%DIR%/%x%']}\n"},
	{Name: "go.extra_files_templates", Languages: "    - go: {extra_files_templates: ['%DIR%/%x%']}\n"},
	{Name: "java.package_path", Languages: "    - java: {package_path: 'com.%x%'}\n"},
	{Name: "php.namespace_root", Languages: "    - php: {namespace_root: 'NS\\%x%'}\n"},
	{Name: "python.path_prefix", Languages: "    - python: {path_prefix: '%x%'}\n"},
	{Name: "typescript.path_prefix", Languages: "    - typescript: {path_prefix: '%x%'}\n"},
	{Name: "typescript.packages_import_map", Languages: "    - typescript: {packages_import_map: {q: '%x%'}}\n"},
}

func parameterCases() []configCase {
	var out []configCase
	for _, ps := range paramSets {
		var params strings.Builder
		if len(ps.File) > 0 {
			params.WriteString("parameters:\n")
			for _, kv := range ps.File {
				k, _ := yaml.Marshal(kv[0])
				v, _ := yaml.Marshal(kv[1])
				if kv[1] == "~" {
					v = []byte("~\n")
				}
				params.WriteString("  " + strings.TrimSpace(string(k)) + ": " + strings.TrimSpace(string(v)) + "\n")
			}
		}
		for _, st := range paramSettings {
			input, langs := st.Input, st.Languages
			if input == "" {
				input = plainInput
			}
			if langs == "" {
				langs = "    - go: {}\n"
			}
			doc := params.String() + "inputs:\n" + input + st.Transformations + "output:\n  types: true\n  builders: true\n"
			if !strings.Contains(st.Output, "directory:") {
				doc += "  directory: 'out/%l'\n"
			}
			doc += st.Output + "  languages:\n" + langs
			out = append(out, configCase{ID: "pipeline/parameters " + ps.Name + " in " + st.Name, Files: configFiles(doc, noPasses, noVeneers), Doc: doc, Extra: ps.Extra, TimeoutMS: 10000})
		}
	}
	return out
}

func configSpace(thorough bool) (cases []configCase, templates []configCase) {
	addT := func(id string, files map[string]string, doc string) {
		templates = append(templates, configCase{ID: "template:" + id, Files: files, Doc: doc})
	}
	add := func(id string, files map[string]string, doc string) {
		cases = append(cases, configCase{ID: id, Files: files, Doc: doc})
	}
	plainPipe := pipelineYAML(plainInput, fullTransformations, true, true, true, false, languagesBlock)

	// 1. pipeline file: the full template, every scalar position × wrong-type alphabet
	full := fullPipeline()
	addT("pipeline/full", configFiles(full, noPasses, noVeneers), full)
	for _, s := range substitutions(full) {
		add("pipeline/full @ "+s.Path+" := "+s.Value, configFiles(s.Text, noPasses, noVeneers), s.Text)
	}
	// if: expressions
	for _, e := range ifExpressions {
		q, _ := yaml.Marshal(e)
		in := "  - if: " + strings.TrimSpace(string(q)) + "\n    jsonschema: {path: '%DIR%/p.json', package: p}\n"
		doc := pipelineYAML(in, "", true, true, false, false, languagesBlock)
		add("pipeline/if := "+e, configFiles(doc, noPasses, noVeneers), doc)
	}
	// allowed_objects
	for _, ao := range []string{`[]`, `[Missing]`, `[""]`, `[Root, Root]`, `[p.Root]`, `[S]`, `[E]`, `[K]`, `[root]`, `[Root]`, `[T, S]`, `[Root, Missing]`} {
		in := "  - jsonschema: {path: '%DIR%/p.json', package: p, allowed_objects: " + ao + "}\n"
		doc := pipelineYAML(in, "", true, true, true, false, languagesBlock)
		add("pipeline/allowed_objects := "+ao, configFiles(doc, noPasses, noVeneers), doc)
	}
	// metadata
	for _, kind := range []string{"core", "composable", "zz", `""`} {
		for _, variant := range []string{"panelcfg", "dataquery", "zz", `""`} {
			for _, ident := range []string{"Ident", `""`} {
				in := "  - jsonschema: {path: '%DIR%/p.json', package: p, metadata: {kind: " + kind + ", variant: " + variant + ", identifier: " + ident + "}}\n"
				doc := pipelineYAML(in, "", true, true, true, false, languagesBlock)
				add("pipeline/metadata := "+kind+"/"+variant+"/"+ident, configFiles(doc, noPasses, noVeneers), doc)
			}
		}
	}
	// package names and input kinds
	for _, in := range []string{
		"  - jsonschema: {path: '%DIR%/p.json'}\n", "  - jsonschema: {path: '%DIR%/p.json', package: ''}\n", "  - jsonschema: {path: '%DIR%/p.json', package: 'a-b'}\n", "  - jsonschema: {path: '%DIR%/p.json', package: 'a.b'}\n",
		"  - jsonschema: {path: '%DIR%/p.json', package: 'type'}\n", "  - jsonschema: {path: '%DIR%/p.json', package: '1'}\n", "  - jsonschema: {path: '%DIR%/p.json', package: 'a/b'}\n",
		"  - jsonschema: {path: '%DIR%/missing.json', package: p}\n", "  - jsonschema: {path: '%DIR%', package: p}\n", "  - jsonschema: {package: p}\n", "  - jsonschema: {}\n",
		"  - openapi: {path: '%DIR%/p.json', package: p}\n", "  - openapi: {path: '%DIR%/p.json', package: p, no_validate: true}\n", "  - openapi: {}\n", "  - cue: {entrypoint: '%DIR%'}\n", "  - cue: {entrypoint: '%DIR%/missing'}\n", "  - cue: {}\n",
		"  - cue: {entrypoint: '%DIR%', cue_imports: ['nocolon']}\n", "  - cue: {entrypoint: '%DIR%', cue_imports: ['a:b:c']}\n", "  - cue: {entrypoint: '%DIR%', cue_imports: ['%DIR%/missing:example.com/x']}\n", "  - cue: {entrypoint: '%DIR%', forced_envelope: Env, package: x}\n",
		"  - kindsys_core: {entrypoint: '%DIR%'}\n", "  - kindsys_composable: {entrypoint: '%DIR%'}\n", "  - kind_registry: {path: '%DIR%'}\n", "  - kind_registry: {path: '%DIR%', version: next}\n", "  - kind_registry: {}\n",
		"  - {}\n", "  - jsonschema: {path: '%DIR%/p.json', package: p}\n    openapi: {path: '%DIR%/p.json', package: p}\n",
		"  - jsonschema: {path: '%DIR%/p.json', package: p}\n  - jsonschema: {path: '%DIR%/p.json', package: p}\n", "  - jsonschema: {path: '%DIR%/p.json', package: p}\n  - jsonschema: {path: '%DIR%/p.json', package: q}\n",
		"  - jsonschema: {path: '%DIR%/p.json', package: p, transformations: ['%DIR%/missing.yaml']}\n", "  - jsonschema: {path: '%DIR%/p.json', package: p, transformations: ['%DIR%']}\n",
	} {
		doc := pipelineYAML(in, "", true, true, true, false, languagesBlock)
		add("pipeline/inputs := "+strings.TrimSpace(strings.ReplaceAll(in, "\n", " ")), configFiles(doc, noPasses, noVeneers), doc)
	}
	for _, tr := range []string{
		"transformations: {schemas: ['%DIR%/missing.yaml']}\n", "transformations: {builders: ['%DIR%/missing']}\n", "transformations: {builders: ['%DIR%/p.json']}\n", "transformations: {schemas: ['%DIR%/p.json']}\n",
		"transformations: {schemas: ['%DIR%/veneers/v.yaml']}\n", "transformations: {builders: ['%DIR%']}\n", "transformations: {builders: ['[']}\n", "transformations: {schemas: ['%DIR%/passes.yaml', '%DIR%/passes.yaml']}\n",
	} {
		doc := pipelineYAML(plainInput, tr, true, true, true, false, languagesBlock)
		add("pipeline/transformations := "+strings.TrimSpace(tr), configFiles(doc, `passes: [{omit: {objects: [p.T]}}]`, noVeneers), doc)
	}
	// every combination of requested outputs
	for m := 0; m < 16; m++ {
		doc := pipelineYAML(plainInput, "", m&1 != 0, m&2 != 0, m&4 != 0, m&8 != 0, languagesBlock)
		add(fmt.Sprintf("pipeline/outputs types=%v builders=%v converters=%v api_reference=%v", m&1 != 0, m&2 != 0, m&4 != 0, m&8 != 0), configFiles(doc, noPasses, noVeneers), doc)
	}
	for _, l := range []string{
		"    - go: {skip_runtime: true}\n", "    - go: {}\n", "    - go: {package_root: ''}\n", "    - go: {package_root: 'a b/c'}\n", "    - go: {overrides_templates: ['%DIR%/missing']}\n", "    - go: {extra_files_templates: ['%DIR%/missing']}\n",
		"    - go: {overrides_templates: ['%DIR%/veneers']}\n", "    - go: {extra_files_templates: ['%DIR%/veneers']}\n", "    - go: {extra_files_templates: ['%DIR%']}\n",
		"    - java: {skip_runtime: true}\n", "    - java: {}\n", "    - java: {package_path: 'a b'}\n", "    - java: {extra_files_templates: ['%DIR%']}\n", "    - python: {skip_runtime: true}\n", "    - python: {path_prefix: '../x'}\n", "    - python: {extra_files_templates: ['%DIR%']}\n",
		"    - typescript: {skip_runtime: true, skip_index: true}\n", "    - typescript: {path_prefix: ''}\n", "    - typescript: {extra_files_templates: ['%DIR%']}\n", "    - php: {}\n", "    - php: {namespace_root: 'A\\B\\'}\n", "    - php: {extra_files_templates: ['%DIR%']}\n",
		"    - {}\n", "    - go: {}\n      java: {}\n", "    - go: {}\n    - go: {package_root: x}\n", "", "    - jsonschema: {compact: true}\n", "    - openapi: {}\n",
	} {
		doc := pipelineYAML(plainInput, "", true, true, true, true, l)
		if l == "" {
			doc = strings.Replace(doc, "  languages:\n", "  languages: []\n", 1)
		}
		add("pipeline/languages := "+strings.TrimSpace(strings.ReplaceAll(l, "\n", " ")), configFiles(doc, noPasses, noVeneers), doc)
	}
	for _, rt := range []string{"'%DIR%/missing'", "'%DIR%'", "'%DIR%/p.json'", "'%DIR%/veneers'"} {
		doc := strings.Replace(pipelineYAML(plainInput, "", true, false, false, false, "    - go: {}\n"), "  templates_data:", "  repository_templates: "+rt+"\n  templates_data:", 1)
		add("pipeline/repository_templates := "+rt, configFiles(doc, noPasses, noVeneers), doc)
	}

	// parameters: self-references, cycles, chains, built-in names, extra
	// parameters (--parameters) × every interpolated setting
	cases = append(cases, parameterCases()...)

	// 2. compiler passes: every template, every scalar position × alphabet; then the `as:` alphabet
	for _, t := range passTemplates {
		addT("passes/"+t.Name, configFiles(plainPipe, t.YAML, noVeneers), t.YAML)
		for _, s := range substitutions(t.YAML) {
			add("passes/"+t.Name+" @ "+s.Path+" := "+s.Value, configFiles(plainPipe, s.Text, noVeneers), s.Text)
		}
	}
	// every pass on the schema whose values have the "wrong" Go type for their kind
	oddFiles := func(passes string) map[string]string {
		f := configFiles(plainPipe, passes, noVeneers)
		f["p.json"] = oddValuesSchema
		return f
	}
	add("passes/none on odd-values schema", oddFiles(noPasses), noPasses)
	for _, t := range passTemplates {
		add("passes/"+t.Name+" on odd-values schema", oddFiles(t.YAML), t.YAML)
	}
	for _, o := range smallObjects {
		doc := `passes: [{constant_to_enum: {objects: [p.` + o + `]}}]`
		add("passes/constant_to_enum object := "+o+" on odd-values schema", oddFiles(doc), doc)
	}
	for _, as := range asTypes {
		for _, tpl := range []struct{ name, yaml string }{
			{"retype_object", `passes: [{retype_object: {object: p.S, as: %s}}]`},
			{"retype_field", `passes: [{retype_field: {field: p.Root.s, as: %s}}]`},
			{"add_object", `passes: [{add_object: {object: p.Added, as: %s}}]`},
			{"add_fields", `passes: [{add_fields: {to: p.Root, fields: [{name: extra, type: %s, required: true}]}}]`},
		} {
			doc := fmt.Sprintf(tpl.yaml, as)
			add("passes/"+tpl.name+" as := "+as, configFiles(plainPipe, doc, noVeneers), doc)
		}
	}
	// transformations that create references across packages: two inputs (p and
	// q), the passes pointing fields/objects/references of p at objects of q
	qSchema := `{"definitions":{"ID":{"type":"string"},"Count":{"type":"integer"},"E":{"type":"string","enum":["a","b"]},"S":{"type":"object","properties":{"kind":{"type":"string","const":"s"},"x":{"type":"string"}}},"MA":{"type":"object","additionalProperties":{"type":"string"}},"LA":{"type":"array","items":{"type":"string"}},"U":{"oneOf":[{"type":"string"},{"type":"integer"}]},"Q":{"type":"object","properties":{"id":{"$ref":"#/definitions/ID"},"count":{"$ref":"#/definitions/Count"},"e":{"$ref":"#/definitions/E"},"s":{"$ref":"#/definitions/S"},"ma":{"$ref":"#/definitions/MA"},"la":{"$ref":"#/definitions/LA"},"u":{"$ref":"#/definitions/U"}}}},"$ref":"#/definitions/Q"}`
	twoInputs := strings.Replace(plainPipe, plainInput, plainInput+"  - jsonschema: {path: '%DIR%/q.json', package: q}\n", 1)
	twoInputsQFirst := strings.Replace(plainPipe, plainInput, "  - jsonschema: {path: '%DIR%/q.json', package: q}\n"+plainInput, 1)
	for _, target := range []string{"ID", "Count", "E", "S", "MA", "LA", "U", "Missing"} {
		qref := `{kind: ref, ref: {referred_pkg: q, referred_type: ` + target + `}}`
		for _, tpl := range []struct{ name, yaml string }{
			{"retype_field", `passes: [{retype_field: {field: p.Root.name, as: ` + qref + `}}]`},
			{"retype_field.union-first", `passes: [{retype_field: {field: p.Root.name, as: {kind: disjunction, disjunction: {branches: [` + qref + `, ` + tString + `]}}}}]`},
			{"retype_field.union-second", `passes: [{retype_field: {field: p.Root.name, as: {kind: disjunction, disjunction: {branches: [` + tString + `, ` + qref + `]}}}}]`},
			{"retype_field.union-with-local-ref", `passes: [{retype_field: {field: p.Root.name, as: {kind: disjunction, disjunction: {branches: [` + qref + `, {kind: ref, ref: {referred_pkg: p, referred_type: S}}]}}}}]`},
			{"retype_field.array", `passes: [{retype_field: {field: p.Root.name, as: {kind: array, array: {value_type: ` + qref + `}}}}]`},
			{"retype_field.map", `passes: [{retype_field: {field: p.Root.name, as: {kind: map, map: {indextype: ` + tString + `, valuetype: ` + qref + `}}}}]`},
			{"retype_field.constant_ref", `passes: [{retype_field: {field: p.Root.name, as: {kind: constant_ref, constantreference: {referred_pkg: q, referred_type: ` + target + `, reference_value: a}}}}]`},
			{"retype_object", `passes: [{retype_object: {object: p.K, as: ` + qref + `}}]`},
			{"add_object", `passes: [{add_object: {object: p.Added, as: ` + qref + `}}]`},
			{"add_fields", `passes: [{add_fields: {to: p.Root, fields: [{name: extra, type: ` + qref + `, required: true}]}}]`},
			{"replace_reference.to", `passes: [{replace_reference: {from: p.S, to: q.` + target + `}}]`},
			{"replace_reference.from", `passes: [{replace_reference: {from: q.` + target + `, to: p.S}}]`},
			{"duplicate_object.into-p", `passes: [{duplicate_object: {object: q.` + target + `, as: p.Copy}}]`},
			{"duplicate_object.into-q", `passes: [{duplicate_object: {object: p.S, as: q.` + target + `}}]`},
			{"rename_object", `passes: [{rename_object: {from: q.` + target + `, to: Renamed}}]`},
			{"omit", `passes: [{omit: {objects: [q.` + target + `]}}]`},
			{"fields_set_default", `passes: [{retype_field: {field: p.Root.name, as: ` + qref + `}}, {fields_set_default: {defaults: {p.Root.name: {x: v}}}}]`},
		} {
			for _, pipe := range []struct{ name, yaml string }{{"", twoInputs}, {" (q first)", twoInputsQFirst}} {
				if pipe.name != "" && !thorough {
					continue
				}
				files := configFiles(pipe.yaml, tpl.yaml, noVeneers)
				files["q.json"] = qSchema
				add("passes/two packages"+pipe.name+": "+tpl.name+" -> q."+target, files, tpl.yaml)
			}
		}
	}

	// struct-level defaults through fields_set_default (defaults.go)
	cases = append(cases, structDefaultConfigCases(plainPipe)...)

	// every reference-taking pass on every object / field of the small schema
	for _, o := range smallObjects {
		for _, tpl := range []struct{ name, yaml string }{
			{"omit", `passes: [{omit: {objects: [p.%s]}}]`}, {"constant_to_enum", `passes: [{constant_to_enum: {objects: [p.%s]}}]`}, {"rename_object", `passes: [{rename_object: {from: p.%s, to: Root}}]`},
			{"replace_reference", `passes: [{replace_reference: {from: p.%s, to: p.Root}}]`}, {"replace_reference.to", `passes: [{replace_reference: {from: p.S, to: p.%s}}]`}, {"duplicate_object", `passes: [{duplicate_object: {object: p.%s, as: p.Root}}]`},
			{"duplicate_object.otherpkg", `passes: [{duplicate_object: {object: p.%s, as: q.Copy}}]`}, {"schema_set_entry_point", `passes: [{schema_set_entry_point: {package: p, entry_point: %s}}]`},
			{"hint_object", `passes: [{hint_object: {object: p.%s, hints: {implements_variant: panelcfg}}}]`}, {"add_fields", `passes: [{add_fields: {to: p.%s, fields: [{name: name, type: ` + tString + `}]}}]`},
			{"add_object.existing", `passes: [{add_object: {object: p.%s, as: ` + tString + `}}]`}, {"retype_object.self", `passes: [{retype_object: {object: p.%s, as: {kind: ref, ref: {referred_pkg: p, referred_type: %[1]s}}}}]`},
		} {
			doc := fmt.Sprintf(tpl.yaml, o)
			add("passes/"+tpl.name+" object := "+o, configFiles(plainPipe, doc, noVeneers), doc)
		}
	}
	for _, f := range rootOptions {
		for _, tpl := range []struct{ name, yaml string }{
			{"name_anonymous_struct", `passes: [{name_anonymous_struct: {field: p.Root.%s, as: S}}]`}, {"fields_set_default", `passes: [{fields_set_default: {defaults: {p.Root.%s: [1, {a: b}]}}}]`},
			{"fields_set_default.null", `passes: [{fields_set_default: {defaults: {p.Root.%s: null}}}]`},
			{"fields_set_default.map", `passes: [{fields_set_default: {defaults: {p.Root.%s: {a: 1}}}}]`}, {"fields_set_default.int", `passes: [{fields_set_default: {defaults: {p.Root.%s: 3}}}]`},
			{"fields_set_default.string", `passes: [{fields_set_default: {defaults: {p.Root.%s: s}}}]`}, {"fields_set_default.bool", `passes: [{fields_set_default: {defaults: {p.Root.%s: true}}}]`},
			{"fields_set_default.float", `passes: [{fields_set_default: {defaults: {p.Root.%s: 1.5}}}]`}, {"fields_set_default.uint64", `passes: [{fields_set_default: {defaults: {p.Root.%s: 18446744073709551615}}}]`}, {"retype_field.self", `passes: [{retype_field: {field: p.Root.%s, as: {kind: ref, ref: {referred_pkg: p, referred_type: Root}}}}]`},
			{"omit_fields", `passes: [{omit_fields: {fields: [p.Root.%s]}}]`}, {"fields_set_required", `passes: [{fields_set_required: {fields: [p.Root.%s, p.Root.%[1]s]}}]`},
		} {
			doc := fmt.Sprintf(tpl.yaml, f)
			add("passes/"+tpl.name+" field := "+f, configFiles(plainPipe, doc, noVeneers), doc)
		}
	}

	// 3. veneers: every template, every scalar position × alphabet; every rule on every target
	for _, t := range append(append([]Template{}, builderRuleTemplates...), optionRuleTemplates...) {
		addT("veneers/"+t.Name, configFiles(plainPipe, noPasses, t.YAML), t.YAML)
		for _, s := range substitutions(t.YAML) {
			add("veneers/"+t.Name+" @ "+s.Path+" := "+s.Value, configFiles(plainPipe, noPasses, s.Text), s.Text)
		}
	}
	for _, t := range builderRuleTemplates {
		for _, o := range smallObjects {
			for _, from := range []string{"by_object: Root", "by_object: S", "by_object: T", "destination: Root", "source: S", "source_builder_name: p.S", "source_builder_name: p"} {
				if !strings.Contains(t.YAML, from) {
					continue
				}
				key := from[:strings.Index(from, ":")]
				doc := strings.Replace(t.YAML, from, key+": "+o, 1)
				if doc == t.YAML {
					continue
				}
				add("veneers/"+t.Name+" ("+from+") := "+o, configFiles(plainPipe, noPasses, doc), doc)
			}
			// compose: the source builder is named with its package; every
			// object as source × every object as composed builder
			if strings.Contains(t.YAML, "source_builder_name: p.S") {
				for _, selected := range smallObjects {
					doc := strings.Replace(strings.Replace(t.YAML, "source_builder_name: p.S", "source_builder_name: p."+o, 1), "by_object: T", "by_object: "+selected, 1)
					add("veneers/"+t.Name+" source := p."+o+" composing "+selected, configFiles(plainPipe, noPasses, doc), doc)
				}
			}
		}
	}
	for _, t := range optionRuleTemplates {
		i := strings.Index(t.YAML, "by_name: Root.")
		if i < 0 {
			continue
		}
		j := i + len("by_name: Root.")
		k := j
		for k < len(t.YAML) && (t.YAML[k] >= 'a' && t.YAML[k] <= 'z') {
			k++
		}
		for _, o := range rootOptions {
			if t.YAML[j:k] == o {
				continue
			}
			doc := t.YAML[:j] + o + t.YAML[k:]
			add("veneers/"+t.Name+" option := "+o, configFiles(plainPipe, noPasses, doc), doc)
		}
	}
	// argument indexes, option lists and paths
	for _, ai := range []string{"1", "5", "-1", "9223372036854775807"} {
		for _, o := range []string{"v", "u", "name"} {
			doc := veneer(`options: [{disjunction_as_options: {by_name: Root.` + o + `, argument_index: ` + ai + `}}]`)
			add("veneers/o.disjunction_as_options option := "+o+" argument_index := "+ai, configFiles(plainPipe, noPasses, doc), doc)
		}
	}
	for _, opts := range []string{`[]`, `[missing]`, `[name, name]`, `[name, flag, count, tags, labels, inner, e, u, v, s, k]`, `[""]`} {
		doc := veneer(`builders: [{promote_options_to_constructor: {by_object: Root, options: ` + opts + `}}]`)
		add("veneers/b.promote_options_to_constructor options := "+opts, configFiles(plainPipe, noPasses, doc), doc)
	}
	for _, path := range []string{`""`, `missing`, `s.x`, `s.missing`, `name.x`, `tags.x`, `labels.x`, `u.x`, `s.`, `.s`, `s..x`, `inner.a`, `e`, `k`, `"s.x.y"`} {
		for _, tpl := range []struct{ name, yaml string }{
			{"b.initialize", `builders: [{initialize: {by_object: Root, set: [{property: %s, value: 3}]}}]`},
			{"b.add_option.constant", `builders: [{add_option: {by_object: Root, option: {name: added, assignments: [{path: %s, method: direct, value: {constant: 3}}]}}}]`},
			{"b.add_option.envelope", `builders: [{add_option: {by_object: Root, option: {name: added, assignments: [{path: %s, method: direct, value: {envelope: {values: [{field: x, value: {constant: c}}]}}}]}}}]`},
			{"b.add_option.append", `builders: [{add_option: {by_object: Root, option: {name: added, assignments: [{path: %s, method: append, value: {constant: c}}]}}}]`},
			{"b.add_option.index", `builders: [{add_option: {by_object: Root, option: {name: added, assignments: [{path: %s, method: index, value: {constant: c}}]}}}]`},
			{"o.add_assignment", `options: [{add_assignment: {by_name: Root.name, assignment: {path: %s, method: direct, value: {constant: 3}}}}]`},
			{"b.merge_into", `builders: [{merge_into: {destination: Root, source: S, under_path: %s}}]`},
		} {
			doc := veneer(fmt.Sprintf(tpl.yaml, path))
			add("veneers/"+tpl.name+" path := "+path, configFiles(plainPipe, noPasses, doc), doc)
		}
	}
	for _, as := range asTypes {
		if !thorough && len(as) > 60 {
			continue
		}
		for _, tpl := range []struct{ name, yaml string }{
			{"b.properties", `builders: [{properties: {by_object: Root, set: [{name: prop, type: %s}]}}]`},
			{"b.add_option", `builders: [{add_option: {by_object: Root, option: {name: added, arguments: [{name: val, type: %[1]s}], assignments: [{path: name, method: direct, value: {argument: {name: val, type: %[1]s}}}]}}}]`},
			{"b.add_factory", `builders: [{add_factory: {by_object: Root, factory: {name: preset, arguments: [{name: n, type: %[1]s}], options: [{name: name, parameters: [{argument: {name: n, type: %[1]s}}]}]}}}]`},
		} {
			doc := veneer(fmt.Sprintf(tpl.yaml, as))
			add("veneers/"+tpl.name+" type := "+as, configFiles(plainPipe, noPasses, doc), doc)
		}
	}
	for _, f := range []string{
		`{name: preset, options: [{name: missing}]}`, `{name: preset, options: [{name: name}]}`, `{name: preset, options: [{name: name, parameters: [{}]}]}`, `{name: preset, options: [{name: name, parameters: [{factory: {}}]}]}`,
		`{name: preset, options: [{name: name, parameters: [{factory: {ref: {referred_pkg: p, referred_type: S}}}]}]}`, `{name: preset, options: [{name: s, parameters: [{factory: {ref: {referred_pkg: p, referred_type: S}, name: missing}}]}]}`,
		`{name: "", options: []}`, `{name: preset, options: [{name: name, parameters: [{constant: {}}]}]}`, `{name: preset, options: [{name: name, parameters: [{constant: {type: {kind: struct}, value: [1]}}]}]}`,
		`{name: preset, options: [{name: name, parameters: [{argument: {name: undeclared, type: ` + tString + `}}, {constant: {type: ` + tString + `, value: x}}]}]}`,
	} {
		doc := veneer(`builders: [{add_factory: {by_object: Root, factory: ` + f + `}}]`)
		add("veneers/b.add_factory factory := "+f, configFiles(plainPipe, noPasses, doc), doc)
	}
	for _, head := range []string{"language: all\npackage: p\n", "language: go\npackage: p\n", "language: zz\npackage: p\n", "package: p\n", "language: all\npackage: q\n", "language: all\npackage: ''\n", "language: all\n", "language: ''\npackage: p\n"} {
		doc := head + "options: [{rename: {by_name: Root.name, as: title}}]\nbuilders: [{rename: {by_object: S, as: Renamed}}]\n"
		add("veneers/header := "+strings.TrimSpace(strings.ReplaceAll(head, "\n", " ")), configFiles(plainPipe, noPasses, doc), doc)
	}
	sort.SliceStable(cases, func(i, j int) bool { return len(cases[i].Doc) < len(cases[j].Doc) })
	return cases, templates
}
