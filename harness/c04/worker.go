//go:build verif

package main

import (
	"context"
	"crypto/sha256"
	"encoding/json"
	"flag"
	"fmt"
	"os"
	"path/filepath"
	"regexp"
	"runtime"
	"runtime/debug"
	"sort"
	"strings"
	"sync"
	"sync/atomic"
	"time"

	"github.com/grafana/cog/internal/ast"
	"github.com/grafana/cog/internal/codegen"
	"github.com/grafana/cog/internal/jennies/common"
	"github.com/grafana/cog/internal/languages"
	"github.com/grafana/cog/internal/veneers/rewrite"
	cogyaml "github.com/grafana/cog/internal/yaml"
	"github.com/grafana/cog/verifx/irgen"
	"github.com/grafana/cog/verifx/vx"
)

// ---- protocol ------------------------------------------------------------------------

// Req is one case sent to a worker process.
type Req struct {
	// Op: load (one schema document through codegen.Input.LoadSchemas),
	// yaml (one configuration document through its loader), config (a whole
	// pipeline run from files), ir (an in-memory IR through one stage).
	Op string `json:"op"`
	// Fmt: load: jsonschema|openapi|cue ; yaml: pipeline|passes|veneers
	Fmt  string `json:"fmt,omitempty"`
	Data []byte `json:"data,omitempty"`
	// Files of a config case: path relative to the case directory -> content;
	// %DIR% is replaced by the absolute case directory. Must hold pipeline.yaml.
	Files map[string]string `json:"files,omitempty"`
	// Extra parameters of a config case (the CLI's --parameters k=v)
	Extra map[string]string `json:"extra,omitempty"`
	// IR case
	Spec  *irgen.SchemaSpec `json:"spec,omitempty"`
	Stage string            `json:"stage,omitempty"`
	// TimeoutMS overrides the in-worker watchdog (default 30 s).
	TimeoutMS int `json:"timeout_ms,omitempty"`
}

// Out is the outcome of one execution of cog code.
type Out struct {
	Lang string `json:"lang,omitempty"`
	St   string `json:"st"` // ok | error | config-error | panic | fatal | hang
	Err  string `json:"err,omitempty"`
	Site string `json:"site,omitempty"`
	// N: number of generated files / loaded objects (to show runs really produce something)
	N int `json:"n,omitempty"`
}

type Resp struct {
	Outs []Out  `json:"outs"`
	Hash string `json:"hash,omitempty"` // load: hash of the IR
}

// ---- worker side ---------------------------------------------------------------------

var workerFlag = flag.String("c04-worker", "", "internal: C04 worker mode (scratch dir)")

const watchdogDefault = 30 * time.Second

var (
	stdoutMu   sync.Mutex
	curRequest atomic.Int64
)

func maybeServeWorker() {
	if *workerFlag == "" {
		return
	}
	// A runaway recursion must end in a fatal "stack overflow" quickly and
	// without eating the machine (DESIGN §4.3).
	debug.SetMaxStack(64 << 20)
	dir, err := os.MkdirTemp(*workerFlag, "w")
	if err != nil {
		fmt.Fprintln(os.Stderr, "c04 worker:", err)
		os.Exit(2)
	}
	if err := os.Chdir(dir); err != nil {
		fmt.Fprintln(os.Stderr, "c04 worker:", err)
		os.Exit(2)
	}
	vx.ServeWorker(func(line []byte) []byte {
		var req Req
		if err := json.Unmarshal(line, &req); err != nil {
			return []byte(`{"outs":[{"st":"harness-error","err":"bad request"}]}`)
		}
		id := curRequest.Add(1)
		to := watchdogDefault
		if req.TimeoutMS > 0 {
			to = time.Duration(req.TimeoutMS) * time.Millisecond
		}
		// In-worker watchdog: a request that does not end within the timeout
		// is answered with "hang" + the cog frame the handler goroutine is in,
		// and the process exits (the parent restarts it).
		handlerG := goid()
		timer := time.AfterFunc(to, func() {
			if curRequest.Load() != id {
				return
			}
			site := hangSite(handlerG)
			b, _ := json.Marshal(Resp{Outs: []Out{{St: "hang", Err: fmt.Sprintf("no result after %s", to), Site: site}}})
			stdoutMu.Lock()
			os.Stdout.Write(append(b, '\n'))
			os.Exit(3)
		})
		resp := handle(dir, req)
		timer.Stop()
		curRequest.Add(1)
		b, _ := json.Marshal(resp)
		stdoutMu.Lock() // never released when the watchdog is exiting
		stdoutMu.Unlock()
		return b
	})
	os.RemoveAll(dir)
	os.Exit(0)
}

var goidRe = regexp.MustCompile(`^goroutine (\d+) `)

func goid() string {
	buf := make([]byte, 64)
	buf = buf[:runtime.Stack(buf, false)]
	if m := goidRe.FindSubmatch(buf); m != nil {
		return string(m[1])
	}
	return ""
}

// hangSite finds the innermost cog frame of goroutine g in a dump of all goroutines.
// hangSite names where goroutine g is stuck. One stack sample is not enough:
// the innermost frame of a spinning loop is whatever the loop happened to be
// calling. Several samples are taken; the frames they all share (from the
// outermost one) lead to the function that holds the loop: its innermost
// shared, non-helper cog frame is the site.
func hangSite(g string) string {
	sample := func() []string {
		buf := make([]byte, 8<<20)
		buf = buf[:runtime.Stack(buf, true)]
		for _, block := range strings.Split(string(buf), "\n\n") {
			if strings.HasPrefix(block, "goroutine "+g+" ") {
				fr := cogFrames(block, false) // innermost first
				for i, j := 0, len(fr)-1; i < j; i, j = i+1, j-1 {
					fr[i], fr[j] = fr[j], fr[i]
				}
				return fr // outermost first
			}
		}
		return nil
	}
	common := sample()
	for i := 0; i < 6; i++ {
		time.Sleep(120 * time.Millisecond)
		next := sample()
		n := 0
		for n < len(common) && n < len(next) && common[n] == next[n] {
			n++
		}
		common = common[:n]
	}
	// lookups (Locate*, Has*, Get*) are where a loop over references spends
	// its time, not where it is
	for i := len(common) - 1; i >= 0; i-- {
		if !helperFrames.MatchString(common[i]) && !lookupFrames.MatchString(common[i]) {
			return common[i]
		}
	}
	for i := len(common) - 1; i >= 0; i-- {
		if !helperFrames.MatchString(common[i]) {
			return common[i]
		}
	}
	return "?"
}

var lookupFrames = regexp.MustCompile(`\.(Locate|Has|Get)[A-Za-z]*$`)

// Frames that are generic accessors/helpers: a crash inside them is a defect of
// the caller that used them without checking (ast.Type.AsStruct on a non-struct,
// ...), so the crash site is the first frame outside this list.
var helperFrames = regexp.MustCompile(`^internal/ast\.\(?\*?Type\)?\.(As[A-Z][A-Za-z]*|Is[A-Z][A-Za-z]*)$|^internal/tools\.|^internal/orderedmap\.`)

// cogFrames lists the cog functions of a stack trace, innermost first.
func cogFrames(stack string, afterPanic bool) []string {
	var out []string
	seen := !afterPanic
	for _, l := range strings.Split(stack, "\n") {
		if strings.HasPrefix(l, "panic(") {
			seen = true
			continue
		}
		if !seen || strings.HasPrefix(l, "\t") {
			continue
		}
		if strings.Contains(l, "github.com/grafana/cog/") && !strings.Contains(l, "/verifx/") {
			if i := strings.LastIndex(l, "("); i > 0 {
				l = l[:i]
			}
			out = append(out, strings.TrimPrefix(l, "github.com/grafana/cog/"))
		}
	}
	return out
}

func siteOf(frames []string) string {
	for _, f := range frames {
		if !helperFrames.MatchString(f) {
			if f != frames[0] {
				return f + " (in " + frames[0][strings.LastIndex(frames[0], ".")+1:] + ")"
			}
			return f
		}
	}
	if len(frames) > 0 {
		return frames[0]
	}
	return "?"
}

// site of a recovered panic: innermost cog frame that is not a generic
// accessor, else the innermost non-runtime frame of a dependency.
func panicSite(p *vx.PanicInfo) string {
	if fr := cogFrames(p.Stack, true); len(fr) > 0 {
		return siteOf(fr)
	}
	seen := false
	for _, l := range strings.Split(p.Stack, "\n") {
		if strings.HasPrefix(l, "panic(") {
			seen = true
			continue
		}
		if !seen || strings.HasPrefix(l, "\t") || strings.HasPrefix(l, "runtime.") || l == "" {
			continue
		}
		if strings.Contains(l, "/verifx/") {
			break
		}
		if i := strings.LastIndex(l, "("); i > 0 {
			l = l[:i]
		}
		return "dep:" + l
	}
	return "?"
}

// dominantSite: the non-helper cog function occurring most often among the
// innermost printed frames (ties: the innermost one).
func dominantSite(stack string) string {
	whole := stack
	if i := strings.Index(stack, "frames elided"); i > 0 {
		stack = stack[:i]
	}
	fr := cogFrames(stack, false)
	if len(fr) == 0 { // deep inside a dependency (text/template): the cog caller
		fr = cogFrames(whole, false)
	}
	count := map[string]int{}
	best := "?"
	for _, f := range fr {
		if helperFrames.MatchString(f) {
			continue
		}
		count[f]++
	}
	for _, f := range fr { // innermost first: ">" keeps the innermost of equals
		if count[f] > 0 && (best == "?" || count[f] > count[best]) {
			best = f
		}
	}
	return best
}

// recursionSite names a runaway recursion: the cog functions that repeat in
// the printed part of the overflowing stack (which function happens to be
// innermost when the limit is hit is arbitrary, the cycle is not).
func recursionSite(stack string) string {
	// only the innermost frames (the runtime prints the top 50 and the bottom
	// 50 frames): the outermost ones are the finite path that led to the
	// recursion, however often a function occurs on it
	if i := strings.Index(stack, "frames elided"); i > 0 {
		stack = stack[:i]
	}
	fr := cogFrames(stack, false)
	count := map[string]int{}
	for _, f := range fr {
		count[f]++
	}
	var cyc []string
	for f, n := range count {
		if n >= 3 {
			cyc = append(cyc, f)
		}
	}
	sort.Strings(cyc)
	if len(cyc) == 0 {
		return siteOf(fr)
	}
	return strings.Join(cyc, " <-> ")
}

func guarded(lang string, f func() (int, error)) Out {
	o := Out{Lang: lang}
	var err error
	p := vx.CatchStack(func() { o.N, err = f() })
	switch {
	case p != nil:
		o.St, o.Err, o.Site = "panic", p.Value, panicSite(p)
	case err != nil:
		o.St, o.Err = "error", err.Error()
	default:
		o.St = "ok"
	}
	return o
}

func handle(dir string, req Req) Resp {
	switch req.Op {
	case "load":
		return handleLoad(dir, req)
	case "yaml":
		return handleYAML(dir, req)
	case "config":
		return handleConfig(dir, req)
	case "ir":
		return handleIR(dir, req)
	case "probe":
		return handleProbe(dir, req.Stage)
	}
	return Resp{Outs: []Out{{St: "harness-error", Err: "unknown op " + req.Op}}}
}

func mustWrite(path string, data []byte) {
	os.MkdirAll(filepath.Dir(path), 0o755)
	if err := os.WriteFile(path, data, 0o644); err != nil {
		fmt.Fprintln(os.Stderr, "c04 worker: write:", err)
		os.Exit(2)
	}
}

func inputFor(format, dir string) *codegen.Input {
	switch format {
	case "jsonschema":
		return &codegen.Input{JSONSchema: &codegen.JSONSchemaInput{Path: filepath.Join(dir, "p.json"), Package: "p"}}
	case "openapi":
		return &codegen.Input{OpenAPI: &codegen.OpenAPIInput{Path: filepath.Join(dir, "p.json"), Package: "p"}}
	case "openapi-novalidate":
		return &codegen.Input{OpenAPI: &codegen.OpenAPIInput{Path: filepath.Join(dir, "p.json"), Package: "p", NoValidate: true}}
	case "cue":
		return &codegen.Input{Cue: &codegen.CueInput{Entrypoint: filepath.Join(dir, "p")}}
	}
	return nil
}

func inputFile(format, dir string) string {
	if format == "cue" {
		return filepath.Join(dir, "p", "schema.cue")
	}
	return filepath.Join(dir, "p.json")
}

// handleLoad feeds one document to codegen.Input.LoadSchemas (the function
// Pipeline.LoadSchemas calls for every input).
func handleLoad(dir string, req Req) Resp {
	// a fresh path per request: kin-openapi caches file contents by URI for the
	// life of the process (openapi3.DefaultReadFromURI is a URIMapCache)
	in := filepath.Join(dir, fmt.Sprintf("load%d", curRequest.Load()))
	defer os.RemoveAll(in)
	mustWrite(inputFile(req.Fmt, in), req.Data)
	input := inputFor(req.Fmt, in)
	if input == nil {
		return Resp{Outs: []Out{{St: "harness-error", Err: "unknown format " + req.Fmt}}}
	}
	var schemas ast.Schemas
	out := guarded("", func() (int, error) {
		var err error
		schemas, err = input.LoadSchemas(context.Background())
		n := 0
		for _, s := range schemas {
			n += s.Objects.Len()
		}
		return n, err
	})
	resp := Resp{Outs: []Out{out}}
	if out.St == "ok" {
		if b, err := json.Marshal(schemas); err == nil {
			h := sha256.Sum256(b)
			resp.Hash = fmt.Sprintf("%x", h[:8])
		}
	}
	return resp
}

// handleProbe loads the witness document of every special IR shape with the
// real parser and reports which shapes the parsers of this tree really emit.
// The probe is cut in chunks (Stage = "<k>/<n>") so that it runs on the whole
// pool: chunk 0 also probes the special shapes and the YAML defaults.
func handleProbe(dir string, stage string) Resp {
	var outs []Out
	chunk, chunks := 0, 1
	fmt.Sscanf(stage, "%d/%d", &chunk, &chunks)
	if chunks < 1 {
		chunks = 1
	}
	for _, name := range specialNames() {
		if chunk != 0 {
			break
		}
		def := specialDefs[name]
		in := filepath.Join(dir, fmt.Sprintf("probe%d-%s", curRequest.Load(), name))
		mustWrite(inputFile(def.Format, in), []byte(def.Doc))
		input := inputFor(def.Format, in)
		o := guarded(name, func() (int, error) {
			schemas, err := input.LoadSchemas(context.Background())
			if err != nil {
				return 0, err
			}
			if anyType(schemas, def.Has) {
				return 1, nil
			}
			return 0, nil
		})
		os.RemoveAll(in)
		outs = append(outs, o)
	}
	// the Go dynamic types of constants, defaults and enum values in the IRs
	// of every shape of part (a) ...
	seen := map[valueTriple]bool{}
	for i, shape := range allShapes() {
		if i%chunks != chunk {
			continue
		}
		in := filepath.Join(dir, fmt.Sprintf("probe%d-s%d", curRequest.Load(), i))
		mustWrite(inputFile(shape.Format, in), []byte(shape.Doc))
		for rel, content := range shape.Extra {
			mustWrite(filepath.Join(in, rel), []byte(content))
		}
		input := inputFor(shape.Format, in)
		guarded("", func() (int, error) {
			schemas, err := input.LoadSchemas(context.Background())
			if err == nil {
				observedValues(schemas, seen)
			}
			return 0, err
		})
		os.RemoveAll(in)
	}
	// ... and after fields_set_default with every YAML value type on every kind of field
	in := filepath.Join(dir, fmt.Sprintf("probe%d-y", curRequest.Load()))
	mustWrite(inputFile("jsonschema", in), []byte(smallSchema))
	for _, field := range rootOptions {
		if chunk != 0 {
			break
		}
		for _, value := range []string{"3", "1.5", "s", "true", "[1, a]", "{a: 1}", "18446744073709551615", "-3"} {
			passes := filepath.Join(in, "passes.yaml")
			mustWrite(passes, []byte("passes: [{fields_set_default: {defaults: {p.Root."+field+": "+value+"}}}]\n"))
			guarded("", func() (int, error) {
				schemas, err := inputFor("jsonschema", in).LoadSchemas(context.Background())
				if err != nil {
					return 0, err
				}
				loaded, err := cogyaml.NewCompilerLoader().PassesFrom([]string{passes})
				if err != nil {
					return 0, err
				}
				schemas, err = loaded.Process(schemas)
				if err == nil {
					observedValues(schemas, seen)
				}
				return 0, err
			})
		}
	}
	os.RemoveAll(in)
	var names []string
	for t := range seen {
		if _, ok := mkValueSpecial(t.name()); ok {
			names = append(names, t.name())
		} else {
			names = append(names, "unbuildable:"+t.name())
		}
	}
	sort.Strings(names)
	for _, n := range names {
		outs = append(outs, Out{Lang: n, St: "value"})
	}
	return Resp{Outs: outs}
}

// handleYAML feeds one configuration document to its loader.
func handleYAML(dir string, req Req) Resp {
	path := filepath.Join(dir, "yaml", "doc.yaml")
	mustWrite(path, req.Data)
	out := guarded("", func() (int, error) {
		switch req.Fmt {
		case "pipeline":
			pl, err := codegen.PipelineFromFile(path, codegen.Parameters(nil))
			if err != nil {
				return 0, err
			}
			_, err = pl.OutputLanguages()
			return 1, err
		case "passes":
			passes, err := cogyaml.NewCompilerLoader().PassesFrom([]string{path})
			return len(passes), err
		case "veneers":
			_, err := cogyaml.NewVeneersLoader().RewriterFrom([]string{path}, rewrite.Config{})
			return 1, err
		}
		return 0, fmt.Errorf("harness: unknown yaml kind %s", req.Fmt)
	})
	return Resp{Outs: []Out{out}}
}

// handleConfig is `cog generate --config <dir>/pipeline.yaml` without the final
// write to disk: PipelineFromFile + Pipeline.Run. Pipeline.Run ranges over a Go
// map of languages, so with several output languages the first one to panic
// would be random; to keep runs deterministic (and to let no language mask
// another) the loaded pipeline is run once per configured language.
func handleConfig(dir string, req Req) Resp {
	in := filepath.Join(dir, fmt.Sprintf("cfg%d", curRequest.Load()))
	defer os.RemoveAll(in)
	names := make([]string, 0, len(req.Files))
	for n := range req.Files {
		names = append(names, n)
	}
	sort.Strings(names)
	for _, n := range names {
		mustWrite(filepath.Join(in, n), []byte(strings.ReplaceAll(req.Files[n], "%DIR%", in)))
	}
	cfg := filepath.Join(in, "pipeline.yaml")
	var pl *codegen.Pipeline
	first := guarded("", func() (int, error) {
		var err error
		pl, err = codegen.PipelineFromFile(cfg, codegen.Parameters(req.Extra))
		return 0, err
	})
	if first.St != "ok" {
		if first.St == "error" {
			first.St = "config-error"
		}
		return Resp{Outs: []Out{first}}
	}
	run := func(lang string) Out {
		return guarded(lang, func() (int, error) {
			fs, err := pl.Run(context.Background())
			if err != nil {
				return 0, err
			}
			return fs.Len(), nil
		})
	}
	all := pl.Output.Languages
	if len(all) <= 1 {
		return Resp{Outs: []Out{run(outputLangName(all))}}
	}
	var outs []Out
	for i := range all {
		pl.Output.Languages = all[i : i+1]
		outs = append(outs, run(outputLangName(all[i:i+1])))
	}
	return Resp{Outs: outs}
}

func outputLangName(l []*codegen.OutputLanguage) string {
	if len(l) != 1 || l[0] == nil {
		return "-"
	}
	switch o := l[0]; {
	case o.Go != nil:
		return "go"
	case o.Java != nil:
		return "java"
	case o.JSONSchema != nil:
		return "jsonschema"
	case o.OpenAPI != nil:
		return "openapi"
	case o.PHP != nil:
		return "php"
	case o.Python != nil:
		return "python"
	case o.Typescript != nil:
		return "typescript"
	}
	return "-"
}

// ---- IR stage --------------------------------------------------------------------------

// languageLine renders the output language entry with every generation flag on.
func languageLine(lang string) string {
	switch lang {
	case "go":
		return "- go: {package_root: 'verifgen/x', generate_json_marshaller: true, generate_strict_unmarshaller: true, generate_equal: true, generate_validate: true, any_as_interface: true}"
	case "python":
		return "- python: {generate_json_marshaller: true}"
	case "java":
		return "- java: {package_path: 'verifgen.x', generate_json_marshaller: true}"
	case "typescript":
		return "- typescript: {}"
	case "php":
		return "- php: {namespace_root: 'Verifgen', generate_json_marshaller: true}"
	case "jsonschema":
		return "- jsonschema: {}"
	case "openapi":
		return "- openapi: {}"
	}
	return "- " + lang + ": {}"
}

var allLanguages = []string{"go", "java", "jsonschema", "openapi", "php", "python", "typescript"}

func handleIR(dir string, req Req) Resp {
	if req.Spec == nil {
		return Resp{Outs: []Out{{St: "harness-error", Err: "no spec"}}}
	}
	var schemas ast.Schemas
	if p := vx.CatchStack(func() { schemas = buildIR(*req.Spec) }); p != nil {
		return Resp{Outs: []Out{{St: "harness-error", Err: "building the IR: " + p.Value}}}
	}
	kind, arg, _ := strings.Cut(req.Stage, ":")
	in := filepath.Join(dir, "ir")
	switch kind {
	case "passes":
		var outs []Out
		for _, tpl := range append(append([]Template{}, passTemplates...), irPassTemplates...) {
			r := req
			r.Stage = "pass:" + tpl.Name
			o := handleIR(dir, r).Outs[0]
			o.Lang = r.Stage
			outs = append(outs, o)
		}
		return Resp{Outs: outs}
	case "builders":
		return Resp{Outs: []Out{guarded("", func() (int, error) {
			b := (&ast.BuilderGenerator{}).FromAST(schemas)
			return len(b), nil
		})}}
	case "pass":
		tpl, ok := passTemplateByName(arg)
		if !ok {
			return Resp{Outs: []Out{{St: "harness-error", Err: "unknown pass template " + arg}}}
		}
		path := filepath.Join(in, "passes.yaml")
		mustWrite(path, []byte(tpl.YAML))
		return Resp{Outs: []Out{guarded("", func() (int, error) {
			passes, err := cogyaml.NewCompilerLoader().PassesFrom([]string{path})
			if err != nil {
				return 0, fmt.Errorf("harness: pass template does not load: %w", err)
			}
			out, err := passes.Process(schemas)
			return len(out), err
		})}}
	case "lang":
		// ContextForLanguage + jennies, as internal/codegen/run.go does for every
		// language; the pipeline and the language are built by the real loader
		// from a configuration without inputs (veneers: an empty directory).
		os.MkdirAll(filepath.Join(in, "veneers"), 0o755)
		cfg := filepath.Join(in, "pipeline.yaml")
		mustWrite(cfg, []byte("transformations:\n  builders: ['"+filepath.Join(in, "veneers")+"']\noutput:\n  directory: 'out/%l'\n  types: true\n  builders: true\n  converters: true\n  languages:\n    "+languageLine(arg)+"\n"))
		return Resp{Outs: []Out{guarded(arg, func() (int, error) {
			pl, err := codegen.PipelineFromFile(cfg, codegen.Parameters(nil))
			if err != nil {
				return 0, fmt.Errorf("harness: %w", err)
			}
			targets, err := pl.OutputLanguages()
			if err != nil {
				return 0, fmt.Errorf("harness: %w", err)
			}
			n := 0
			for _, target := range targets { // exactly one
				jctx, err := pl.ContextForLanguage(target, schemas)
				if err != nil {
					return 0, err
				}
				jl := target.Jennies(languages.Config{Types: true, Builders: true, Converters: true})
				jl.AddPostprocessors(common.PathPrefixer("out/" + arg))
				fs, err := jl.GenerateFS(jctx)
				if err != nil {
					return 0, err
				}
				n += fs.Len()
			}
			return n, nil
		})}}
	}
	return Resp{Outs: []Out{{St: "harness-error", Err: "unknown stage " + req.Stage}}}
}
