//go:build verif

package main

import (
	"encoding/json"
	"sort"
	"strings"

	"github.com/grafana/cog/internal/ast"
	"github.com/grafana/cog/verifx/irgen"
)

// Specials are IR shapes grammar I does not have a constructor for. They are
// all *reachable from documents* (each names the document that yields it) and
// keep the payload pointer of their Kind set; Kind/payload mismatches are only
// reachable through the `as:` types of configuration files and live in part (c).
// A special is written in a Term as a reference to "p.@<name>" and substituted
// after Term.Build (so that irgen's wrappers, printing and ordering apply).
var specials = map[string]func() ast.Type{
	// OpenAPI {"type":"string","enum":[]}
	"emptyenum": func() ast.Type { return ast.NewEnum(nil) },
	// JSON Schema {"type":"object","properties":{}} is `any`; CUE `{}` gives a struct without fields
	"emptystruct": func() ast.Type { return ast.NewStruct() },
	// JSON Schema "properties":{"":{...}}
	"emptyfieldname": func() ast.Type { return ast.NewStruct(ast.NewStructField("", ast.String())) },
	// CUE {"a-b": string, a_b: string}
	"dupfields": func() ast.Type {
		return ast.NewStruct(ast.NewStructField("a", ast.String()), ast.NewStructField("a", ast.NewScalar(ast.KindInt64)))
	},
	// OpenAPI {"allOf":[]}
	"emptyinter": func() ast.Type { return ast.NewIntersection(nil) },
	// JSON Schema {"type":[]}
	"emptydisj": func() ast.Type { return ast.NewDisjunction(nil) },
	// JSON Schema {"oneOf":[{"type":"string"}]}
	"onebranch": func() ast.Type { return ast.NewDisjunction(ast.Types{ast.String()}) },
	// JSON Schema {"type":"integer","default":3}: the default is a json.Number
	"jsonnumberdefault": func() ast.Type { return ast.NewScalar(ast.KindInt64, ast.Default(json.Number("3"))) },
	// JSON Schema {"type":"string","default":3}
	"mismatcheddefault": func() ast.Type { return ast.String(ast.Default(int64(3))) },
	// JSON Schema {"type":"string","const":3}
	"mismatchedconst": func() ast.Type { return ast.String(ast.Value(json.Number("3"))) },
	// JSON Schema {"const":null} / {"type":"null"}
	"null": func() ast.Type { return ast.Null() },
	// JSON Schema {"enum":["a",1]}: member values of different types
	"mixedenum": func() ast.Type {
		return ast.NewEnum([]ast.EnumValue{{Type: ast.String(), Name: "a", Value: "a"}, {Type: ast.String(), Name: "1", Value: json.Number("1")}})
	},
	// JSON Schema {"enum":[null]}
	"nullenum": func() ast.Type {
		return ast.NewEnum([]ast.EnumValue{{Type: ast.NewScalar(ast.KindInt64), Name: "<nil>", Value: nil}})
	},
	// OpenAPI discriminator naming a property no branch has, mapping to nowhere
	"baddisc": func() ast.Type {
		return ast.NewDisjunction(ast.Types{ast.NewRef("p", "S"), ast.NewRef("p", "T")}, ast.Discriminator("nope", map[string]string{"x": "#/components/schemas/Missing"}))
	},
	// OpenAPI discriminator on scalar branches
	"scalardisc": func() ast.Type {
		return ast.NewDisjunction(ast.Types{ast.String(), ast.NewScalar(ast.KindInt64)}, ast.Discriminator("kind", map[string]string{}))
	},
	// CUE `E & "zz"`: constant reference to a value the enum does not have
	"constrefnomember": func() ast.Type { return ast.NewConstantReferenceType("p", "E", "zz") },
	// CUE `S & "a"`: constant reference to a non-enum
	"constrefstruct": func() ast.Type { return ast.NewConstantReferenceType("p", "S", "a") },
	// CUE [...(S|T)] with nulls
	"arrayofnull": func() ast.Type { return ast.NewArray(ast.Null()) },
	// map with a non-string index (CUE {[E]: string})
	"mapbyref": func() ast.Type { return ast.NewMap(ast.NewRef("p", "E"), ast.String()) },
	"mapbyint": func() ast.Type { return ast.NewMap(ast.NewScalar(ast.KindInt64), ast.String()) },
}

func specialNames() []string {
	var out []string
	for n := range specials {
		out = append(out, n)
	}
	sort.Strings(out)
	return out
}

func special(name string) irgen.Term { return irgen.Ref("p.@" + name) }

// substitute replaces references to p.@name by the special type, keeping
// the nullability of the position.
func substitute(t *ast.Type) {
	if t.Kind == ast.KindRef && t.Ref != nil && strings.HasPrefix(t.Ref.ReferredType, "@") {
		if mk, ok := specials[strings.TrimPrefix(t.Ref.ReferredType, "@")]; ok {
			n := t.Nullable
			*t = mk()
			t.Nullable = t.Nullable || n
			return
		}
	}
	switch {
	case t.Array != nil:
		substitute(&t.Array.ValueType)
	}
	if t.Map != nil {
		substitute(&t.Map.IndexType)
		substitute(&t.Map.ValueType)
	}
	if t.Struct != nil {
		for i := range t.Struct.Fields {
			substitute(&t.Struct.Fields[i].Type)
		}
	}
	if t.Disjunction != nil {
		for i := range t.Disjunction.Branches {
			substitute(&t.Disjunction.Branches[i])
		}
	}
	if t.Intersection != nil {
		for i := range t.Intersection.Branches {
			substitute(&t.Intersection.Branches[i])
		}
	}
}

func buildIR(spec irgen.SchemaSpec) ast.Schemas {
	schemas := spec.Build()
	for _, s := range schemas {
		s.Objects = s.Objects.Map(func(_ string, obj ast.Object) ast.Object {
			o := obj
			substitute(&o.Type)
			return o
		})
	}
	return schemas
}

// extra support objects: reference cycles and aliases of every kind
func cycleSupport() []irgen.ObjSpec {
	return []irgen.ObjSpec{
		{Name: "Cyc1", T: irgen.Ref("p.Cyc2")},
		{Name: "Cyc2", T: irgen.Ref("p.Cyc1")},
		{Name: "Self", T: irgen.Ref("p.Self")},
		{Name: "Count", T: irgen.S("int64")},
		{Name: "AliasS", T: irgen.Ref("p.S")},
		{Name: "Rec", T: irgen.Struct1("next", true, irgen.Ref("p.Rec"))},
		{Name: "Dangling", T: irgen.Ref("p.Missing")},
	}
}

type irInput struct {
	ID   string
	Spec irgen.SchemaSpec
	Size int
}

// irSpace enumerates the IRs of part (d): every term of grammar I up to the
// depth (leaves: the default ones + dangling and cyclic references + the
// enum flavours + the specials), placed as the type of object Root and as a
// required / optional field of struct Root.
func irSpace(thorough bool) []irInput {
	// ordinary leaves (the quick tier keeps one representative per kind: the
	// ordinary terms are C06's subject; this part is about the abnormal ones)
	leaves := []irgen.Term{irgen.S("string"), irgen.S("int64"), irgen.S("any"), irgen.Const("str"), irgen.Enum("str"), irgen.Ref("p.S"), irgen.Ref("p.E"), irgen.Ref("p.K"), irgen.ConstRef("p.E"), irgen.Slot()}
	if thorough {
		leaves = append([]irgen.Term{}, irgen.DefaultLeaves()...)
	}
	refs := []string{"p.Missing", "q.Missing", "p.Root", "p.Cyc1", "p.Count", "p.AliasS", "p.Rec", "p.Dangling", "p.T"}
	if thorough {
		refs = append(refs, "p.Self")
	}
	for _, r := range refs {
		leaves = append(leaves, irgen.Ref(r))
	}
	for _, e := range []string{"numname", "odd", "space", "plus", "noname"} {
		leaves = append(leaves, irgen.Enum(e))
	}
	leaves = append(leaves, irgen.ConstRef("p.Missing"), irgen.ConstRef("p.Cyc1"), irgen.Null(), irgen.S("float32"), irgen.S("uint8"))
	for _, n := range specialNames() {
		leaves = append(leaves, special(n))
	}
	cfg := irgen.Config{Depth: 2, Leaves: leaves, DisjWith: []irgen.Term{irgen.S("string"), irgen.Ref("p.S"), irgen.Ref("p.Count"), irgen.Ref("p.Missing")}}
	if thorough {
		cfg.DisjWith = []irgen.Term{irgen.S("string"), irgen.Ref("p.S"), irgen.Ref("p.T"), irgen.Ref("p.Count"), irgen.Ref("p.Missing"), irgen.Ref("p.Cyc1"), irgen.Null()}
		cfg.Depth = 3
		cfg.InnerLeaves = []irgen.Term{irgen.S("string"), irgen.Ref("p.S"), irgen.Ref("p.Missing"), irgen.Ref("p.Cyc1"), irgen.Ref("p.Count"), irgen.Enum("str"), special("emptyenum"), special("emptystruct"), special("emptydisj")}
		cfg.Wrappers = []string{"array", "map", "struct-req", "struct-opt", "nullable", "disj-null", "disj", "inter"}
	}
	terms := irgen.Types(cfg)
	var out []irInput
	cyc := map[string]irgen.ObjSpec{}
	for _, o := range cycleSupport() {
		cyc[o.Name] = o
	}
	var need func(t irgen.Term, into map[string]bool)
	need = func(t irgen.Term, into map[string]bool) {
		if (t.K == "ref" || t.K == "constref") && strings.HasPrefix(t.A, "p.") {
			n := strings.TrimPrefix(t.A, "p.")
			if o, ok := cyc[n]; ok && !into[n] {
				into[n] = true
				need(o.T, into)
			}
		}
		for _, s := range t.Sub {
			need(s, into)
		}
	}
	add := func(place string, spec irgen.SchemaSpec, t irgen.Term) {
		// the cyclic / dangling support objects are only present when referenced
		// (a cycle anywhere in the package would mask everything else)
		used := map[string]bool{}
		need(t, used)
		for _, o := range cycleSupport() {
			if used[o.Name] {
				spec.Pkgs[0].Objects = append(spec.Pkgs[0].Objects, o)
			}
		}
		spec.Name = place + ":" + t.String()
		out = append(out, irInput{ID: spec.Name, Spec: spec, Size: t.Size()*4 + len(place)})
	}
	for _, t := range terms {
		add("root", irgen.WithRoot(t), t)
		add("field", irgen.WithField(t, true), t)
		add("optfield", irgen.WithField(t, false), t)
	}
	sort.SliceStable(out, func(i, j int) bool { return out[i].Size < out[j].Size })
	return out
}

// irStages: every user pass (through the YAML loader; one request runs them
// all, each on a fresh IR under its own recover), the builder generator, every language.
func irStages() []string {
	out := []string{"passes", "builders"}
	for _, l := range allLanguages {
		out = append(out, "lang:"+l)
	}
	return out
}

// splitStage lists the single-stage requests a grouped stage is made of (used
// when a grouped request kills the worker: the stages are then run one by one).
func splitStage(stage string) []string {
	if stage != "passes" {
		return nil
	}
	var out []string
	for _, t := range passTemplates {
		out = append(out, "pass:"+t.Name)
	}
	return out
}
