//go:build verif

package main

import (
	"encoding/json"
	"fmt"
	"sort"
	"strings"

	"github.com/grafana/cog/internal/ast"
	"github.com/grafana/cog/verifx/irgen"
)

// Specials are IR shapes grammar I does not have a constructor for. Each one
// comes with the document that (on the tree under test!) makes a parser emit
// it and a predicate recognising it in a parsed IR: before part (d) starts,
// the documents are loaded by the real parsers and only the specials found in
// the resulting IRs are used ("all intermediate representations reachable
// from [documents]": a shape the parsers can not produce proves nothing).
// They keep the payload pointer of their Kind set; Kind/payload mismatches are
// only reachable through the `as:` types of configuration files: part (c).
// A special is written in a Term as a reference to "p.@<name>" and substituted
// after Term.Build (so that irgen's wrappers, printing and ordering apply).
type specialDef struct {
	Make   func() ast.Type
	Format string
	Doc    string
	Has    func(t ast.Type) bool
}

func sameGoType(values []ast.EnumValue) bool {
	for _, v := range values[1:] {
		if fmt.Sprintf("%T", v.Value) != fmt.Sprintf("%T", values[0].Value) {
			return false
		}
	}
	return true
}

var specialDefs = map[string]specialDef{
	"emptyenum": {
		Make:   func() ast.Type { return ast.NewEnum(nil) },
		Format: "openapi", Doc: oaDoc(`"Root":{"type":"object","properties":{"f":{"type":"string","enum":[]}}}`),
		Has: func(t ast.Type) bool { return t.Kind == ast.KindEnum && t.Enum != nil && len(t.Enum.Values) == 0 },
	},
	"emptystruct": {
		Make:   func() ast.Type { return ast.NewStruct() },
		Format: "cue", Doc: cueDoc("Root: {f: {}}"),
		Has: func(t ast.Type) bool { return t.Kind == ast.KindStruct && t.Struct != nil && len(t.Struct.Fields) == 0 },
	},
	"emptyfieldname": {
		Make:   func() ast.Type { return ast.NewStruct(ast.NewStructField("", ast.String())) },
		Format: "jsonschema", Doc: jsDoc(`"Root":{"type":"object","properties":{"":{"type":"string"}}}`),
		Has: func(t ast.Type) bool {
			if t.Kind != ast.KindStruct || t.Struct == nil {
				return false
			}
			for _, f := range t.Struct.Fields {
				if f.Name == "" {
					return true
				}
			}
			return false
		},
	},
	"dupfields": {
		Make: func() ast.Type {
			return ast.NewStruct(ast.NewStructField("a", ast.String()), ast.NewStructField("a", ast.NewScalar(ast.KindInt64)))
		},
		Format: "jsonschema", Doc: jsDoc(`"Root":{"type":"object","properties":{"a":{"type":"string"},"a":{"type":"integer"}}}`),
		Has: func(t ast.Type) bool {
			if t.Kind != ast.KindStruct || t.Struct == nil {
				return false
			}
			seen := map[string]bool{}
			for _, f := range t.Struct.Fields {
				if seen[f.Name] {
					return true
				}
				seen[f.Name] = true
			}
			return false
		},
	},
	"emptyinter": {
		Make:   func() ast.Type { return ast.NewIntersection(nil) },
		Format: "openapi", Doc: oaDoc(`"Root":{"type":"object","properties":{"f":{"allOf":[]}}}`),
		Has: func(t ast.Type) bool {
			return t.Kind == ast.KindIntersection && t.Intersection != nil && len(t.Intersection.Branches) == 0
		},
	},
	"emptydisj": {
		Make:   func() ast.Type { return ast.NewDisjunction(nil) },
		Format: "openapi", Doc: oaDoc(`"Root":{"type":"object","properties":{"f":{"oneOf":[]}}}`),
		Has: func(t ast.Type) bool {
			return t.Kind == ast.KindDisjunction && t.Disjunction != nil && len(t.Disjunction.Branches) == 0
		},
	},
	"onebranch": {
		Make:   func() ast.Type { return ast.NewDisjunction(ast.Types{ast.String()}) },
		Format: "jsonschema", Doc: jsDoc(`"Root":{"type":"object","properties":{"f":{"oneOf":[{"type":"string"}]}}}`),
		Has: func(t ast.Type) bool {
			return t.Kind == ast.KindDisjunction && t.Disjunction != nil && len(t.Disjunction.Branches) == 1
		},
	},
	"jsonnumberdefault": {
		Make:   func() ast.Type { return ast.NewScalar(ast.KindInt64, ast.Default(json.Number("3"))) },
		Format: "jsonschema", Doc: jsDoc(`"Root":{"type":"object","properties":{"f":{"type":"integer","default":3}}}`),
		Has: func(t ast.Type) bool { _, ok := t.Default.(json.Number); return ok && t.Kind == ast.KindScalar },
	},
	"mismatcheddefault": {
		Make:   func() ast.Type { return ast.String(ast.Default(json.Number("3"))) },
		Format: "jsonschema", Doc: jsDoc(`"Root":{"type":"object","properties":{"f":{"type":"string","default":3}}}`),
		Has: func(t ast.Type) bool {
			if t.Kind != ast.KindScalar || t.Scalar == nil || t.Scalar.ScalarKind != ast.KindString || t.Default == nil {
				return false
			}
			_, isString := t.Default.(string)
			return !isString
		},
	},
	"mismatchedconst": {
		Make:   func() ast.Type { return ast.String(ast.Value(json.Number("3"))) },
		Format: "jsonschema", Doc: jsDoc(`"Root":{"type":"object","properties":{"f":{"type":"string","const":3}}}`),
		Has: func(t ast.Type) bool {
			if t.Kind != ast.KindScalar || t.Scalar == nil || t.Scalar.ScalarKind != ast.KindString || t.Scalar.Value == nil {
				return false
			}
			_, isString := t.Scalar.Value.(string)
			return !isString
		},
	},
	"null": {
		Make:   func() ast.Type { return ast.Null() },
		Format: "jsonschema", Doc: jsDoc(`"Root":{"type":"object","properties":{"f":{"type":"null"}}}`),
		Has: func(t ast.Type) bool {
			return t.Kind == ast.KindScalar && t.Scalar != nil && t.Scalar.ScalarKind == ast.KindNull
		},
	},
	"mixedenum": {
		Make: func() ast.Type {
			return ast.NewEnum([]ast.EnumValue{{Type: ast.String(), Name: "a", Value: "a"}, {Type: ast.String(), Name: "1", Value: json.Number("1")}})
		},
		Format: "jsonschema", Doc: jsDoc(`"Root":{"type":"object","properties":{"f":{"enum":["a",1]}}}`),
		Has: func(t ast.Type) bool {
			return t.Kind == ast.KindEnum && t.Enum != nil && len(t.Enum.Values) > 1 && !sameGoType(t.Enum.Values)
		},
	},
	"nullenum": {
		Make: func() ast.Type {
			return ast.NewEnum([]ast.EnumValue{{Type: ast.NewScalar(ast.KindInt64), Name: "<nil>", Value: nil}})
		},
		Format: "jsonschema", Doc: jsDoc(`"Root":{"type":"object","properties":{"f":{"enum":[null]}}}`),
		Has: func(t ast.Type) bool {
			if t.Kind != ast.KindEnum || t.Enum == nil {
				return false
			}
			for _, v := range t.Enum.Values {
				if v.Value == nil {
					return true
				}
			}
			return false
		},
	},
	"baddisc": {
		Make: func() ast.Type {
			return ast.NewDisjunction(ast.Types{ast.NewRef("p", "S"), ast.NewRef("p", "T")}, ast.Discriminator("nope", map[string]string{"x": "#/components/schemas/Missing"}))
		},
		Format: "openapi", Doc: oaDoc(`"Root":{"type":"object","properties":{"f":{"oneOf":[{"$ref":"#/components/schemas/S"},{"$ref":"#/components/schemas/T"}],"discriminator":{"propertyName":"nope","mapping":{"x":"#/components/schemas/Missing"}}}}},` + oaS + `,` + oaT),
		Has: func(t ast.Type) bool {
			return t.Kind == ast.KindDisjunction && t.Disjunction != nil && t.Disjunction.Discriminator == "nope" && len(t.Disjunction.DiscriminatorMapping) == 1
		},
	},
	"scalardisc": {
		Make: func() ast.Type {
			return ast.NewDisjunction(ast.Types{ast.String(), ast.NewScalar(ast.KindInt64)}, ast.Discriminator("kind", map[string]string{}))
		},
		Format: "openapi", Doc: oaDoc(`"Root":{"type":"object","properties":{"f":{"oneOf":[{"type":"string"},{"type":"integer"}],"discriminator":{"propertyName":"kind"}}}}`),
		Has: func(t ast.Type) bool {
			return t.Kind == ast.KindDisjunction && t.Disjunction != nil && t.Disjunction.Discriminator != "" && len(t.Disjunction.Branches) > 0 && t.Disjunction.Branches[0].Kind == ast.KindScalar
		},
	},
	"constrefnomember": {
		Make:   func() ast.Type { return ast.NewConstantReferenceType("p", "E", "zz") },
		Format: "cue", Doc: cueDoc("Root: {f: E & \"zz\"}\nE: \"a\" | \"b\" | string"),
		Has: func(t ast.Type) bool {
			return t.Kind == ast.KindConstantRef && t.ConstantReference != nil && t.ConstantReference.ReferenceValue == "zz"
		},
	},
	"constrefstruct": {
		Make:   func() ast.Type { return ast.NewConstantReferenceType("p", "S", "a") },
		Format: "cue", Doc: cueDoc("Root: {f: S & \"a\"}\nS: {x?: string} | string"),
		Has: func(t ast.Type) bool {
			return t.Kind == ast.KindConstantRef && t.ConstantReference != nil && t.ConstantReference.ReferredType == "S"
		},
	},
	"arrayofnull": {
		Make:   func() ast.Type { return ast.NewArray(ast.Null()) },
		Format: "jsonschema", Doc: jsDoc(`"Root":{"type":"object","properties":{"f":{"type":"array","items":{"type":"null"}}}}`),
		Has: func(t ast.Type) bool {
			return t.Kind == ast.KindArray && t.Array != nil && t.Array.ValueType.Kind == ast.KindScalar && t.Array.ValueType.Scalar != nil && t.Array.ValueType.Scalar.ScalarKind == ast.KindNull
		},
	},
	"mapbyref": {
		Make:   func() ast.Type { return ast.NewMap(ast.NewRef("p", "E"), ast.String()) },
		Format: "cue", Doc: cueDoc("Root: {f: {[E]: string}}\nE: \"a\" | \"b\""),
		Has: func(t ast.Type) bool {
			return t.Kind == ast.KindMap && t.Map != nil && t.Map.IndexType.Kind == ast.KindRef
		},
	},
	"mapbyint": {
		Make:   func() ast.Type { return ast.NewMap(ast.NewScalar(ast.KindInt64), ast.String()) },
		Format: "cue", Doc: cueDoc("Root: {f: {[int]: string}}"),
		Has: func(t ast.Type) bool {
			return t.Kind == ast.KindMap && t.Map != nil && t.Map.IndexType.Kind == ast.KindScalar && t.Map.IndexType.Scalar != nil && t.Map.IndexType.Scalar.ScalarKind != ast.KindString
		},
	},
}

var specials = func() map[string]func() ast.Type {
	m := map[string]func() ast.Type{}
	for n, d := range specialDefs {
		m[n] = d.Make
	}
	return m
}()

// anyType reports whether pred holds for some type node of the schemas.
func anyType(schemas ast.Schemas, pred func(ast.Type) bool) bool {
	found := false
	var walk func(t ast.Type)
	walk = func(t ast.Type) {
		if found {
			return
		}
		if pred(t) {
			found = true
			return
		}
		if t.Array != nil {
			walk(t.Array.ValueType)
		}
		if t.Map != nil {
			walk(t.Map.IndexType)
			walk(t.Map.ValueType)
		}
		if t.Struct != nil {
			for _, f := range t.Struct.Fields {
				walk(f.Type)
			}
		}
		if t.Disjunction != nil {
			for _, b := range t.Disjunction.Branches {
				walk(b)
			}
		}
		if t.Intersection != nil {
			for _, b := range t.Intersection.Branches {
				walk(b)
			}
		}
	}
	for _, s := range schemas {
		s.Objects.Iterate(func(_ string, o ast.Object) { walk(o.Type) })
	}
	return found
}

func specialNames() []string {
	var out []string
	for n := range specials {
		out = append(out, n)
	}
	sort.Strings(out)
	return out
}

func special(name string) irgen.Term { return irgen.Ref("p.@" + name) }

// ---- values of every Go dynamic type the front-ends produce ----------------------------------
//
// A constant, a default or an enum member value is an `any`: what is in it
// depends on the front-end (encoding/json with UseNumber: json.Number;
// kin-openapi: float64; CUE: int64/float64; YAML passes: int, float64, ...)
// and on what the document says, NOT on the kind of the type it sits on
// (`{"type":"string","const":3}`). The probe loads every shape of part (a) and
// a pass file setting defaults of every YAML type on every field kind, and
// records every (role, kind, Go type) triple it sees in the resulting IRs;
// part (d) then builds one IR per observed triple: "v|<role>|<kind>|<gotype>".

type valueTriple struct{ Role, Kind, GoType string }

func (t valueTriple) name() string { return "v|" + t.Role + "|" + t.Kind + "|" + t.GoType }

func kindLabel(t ast.Type) string {
	if t.Kind == ast.KindScalar && t.Scalar != nil {
		return "scalar:" + string(t.Scalar.ScalarKind)
	}
	return string(t.Kind)
}

// observedValues lists the triples present in the schemas.
func observedValues(schemas ast.Schemas, into map[valueTriple]bool) {
	anyType(schemas, func(t ast.Type) bool {
		if t.Kind == ast.KindScalar && t.Scalar != nil && t.Scalar.Value != nil {
			into[valueTriple{"const", kindLabel(t), fmt.Sprintf("%T", t.Scalar.Value)}] = true
		}
		if t.Default != nil {
			into[valueTriple{"default", kindLabel(t), fmt.Sprintf("%T", t.Default)}] = true
		}
		if t.Kind == ast.KindEnum && t.Enum != nil {
			for _, m := range t.Enum.Values {
				if m.Type.Kind == ast.KindScalar && m.Type.Scalar != nil {
					into[valueTriple{"enum", kindLabel(m.Type), fmt.Sprintf("%T", m.Value)}] = true
				}
			}
		}
		return false
	})
}

func mkValue(goType string) (any, bool) {
	switch goType {
	case "json.Number":
		return json.Number("3"), true
	case "int":
		return int(3), true
	case "int8":
		return int8(3), true
	case "int16":
		return int16(3), true
	case "int32":
		return int32(3), true
	case "int64":
		return int64(3), true
	case "uint":
		return uint(3), true
	case "uint8":
		return uint8(3), true
	case "uint16":
		return uint16(3), true
	case "uint32":
		return uint32(3), true
	case "uint64":
		return uint64(3), true
	case "float32":
		return float32(1.5), true
	case "float64":
		return float64(1.5), true
	case "string":
		return "s", true
	case "bool":
		return true, true
	case "<nil>":
		return nil, true
	case "[]interface {}":
		return []any{json.Number("1"), "a"}, true
	case "map[string]interface {}":
		return map[string]any{"a": json.Number("1")}, true
	}
	return nil, false
}

// mkValueSpecial builds the type of a "v|role|kind|gotype" special.
func mkValueSpecial(name string) (ast.Type, bool) {
	parts := strings.Split(name, "|")
	if len(parts) != 4 || parts[0] != "v" {
		return ast.Type{}, false
	}
	v, ok := mkValue(parts[3])
	if !ok {
		return ast.Type{}, false
	}
	var base ast.Type
	switch {
	case strings.HasPrefix(parts[2], "scalar:"):
		base = ast.NewScalar(ast.ScalarKind(strings.TrimPrefix(parts[2], "scalar:")))
	case parts[2] == string(ast.KindArray):
		base = ast.NewArray(ast.String())
	case parts[2] == string(ast.KindMap):
		base = ast.NewMap(ast.String(), ast.String())
	case parts[2] == string(ast.KindStruct):
		base = ast.NewStruct(ast.NewStructField("a", ast.String()))
	case parts[2] == string(ast.KindRef):
		base = ast.NewRef("p", "E")
	case strings.HasPrefix(parts[2], "ref>"): // a reference to a given support object
		base = ast.NewRef("p", strings.TrimPrefix(parts[2], "ref>"))
	case parts[2] == string(ast.KindEnum):
		base = ast.NewEnum([]ast.EnumValue{{Type: ast.String(), Name: "a", Value: "a"}, {Type: ast.String(), Name: "b", Value: "b"}})
	case parts[2] == string(ast.KindDisjunction):
		base = ast.NewDisjunction(ast.Types{ast.String(), ast.NewScalar(ast.KindInt64)})
	case parts[2] == string(ast.KindIntersection):
		base = ast.NewIntersection([]ast.Type{ast.NewRef("p", "S")})
	case parts[2] == string(ast.KindConstantRef):
		base = ast.NewConstantReferenceType("p", "E", "a")
	default:
		return ast.Type{}, false
	}
	switch parts[1] {
	case "const":
		if base.Scalar == nil {
			return ast.Type{}, false
		}
		base.Scalar.Value = v
	case "default":
		base.Default = v
	case "enum":
		if base.Scalar == nil {
			return ast.Type{}, false
		}
		member := base
		base = ast.NewEnum([]ast.EnumValue{{Type: member, Name: "a", Value: v}, {Type: member.DeepCopy(), Name: "b", Value: v}})
	default:
		return ast.Type{}, false
	}
	return base, true
}

// substitute replaces references to p.@name by the special type, keeping
// the nullability of the position.
func substitute(t *ast.Type) {
	if t.Kind == ast.KindRef && t.Ref != nil && strings.HasPrefix(t.Ref.ReferredType, "@") {
		name := strings.TrimPrefix(t.Ref.ReferredType, "@")
		if mk, ok := specials[name]; ok {
			n := t.Nullable
			*t = mk()
			t.Nullable = t.Nullable || n
			return
		}
		if vt, ok := mkValueSpecial(name); ok {
			n := t.Nullable
			*t = vt
			t.Nullable = t.Nullable || n
			return
		}
	}
	switch {
	case t.Array != nil:
		substitute(&t.Array.ValueType)
	}
	if t.Map != nil {
		substitute(&t.Map.IndexType)
		substitute(&t.Map.ValueType)
	}
	if t.Struct != nil {
		for i := range t.Struct.Fields {
			substitute(&t.Struct.Fields[i].Type)
		}
	}
	if t.Disjunction != nil {
		for i := range t.Disjunction.Branches {
			substitute(&t.Disjunction.Branches[i])
		}
	}
	if t.Intersection != nil {
		for i := range t.Intersection.Branches {
			substitute(&t.Intersection.Branches[i])
		}
	}
}

func buildIR(spec irgen.SchemaSpec) ast.Schemas {
	schemas := spec.Build()
	for _, s := range schemas {
		s.Objects = s.Objects.Map(func(_ string, obj ast.Object) ast.Object {
			o := obj
			substitute(&o.Type)
			return o
		})
	}
	return schemas
}

// extra support objects: reference cycles and aliases of every kind
func cycleSupport() []irgen.ObjSpec {
	return []irgen.ObjSpec{
		{Name: "Cyc1", T: irgen.Ref("p.Cyc2")},
		{Name: "Cyc2", T: irgen.Ref("p.Cyc1")},
		{Name: "Self", T: irgen.Ref("p.Self")},
		{Name: "Count", T: irgen.S("int64")},
		{Name: "AliasS", T: irgen.Ref("p.S")},
		{Name: "Rec", T: irgen.Struct1("next", true, irgen.Ref("p.Rec"))},
		{Name: "Dangling", T: irgen.Ref("p.Missing")},
		// chains of aliases leading INTO a cycle / a recursive alias / nowhere
		{Name: "IntoCyc", T: irgen.Ref("p.Cyc1")},
		{Name: "IntoCyc2", T: irgen.Ref("p.IntoCyc")},
		{Name: "IntoSelf", T: irgen.Ref("p.Self")},
		{Name: "IntoArrSelf", T: irgen.Ref("p.ArrSelf")},
		{Name: "IntoDangling", T: irgen.Ref("p.Dangling")},
		{Name: "Cyc3a", T: irgen.Ref("p.Cyc3b")},
		{Name: "Cyc3b", T: irgen.Ref("p.Cyc3c")},
		{Name: "Cyc3c", T: irgen.Ref("p.Cyc3a")},
		{Name: "IntoCyc3", T: irgen.Ref("p.Cyc3b")},
		// a struct whose constant-reference field is not the last one
		{Name: "CS", T: irgen.StructN([]irgen.Field{{Name: "mode", Required: true}, {Name: "label", Required: true}, {Name: "size", Required: false}}, []irgen.Term{irgen.ConstRef("p.E"), irgen.S("string"), irgen.S("int64")})},
		{Name: "MAlias", T: irgen.Map(irgen.S("string"))},
		// aliases that are recursive through an array / a map
		{Name: "ArrSelf", T: irgen.Array(irgen.Ref("p.ArrSelf"))},
		{Name: "MapSelf", T: irgen.Map(irgen.Ref("p.MapSelf"))},
		{Name: "ArrA", T: irgen.Array(irgen.Ref("p.ArrB"))},
		{Name: "ArrB", T: irgen.Array(irgen.Ref("p.ArrA"))},
		{Name: "MapArr", T: irgen.Map(irgen.Ref("p.ArrMap"))},
		{Name: "ArrMap", T: irgen.Array(irgen.Ref("p.MapArr"))},
	}
}

type irInput struct {
	ID   string
	Spec irgen.SchemaSpec
	Size int
}

// irSpace enumerates the IRs of part (d): every term of grammar I up to the
// depth (leaves: the default ones + dangling and cyclic references + the
// enum flavours + the specials), placed as the type of object Root and as a
// required / optional field of struct Root.
func irSpace(thorough bool, reachable map[string]bool, values []string) []irInput {
	// ordinary leaves (the quick tier keeps one representative per kind: the
	// ordinary terms are C06's subject; this part is about the abnormal ones)
	leaves := []irgen.Term{irgen.S("string"), irgen.S("int64"), irgen.S("any"), irgen.Const("str"), irgen.Enum("str"), irgen.Ref("p.S"), irgen.Ref("p.E"), irgen.Ref("p.K"), irgen.ConstRef("p.E"), irgen.Slot()}
	if thorough {
		leaves = append([]irgen.Term{}, irgen.DefaultLeaves()...)
	}
	refs := []string{"p.Missing", "q.Missing", "p.Root", "p.Cyc1", "p.Count", "p.AliasS", "p.Rec", "p.Dangling", "p.T", "p.ArrSelf", "p.MapSelf", "p.ArrA", "p.MapArr", "p.CS", "p.IntoCyc", "p.IntoCyc2", "p.IntoSelf", "p.IntoArrSelf", "p.IntoDangling", "p.IntoCyc3", "p.Cyc3a"}
	if thorough {
		refs = append(refs, "p.Self")
	}
	for _, r := range refs {
		leaves = append(leaves, irgen.Ref(r))
	}
	for _, e := range []string{"numname", "odd", "space", "plus", "noname"} {
		leaves = append(leaves, irgen.Enum(e))
	}
	leaves = append(leaves, irgen.ConstRef("p.Missing"), irgen.ConstRef("p.Cyc1"), irgen.Null(), irgen.S("float32"), irgen.S("uint8"))
	for _, n := range specialNames() {
		if reachable[n] {
			leaves = append(leaves, special(n))
		}
	}
	cfg := irgen.Config{Depth: 2, Leaves: leaves, DisjWith: []irgen.Term{irgen.S("string"), irgen.Ref("p.S"), irgen.Ref("p.Count"), irgen.Ref("p.Missing")}}
	if thorough {
		cfg.DisjWith = []irgen.Term{irgen.S("string"), irgen.Ref("p.S"), irgen.Ref("p.T"), irgen.Ref("p.Count"), irgen.Ref("p.Missing"), irgen.Ref("p.Cyc1"), irgen.Null()}
		cfg.Depth = 3
		cfg.InnerLeaves = []irgen.Term{irgen.S("string"), irgen.Ref("p.S"), irgen.Ref("p.Missing"), irgen.Ref("p.Cyc1"), irgen.Ref("p.Count"), irgen.Enum("str")}
		for _, n := range []string{"emptyenum", "emptystruct", "emptydisj"} {
			if reachable[n] {
				cfg.InnerLeaves = append(cfg.InnerLeaves, special(n))
			}
		}
		cfg.Wrappers = []string{"array", "map", "struct-req", "struct-opt", "nullable", "disj-null", "disj", "inter"}
	}
	// the chains of aliases leading into a cycle: unwrapped in the quick tier
	// (when they hang, they hang for every wrapper)
	rho := []string{"p.IntoCyc", "p.IntoCyc2", "p.IntoSelf", "p.IntoArrSelf", "p.IntoDangling", "p.IntoCyc3", "p.Cyc3a"}
	if !thorough {
		var kept []irgen.Term
		for _, l := range cfg.Leaves {
			isRho := false
			for _, r := range rho {
				isRho = isRho || l.K == "ref" && l.A == r
			}
			if !isRho {
				kept = append(kept, l)
			}
		}
		cfg.Leaves = kept
	}
	terms := irgen.Types(cfg)
	if !thorough {
		for _, r := range rho {
			terms = append(terms, irgen.Ref(r))
		}
	}
	var out []irInput
	cyc := map[string]irgen.ObjSpec{}
	for _, o := range cycleSupport() {
		cyc[o.Name] = o
	}
	var need func(t irgen.Term, into map[string]bool)
	need = func(t irgen.Term, into map[string]bool) {
		if (t.K == "ref" || t.K == "constref") && strings.HasPrefix(t.A, "p.") {
			n := strings.TrimPrefix(t.A, "p.")
			if o, ok := cyc[n]; ok && !into[n] {
				into[n] = true
				need(o.T, into)
			}
		}
		for _, s := range t.Sub {
			need(s, into)
		}
	}
	add := func(place string, spec irgen.SchemaSpec, t irgen.Term) {
		// the cyclic / dangling support objects are only present when referenced
		// (a cycle anywhere in the package would mask everything else)
		used := map[string]bool{}
		need(t, used)
		for _, target := range []string{"CS", "MAlias"} {
			if strings.Contains(t.String(), "|ref>"+target+"|") {
				used[target] = true
			}
		}
		for _, o := range cycleSupport() {
			if used[o.Name] {
				spec.Pkgs[0].Objects = append(spec.Pkgs[0].Objects, o)
			}
		}
		spec.Name = place + ":" + t.String()
		out = append(out, irInput{ID: spec.Name, Spec: spec, Size: t.Size()*4 + len(place)})
	}
	// one IR per observed (role, kind, Go type) value triple (thorough: also
	// inside an array, a map and a union)
	for _, v := range values {
		if strings.HasPrefix(v, "v|default|ref|") {
			// the same default on references to a struct, to a struct with a
			// constant reference, to a map alias
			for _, target := range []string{"S", "CS", "MAlias"} {
				terms = append(terms, special(strings.Replace(v, "|ref|", "|ref>"+target+"|", 1)))
			}
		}
		t := special(v)
		terms = append(terms, t)
		if strings.HasPrefix(v, "v|enum|") {
			// enums are folded when they are the branches of a union: with
			// themselves, with a plain enum, with a constant
			terms = append(terms, irgen.Disj(t, t), irgen.Disj(t, irgen.Enum("str")), irgen.Disj(irgen.Enum("int"), t), irgen.Disj(t, irgen.Const("str")), irgen.Disj(t, irgen.Ref("p.E")))
		}
		if thorough {
			terms = append(terms, irgen.Array(t), irgen.Map(t), irgen.Disj(t, irgen.S("string")), irgen.Nullable(t))
		}
	}
	for _, t := range terms {
		add("root", irgen.WithRoot(t), t)
		add("field", irgen.WithField(t, true), t)
		add("optfield", irgen.WithField(t, false), t)
	}
	out = append(out, twoPackageSpace(thorough)...)
	sort.SliceStable(out, func(i, j int) bool { return out[i].Size < out[j].Size })
	return out
}

// twoPackageSpace: IRs made of two packages, p (Root + support) referring to
// the objects of q from every position grammar I has (as a field, inside
// arrays/maps/structs, as FIRST and as second branch of unions with local
// scalars, local aliases and other references to q, in intersections), and q
// referring back to p. Reference resolution that stays inside the schema
// being visited only goes wrong on such IRs.
func twoPackageSpace(thorough bool) []irInput {
	qObjects := []irgen.ObjSpec{
		{Name: "ID", T: irgen.S("string")},
		{Name: "Count", T: irgen.S("int64")},
		{Name: "E", T: irgen.Enum("str")},
		{Name: "K", T: irgen.Const("str")},
		{Name: "S", T: irgen.StructN([]irgen.Field{{Name: "kind", Required: true}, {Name: "x", Required: false}}, []irgen.Term{irgen.Const("str"), irgen.S("string")})},
		{Name: "T", T: irgen.StructN([]irgen.Field{{Name: "kind", Required: true}, {Name: "y", Required: false}}, []irgen.Term{irgen.Const("int"), irgen.S("int64")})},
		{Name: "MA", T: irgen.Map(irgen.S("string"))},
		{Name: "LA", T: irgen.Array(irgen.S("string"))},
		{Name: "U", T: irgen.Disj(irgen.S("string"), irgen.S("int64"))},
		{Name: "Al", T: irgen.Ref("q.ID")},
		{Name: "AlS", T: irgen.Ref("q.S")},
		{Name: "Back", T: irgen.Ref("p.A")},
		{Name: "BackS", T: irgen.Struct1("up", false, irgen.Ref("p.Root"))},
	}
	var leaves []irgen.Term
	for _, o := range qObjects {
		leaves = append(leaves, irgen.Ref("q."+o.Name))
	}
	leaves = append(leaves, irgen.ConstRef("q.E"), irgen.S("string"), irgen.S("int64"), irgen.Ref("p.A"), irgen.Ref("p.S"))
	cfg := irgen.Config{Depth: 2, Leaves: leaves,
		DisjWith: []irgen.Term{irgen.S("string"), irgen.S("int64"), irgen.Ref("p.A"), irgen.Ref("p.S"), irgen.Ref("q.ID"), irgen.Ref("q.Count"), irgen.Ref("q.S"), irgen.Ref("q.T"), irgen.Ref("q.Al"), irgen.Null()},
		Wrappers: []string{"array", "map", "struct-req", "struct-opt", "nullable", "disj", "inter"}}
	if thorough {
		cfg.Depth = 3
		cfg.InnerLeaves = []irgen.Term{irgen.Ref("q.ID"), irgen.Ref("q.S"), irgen.S("string")}
	}
	var out []irInput
	for _, t := range irgen.Types(cfg) {
		if !strings.Contains(t.String(), "q.") {
			continue // single-package terms are the main space's
		}
		for _, place := range []string{"root", "field", "optfield"} {
			var spec irgen.SchemaSpec
			switch place {
			case "root":
				spec = irgen.WithRoot(t)
			case "field":
				spec = irgen.WithField(t, true)
			default:
				spec = irgen.WithField(t, false)
			}
			for _, qFirst := range []bool{false, true} {
				if qFirst && !thorough {
					continue
				}
				s2 := spec
				q := irgen.PkgSpec{Pkg: "q", Objects: qObjects}
				name := "2pkg:" + place + ":" + t.String()
				if qFirst {
					s2.Pkgs = []irgen.PkgSpec{q, spec.Pkgs[0]}
					name = "2pkg(q first):" + place + ":" + t.String()
				} else {
					s2.Pkgs = []irgen.PkgSpec{spec.Pkgs[0], q}
				}
				s2.Name = name
				out = append(out, irInput{ID: name, Spec: s2, Size: t.Size()*4 + len(place) + 2})
			}
		}
	}
	return out
}

// irStages: every user pass (through the YAML loader; one request runs them
// all, each on a fresh IR under its own recover), the builder generator, every language.
func irStages() []string {
	out := []string{"passes", "builders"}
	for _, l := range allLanguages {
		out = append(out, "lang:"+l)
	}
	return out
}

// splitStage lists the single-stage requests a grouped stage is made of (used
// when a grouped request kills the worker: the stages are then run one by one).
func splitStage(stage string) []string {
	if stage != "passes" {
		return nil
	}
	var out []string
	for _, t := range passTemplates {
		out = append(out, "pass:"+t.Name)
	}
	return out
}
