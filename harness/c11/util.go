//go:build verif

package main

import (
	"encoding/json"
	"fmt"
	"regexp"
	"sort"
	"strings"

	"github.com/grafana/cog/verifx/gschema"
)

var (
	reQuoted = regexp.MustCompile(`"[^"]*"|'[^']*'`)
	reDigits = regexp.MustCompile(`[0-9]+`)
	reIDs    = regexp.MustCompile(`s[0-9]{4}[joc]`)
)

// Names of Python built-in types stay readable in normalised diagnostics;
// every other quoted fragment (field names, class names, values) is abstracted.
var pyBuiltins = map[string]bool{
	"NoneType": true, "str": true, "int": true, "float": true, "bool": true, "dict": true, "list": true,
	"from_json": true, "to_json": true, "keys": true,
}

func normDiag(s string) string {
	s = reIDs.ReplaceAllString(s, "<id>")
	s = reQuoted.ReplaceAllStringFunc(s, func(q string) string {
		if pyBuiltins[q[1:len(q)-1]] {
			return "'" + q[1:len(q)-1] + "'"
		}
		return `"…"`
	})
	s = reDigits.ReplaceAllString(s, "N")
	if len(s) > 140 {
		s = s[:140]
	}
	return strings.TrimSpace(s)
}

// dropNullOptionals removes, guided by the schema, object members that are
// optional properties given as an explicit null (the one lenience the
// statement grants for the JSON-equality clause). Same function as C01's.
func dropNullOptionals(s gschema.Schema, t gschema.Term, v any, budget int) any {
	switch t.K {
	case "ref":
		target, ok := s.Lookup(strings.TrimPrefix(t.A, gschema.Pkg+"."))
		if !ok || budget <= 0 {
			return v
		}
		return dropNullOptionals(s, target, v, budget-1)
	case "struct":
		m, ok := v.(map[string]any)
		if !ok {
			return v
		}
		out := map[string]any{}
		for k, x := range m {
			out[k] = x
		}
		for i, f := range t.Fields {
			x, present := out[f.Name]
			if !present {
				continue
			}
			if x == nil && !f.Required {
				delete(out, f.Name)
				continue
			}
			out[f.Name] = dropNullOptionals(s, t.Sub[i], x, budget)
		}
		return out
	case "array":
		a, ok := v.([]any)
		if !ok {
			return v
		}
		out := make([]any, len(a))
		for i, x := range a {
			out[i] = dropNullOptionals(s, t.Sub[0], x, budget)
		}
		return out
	case "map":
		m, ok := v.(map[string]any)
		if !ok {
			return v
		}
		out := map[string]any{}
		for k, x := range m {
			out[k] = dropNullOptionals(s, t.Sub[1], x, budget)
		}
		return out
	case "disj":
		for _, b := range t.Sub {
			if b.K == "ref" || b.K == "struct" {
				if _, ok := v.(map[string]any); ok {
					return dropNullOptionals(s, b, v, budget)
				}
			}
		}
	}
	return v
}

// canonLenient: exact numbers, key order free, optional explicit null may be omitted.
// The result is a comparison key (numbers are exact rationals), not JSON text.
func canonLenient(s gschema.Schema, doc string) (string, error) {
	dec := json.NewDecoder(strings.NewReader(doc))
	dec.UseNumber()
	var v any
	if err := dec.Decode(&v); err != nil {
		return "", err
	}
	if dec.More() {
		return "", fmt.Errorf("trailing data after the JSON value")
	}
	v = dropNullOptionals(s, s.Objs[0].T, v, 3)
	b, _ := json.Marshal(v)
	return gschema.CanonJSON(string(b))
}

// lenientValue is the decoded document after the null lenience (for diffClass).
func lenientValue(s gschema.Schema, doc string) any {
	dec := json.NewDecoder(strings.NewReader(doc))
	dec.UseNumber()
	var v any
	dec.Decode(&v)
	return dropNullOptionals(s, s.Objs[0].T, v, 3)
}

func formatRank(f string) int {
	for i, x := range gschema.Formats {
		if x == f {
			return i
		}
	}
	return 9
}

// diffClass names what differs between two canonical JSON texts at the
// coarsest useful level (deterministic: members are visited in sorted order).
// want and got are JSON texts.
func diffClass(s gschema.Schema, want, got string) string {
	return diffValue(lenientValue(s, want), lenientValue(s, got))
}

func sortedKeys(m map[string]any) []string {
	ks := make([]string, 0, len(m))
	for k := range m {
		ks = append(ks, k)
	}
	sort.Strings(ks)
	return ks
}

func diffValue(a, b any) string {
	switch x := a.(type) {
	case map[string]any:
		y, ok := b.(map[string]any)
		if !ok {
			return "object became " + valueClass(b)
		}
		for _, k := range sortedKeys(x) {
			w, ok := y[k]
			if !ok {
				return "member dropped: " + valueClass(x[k])
			}
			if d := diffValue(x[k], w); d != "" {
				return d
			}
		}
		for _, k := range sortedKeys(y) {
			if _, ok := x[k]; !ok {
				return "member added: " + valueClass(y[k])
			}
		}
		return ""
	case []any:
		y, ok := b.([]any)
		if !ok {
			return "array became " + valueClass(b)
		}
		if len(x) != len(y) {
			return "array length changed"
		}
		for i := range x {
			if d := diffValue(x[i], y[i]); d != "" {
				return d
			}
		}
		return ""
	}
	ja, _ := json.Marshal(a)
	jb, _ := json.Marshal(b)
	ca, _ := gschema.CanonJSON(string(ja))
	cb, _ := gschema.CanonJSON(string(jb))
	if ca != cb {
		ka, kb := valueClass(a), valueClass(b)
		if ka == kb {
			return ka + " value changed"
		}
		return ka + " became " + kb
	}
	return ""
}

func valueClass(v any) string {
	switch x := v.(type) {
	case nil:
		return "null"
	case map[string]any:
		if len(x) == 0 {
			return "empty object"
		}
		return "object"
	case []any:
		if len(x) == 0 {
			return "empty array"
		}
		return "array"
	case string:
		return "string"
	case bool:
		return "bool"
	}
	return "number"
}
