//go:build verif

package main

import (
	"encoding/json"
	"fmt"
	"regexp"
	"sort"
	"strings"

	"github.com/grafana/cog/verifx/gschema"
)

var (
	reQuoted = regexp.MustCompile(`"[^"]*"|'[^']*'`)
	reDigits = regexp.MustCompile(`[0-9]+`)
	reIDs    = regexp.MustCompile(`s[0-9]{4}[joc]`)
)

// Names of Python built-in types stay readable in normalised diagnostics;
// every other quoted fragment (field names, class names, values) is abstracted.
var pyBuiltins = map[string]bool{
	"NoneType": true, "str": true, "int": true, "float": true, "bool": true, "dict": true, "list": true,
	"from_json": true, "to_json": true, "keys": true,
}

func normDiag(s string) string {
	s = reIDs.ReplaceAllString(s, "<id>")
	s = reQuoted.ReplaceAllStringFunc(s, func(q string) string {
		if pyBuiltins[q[1:len(q)-1]] {
			return "'" + q[1:len(q)-1] + "'"
		}
		return `"…"`
	})
	s = reDigits.ReplaceAllString(s, "N")
	if len(s) > 140 {
		s = s[:140]
	}
	return strings.TrimSpace(s)
}

// dropNullOptionals removes, guided by the schema, object members that are
// optional properties given as an explicit null (the one lenience the
// statement grants for the JSON-equality clause). Same function as C01's.
func dropNullOptionals(s gschema.Schema, t gschema.Term, v any, budget int) any {
	switch t.K {
	case "ref":
		target, ok := s.Lookup(strings.TrimPrefix(t.A, gschema.Pkg+"."))
		if !ok || budget <= 0 {
			return v
		}
		return dropNullOptionals(s, target, v, budget-1)
	case "struct":
		m, ok := v.(map[string]any)
		if !ok {
			return v
		}
		out := map[string]any{}
		for k, x := range m {
			out[k] = x
		}
		for i, f := range t.Fields {
			x, present := out[f.Name]
			if !present {
				continue
			}
			if x == nil && !f.Required {
				delete(out, f.Name)
				continue
			}
			out[f.Name] = dropNullOptionals(s, t.Sub[i], x, budget)
		}
		return out
	case "array":
		a, ok := v.([]any)
		if !ok {
			return v
		}
		out := make([]any, len(a))
		for i, x := range a {
			out[i] = dropNullOptionals(s, t.Sub[0], x, budget)
		}
		return out
	case "map":
		m, ok := v.(map[string]any)
		if !ok {
			return v
		}
		out := map[string]any{}
		for k, x := range m {
			out[k] = dropNullOptionals(s, t.Sub[1], x, budget)
		}
		return out
	case "disj":
		m, ok := v.(map[string]any)
		if !ok {
			return v
		}
		// the branch whose discriminator constant the value carries, else the first struct branch
		for _, b := range t.Sub {
			if b.K != "ref" {
				continue
			}
			if target, ok := s.Lookup(strings.TrimPrefix(b.A, gschema.Pkg+".")); ok && target.K == "struct" {
				for i, f := range target.Fields {
					if ft := target.Sub[i]; ft.K == "const" && strings.HasPrefix(ft.A, "disc:") && m[f.Name] == strings.TrimPrefix(ft.A, "disc:") {
						return dropNullOptionals(s, b, v, budget)
					}
				}
			}
		}
		for _, b := range t.Sub {
			if b.K == "ref" || b.K == "struct" {
				return dropNullOptionals(s, b, v, budget)
			}
		}
	}
	return v
}

// canonLenient: exact numbers, key order free, optional explicit null may be omitted.
// The result is a comparison key (numbers are exact rationals), not JSON text.
func canonLenient(s gschema.Schema, doc string) (string, error) {
	dec := json.NewDecoder(strings.NewReader(doc))
	dec.UseNumber()
	var v any
	if err := dec.Decode(&v); err != nil {
		return "", err
	}
	if dec.More() {
		return "", fmt.Errorf("trailing data after the JSON value")
	}
	v = dropNullOptionals(s, s.Objs[0].T, v, 3)
	b, _ := json.Marshal(v)
	return gschema.CanonJSON(string(b))
}

// lenientValue is the decoded document after the null lenience (for diffClass).
func lenientValue(s gschema.Schema, doc string) any {
	dec := json.NewDecoder(strings.NewReader(doc))
	dec.UseNumber()
	var v any
	dec.Decode(&v)
	return dropNullOptionals(s, s.Objs[0].T, v, 3)
}

func formatRank(f string) int {
	for i, x := range gschema.Formats {
		if x == f {
			return i
		}
	}
	return 9
}

// typeClass describes a type of grammar G, abstracting nothing but names of fields.
func typeClass(t gschema.Term) string {
	s := ""
	switch t.K {
	case "scalar":
		s = t.A
		if t.Constr {
			s += "[c]"
		}
	case "array", "map":
		s = t.K + " of " + typeClass(t.Sub[len(t.Sub)-1])
	case "struct":
		var p []string
		for i, f := range t.Fields {
			q := ""
			if !f.Required {
				q = "?"
			}
			p = append(p, f.Name+q+":"+typeClass(t.Sub[i]))
		}
		s = "{" + strings.Join(p, ",") + "}"
	case "disj":
		var p []string
		for _, b := range t.Sub {
			p = append(p, typeClass(b))
		}
		s = "(" + strings.Join(p, "|") + ")"
		if t.Disc {
			s += "@disc"
		}
	default:
		s = t.K + "(" + t.A + ")"
	}
	if t.Nullable {
		s += "?"
	}
	if t.Default != "" {
		s += "=default"
	}
	return s
}

// diffClass names the first difference (members visited in sorted order, so
// the result is deterministic) between two JSON texts together with the
// schema type of the offending position: "<what> @ <required|optional|item|value> <type>".
func diffClass(s gschema.Schema, want, got string) string {
	classOf = typeClass
	return diffTerm(s, s.Objs[0].T, "root", lenientValue(s, want), lenientValue(s, got), 3)
}

// diffClassCoarse is diffClass with the position named by its coarse type
// (scalars collapsed, references named by what they resolve to): used where the
// deviation is another property's finding seen again (Go's, C01) and one kind
// per root cause is enough.
func diffClassCoarse(s gschema.Schema, want, got string) string {
	classOf = func(t gschema.Term) string {
		if t.K == "array" || t.K == "map" { // what the container holds does not matter to an encoder that drops or keeps it
			c := t.K
			if t.Nullable {
				c += "?"
			}
			return c
		}
		return coarseType(s, t, 2)
	}
	defer func() { classOf = typeClass }()
	return diffTerm(s, s.Objs[0].T, "root", lenientValue(s, want), lenientValue(s, got), 3)
}

var classOf = typeClass

func sortedKeys(m map[string]any) []string {
	ks := make([]string, 0, len(m))
	for k := range m {
		ks = append(ks, k)
	}
	sort.Strings(ks)
	return ks
}

func diffTerm(s gschema.Schema, t gschema.Term, pos string, a, b any, budget int) string {
	at := " @ " + pos + " " + classOf(t)
	if t.K == "ref" {
		if target, ok := s.Lookup(strings.TrimPrefix(t.A, gschema.Pkg+".")); ok && budget > 0 {
			d := diffTerm(s, target, pos, a, b, budget-1)
			if d == "" {
				return ""
			}
			if i := strings.Index(d, " @ "+pos+" "); i >= 0 && !strings.Contains(d[:i], " @ ") {
				// the difference is at this very position: name it by the reference
				return d[:i] + at
			}
			return d
		}
	}
	if t.K == "disj" {
		for _, br := range t.Sub {
			if _, isObj := a.(map[string]any); isObj && (br.K == "ref" || br.K == "struct") {
				if d := diffTerm(s, br, pos, a, b, budget); d == "" {
					return ""
				}
			}
		}
	}
	switch x := a.(type) {
	case map[string]any:
		y, ok := b.(map[string]any)
		if !ok {
			return valueClass(a) + " became " + valueClass(b) + at
		}
		sub := func(k string) (gschema.Term, string) {
			switch t.K {
			case "struct":
				for i, f := range t.Fields {
					if f.Name == k {
						if f.Required {
							return t.Sub[i], "required"
						}
						return t.Sub[i], "optional"
					}
				}
			case "map":
				return t.Sub[1], "value"
			}
			return gschema.Term{K: "scalar", A: "any"}, "member"
		}
		for _, k := range sortedKeys(x) {
			ft, fp := sub(k)
			w, ok := y[k]
			if !ok {
				return "member dropped: " + valueClass(x[k]) + " @ " + fp + " " + classOf(ft)
			}
			if d := diffTerm(s, ft, fp, x[k], w, budget); d != "" {
				return d
			}
		}
		for _, k := range sortedKeys(y) {
			if _, ok := x[k]; !ok {
				ft, fp := sub(k)
				return "member added: " + valueClass(y[k]) + " @ " + fp + " " + classOf(ft)
			}
		}
		return ""
	case []any:
		y, ok := b.([]any)
		if !ok {
			return valueClass(a) + " became " + valueClass(b) + at
		}
		if len(x) != len(y) {
			return "array length changed" + at
		}
		et := gschema.Term{K: "scalar", A: "any"}
		if t.K == "array" {
			et = t.Sub[0]
		}
		for i := range x {
			if d := diffTerm(s, et, "item", x[i], y[i], budget); d != "" {
				return d
			}
		}
		return ""
	}
	ja, _ := json.Marshal(a)
	jb, _ := json.Marshal(b)
	ca, _ := gschema.CanonJSON(string(ja))
	cb, _ := gschema.CanonJSON(string(jb))
	if ca != cb {
		ka, kb := valueClass(a), valueClass(b)
		if ka == kb {
			return ka + " value changed" + at
		}
		return ka + " became " + kb + at
	}
	return ""
}

func valueClass(v any) string {
	switch x := v.(type) {
	case nil:
		return "null"
	case map[string]any:
		if len(x) == 0 {
			return "empty object"
		}
		return "object"
	case []any:
		if len(x) == 0 {
			return "empty array"
		}
		return "array"
	case string:
		return "string"
	case bool:
		return "bool"
	}
	return "number"
}

// ---- "readable by the other SDK": from_json must build the generated types ----------------

func normName(s string) string {
	return strings.ToLower(strings.ReplaceAll(s, "_", ""))
}

// attrOf finds the attribute holding the schema field `name` in a shape's
// fields. The generated identifier may be escaped or re-cased (`type` ->
// `type_val`, camelCase -> snake_case); the lookup is tolerant and never
// copies cog's own naming code. ok=false: not found (the position is skipped).
func attrOf(fields map[string]any, name string) (any, bool) {
	if v, ok := fields[name]; ok {
		return v, true
	}
	for _, k := range sortedKeys(fields) {
		if normName(k) == normName(name) || normName(k) == normName(name)+"val" {
			return fields[k], true
		}
	}
	return nil, false
}

// undecoded walks the document, the schema and the shape of the object graph
// from_json built (genrun's Python driver) in parallel and names the first
// position whose schema type is a struct (inline, referenced, or a branch of a
// discriminated union) but which holds a raw dict instead of an instance of a
// generated class — data the Python SDK did not actually read into its types.
// "" = every struct position holds a class instance. Only struct positions
// are demanded: enums and scalars are legitimately kept as plain values.
var structPositionsChecked int

func undecoded(s gschema.Schema, t gschema.Term, pos string, doc, shape any, budget int) string {
	if doc == nil {
		return ""
	}
	if _, isObj := doc.(map[string]any); isObj && (t.K == "struct" || t.K == "ref") && pos != "root" {
		structPositionsChecked++
	}
	at := " @ " + pos + " " + typeClass(t)
	switch t.K {
	case "ref":
		target, ok := s.Lookup(strings.TrimPrefix(t.A, gschema.Pkg+"."))
		if !ok || budget <= 0 {
			return ""
		}
		if target.K == "struct" {
			m, isObj := doc.(map[string]any)
			if !isObj {
				return ""
			}
			sm, _ := shape.(map[string]any)
			cls, isClass := sm["$class"].(string)
			if !isClass {
				return "raw " + shapeKind(shape) + " where a generated class is declared" + at
			}
			if normName(cls) != normName(strings.TrimPrefix(t.A, gschema.Pkg+".")) {
				return "instance of another class where a generated class is declared" + at
			}
			return undecodedFields(s, target, m, sm, budget-1)
		}
		d := undecoded(s, target, pos, doc, shape, budget-1)
		return d
	case "struct":
		m, isObj := doc.(map[string]any)
		if !isObj {
			return ""
		}
		sm, _ := shape.(map[string]any)
		if _, isClass := sm["$class"].(string); !isClass {
			return "raw " + shapeKind(shape) + " where a generated class is declared" + at
		}
		return undecodedFields(s, t, m, sm, budget)
	case "array":
		a, ok := doc.([]any)
		sa, ok2 := shape.([]any)
		if !ok || !ok2 || len(a) != len(sa) {
			return ""
		}
		for i := range a {
			if d := undecoded(s, t.Sub[0], "item", a[i], sa[i], budget); d != "" {
				return d
			}
		}
	case "map":
		m, ok := doc.(map[string]any)
		sm, _ := shape.(map[string]any)
		sd, ok2 := sm["$dict"].(map[string]any)
		if !ok || !ok2 {
			return ""
		}
		for _, k := range sortedKeys(m) {
			if sv, has := sd[k]; has {
				if d := undecoded(s, t.Sub[1], "value", m[k], sv, budget); d != "" {
					return d
				}
			}
		}
	case "disj":
		m, isObj := doc.(map[string]any)
		if !isObj {
			return ""
		}
		// the branch is the struct whose discriminator constant the document carries
		for _, b := range t.Sub {
			if b.K != "ref" {
				continue
			}
			target, ok := s.Lookup(strings.TrimPrefix(b.A, gschema.Pkg+"."))
			if !ok || target.K != "struct" {
				continue
			}
			for i, f := range target.Fields {
				ft := target.Sub[i]
				if ft.K == "const" && strings.HasPrefix(ft.A, "disc:") && m[f.Name] == strings.TrimPrefix(ft.A, "disc:") {
					d := undecoded(s, b, pos, doc, shape, budget)
					if d != "" {
						// name the position by the union, not by the branch
						return d[:strings.Index(d, " @ ")] + at
					}
					return ""
				}
			}
		}
	}
	return ""
}

func undecodedFields(s gschema.Schema, t gschema.Term, m, sm map[string]any, budget int) string {
	fields, _ := sm["fields"].(map[string]any)
	for i, f := range t.Fields {
		v, present := m[f.Name]
		if !present {
			continue
		}
		sv, ok := attrOf(fields, f.Name)
		if !ok {
			continue
		}
		pos := "optional"
		if f.Required {
			pos = "required"
		}
		if d := undecoded(s, t.Sub[i], pos, v, sv, budget); d != "" {
			return d
		}
	}
	return ""
}

func shapeKind(shape any) string {
	switch x := shape.(type) {
	case map[string]any:
		if _, ok := x["$dict"]; ok {
			return "dict"
		}
		return "object"
	case []any:
		return "list"
	case string:
		return x
	}
	return "value"
}

// coarseShape abstracts the root object's field types for the kinds of
// failures that cannot be attributed to a position (exceptions, crashes): all
// scalar kinds collapse, references are named by what they resolve to, and
// required/optional is dropped, so one defect gives one kind while different
// shapes raising the same exception class stay apart (no masking).
func coarseShape(s gschema.Schema) string {
	t := s.Objs[0].T
	if t.K != "struct" {
		return coarseType(s, t, 2)
	}
	seen := map[string]bool{}
	var parts []string
	for i := range t.Fields {
		c := coarseType(s, t.Sub[i], 2)
		if !seen[c] {
			seen[c] = true
			parts = append(parts, c)
		}
	}
	sort.Strings(parts)
	return strings.Join(parts, " + ")
}

func coarseType(s gschema.Schema, t gschema.Term, budget int) string {
	out := ""
	switch t.K {
	case "scalar":
		out = "scalar"
		if t.A == "any" {
			out = "any"
		}
	case "const", "enum", "constref":
		out = t.K
	case "ref":
		target, ok := s.Lookup(strings.TrimPrefix(t.A, gschema.Pkg+"."))
		switch {
		case !ok:
			out = "ref→?"
		case target.K == "struct":
			out = "ref→struct"
			if strings.TrimPrefix(t.A, gschema.Pkg+".") == s.Objs[0].Name {
				out = "ref→self"
			}
		case budget > 0:
			out = "ref→" + coarseType(s, target, budget-1)
		default:
			out = "ref→" + target.K
		}
	case "array", "map":
		out = t.K + " of " + coarseType(s, t.Sub[len(t.Sub)-1], budget)
	case "struct":
		var p []string
		for i := range t.Fields {
			p = append(p, coarseType(s, t.Sub[i], budget))
		}
		out = "{" + strings.Join(p, ",") + "}"
	case "disj":
		var p []string
		for _, b := range t.Sub {
			p = append(p, coarseType(s, b, budget))
		}
		out = "(" + strings.Join(p, "|") + ")"
		if t.Disc {
			out += "@disc"
		}
	default:
		out = t.K
	}
	if t.Nullable {
		out += "?"
	}
	if t.Default != "" {
		out += "=default"
	}
	return out
}
