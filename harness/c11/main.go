//go:build verif

// C11: generated Python types round-trip the documents the source schema
// accepts (from_json, then json.dumps through the generated JSONEncoder) and
// agree with the generated Go types on the wire format. DESIGN.md §6 C11.
//
// Enumerated: grammar G of the tier x the three input formats; ONE pipeline
// run per case generates Go {json marshaller, strict unmarshaller} and Python
// {json marshaller}; every document of the alphabet that all reference
// validators accept is pushed through both generated SDKs in the same run.
//
// Oracle clauses (each backed by a sentence of the statement):
//   python-from_json-raises / python-encode-raises / python-crash
//        "from_json followed by to_json (through the generated encoder) reproduces …" — it must not raise
//   python-roundtrip-differs / python-output-not-json
//        "… reproduces a JSON-equal document (optional properties given as an explicit null may be omitted)"
//   python-vs-go-differs
//        "The JSON Python produces for a document equals the JSON Go produces for the same document"
//        compared whenever both languages produce JSON; the kind says who deviates from the document:
//        [go deviates] (Python reproduces it, Go does not), [both]; Python alone deviating is the
//        round-trip clause's finding (reported there once, with Go's text).
//   python-from_json-undecoded
//        "… so data written by one generated SDK is readable by the other": reading means from_json
//        builds the generated classes; a position whose schema type is a struct (inline, referenced,
//        branch of a discriminated union) must hold an instance of a generated class, not the raw
//        dict. JSON text cannot show this (a raw dict re-encodes to itself), so the Python driver
//        also returns the shape of the object graph. Enums and scalars kept as plain values are fine.
// Leniences: numbers compared as exact rationals, key order free, optional
// explicit null may be omitted (for both comparisons). Preconditions counted,
// never failed: generation errors (C01/C04), Python module that does not import
// (blocked_by=C02), Go package that does not compile (blocked_by=C02, Python is
// still judged against the input document).
package main

import (
	"fmt"
	"os"
	"sort"
	"strings"

	"github.com/grafana/cog/verifx/genrun"
	"github.com/grafana/cog/verifx/gschema"
	"github.com/grafana/cog/verifx/vx"
)

const rootClass = "Root"

func main() {
	r := vx.Start("C11")
	genrun.MaybeServe()
	r.PerKindSmallest = true
	schemas := c11Schemas(r.Thorough())
	if r.Replay != "" {
		_, witness, _ := r.ReplayFile()
		want := witness[strings.Index(witness, " :: ")+4:]
		var pick []gschema.Schema
		for _, s := range append(c11Schemas(true), c11Schemas(false)...) {
			if s.String() == want {
				pick = append(pick, s)
			}
		}
		if len(pick) == 0 {
			vx.Fatalf("replay: schema %q is not in C11's schema set", want)
		}
		schemas = pick[:1]
		fmt.Println("replaying", witness)
	}
	ws := genrun.NewWorkspace("c11")
	defer ws.Close()
	prep, err := genrun.PrepareGo(ws, schemas, func(u *genrun.Unit) {
		u.Go = &genrun.GoOpts{JSONMarshaller: true, StrictUnmarshaller: true}
		u.Python, u.PythonJSON = true, true
	}, nil, nil)
	if err != nil {
		ws.Close()
		vx.Fatalf("%v", err)
	}
	defer prep.Driver.Close()
	py := ws.StartPython()
	defer py.Close()

	samples := &vx.Samples{N: 8}
	counts := map[string]int{}
	bump := func(k string) { counts[k]++ }
	distinctOutcomes := map[string]bool{}
	executions := 0
	seenBase := map[string]string{}

	fail := func(c *genrun.Case, clause, diag, doc, what string) {
		kind := clause
		if strings.HasPrefix(diag, "=") { // an already normalised diff class
			kind += ": " + diag[1:]
		} else if d := normDiag(diag); d != "" {
			// not attributable to a position: the kind carries the (coarse) shape of the schema
			kind += ": " + d + " @ " + coarseShape(c.Schema)
		}
		bump("fail:" + clause)
		// The same schema failing the same way in an earlier format is one finding,
		// reported there; the kind names the first format that shows it, so a
		// defect of one front-end cannot hide behind another front-end's.
		sk := c.Schema.String() + " | " + kind
		if first, ok := seenBase[sk]; ok && first != c.Format {
			bump("same failure already reported in an earlier format (docs)")
			return
		}
		seenBase[sk] = c.Format
		kind += " [" + c.Format + "]"
		r.Fail(vx.Failure{
			Kind:    kind,
			Witness: c.Format + " :: " + c.Schema.String(),
			Size:    c.Schema.Size()*10 + formatRank(c.Format) + extraRank(c.Schema),
			Parents: genrun.CaseParents(c.Schema, c.Format),
			What:    fmt.Sprintf("%s schema %s, document %s: %s", c.Format, c.Schema.String(), doc, what),
			Detail:  map[string]any{"format": c.Format, "schema_index": c.Index, "schema": c.Schema.String(), "doc": doc, "input": c.Unit.Files},
		})
	}

	for _, c := range prep.Cases {
		if c.Result.Status != "ok" {
			// a generation failure is C01's (supported construct refused) or C04's (panic)
			bump("generation-" + c.Result.Status + " (not judged here)")
			continue
		}
		imp, died := py.Do(map[string]any{"op": "import", "unit": c.Unit.ID, "pkg": gschema.Pkg})
		executions++
		if died {
			fail(c, "python-crash", "importing the generated module kills the interpreter", "-", "importing the generated Python module crashes or hangs the interpreter")
			continue
		}
		if t, m, bad := genrun.PyExc(imp, "import_error"); bad {
			bump("blocked_by=C02 (python module does not import)")
			bump("python-import-error: " + normDiag(t+": "+m))
			continue
		}
		goOK := len(c.CompileErrs) == 0 && c.InDriver
		if !goOK {
			bump("go-side blocked_by=C02 (cases)")
		}
		bump("cases-judged")
		vals := prep.Validators[c.Index]
		own, ok := vals[c.Format]
		if !ok {
			bump("no-reference-validator")
			continue
		}
		for _, doc := range c.Schema.Documents() {
			accepted, agree := gschema.Accepted(vals, doc)
			if !agree {
				bump("docs-validators-disagree")
				continue
			}
			if !accepted {
				bump("docs-rejected-by-schema")
				continue
			}
			bump("docs-valid")
			want, err := canonLenient(c.Schema, doc)
			if err != nil {
				vx.Fatalf("bad document %s: %v", doc, err)
			}
			// ---- Python ----
			executions++
			outcome := "ok"
			presp, died := py.Do(map[string]any{"op": "roundtrip", "unit": c.Unit.ID, "pkg": gschema.Pkg, "class": rootClass, "doc": doc})
			pyJSON, havePy := "", false
			switch {
			case died:
				fail(c, "python-crash", "generated code kills the interpreter", doc, "from_json/to_json crashes or hangs the Python interpreter")
				outcome = "py-crash"
			case presp["error"] != nil:
				e := fmt.Sprint(presp["error"])
				fail(c, "python-no-from_json", e, doc, "generate_json_marshaller is set but the root class cannot be used: "+e)
				outcome = "py-unusable"
			default:
				if t, m, bad := genrun.PyExc(presp, "from_json_exc"); bad {
					fail(c, "python-from_json-raises", t+": "+m, doc, fmt.Sprintf("the schema accepts the document but %s.from_json raises %s: %s", rootClass, t, m))
					outcome = "py-from_json-raises"
				} else if t, m, bad := genrun.PyExc(presp, "encode_exc"); bad {
					fail(c, "python-encode-raises", t+": "+m, doc, fmt.Sprintf("json.dumps(obj, cls=JSONEncoder) raises %s: %s after a successful from_json", t, m))
					outcome = "py-encode-raises"
				} else {
					pyJSON, havePy = presp["json"].(string)
					// "readable by the other": every struct position must hold a generated class
					if d := undecoded(c.Schema, c.Schema.Objs[0].T, "root", lenientValue(c.Schema, doc), presp["shape"], 3); d != "" {
						fail(c, "python-from_json-undecoded", "="+d, doc, "from_json succeeds but leaves part of the document undecoded: "+d)
						outcome = "py-undecoded"
					} else {
						bump("from_json builds generated classes at every struct position (docs)")
					}
				}
			}
			pyCanon, pyDiffers := "", false
			if havePy {
				got, err := canonLenient(c.Schema, pyJSON)
				switch {
				case err != nil:
					fail(c, "python-output-not-json", err.Error(), doc, "the Python encoder output is not a JSON document: "+pyJSON)
					outcome = "py-not-json"
					havePy = false
				case got != want:
					pyDiffers = true
					outcome = "py-differs"
					pyCanon = got
				default:
					pyCanon = got
					if !own(pyJSON) {
						// cannot happen when JSON-equal up to the null lenience, unless the lenience itself matters to the validator
						bump("python-output-equal-but-rejected-by-validator (lenience)")
					}
				}
			}
			// ---- Go, same document, same run ----
			// "The JSON Python produces for a document equals the JSON Go produces for
			// the same document" stands on its own: the two encodings are compared
			// whenever both exist, and a difference is classified by who deviates from
			// the document ([go deviates] / [both]; "python deviates" alone is the
			// round-trip clause's finding and is reported there, with Go's text).
			goText := "(not available: the Go package does not compile)"
			if !goOK {
				bump("py-vs-go blocked_by=C02 (docs)")
			} else {
				executions++
				gresp, gdied := prep.Driver.Do(map[string]any{"op": "roundtrip", "type": c.RootType(), "doc": doc})
				goCanon, haveGo := "", false
				if !gdied && gresp["error"] == nil && gresp["decode_panic"] == nil && gresp["decode_err"] == nil {
					if re, ok := gresp["reencoded"].(string); ok {
						if g, err := canonLenient(c.Schema, re); err == nil {
							goCanon, haveGo, goText = g, true, re
						}
					}
				}
				switch {
				case !haveGo:
					goText = "(nothing: Go does not decode/encode this document, C01's finding)"
					bump("py-vs-go not-compared: Go produced nothing, blocked_by=C01 (docs)")
				case !havePy:
					bump("py-vs-go not-compared: python produced nothing (docs)")
				default:
					bump("py-vs-go compared (docs)")
					goDev, pyDev := goCanon != want, pyCanon != want
					switch {
					case pyCanon == goCanon:
						if goDev {
							bump("python-and-go-deviate-identically (docs)")
						}
					case pyDev && !goDev:
						bump("python-vs-go-differs implied by python-roundtrip-differs (docs)")
						outcome += "+vs-go-differs"
					case goDev && !pyDev:
						fail(c, "python-vs-go-differs", "="+diffClassCoarse(c.Schema, doc, goText)+" [go deviates]", doc, fmt.Sprintf("for the same document Python writes %s (JSON-equal to the document) and Go writes %s", pyJSON, goText))
						outcome += "+vs-go-differs(go)"
					default:
						fail(c, "python-vs-go-differs", "="+diffClassCoarse(c.Schema, goText, pyJSON)+" [both]", doc, fmt.Sprintf("for the same document Go writes %s and Python writes %s; neither is JSON-equal to the document", goText, pyJSON))
						outcome += "+vs-go-differs(both)"
					}
				}
			}
			if pyDiffers {
				fail(c, "python-roundtrip-differs", "="+diffClass(c.Schema, doc, pyJSON), doc, fmt.Sprintf("Python from_json→to_json gives %s, which is not JSON-equal to the document; Go writes %s", pyJSON, goText))
			}
			distinctOutcomes[outcome] = true
			if outcome == "ok" {
				samples.Add(map[string]any{"format": c.Format, "schema": c.Schema.String(), "document": doc, "python": pyJSON})
			}
		}
	}
	var cnt []string
	for k, v := range counts {
		cnt = append(cnt, fmt.Sprintf("%s=%d", k, v))
	}
	sort.Strings(cnt)
	var skipped []string
	for f, n := range prep.Skipped {
		skipped = append(skipped, fmt.Sprintf("%s=%d", f, n))
	}
	sort.Strings(skipped)
	py.Close()
	prep.Driver.Close()
	ws.Close()
	if r.Replay != "" {
		kind, witness, _ := r.ReplayFile()
		hit := false
		for _, f := range r.Frontier() {
			fmt.Println("  ", f.Kind, "@", f.Witness, "\n     ", f.What)
			if f.Kind == kind && f.Witness == witness {
				hit = true
			}
		}
		if hit {
			fmt.Printf("VIOLATION property=C11 replay=%s\n", r.Replay)
			os.Exit(1)
		}
		fmt.Println("replay: the recorded failure does not occur on this tree")
		os.Exit(0)
	}
	r.Finish(map[string]any{
		"states":                        len(prep.Cases),
		"transitions":                   executions + len(prep.Cases),
		"traces_validated_against_impl": executions + len(prep.Cases),
		"samples":                       samples.L,
		"exhaustive":                    true,
		"abstract_schemas":              len(schemas),
		"schema_format_cases":           len(prep.Cases),
		"counts":                        cnt,
		"formats_skipped":               skipped,
		"distinct_outcomes":             len(distinctOutcomes),
		"nested_struct_positions_checked_for_decoding": structPositionsChecked,
		"explanation":                   "grammar G enumerated completely for the tier; each schema rendered in every format that can express it; one real pipeline run per case generates Go (json marshaller + strict unmarshaller) and Python (json marshaller); the Go packages are compiled and linked into one driver, the Python packages are imported by one python3 process; every document of the alphabet that all reference validators accept goes through Root.from_json + json.dumps(cls=JSONEncoder) and through Go json.Unmarshal + json.Marshal, and the three JSON texts are compared",
	}, []string{
		"numbers compared as exact rationals, key order free, optional properties given as explicit null may be absent (input vs Python and Go vs Python alike)",
		"documents on which the reference validators disagree are excluded; generation failures are C01/C04's; Python modules that do not import are blocked_by=C02; Go packages that do not compile block only the Go comparison",
		"Python vs Go is compared whenever both produce JSON for the document; a difference caused by Python alone is reported once, under the round-trip clause",
		"Python is driven exactly as a user would: Root.from_json(json.loads(text)); json.dumps(obj, cls=<unit>.cog.encoder.JSONEncoder)",
	})
}

func extraRank(s gschema.Schema) int {
	if beyondG[s.String()] {
		return 5
	}
	return 0
}
