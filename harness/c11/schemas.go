//go:build verif

package main

import (
	"sort"

	"github.com/grafana/cog/verifx/gschema"
	"github.com/grafana/cog/verifx/irgen"
)

func ref(n string) gschema.Term { return irgen.Ref(gschema.Pkg + "." + n) }

// objV is a third union branch: a struct with the discriminator constant "v".
func objV() gschema.Obj {
	return gschema.Obj{Name: "V", T: irgen.StructN([]irgen.Field{{Name: "kind", Required: true}, {Name: "z", Required: false}},
		[]gschema.Term{{K: "const", A: "disc:v"}, irgen.S("bool")})}
}

// Named (non-constant) scalars besides gschema's A=string.
func scalarAliases() []gschema.Obj {
	return []gschema.Obj{{Name: "AB", T: irgen.S("bool")}, {Name: "AI", T: irgen.S("int64")}, {Name: "AF", T: irgen.S("float64")}}
}

func disc(branches ...string) gschema.Term {
	t := gschema.Term{K: "disj", Disc: true}
	for _, b := range branches {
		t.Sub = append(t.Sub, ref(b))
	}
	return t
}

// c11Schemas = grammar G of the tier plus the shapes C11 needs beyond it:
//   - nested containers of objects (members of the thorough set) in the quick tier;
//   - discriminated unions whose branches are NOT declared in the alphabetical
//     order of their discriminator values (T|S, V|S|T), as a field, as array
//     items and as map values — G's only union S|T is declared alphabetically;
//   - maps nested three and four levels deep over objects, enums, lists of objects and
//     unions, and arrays between maps;
//   - strings constrained by a `pattern` (anchored on both ends, one end, none; with and
//     without meta-characters), whose documents are values around the literal core;
//   - optional/required references to named scalars of every JSON type
//     (bool, int64, float64; G has string): their documents include the zero
//     values false, 0, 0.0, "" that an encoder may wrongly treat as "absent".
// beyondG marks the schemas added here: at equal size a member of G stays the
// witness of a failure kind, so widening this set does not rename listed findings.
var beyondG = map[string]bool{}

func c11Schemas(thorough bool) []gschema.Schema {
	schemas := gschema.Enumerate(thorough)
	seen := map[string]bool{}
	for _, s := range schemas {
		seen[s.String()] = true
	}
	var extra []gschema.Schema
	add := func(s gschema.Schema) {
		if k := s.String(); !seen[k] {
			seen[k] = true
			extra = append(extra, s)
		}
	}
	if !thorough {
		for _, t := range []gschema.Term{irgen.Array(irgen.Map(ref("S"))), irgen.Map(irgen.Array(ref("S"))), irgen.Array(irgen.Array(ref("S"))), irgen.Map(irgen.Map(ref("S")))} {
			add(gschema.Field1(t, true))
		}
	}
	field1 := func(t gschema.Term, required bool, objs ...gschema.Obj) gschema.Schema {
		return gschema.WithSupport(append([]gschema.Obj{{Name: "Root", T: irgen.Struct1("f", required, t)}}, objs...)...)
	}
	for _, u := range []gschema.Term{disc("T", "S"), disc("V", "S", "T"), disc("T", "V", "S")} {
		var objs []gschema.Obj
		if len(u.Sub) == 3 {
			objs = append(objs, objV())
		}
		for _, t := range []gschema.Term{u, irgen.Array(u), irgen.Map(u)} {
			add(field1(t, true, objs...))
			add(field1(t, false, objs...))
		}
	}
	for _, a := range scalarAliases() {
		add(field1(ref(a.Name), true, a))
		add(field1(ref(a.Name), false, a))
		if thorough {
			add(field1(irgen.Array(ref(a.Name)), false, a))
			add(field1(irgen.Map(ref(a.Name)), false, a))
		}
	}
	// maps nested three levels deep (and four in the thorough tier) over every kind of
	// non-scalar value a generated decoder has to descend into, plus the shapes where an
	// array sits between two maps: G stops at containers of containers
	m := irgen.Map
	deepLeaves := []gschema.Term{ref("S"), irgen.Enum("str"), irgen.Array(ref("S")), disc("S", "T")}
	for _, l := range deepLeaves {
		add(field1(m(m(m(l))), true))
		if thorough {
			add(field1(m(m(m(l))), false))
			add(field1(m(m(m(m(l)))), true))
		}
	}
	for _, t := range []gschema.Term{m(m(irgen.Array(m(ref("S"))))), m(irgen.Array(m(m(ref("S"))))), irgen.Array(m(m(m(ref("S"))))), irgen.Array(irgen.Array(irgen.Array(ref("S")))), m(m(m(irgen.S("string"))))} {
		add(field1(t, true))
	}
	// strings constrained by a regular expression: anchored on both ends (which cog
	// reads as a constant), on one end only, not at all, and with meta-characters
	patterns := []string{"^ab$", "^ab", "ab$", "ab", "^a.b$", "^ab+"}
	for _, pat := range patterns {
		t := irgen.S("pattern:" + pat)
		add(field1(t, true))
		add(field1(t, false))
		if thorough {
			add(field1(irgen.Array(t), false))
			add(field1(irgen.Map(t), false))
		}
	}
	sort.SliceStable(extra, func(i, j int) bool { return extra[i].Size() < extra[j].Size() })
	for _, s := range extra {
		beyondG[s.String()] = true
	}
	return append(schemas, extra...)
}
