//go:build verif

package main

import (
	"sort"

	"github.com/grafana/cog/verifx/gschema"
	"github.com/grafana/cog/verifx/irgen"
)

func ref(n string) gschema.Term { return irgen.Ref(gschema.Pkg + "." + n) }

// objV is a third union branch: a struct with the discriminator constant "v".
func objV() gschema.Obj {
	return gschema.Obj{Name: "V", T: irgen.StructN([]irgen.Field{{Name: "kind", Required: true}, {Name: "z", Required: false}},
		[]gschema.Term{{K: "const", A: "disc:v"}, irgen.S("bool")})}
}

// Named (non-constant) scalars besides gschema's A=string.
func scalarAliases() []gschema.Obj {
	return []gschema.Obj{{Name: "AB", T: irgen.S("bool")}, {Name: "AI", T: irgen.S("int64")}, {Name: "AF", T: irgen.S("float64")}}
}

func disc(branches ...string) gschema.Term {
	t := gschema.Term{K: "disj", Disc: true}
	for _, b := range branches {
		t.Sub = append(t.Sub, ref(b))
	}
	return t
}

// c11Schemas = grammar G of the tier plus the shapes C11 needs beyond it:
//   - nested containers of objects (members of the thorough set) in the quick tier;
//   - discriminated unions whose branches are NOT declared in the alphabetical
//     order of their discriminator values (T|S, V|S|T), as a field, as array
//     items and as map values — G's only union S|T is declared alphabetically;
//   - optional/required references to named scalars of every JSON type
//     (bool, int64, float64; G has string): their documents include the zero
//     values false, 0, 0.0, "" that an encoder may wrongly treat as "absent".
func c11Schemas(thorough bool) []gschema.Schema {
	schemas := gschema.Enumerate(thorough)
	seen := map[string]bool{}
	for _, s := range schemas {
		seen[s.String()] = true
	}
	var extra []gschema.Schema
	add := func(s gschema.Schema) {
		if k := s.String(); !seen[k] {
			seen[k] = true
			extra = append(extra, s)
		}
	}
	if !thorough {
		for _, t := range []gschema.Term{irgen.Array(irgen.Map(ref("S"))), irgen.Map(irgen.Array(ref("S"))), irgen.Array(irgen.Array(ref("S"))), irgen.Map(irgen.Map(ref("S")))} {
			add(gschema.Field1(t, true))
		}
	}
	field1 := func(t gschema.Term, required bool, objs ...gschema.Obj) gschema.Schema {
		return gschema.WithSupport(append([]gschema.Obj{{Name: "Root", T: irgen.Struct1("f", required, t)}}, objs...)...)
	}
	for _, u := range []gschema.Term{disc("T", "S"), disc("V", "S", "T"), disc("T", "V", "S")} {
		var objs []gschema.Obj
		if len(u.Sub) == 3 {
			objs = append(objs, objV())
		}
		for _, t := range []gschema.Term{u, irgen.Array(u), irgen.Map(u)} {
			add(field1(t, true, objs...))
			add(field1(t, false, objs...))
		}
	}
	for _, a := range scalarAliases() {
		add(field1(ref(a.Name), true, a))
		add(field1(ref(a.Name), false, a))
		if thorough {
			add(field1(irgen.Array(ref(a.Name)), false, a))
			add(field1(irgen.Map(ref(a.Name)), false, a))
		}
	}
	sort.SliceStable(extra, func(i, j int) bool { return extra[i].Size() < extra[j].Size() })
	return append(schemas, extra...)
}
