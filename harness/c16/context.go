//go:build verif

package main

// The second layer: the composition the pipeline (and `cog inspect --ir
// builders [--language L]`) uses — codegen.Pipeline.ContextForLanguage:
// language compiler passes + configured final passes, builder derivation,
// veneers (none configured), nil checks. The property is judged on the
// context that call returns: the builders must be derived, per Appendix A.2,
// from the objects of THAT context (languages.Context.Schemas).

import (
	"encoding/json"
	"fmt"
	"runtime/debug"

	"github.com/grafana/codejen"
	"github.com/grafana/cog/internal/ast/compiler"
	"github.com/grafana/cog/internal/codegen"
	"github.com/grafana/cog/internal/jennies/golang"
	"github.com/grafana/cog/internal/jennies/java"
	"github.com/grafana/cog/internal/jennies/jsonschema"
	"github.com/grafana/cog/internal/jennies/openapi"
	"github.com/grafana/cog/internal/jennies/php"
	"github.com/grafana/cog/internal/jennies/python"
	"github.com/grafana/cog/internal/jennies/typescript"
	"github.com/grafana/cog/internal/languages"
	"github.com/grafana/cog/verifx/irgen"
	"github.com/grafana/cog/verifx/vx"
)

// contextConfigs are the enumerated pipeline configurations: no language (what
// `cog inspect` does without --language), no language but two final passes
// configured, and each of the seven output languages (built like
// Pipeline.OutputLanguages does: New(Config{})).
var contextConfigs = []string{"none", "none+final", "go", "java", "jsonschema", "openapi", "php", "python", "typescript"}

type noLanguage struct{}

func (noLanguage) Name() string                                                     { return "none" }
func (noLanguage) Jennies(_ languages.Config) *codejen.JennyList[languages.Context] { return nil }
func (noLanguage) CompilerPasses() compiler.Passes                                  { return nil }

func newContextConfig(name string) (*codegen.Pipeline, languages.Language) {
	// the constructor every real entry point goes through (PipelineFromFile, the CLI): it
	// installs the progress reporter and the directories; a struct literal would not
	pipeline, err := codegen.NewPipeline()
	if err != nil {
		vx.Fatalf("codegen.NewPipeline: %v", err)
	}
	pipeline.Output.Builders = true
	switch name {
	case "none":
		return pipeline, noLanguage{}
	case "none+final":
		pipeline.Transforms.FinalPasses = compiler.Passes{&compiler.AnonymousStructsToNamed{}, &compiler.NotRequiredFieldAsNullableType{}}
		return pipeline, noLanguage{}
	case "go":
		return pipeline, golang.New(golang.Config{})
	case "java":
		return pipeline, java.New(java.Config{})
	case "jsonschema":
		return pipeline, jsonschema.New(jsonschema.Config{})
	case "openapi":
		return pipeline, openapi.New(openapi.Config{})
	case "php":
		return pipeline, php.New(php.Config{})
	case "python":
		return pipeline, python.New(python.Config{})
	case "typescript":
		return pipeline, typescript.New(typescript.Config{})
	}
	panic("c16: unknown context configuration " + name)
}

// evalContext runs the real ContextForLanguage on a fresh build of the spec
// and judges the builders of the returned context against the model derived
// from the schemas of the same context.
func evalContext(spec irgen.SchemaSpec, lang string, dump bool) evalResult {
	res := evalResult{Counters: map[string]int{}}
	pipeline, language := newContextConfig(lang)
	input := spec.Build()
	var ctx languages.Context
	var err error
	var pmsg, pstack string
	func() {
		defer func() {
			if p := recover(); p != nil {
				pmsg = fmt.Sprint(p)
				pstack = string(debug.Stack())
			}
		}()
		ctx, err = pipeline.ContextForLanguage(language, input)
	}()
	if pmsg != "" || err != nil {
		// Which stage failed? The same chain is run again with builders off (language passes
		// and final passes only). If that fails too, the failure belongs to the passes — the
		// subject of C04 and C06, which run the same chains — and there is no context to judge.
		// If the passes succeed, the builder stage (derivation, veneer engine without rules,
		// nil checks) failed on schemas the pipeline itself produced: A.2 demands builders for
		// exactly the structs of those schemas, "never a crash".
		p2, l2 := newContextConfig(lang)
		p2.Output.Builders = false
		var err2 error
		var pmsg2 string
		func() {
			defer func() {
				if p := recover(); p != nil {
					pmsg2 = fmt.Sprint(p)
				}
			}()
			_, err2 = p2.ContextForLanguage(l2, spec.Build())
		}()
		if pmsg2 != "" || err2 != nil {
			if pmsg != "" {
				res.Counters["context:passes-panic-not-judged (C04/C06) @ "+lang]++
			} else {
				res.Counters["context:passes-error-not-judged @ "+lang]++
			}
			if dump {
				res.Real = fmt.Sprintf("passes fail: panic=%q err=%v\n%s", pmsg2, err2, pstack)
			}
			return res
		}
		res.Counters["clause:crash"]++
		if pmsg != "" {
			res.Findings = append(res.Findings, finding{
				Kind: "context: crash: builder stage panics in " + topCogFrame(pstack) + ": " + normaliseMsg(pmsg),
				What: fmt.Sprintf("Pipeline.ContextForLanguage(%s) panics (%s) while deriving builders from schemas its own passes produced without error — schemas ctx[%s] %s", lang, pmsg, lang, witness(spec)),
			})
			if dump {
				res.Real = "panic: " + pmsg + "\n" + pstack
			}
		} else {
			res.Findings = append(res.Findings, finding{
				Kind: "context: builder stage fails: " + normaliseMsg(err.Error()),
				What: fmt.Sprintf("Pipeline.ContextForLanguage(%s) returns an error (%v) from the builder stage although its passes succeed — schemas ctx[%s] %s", lang, err, lang, witness(spec)),
			})
			if dump {
				res.Real = "error: " + err.Error()
			}
		}
		return res
	}
	res.Counters["context:judged @ "+lang]++
	expected := deriveModel(ctx.Schemas, res.Counters)
	if dump {
		res.Model = dumpModel(expected)
		b, _ := json.MarshalIndent(ctx.Builders, "", " ")
		res.Real = string(b)
	}
	cmp := &comparer{res: &res, spec: "ctx[" + lang + "] " + witness(spec), prefix: "context: "}
	cmp.compare(expected, ctx.Builders)
	return res
}
