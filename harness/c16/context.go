//go:build verif

package main

// The second layer: the composition the pipeline (and `cog inspect --ir
// builders [--language L]`) uses — codegen.Pipeline.ContextForLanguage:
// language compiler passes + configured final passes, builder derivation,
// veneers (none configured), nil checks. The property is judged on the
// context that call returns: the builders must be derived, per Appendix A.2,
// from the objects of THAT context (languages.Context.Schemas).

import (
	"encoding/json"
	"fmt"
	"runtime/debug"

	"github.com/grafana/codejen"
	"github.com/grafana/cog/internal/ast/compiler"
	"github.com/grafana/cog/internal/codegen"
	"github.com/grafana/cog/internal/jennies/golang"
	"github.com/grafana/cog/internal/jennies/java"
	"github.com/grafana/cog/internal/jennies/jsonschema"
	"github.com/grafana/cog/internal/jennies/openapi"
	"github.com/grafana/cog/internal/jennies/php"
	"github.com/grafana/cog/internal/jennies/python"
	"github.com/grafana/cog/internal/jennies/typescript"
	"github.com/grafana/cog/internal/languages"
	"github.com/grafana/cog/verifx/irgen"
)

// contextConfigs are the enumerated pipeline configurations: no language (what
// `cog inspect` does without --language), no language but two final passes
// configured, and each of the seven output languages (built like
// Pipeline.OutputLanguages does: New(Config{})).
var contextConfigs = []string{"none", "none+final", "go", "java", "jsonschema", "openapi", "php", "python", "typescript"}

type noLanguage struct{}

func (noLanguage) Name() string                                                     { return "none" }
func (noLanguage) Jennies(_ languages.Config) *codejen.JennyList[languages.Context] { return nil }
func (noLanguage) CompilerPasses() compiler.Passes                                  { return nil }

func newContextConfig(name string) (*codegen.Pipeline, languages.Language) {
	pipeline := &codegen.Pipeline{Output: codegen.Output{Builders: true}}
	switch name {
	case "none":
		return pipeline, noLanguage{}
	case "none+final":
		pipeline.Transforms.FinalPasses = compiler.Passes{&compiler.AnonymousStructsToNamed{}, &compiler.NotRequiredFieldAsNullableType{}}
		return pipeline, noLanguage{}
	case "go":
		return pipeline, golang.New(golang.Config{})
	case "java":
		return pipeline, java.New(java.Config{})
	case "jsonschema":
		return pipeline, jsonschema.New(jsonschema.Config{})
	case "openapi":
		return pipeline, openapi.New(openapi.Config{})
	case "php":
		return pipeline, php.New(php.Config{})
	case "python":
		return pipeline, python.New(python.Config{})
	case "typescript":
		return pipeline, typescript.New(typescript.Config{})
	}
	panic("c16: unknown context configuration " + name)
}

// evalContext runs the real ContextForLanguage on a fresh build of the spec
// and judges the builders of the returned context against the model derived
// from the schemas of the same context.
func evalContext(spec irgen.SchemaSpec, lang string, dump bool) evalResult {
	res := evalResult{Counters: map[string]int{}}
	pipeline, language := newContextConfig(lang)
	input := spec.Build()
	var ctx languages.Context
	var err error
	var pmsg, pstack string
	func() {
		defer func() {
			if p := recover(); p != nil {
				pmsg = fmt.Sprint(p)
				pstack = string(debug.Stack())
			}
		}()
		ctx, err = pipeline.ContextForLanguage(language, input)
	}()
	switch {
	case pmsg != "":
		// A crash of a compiler pass / veneer / nil-check generator is the subject of
		// C04 and C06 (which run the same chains); here it only means "no context to judge".
		res.Counters["context:panic-not-judged (C04/C06) @ "+lang]++
		if dump {
			res.Real = "panic: " + pmsg + "\n" + pstack
		}
		return res
	case err != nil:
		res.Counters["context:error-not-judged @ "+lang]++
		if dump {
			res.Real = "error: " + err.Error()
		}
		return res
	}
	res.Counters["context:judged @ "+lang]++
	expected := deriveModel(ctx.Schemas, res.Counters)
	if dump {
		res.Model = dumpModel(expected)
		b, _ := json.MarshalIndent(ctx.Builders, "", " ")
		res.Real = string(b)
	}
	cmp := &comparer{res: &res, spec: "ctx[" + lang + "] " + witness(spec), prefix: "context: "}
	cmp.compare(expected, ctx.Builders)
	return res
}
