//go:build verif

package main

import (
	"fmt"
	"os"
	"sort"
	"strings"

	"github.com/grafana/cog/internal/ast"
	"github.com/grafana/cog/verifx/refl"
)

type comparer struct {
	res    *evalResult
	spec   string
	prefix string // "" for the direct layer, "context: " for the pipeline layer
}

func (c *comparer) fail(kind, format string, a ...any) {
	c.res.Findings = append(c.res.Findings, finding{Kind: c.prefix + kind, What: fmt.Sprintf(format, a...) + " — schemas " + c.spec})
}

func (c *comparer) count(k string) { c.res.Counters[k]++ }

func sameValue(a, b any) bool { return len(refl.Diff(a, b, 1)) == 0 }

func diffSummary(a, b any) string {
	d := refl.Diff(a, b, 3)
	return strings.Join(d, "; ")
}

func pathHead(p ast.Path) string {
	if len(p) == 0 {
		return ""
	}
	return p[0].Identifier
}

// compare judges the real builders against the model, clause by clause.
func (c *comparer) compare(expected []expObject, real []ast.Builder) {
	type key struct{ pkg, name string }
	byKey := map[key][]int{}
	for i, b := range real {
		k := key{b.Package, b.Name}
		byKey[k] = append(byKey[k], i)
	}
	objects := map[key]expObject{}
	for _, e := range expected {
		k := key{e.pkg, e.obj.Name}
		objects[k] = e
		n := len(byKey[k])
		switch {
		case e.builder && n == 0 && c.prefix != "" && !e.wantsOption() && os.Getenv("VERIF_C16_STRICT_DISMISSAL") == "":
			// Lenience (context layer only): the property observes the builders
			// before veneers; the context is seen after the veneer engine ran, and
			// that engine — even with no rule configured — treats a builder without
			// options as dismissed (rewrite.applyOptionRules: "no options means that
			// the builder was dismissed"). A struct whose fields are all fixed by the
			// schema therefore has no builder there; this is C17's subject.
			c.count("lenient:context builder without options dismissed by the veneer engine")
		case e.builder && n == 0:
			c.fail("missing-builder @ "+e.class, "object %s.%s is a struct (%s) but got no builder", e.pkg, e.obj.Name, e.class)
		case e.builder && n > 1:
			c.fail("duplicate-builder @ "+e.class, "object %s.%s got %d builders", e.pkg, e.obj.Name, n)
		case !e.builder && n > 0:
			c.fail("unexpected-builder @ "+e.class, "object %s.%s (%s) does not resolve to a struct but got a builder", e.pkg, e.obj.Name, e.class)
		case !e.builder:
			c.count("clause:no-builder-confirmed")
		}
		if e.builder && n >= 1 {
			c.compareBuilder(e, real[byKey[k][0]])
		}
	}
	var stray []string
	for k := range byKey {
		if _, ok := objects[k]; !ok {
			stray = append(stray, k.pkg+"."+k.name)
		}
	}
	sort.Strings(stray)
	for _, s := range stray {
		c.fail("unexpected-builder @ no-such-object", "a builder %s exists but the schemas hold no such object", s)
	}
}

func (c *comparer) compareBuilder(e expObject, b ast.Builder) {
	c.res.Builders++
	c.count("clause:builder-identity")
	who := e.pkg + "." + e.obj.Name
	if !sameValue(b.For, e.obj) {
		c.fail("builder-for-differs @ "+e.class, "builder %s: For is not the object (%s)", who, diffSummary(b.For, e.obj))
	}
	fieldNames := map[string]bool{}
	for _, f := range e.fields {
		if fieldNames[f.field.Name] {
			// Precondition (checked, not assumed): field names are unique within a
			// struct. A struct with two fields of one name (DisjunctionToType names
			// the fields of `p.S | q.S` "S" twice) is an ill-formed object — C06's
			// subject — and "the option targeting field S" is ambiguous: the field
			// coverage of this builder is not judged.
			c.count("not-judged:struct with duplicate field names (C06)")
			return
		}
		fieldNames[f.field.Name] = true
	}
	for _, f := range e.fields {
		name := f.field.Name
		var opts []ast.Option
		for _, o := range b.Options {
			for _, a := range o.Assignments {
				if pathHead(a.Path) == name {
					opts = append(opts, o)
					break
				}
			}
		}
		var consts []ast.Assignment
		for _, a := range b.Constructor.Assignments {
			if pathHead(a.Path) == name {
				consts = append(consts, a)
			}
		}
		c.count("clause:coverage rule-" + f.rule)
		total := len(opts) + len(consts)
		switch {
		case f.allowed == byNothing:
			if len(opts) > 0 {
				c.fail("option-for-fixed-field @ "+f.class, "builder %s: field %q is a constant reference (set by the type's own constructor) but option %q assigns it", who, name, opts[0].Name)
			}
			// Lenience: the statement also allows a constructor constant for a fixed value.
			for _, a := range consts {
				if a.Value.Argument != nil || a.Value.Envelope != nil || !sameValue(a.Value.Constant, f.value) {
					c.fail("constructor-constant-wrong @ "+f.class, "builder %s: constructor assignment to constant-reference field %q is not its reference value", who, name)
				}
			}
			if len(consts) > 1 {
				c.fail("field-covered-twice @ "+f.class, "builder %s: field %q is assigned %d times in the constructor", who, name, len(consts))
			}
		case total == 0:
			c.fail("field-not-covered @ "+f.class, "builder %s: field %q (%s) is covered neither by an option nor by a constructor constant (demanded: %s)", who, name, f.class, f.allowed)
		case total > 1:
			c.fail("field-covered-twice @ "+f.class, "builder %s: field %q (%s) is covered by %d options and %d constructor assignments", who, name, f.class, len(opts), len(consts))
		case len(opts) == 1 && f.allowed&byOption == 0:
			c.fail("option-for-fixed-field @ "+f.class, "builder %s: the schema fixes field %q (%s) but it is covered by option %q instead of a constructor constant", who, name, f.class, opts[0].Name)
		case len(consts) == 1 && f.allowed&byConstant == 0:
			c.fail("constant-for-free-field @ "+f.class, "builder %s: field %q (%s) is not fixed by the schema but is covered by a constructor constant instead of an option", who, name, f.class)
		case len(opts) == 1:
			if f.allowed == byOption|byConstant {
				c.count("lenient:ref-to-nullable-constant covered by option")
			}
			c.compareOption(who, f, opts[0])
		default:
			if f.allowed == byOption|byConstant {
				c.count("lenient:ref-to-nullable-constant covered by constant")
			}
			c.compareConstant(who, f, consts[0])
		}
	}
	for _, o := range b.Options {
		known := false
		for _, a := range o.Assignments {
			if fieldNames[pathHead(a.Path)] {
				known = true
			}
		}
		if !known {
			c.fail("option-for-unknown-field", "builder %s: option %q assigns no field of the struct", who, o.Name)
		}
	}
	for _, a := range b.Constructor.Assignments {
		if !fieldNames[pathHead(a.Path)] {
			c.fail("constructor-assignment-for-unknown-field", "builder %s: the constructor assigns %q which is no field of the struct", who, a.Path.String())
		}
	}
}

func (c *comparer) checkPath(who string, f expField, p ast.Path, what string) {
	if len(p) != 1 || p[0].Identifier != f.field.Name || p[0].Index != nil || p[0].Root {
		c.fail("assignment-path-wrong @ "+what, "builder %s: the %s for field %q targets path %q, not [%s]", who, what, f.field.Name, p.String(), f.field.Name)
		return
	}
	if !sameValue(p[0].Type, f.field.Type) {
		c.fail("assignment-path-type-differs @ "+f.class, "builder %s: the %s for field %q targets it with another type (%s)", who, what, f.field.Name, diffSummary(p[0].Type, f.field.Type))
	}
}

func (c *comparer) compareConstant(who string, f expField, a ast.Assignment) {
	c.count("clause:constructor-constant")
	c.checkPath(who, f, a.Path, "constructor constant")
	if a.Value.Argument != nil || a.Value.Envelope != nil {
		c.fail("constructor-assignment-not-constant @ "+f.class, "builder %s: the constructor assignment of field %q is not a constant", who, f.field.Name)
		return
	}
	if !sameValue(a.Value.Constant, f.value) {
		c.fail("constructor-constant-wrong @ "+f.class, "builder %s: the constructor sets field %q to %s, the schema fixes it to %s", who, f.field.Name, refl.Canon(a.Value.Constant), refl.Canon(f.value))
	}
	if a.Method != ast.DirectAssignment {
		c.fail("assignment-method-wrong @ "+string(a.Method), "builder %s: constructor constant for %q uses method %q", who, f.field.Name, a.Method)
	}
}

func (c *comparer) compareOption(who string, f expField, o ast.Option) {
	c.res.Options++
	c.count("clause:option")
	name := f.field.Name
	if o.Name != name {
		c.fail("option-name-wrong", "builder %s: the option covering field %q is named %q", who, name, o.Name)
	}
	if len(o.Args) != 1 {
		c.fail(fmt.Sprintf("option-arg-count @ %d", len(o.Args)), "builder %s: option %q has %d arguments, demanded exactly one", who, o.Name, len(o.Args))
	} else {
		if o.Args[0].Name != name {
			c.fail("option-arg-name-wrong", "builder %s: option %q has argument %q, demanded %q", who, o.Name, o.Args[0].Name, name)
		}
		if !sameValue(o.Args[0].Type, f.field.Type) {
			c.fail("option-arg-type-differs @ "+f.class, "builder %s: the argument of option %q does not have the field's type (%s)", who, o.Name, diffSummary(o.Args[0].Type, f.field.Type))
		}
	}
	// default
	dk := defaultKind(f.field.Type.Default)
	has := o.Default != nil && len(o.Default.ArgsValues) > 0
	switch {
	case dk != "none" && !has:
		c.fail("option-default-missing @ "+dk, "builder %s: field %q declares default %s but option %q has no default", who, name, refl.Canon(f.field.Type.Default), o.Name)
	case dk != "none" && len(o.Default.ArgsValues) != 1:
		c.fail("option-default-arity @ "+dk, "builder %s: option %q has %d default values for one argument", who, o.Name, len(o.Default.ArgsValues))
	case dk != "none" && !sameValue(o.Default.ArgsValues[0], f.field.Type.Default):
		c.fail("option-default-wrong @ "+dk, "builder %s: option %q has default %s, the field declares %s", who, o.Name, refl.Canon(o.Default.ArgsValues[0]), refl.Canon(f.field.Type.Default))
	case dk == "none" && has:
		c.fail("option-default-unexpected", "builder %s: option %q has default %s but field %q declares none", who, o.Name, refl.Canon(o.Default.ArgsValues), name)
	}
	if dk != "none" {
		c.count("clause:option-default @ " + dk)
	}
	// assignment
	if len(o.Assignments) != 1 {
		c.fail(fmt.Sprintf("option-assignment-count @ %d", len(o.Assignments)), "builder %s: option %q has %d assignments, demanded exactly one", who, o.Name, len(o.Assignments))
	}
	var a *ast.Assignment
	for i := range o.Assignments {
		if pathHead(o.Assignments[i].Path) == name {
			a = &o.Assignments[i]
			break
		}
	}
	if a == nil {
		return
	}
	c.checkPath(who, f, a.Path, "option assignment")
	if a.Method != ast.DirectAssignment {
		c.fail("assignment-method-wrong @ "+string(a.Method), "builder %s: option %q assigns field %q with method %q, demanded a direct assignment", who, o.Name, name, a.Method)
	}
	if a.Value.Argument == nil || a.Value.Constant != nil || a.Value.Envelope != nil {
		c.fail("assignment-value-not-the-argument", "builder %s: option %q does not assign its argument to field %q", who, o.Name, name)
	} else if a.Value.Argument.Name != name || !sameValue(a.Value.Argument.Type, f.field.Type) {
		c.fail("assignment-value-not-the-argument", "builder %s: option %q assigns argument (%q) which is not the option's argument for field %q", who, o.Name, a.Value.Argument.Name, name)
	}
	// constraints
	if f.field.Type.Kind != ast.KindScalar || f.field.Type.Scalar == nil {
		// Lenience: the statement speaks of "the field's constraints"; a
		// non-scalar field has none of its own, whatever the assignment
		// carries there is not judged.
		if len(a.Constraints) > 0 {
			c.count("lenient:constraints on non-scalar field")
		}
		return
	}
	used := make([]bool, len(a.Constraints))
	for _, tc := range f.field.Type.Scalar.Constraints {
		c.count("clause:constraint @ " + string(tc.Op))
		found, opSeen := false, false
		for i, ac := range a.Constraints {
			if used[i] || ac.Op != tc.Op {
				continue
			}
			opSeen = true
			if sameValue(ac.Parameter, firstArg(tc)) {
				used[i], found = true, true
				if ac.Argument.Name != name || !sameValue(ac.Argument.Type, f.field.Type) {
					c.fail("constraint-argument-wrong @ "+string(tc.Op), "builder %s: constraint %s on option %q checks argument %q, not the option's argument", who, tc.Op, o.Name, ac.Argument.Name)
				}
				break
			}
		}
		switch {
		case found:
		case opSeen:
			c.fail("constraint-parameter-wrong @ "+string(tc.Op), "builder %s: the assignment of option %q carries constraint %s with another parameter than %s", who, o.Name, tc.Op, refl.Canon(firstArg(tc)))
			for i, ac := range a.Constraints {
				if !used[i] && ac.Op == tc.Op {
					used[i] = true
					break
				}
			}
		default:
			c.fail("constraint-missing @ "+string(tc.Op), "builder %s: field %q has constraint %s %s but the assignment of option %q does not carry it", who, name, tc.Op, refl.Canon(firstArg(tc)), o.Name)
		}
	}
	for i, ac := range a.Constraints {
		if !used[i] {
			c.fail("constraint-unexpected @ "+string(ac.Op), "builder %s: the assignment of option %q carries constraint %s %s which field %q does not have", who, o.Name, ac.Op, refl.Canon(ac.Parameter), name)
		}
	}
}
