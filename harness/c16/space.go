//go:build verif

package main

// The enumerated space: schema sets of grammar I (DESIGN §3.2) built from a
// fixed pool of named objects. A case holds its root objects plus exactly the
// pool objects they reference (transitively), so that the canonical witness is
// the whole input and nothing else.

import (
	"os"
	"sort"
	"strings"

	"github.com/grafana/cog/verifx/irgen"
)

type objDef struct {
	Pkg, Name string
	T         irgen.Term
}

func (o objDef) key() string { return o.Pkg + "." + o.Name }

const P = irgen.Pkg // "p"

var poolOrder []string
var pool = map[string]objDef{}

func addPool(pkg, name string, t irgen.Term) {
	d := objDef{pkg, name, t}
	pool[d.key()] = d
	poolOrder = append(poolOrder, d.key())
}

func init() {
	for _, o := range irgen.Support(P) { // S, T (structs with a constant field), E (enum), A (scalar), K (string constant)
		addPool(P, o.Name, o.T)
	}
	ref := irgen.Ref
	addPool(P, "AS", ref("p.S"))   // alias of a struct
	addPool(P, "AS2", ref("p.AS")) // alias chains of length 2, 3
	addPool(P, "AS3", ref("p.AS2"))
	addPool(P, "AE", ref("p.E")) // aliases of non-structs
	addPool(P, "AA", ref("p.A"))
	addPool(P, "AK", ref("p.K"))
	addPool(P, "AK2", ref("p.AK"))
	addPool(P, "Arr", irgen.Array(irgen.S("string")))
	addPool(P, "AR", ref("p.Arr"))
	addPool(P, "U", irgen.Disj(ref("p.S"), ref("p.T")))
	addPool(P, "AU", ref("p.U"))
	addPool(P, "AC", irgen.Term{K: "scalar", A: "string", Constr: true})
	addPool(P, "KN", irgen.Nullable(irgen.Const("str")))
	addPool(P, "AQS", ref("q.S")) // aliases into another package
	addPool(P, "AQK", ref("q.K"))
	addPool(P, "AQA", ref("q.AP")) // p → q → p → p chain
	addPool("q", "S", irgen.StructN(
		[]irgen.Field{{Name: "z", Required: true}, {Name: "k", Required: true}, {Name: "kq", Required: true}, {Name: "ko", Required: false}},
		[]irgen.Term{irgen.S("bool"), ref("p.K"), ref("q.K"), ref("p.K")}))
	addPool("q", "K", irgen.Const("int"))
	addPool("q", "E", irgen.Enum("int"))
	addPool("q", "AP", ref("p.AS"))
	addPool("q", "AK", ref("p.K"))
	// same-named objects in different packages (re-exports): chains crossing them
	addPool(P, "X", ref("q.X"))
	addPool("q", "X", irgen.StructN(
		[]irgen.Field{{Name: "z", Required: true}, {Name: "k", Required: true}},
		[]irgen.Term{irgen.S("string"), ref("p.KX")}))
	addPool(P, "AX", ref("p.X")) // p.AX → p.X → q.X (struct)
	addPool("q", "AX", ref("p.AX"))
	addPool(P, "Y", ref("q.Y")) // p.Y → q.Y → r.Y (struct): three packages
	addPool("q", "Y", ref("r.Y"))
	addPool("r", "Y", irgen.Struct1("y", true, ref("q.KY")))
	addPool(P, "KX", ref("q.KX")) // p.KX → q.KX (constant)
	addPool("q", "KX", irgen.Const("int"))
	addPool(P, "KY", ref("q.KY")) // p.KY → q.KY → r.KY (constant)
	addPool("q", "KY", ref("r.KY"))
	addPool("r", "KY", irgen.Const("str"))
	addPool("r", "K", ref("p.K"))       // r.K → p.K (constant), the other direction
	addPool("r", "S", ref("q.S"))       // r.S → q.S (struct)
	addPool(P, "D", ref("p.Missing"))   // dangling aliases
	addPool(P, "DQ", ref("zz.Missing")) // … into a package that does not exist
	addPool(P, "AD", ref("p.D"))
	addPool(P, "C", ref("p.C")) // cyclic aliases
	addPool(P, "C1", ref("p.C2"))
	addPool(P, "C2", ref("p.C1"))
	addPool(P, "XC", ref("p.C1")) // chain into a cycle
}

func refsOf(t irgen.Term, out *[]string) {
	if t.K == "ref" || t.K == "constref" {
		*out = append(*out, t.A)
	}
	for _, s := range t.Sub {
		refsOf(s, out)
	}
}

// mkSpec builds the schema set holding roots plus the pool objects they reach.
func mkSpec(name string, pkgOrder []string, roots ...objDef) irgen.SchemaSpec {
	have := map[string]bool{}
	var all []objDef
	for _, r := range roots {
		if !have[r.key()] {
			have[r.key()] = true
			all = append(all, r)
		}
	}
	for i := 0; i < len(all); i++ {
		var refs []string
		refsOf(all[i].T, &refs)
		for _, k := range refs {
			if d, ok := pool[k]; ok && !have[k] {
				have[k] = true
				all = append(all, d)
			}
		}
	}
	// dependencies in pool order (deterministic, independent of discovery order)
	deps := all[len(dedupRoots(roots)):]
	sort.SliceStable(deps, func(i, j int) bool { return poolIndex(deps[i].key()) < poolIndex(deps[j].key()) })
	spec := irgen.SchemaSpec{Name: name}
	pkgs := append([]string{}, pkgOrder...)
	for _, o := range all {
		found := false
		for _, p := range pkgs {
			if p == o.Pkg {
				found = true
			}
		}
		if !found {
			pkgs = append(pkgs, o.Pkg)
		}
	}
	for _, p := range pkgs {
		ps := irgen.PkgSpec{Pkg: p}
		for _, o := range all {
			if o.Pkg == p {
				ps.Objects = append(ps.Objects, irgen.ObjSpec{Name: o.Name, T: o.T})
			}
		}
		if len(ps.Objects) > 0 {
			spec.Pkgs = append(spec.Pkgs, ps)
		}
	}
	return spec
}

func dedupRoots(roots []objDef) []objDef {
	have := map[string]bool{}
	var out []objDef
	for _, r := range roots {
		if !have[r.key()] {
			have[r.key()] = true
			out = append(out, r)
		}
	}
	return out
}

func poolIndex(k string) int {
	for i, x := range poolOrder {
		if x == k {
			return i
		}
	}
	return len(poolOrder)
}

// witness is the canonical identity of a schema set: packages in order, objects in order.
func witness(s irgen.SchemaSpec) string {
	var pk []string
	for _, p := range s.Pkgs {
		var ob []string
		for _, o := range p.Objects {
			ob = append(ob, o.Name+"="+o.T.String())
		}
		pk = append(pk, p.Pkg+"{"+strings.Join(ob, "; ")+"}")
	}
	return strings.Join(pk, " + ")
}

func renameTerm(t irgen.Term, from, to string) irgen.Term {
	if (t.K == "ref" || t.K == "constref") && t.A == from {
		t.A = to
	}
	if len(t.Sub) > 0 {
		sub := make([]irgen.Term, len(t.Sub))
		for i, x := range t.Sub {
			sub[i] = renameTerm(x, from, to)
		}
		t.Sub = sub
	}
	return t
}

// renameRefs rewrites every reference to `from` (in place on a cloned spec).
func renameRefs(c irgen.SchemaSpec, from, to string) irgen.SchemaSpec {
	for pi := range c.Pkgs {
		for oi := range c.Pkgs[pi].Objects {
			c.Pkgs[pi].Objects[oi].T = renameTerm(c.Pkgs[pi].Objects[oi].T, from, to)
		}
	}
	return c
}

func cloneSpec(s irgen.SchemaSpec) irgen.SchemaSpec {
	c := irgen.SchemaSpec{Name: s.Name}
	for _, p := range s.Pkgs {
		cp := p
		cp.Objects = append([]irgen.ObjSpec{}, p.Objects...)
		c.Pkgs = append(c.Pkgs, cp)
	}
	return c
}

func findObj(s irgen.SchemaSpec, key string) (irgen.Term, bool) {
	for _, p := range s.Pkgs {
		for _, o := range p.Objects {
			if p.Pkg+"."+o.Name == key {
				return o.T, true
			}
		}
	}
	return irgen.Term{}, false
}

// reductions are the one-step reductions of a schema set (DESIGN §5.1), in a
// fixed order: delete an unreferenced object; hoist an alias over the object
// it names; reduce one object's type (irgen.Term.Reductions: hoist a child,
// drop a field/branch, reset an attribute; leafResets; requiredResets); and
// finally reset order and names to the base values of their alphabets so that
// inputs differing only in naming share one minimal form (an object precedes
// the objects it refers to, a reference to a missing
// object → p.Missing, the k-th object of a package → Root, O1, O2…, the k-th
// field of a struct → f, g, h…, the only package → p, objects of a second
// package → first package).
func reductions(s irgen.SchemaSpec) []irgen.SchemaSpec {
	var out []irgen.SchemaSpec
	emit := func(c irgen.SchemaSpec) {
		var pk []irgen.PkgSpec
		for _, p := range c.Pkgs {
			if len(p.Objects) > 0 {
				pk = append(pk, p)
			}
		}
		c.Pkgs = pk
		c.Name = "reduction"
		for i := range c.Pkgs { // entry points are irrelevant to builders; keep reductions canonical
			c.Pkgs[i].EntryPoint = ""
		}
		if len(pk) > 0 {
			out = append(out, c)
		}
	}
	referenced := map[string]int{}
	for _, p := range s.Pkgs {
		for _, o := range p.Objects {
			var refs []string
			refsOf(o.T, &refs)
			for _, r := range refs {
				if r != p.Pkg+"."+o.Name {
					referenced[r]++
				}
			}
		}
	}
	total := 0
	for _, p := range s.Pkgs {
		total += len(p.Objects)
	}
	for pi, p := range s.Pkgs {
		for oi, o := range p.Objects {
			if total > 1 && referenced[p.Pkg+"."+o.Name] == 0 {
				c := cloneSpec(s)
				c.Pkgs[pi].Objects = append(append([]irgen.ObjSpec{}, p.Objects[:oi]...), p.Objects[oi+1:]...)
				emit(c)
			}
		}
	}
	for pi, p := range s.Pkgs {
		for oi, o := range p.Objects {
			if o.T.K == "ref" {
				if target, ok := findObj(s, o.T.A); ok && o.T.A != p.Pkg+"."+o.Name {
					c := cloneSpec(s)
					c.Pkgs[pi].Objects[oi].T = target
					emit(c)
				}
			}
			rs := append(append(append(o.T.Reductions(), leafResets(o.T)...), requiredResets(o.T)...), fieldNameResets(o.T)...)
			for _, r := range rs {
				if r.K == "scalar" && r.A == "null" {
					continue
				}
				c := cloneSpec(s)
				c.Pkgs[pi].Objects[oi].T = r
				emit(c)
			}
		}
	}
	// naming
	{
		var refs []string
		for _, p := range s.Pkgs {
			for _, o := range p.Objects {
				refsOf(o.T, &refs)
			}
		}
		done := map[string]bool{}
		for _, k := range refs {
			if _, ok := findObj(s, k); ok || k == P+".Missing" || done[k] {
				continue
			}
			done[k] = true
			emit(renameRefs(cloneSpec(s), k, P+".Missing"))
		}
	}
	// order: an object comes before the objects it refers to (deterministic
	// topological order, ties and cycles keep the current order; idempotent)
	for pi, p := range s.Pkgs {
		refs := make([][]string, len(p.Objects))
		for i, o := range p.Objects {
			refsOf(o.T, &refs[i])
		}
		picked := make([]bool, len(p.Objects))
		var order []int
		for len(order) < len(p.Objects) {
			choice := -1
			for i := range p.Objects {
				if picked[i] {
					continue
				}
				free := true
				for j := range p.Objects {
					if j != i && !picked[j] && contains(refs[j], p.Pkg+"."+p.Objects[i].Name) {
						free = false
						break
					}
				}
				if free {
					choice = i
					break
				}
			}
			if choice < 0 {
				for i := range p.Objects {
					if !picked[i] {
						choice = i
						break
					}
				}
			}
			picked[choice] = true
			order = append(order, choice)
		}
		same := true
		for i, j := range order {
			if i != j {
				same = false
			}
		}
		if !same {
			c := cloneSpec(s)
			for i, j := range order {
				c.Pkgs[pi].Objects[i] = p.Objects[j]
			}
			emit(c)
		}
	}
	for pi, p := range s.Pkgs {
		for oi, o := range p.Objects {
			if oi >= len(canonNames) || o.Name == canonNames[oi] {
				continue
			}
			// the object at position oi takes the name of its position; an object holding that name swaps
			want := canonNames[oi]
			c := cloneSpec(s)
			c = renameRefs(c, p.Pkg+"."+want, p.Pkg+".\x00tmp")
			c = renameRefs(c, p.Pkg+"."+o.Name, p.Pkg+"."+want)
			c = renameRefs(c, p.Pkg+".\x00tmp", p.Pkg+"."+o.Name)
			for oj := range c.Pkgs[pi].Objects {
				if c.Pkgs[pi].Objects[oj].Name == want {
					c.Pkgs[pi].Objects[oj].Name = o.Name
				}
			}
			c.Pkgs[pi].Objects[oi].Name = want
			emit(c)
		}
	}
	if len(s.Pkgs) == 1 && s.Pkgs[0].Pkg != P {
		c := cloneSpec(s)
		old := c.Pkgs[0].Pkg
		for _, o := range s.Pkgs[0].Objects {
			c = renameRefs(c, old+"."+o.Name, P+"."+o.Name)
		}
		c.Pkgs[0].Pkg = P
		emit(c)
	}
	// move an object of another package into the first package (references follow)
	for pi, p := range s.Pkgs {
		if pi == 0 {
			continue
		}
		first := s.Pkgs[0].Pkg
		for oi, o := range p.Objects {
			name := o.Name
			if _, taken := findObj(s, first+"."+name); taken {
				name = ""
				for _, cn := range canonNames {
					if _, taken := findObj(s, first+"."+cn); !taken {
						name = cn
						break
					}
				}
				if name == "" {
					continue
				}
			}
			c := renameRefs(cloneSpec(s), p.Pkg+"."+o.Name, first+"."+name)
			moved := c.Pkgs[pi].Objects[oi]
			moved.Name = name
			c.Pkgs[pi].Objects = append(append([]irgen.ObjSpec{}, c.Pkgs[pi].Objects[:oi]...), c.Pkgs[pi].Objects[oi+1:]...)
			c.Pkgs[0].Objects = append(c.Pkgs[0].Objects, moved)
			emit(c)
		}
	}
	return out
}

func contains(l []string, x string) bool {
	for _, y := range l {
		if y == x {
			return true
		}
	}
	return false
}

var canonFields = []string{"f", "g", "h", "i", "j", "k"}

// fieldNameResets: the field at position k of a struct (at any depth) takes
// the k-th canonical field name; a field holding that name swaps.
func fieldNameResets(t irgen.Term) []irgen.Term {
	var out []irgen.Term
	if t.K == "struct" {
		for i, f := range t.Fields {
			if i >= len(canonFields) || f.Name == canonFields[i] {
				continue
			}
			c := t
			c.Fields = append([]irgen.Field{}, t.Fields...)
			for j := range c.Fields {
				if c.Fields[j].Name == canonFields[i] {
					c.Fields[j].Name = f.Name
				}
			}
			c.Fields[i].Name = canonFields[i]
			out = append(out, c)
		}
	}
	for i, sub := range t.Sub {
		for _, r := range fieldNameResets(sub) {
			c := t
			c.Sub = append([]irgen.Term{}, t.Sub...)
			c.Sub[i] = r
			out = append(out, c)
		}
	}
	return out
}

var canonNames = []string{"Root", "O1", "O2", "O3", "O4", "O5", "O6", "O7", "O8", "O9"}

// requiredResets: reset one optional field (at any depth) to required, the base value of that attribute.
func requiredResets(t irgen.Term) []irgen.Term {
	var out []irgen.Term
	if t.K == "struct" {
		for i, f := range t.Fields {
			if !f.Required {
				c := t
				c.Fields = append([]irgen.Field{}, t.Fields...)
				c.Fields[i].Required = true
				out = append(out, c)
			}
		}
	}
	for i, sub := range t.Sub {
		for _, r := range requiredResets(sub) {
			c := t
			c.Sub = append([]irgen.Term{}, t.Sub...)
			c.Sub[i] = r
			out = append(out, c)
		}
	}
	return out
}

// leafResets: reset any proper sub-term to the base value of the alphabet
// (`string`), once bare and once keeping its nullable/default/hint
// decoration. Together with irgen's own reductions this makes one defect have
// few minimal forms instead of one per leaf type.
func leafResets(t irgen.Term) []irgen.Term {
	var out []irgen.Term
	for i, sub := range t.Sub {
		if t.K == "map" && i == 0 {
			continue
		}
		if sub.K == "scalar" && sub.A == "null" {
			continue
		}
		with := func(r irgen.Term) irgen.Term {
			c := t
			c.Sub = append([]irgen.Term{}, t.Sub...)
			c.Sub[i] = r
			return c
		}
		isString := sub.K == "scalar" && sub.A == "string" && !sub.Constr
		if !isString {
			out = append(out, with(irgen.S("string")))
			if sub.Nullable || sub.Default != "" || sub.Hints > 0 {
				d := irgen.S("string")
				d.Nullable, d.Default, d.Hints = sub.Nullable, sub.Default, sub.Hints
				out = append(out, with(d))
			}
		}
		for _, r := range leafResets(sub) {
			out = append(out, with(r))
		}
	}
	return out
}

// hasAliasCycle: some object that is a reference lies on / leads into a cycle
// of objects that are references. Such schema sets are executed in a child
// process (resolution may recurse forever). This only selects *where* a case
// runs, it is no part of the oracle.
func hasAliasCycle(s irgen.SchemaSpec) bool {
	next := map[string]string{}
	for _, p := range s.Pkgs {
		for _, o := range p.Objects {
			if o.T.K == "ref" {
				next[p.Pkg+"."+o.Name] = o.T.A
			}
		}
	}
	for start := range next {
		seen := map[string]bool{}
		cur := start
		for {
			if seen[cur] {
				return true
			}
			seen[cur] = true
			n, ok := next[cur]
			if !ok {
				break
			}
			cur = n
		}
	}
	return false
}

// ---------------------------------------------------------------------------
// enumeration

func fieldLeaves(thorough bool) []irgen.Term {
	l := irgen.DefaultLeaves()
	ref := irgen.Ref
	l = append(l,
		irgen.Const("bool"), irgen.Const("float"),
		ref("p.T"), ref("p.AS2"), ref("p.AK2"), ref("p.AE"), ref("p.AC"), ref("p.KN"), ref("p.U"),
		ref("q.K"), ref("q.S"), ref("q.AK"), ref("q.AP"), irgen.ConstRef("q.E"),
		ref("p.Missing"), ref("p.D"),
		// chains crossing same-named objects of different packages
		ref("p.X"), ref("p.AX"), ref("p.Y"), ref("p.KX"), ref("q.KX"), ref("p.KY"), ref("q.KY"), ref("r.K"), ref("r.S"),
	)
	if thorough {
		for _, s := range irgen.AllScalarKinds() {
			l = append(l, s)
			if s.A != "any" && s.A != "bool" && s.A != "bytes" {
				c := s
				c.Constr = true
				l = append(l, c)
			}
		}
		l = append(l, ref("p.AS"), ref("p.AS3"), ref("p.AK"), ref("p.AA"), ref("p.AR"), ref("p.AU"), ref("p.AQS"), ref("p.AQK"), ref("p.AQA"), ref("p.DQ"), ref("zz.Missing"))
	}
	return l
}

// decorate returns t and its decorated variants (nullable, defaults of every kind, a hint).
func decorate(t irgen.Term, full bool) []irgen.Term {
	var out []irgen.Term
	nulls := []bool{t.Nullable}
	if !t.Nullable {
		nulls = append(nulls, true)
	}
	for _, n := range nulls {
		for _, d := range []string{"", "scalar", "list", "map", "zero", "emptylist", "emptymap"} {
			for h := 0; h <= 1; h++ {
				if !full && !(d == "" && h == 0) && !(n && d == "scalar" && h == 0) && !(!n && d == "list" && h == 1) && !(!n && d == "zero" && h == 0) {
					continue
				}
				if h == 1 && (d == "zero" || d == "emptylist" || d == "emptymap") {
					continue // hints are irrelevant to defaults: the zero/empty flavours come without
				}
				c := t
				c.Nullable, c.Default, c.Hints = n, d, h
				out = append(out, c)
			}
		}
	}
	return out
}

func permutations(n int) [][]int {
	if n == 0 {
		return [][]int{{}}
	}
	var out [][]int
	var rec func(cur []int, used []bool)
	rec = func(cur []int, used []bool) {
		if len(cur) == n {
			out = append(out, append([]int{}, cur...))
			return
		}
		for i := 0; i < n; i++ {
			if !used[i] {
				used[i] = true
				rec(append(cur, i), used)
				used[i] = false
			}
		}
	}
	rec(nil, make([]bool, n))
	return out
}

func rootDef(t irgen.Term) objDef { return objDef{P, "Root", t} }

func enumerate(thorough bool) ([]testCase, map[string]int) {
	var cases []testCase
	families := map[string]int{}
	add := func(family string, spec irgen.SchemaSpec) {
		spec.Name = family
		cases = append(cases, testCase{family: family, spec: spec})
		families[family]++
	}
	pq := []string{P, "q", "r"}
	raw := add
	// every multi-package schema set is enumerated in all package orders
	add = func(family string, spec irgen.SchemaSpec) {
		for _, perm := range permutations(len(spec.Pkgs)) {
			c := spec
			c.Pkgs = make([]irgen.PkgSpec, len(spec.Pkgs))
			for i, j := range perm {
				c.Pkgs[i] = spec.Pkgs[j]
			}
			raw(family, c)
		}
	}

	// 1. one struct holding one field: every field type term × {required, optional}
	cfg := irgen.Config{Depth: 2, Leaves: fieldLeaves(thorough)}
	if thorough {
		cfg.Depth = 3
		cfg.InnerLeaves = fieldLeaves(false) // depth 3 is built over the quick leaf set
	}
	terms := irgen.Types(cfg)
	for _, t := range terms {
		for _, dt := range decorate(t, t.Depth() <= 2) {
			for _, req := range []bool{true, false} {
				add("field", mkSpec("", pq, rootDef(irgen.Struct1("f", req, dt))))
			}
		}
	}

	// 2. object-level shapes: an object of every kind (must not get a builder
	// unless it resolves to a struct), aliases, alias chains, aliases into
	// another package, dangling and cyclic aliases, all decorated.
	objLeaves := append([]irgen.Term{}, irgen.DefaultLeaves()...)
	for _, k := range poolOrder {
		objLeaves = append(objLeaves, irgen.Ref(k))
	}
	objLeaves = append(objLeaves, irgen.Ref("p.Missing"), irgen.Ref("zz.Missing"), irgen.Ref("q.Missing"), irgen.Const("bool"), irgen.ConstRef("q.E"))
	for _, t := range objLeaves {
		for _, dt := range decorate(t, true) {
			add("object", mkSpec("", pq, rootDef(dt)))
		}
	}
	safeLeaves := objLeaves[:0:0]
	for _, t := range objLeaves {
		if t.K == "ref" && hasAliasCycle(mkSpec("", pq, rootDef(t))) {
			// cyclic targets below a wrapper: only as the single field of a struct (family 3)
			continue
		}
		safeLeaves = append(safeLeaves, t)
	}
	for _, t := range irgen.Types(irgen.Config{Depth: 2, Leaves: safeLeaves}) {
		if t.Depth() < 2 {
			continue
		}
		for _, dt := range decorate(t, thorough) {
			add("object", mkSpec("", pq, rootDef(dt)))
		}
	}

	// 3. fields referring to cyclic aliases (child process)
	for _, k := range []string{"p.C", "p.C1", "p.XC"} {
		for _, req := range []bool{true, false} {
			add("cyclic-field", mkSpec("", pq, rootDef(irgen.Struct1("f", req, irgen.Ref(k)))))
			add("cyclic-field", mkSpec("", pq, rootDef(irgen.Struct1("f", req, irgen.Nullable(irgen.Ref(k))))))
		}
		add("cyclic-field", mkSpec("", pq, rootDef(irgen.Struct1("f", false, irgen.Array(irgen.Ref(k))))))
	}

	// 4. structs with 2–3 (thorough: 4) fields of mixed kinds
	mixed := []irgen.Term{
		irgen.S("string"),
		{K: "scalar", A: "string", Constr: true, Default: "scalar"},
		{K: "scalar", A: "int64", Constr: true, Nullable: true},
		{K: "scalar", A: "bool", Default: "zero"},
		irgen.Const("str"),
		irgen.Enum("str"),
		irgen.Ref("p.S"),
		irgen.Ref("p.K"),
		irgen.Nullable(irgen.Ref("p.K")),
		irgen.Ref("q.K"),
		irgen.ConstRef("p.E"),
		{K: "array", Sub: []irgen.Term{irgen.S("string")}, Default: "list"},
		irgen.Disj(irgen.S("string"), irgen.S("int64")),
	}
	type fv struct {
		t   irgen.Term
		req bool
	}
	var fvs []fv
	for _, t := range mixed {
		fvs = append(fvs, fv{t, true}, fv{t, false})
	}
	names := []string{"f", "g", "h", "i"}
	var rec func(n int, cur []fv)
	rec = func(n int, cur []fv) {
		if len(cur) == n {
			var fs []irgen.Field
			var ts []irgen.Term
			for i, x := range cur {
				fs = append(fs, irgen.Field{Name: names[i], Required: x.req})
				ts = append(ts, x.t)
			}
			fam := "multi-field"
			if n > 3 {
				fam = "multi-field-4"
			}
			add(fam, mkSpec("", pq, rootDef(irgen.StructN(fs, ts))))
			return
		}
		for _, x := range fvs {
			rec(n, append(append([]fv{}, cur...), x))
		}
	}
	rec(2, nil)
	rec(3, nil)
	if thorough {
		// 4 fields: required variants only (12^4)
		save := fvs
		fvs = nil
		for _, x := range save {
			if x.req {
				fvs = append(fvs, x)
			}
		}
		rec(4, nil)
		fvs = save
	}

	// 5. sets of 1–3 (thorough: 4) pool objects over one or two packages, in both package orders
	var keys, cyclic []string
	for _, k := range poolOrder {
		if hasAliasCycle(mkSpec("", pq, pool[k])) {
			cyclic = append(cyclic, k)
		} else {
			keys = append(keys, k)
		}
	}
	maxSet := 3
	if thorough {
		maxSet = 4
	}
	var sub func(start int, cur []objDef)
	sub = func(start int, cur []objDef) {
		if len(cur) > 0 {
			fam := "object-set"
			if len(cur) > 3 {
				fam = "object-set-4"
			}
			add(fam, mkSpec("", pq, cur...))
		}
		if len(cur) == maxSet {
			return
		}
		for i := start; i < len(keys); i++ {
			sub(i+1, append(append([]objDef{}, cur...), pool[keys[i]]))
		}
	}
	sub(0, nil)
	for _, c := range cyclic { // a cyclic alias next to one healthy object (child process)
		for _, k := range []string{"p.S", "p.AS", "p.E", "q.S"} {
			add("object-set", mkSpec("", pq, pool[c], pool[k]))
		}
	}

	// 6. the shared hand-picked multi-package seeds (names differing in case, unions, entry points…)
	for _, s := range irgen.SeedSchemas() {
		add("seed", s)
	}

	// 7. the pipeline layer: the same schema sets through
	// codegen.Pipeline.ContextForLanguage for every context configuration
	// (see contextEligible for the families of each tier).
	direct := len(cases)
	for i := 0; i < direct; i++ {
		tc := cases[i]
		if !contextEligible(tc, thorough) {
			continue
		}
		for _, lang := range contextConfigs {
			cases = append(cases, testCase{family: "ctx:" + tc.family, lang: lang, spec: tc.spec})
			families["ctx:"+tc.family]++
		}
	}
	return cases, families
}

func contextEligible(tc testCase, thorough bool) bool {
	if os.Getenv("VERIF_C16_NOCTX") != "" {
		return false
	}
	if thorough {
		// thorough tier: everything but the sets of four pool objects and the four-field structs
		return tc.family != "object-set-4" && tc.family != "multi-field-4"
	}
	// quick tier: no object sets, no three-field structs and no hint-decorated
	// variants at the pipeline layer (hints never reach builder derivation)
	switch tc.family {
	case "object-set":
		return false
	case "multi-field":
		for _, p := range tc.spec.Pkgs {
			for _, o := range p.Objects {
				if o.Name == "Root" && len(o.T.Fields) > 2 {
					return false
				}
			}
		}
	case "field", "object":
		if strings.Contains(witness(tc.spec), "#h") {
			return false
		}
	}
	return true
}
