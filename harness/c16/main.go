//go:build verif

// C16: builders are derived completely and type-correctly from the schemas.
//
// Engine E3 (exhaustive enumeration of input shapes) over grammar I: every
// schema set of the families listed in enumerate() is built freshly, handed to
// cog's own (&ast.BuilderGenerator{}).FromAST — the call `cog inspect --ir
// builders` / codegen.Pipeline.ContextForLanguage make before veneers — and the
// result is compared with an independent derivation (model.go) transcribed
// from DESIGN.md Appendix A.2 and the property statement.
//
// Stack overflows cannot be recovered in Go, so schema sets that contain an
// alias cycle are executed in a child process (this binary re-executed with
// --c16-child); everything else runs in-process under recover().
package main

import (
	"bytes"
	"context"
	"encoding/json"
	"flag"
	"fmt"
	"os"
	"os/exec"
	"regexp"
	"runtime"
	"runtime/debug"
	"sort"
	"strings"
	"sync"
	"time"

	"github.com/grafana/cog/internal/ast"
	"github.com/grafana/cog/verifx/irgen"
	"github.com/grafana/cog/verifx/vx"
)

var childFlag = flag.Bool("c16-child", false, "internal: evaluate the schema spec given on stdin in this process and print the result as JSON")

// ---------------------------------------------------------------------------
// evaluation of one case

type finding struct {
	Kind string
	What string
}

type evalResult struct {
	Findings []finding
	Counters map[string]int
	Builders int // real builders compared with a model builder
	Options  int // real options compared with a model option
	Real     string
	Model    string
}

type childRequest struct {
	Spec irgen.SchemaSpec
	Lang string // "" = direct layer (FromAST), else a context configuration
	Dump bool
}

var cogFrame = regexp.MustCompile(`github\.com/grafana/cog/internal/([A-Za-z0-9_/]+\.(?:\([^)]*\)\.)?[A-Za-z0-9_.\[\]]+)`)

// topCogFrame returns the first cog function in a stack dump that follows a
// panic frame (or the first one at all).
func topCogFrame(stack string) string {
	if i := strings.Index(stack, "panic("); i >= 0 {
		stack = stack[i:]
	}
	for _, line := range strings.Split(stack, "\n") {
		if strings.HasPrefix(line, "\t") {
			continue
		}
		if m := cogFrame.FindStringSubmatch(line); m != nil && !strings.Contains(line, "/verifx/") {
			return trimArgs(m[1])
		}
	}
	return "?"
}

func trimArgs(s string) string {
	if i := strings.LastIndex(s, "("); i > 0 && !strings.HasPrefix(s[i:], "(*") {
		s = s[:i]
	}
	return s
}

// dominantCogFrame: the cog function occurring most often in a fatal stack
// dump (for a stack overflow: the function that recurses). Ties are broken
// alphabetically so the kind is deterministic.
func dominantCogFrame(stack string) string {
	count := map[string]int{}
	for _, line := range strings.Split(stack, "\n") {
		if strings.HasPrefix(line, "\t") || strings.Contains(line, "/verifx/") {
			continue
		}
		if m := cogFrame.FindStringSubmatch(line); m != nil {
			count[trimArgs(m[1])]++
		}
	}
	best, bestN := "?", 0
	var names []string
	for n := range count {
		names = append(names, n)
	}
	sort.Strings(names)
	for _, n := range names {
		if count[n] > bestN {
			best, bestN = n, count[n]
		}
	}
	return best
}

// evalInProcess runs the real derivation and the model on fresh builds of the
// spec and compares them. A panic of FromAST is a `crash:` finding.
func evalInProcess(spec irgen.SchemaSpec, dump bool) evalResult {
	res := evalResult{Counters: map[string]int{}}
	forImpl := spec.Build()
	forModel := spec.Build() // nothing shared with what the implementation sees
	expected := deriveModel(forModel, res.Counters)
	if dump {
		res.Model = dumpModel(expected)
	}
	var real []ast.Builder
	var pmsg, pstack string
	func() {
		defer func() {
			if p := recover(); p != nil {
				pmsg = fmt.Sprint(p)
				pstack = string(debug.Stack())
			}
		}()
		real = (&ast.BuilderGenerator{}).FromAST(forImpl)
	}()
	if pmsg != "" {
		res.Findings = append(res.Findings, finding{
			Kind: "crash: panic in " + topCogFrame(pstack) + ": " + normaliseMsg(pmsg),
			What: fmt.Sprintf("BuilderGenerator.FromAST panics (%s) on schemas %s; the property demands no builder for an unresolvable object and a builder for every other struct", pmsg, witness(spec)),
		})
		res.Counters["clause:crash"]++
		if dump {
			res.Real = "panic: " + pmsg + "\n" + pstack
		}
		return res
	}
	if dump {
		b, _ := json.MarshalIndent(real, "", " ")
		res.Real = string(b)
	}
	cmp := &comparer{res: &res, spec: witness(spec)}
	cmp.compare(expected, real)
	return res
}

var addrRe = regexp.MustCompile(`0x[0-9a-fA-F]+`)

func normaliseMsg(s string) string {
	s = addrRe.ReplaceAllString(s, "0x?")
	if i := strings.Index(s, "\n"); i >= 0 {
		s = s[:i]
	}
	return s
}

var transitions, childRuns int64
var cntMu sync.Mutex

// evalInChild re-executes this binary for one case so that a fatal error
// (stack overflow) kills the child only.
func evalInChild(spec irgen.SchemaSpec, lang string, dump bool) evalResult {
	req, _ := json.Marshal(childRequest{Spec: spec, Lang: lang, Dump: dump})
	ctx, cancel := context.WithTimeout(context.Background(), 10*time.Minute)
	defer cancel()
	cmd := exec.CommandContext(ctx, os.Args[0], "--c16-child")
	cmd.Stdin = bytes.NewReader(req)
	var stdout, stderr bytes.Buffer
	cmd.Stdout = &stdout
	cmd.Stderr = &stderr
	err := cmd.Run()
	if ctx.Err() != nil {
		// no wall-clock verdicts (DESIGN §4.3): a child that does not end is a harness error here, C04 judges hangs
		vx.Fatalf("child for %s did not finish within 10 minutes", witness(spec))
	}
	if err == nil {
		var res evalResult
		if e := json.Unmarshal(stdout.Bytes(), &res); e != nil {
			vx.Fatalf("child for %s: bad output: %v\n%s", witness(spec), e, stdout.String())
		}
		return res
	}
	es := stderr.String()
	msg := ""
	for _, line := range strings.Split(es, "\n") {
		if strings.HasPrefix(line, "fatal error: ") || strings.HasPrefix(line, "panic: ") {
			msg = normaliseMsg(line)
			break
		}
	}
	if msg == "" {
		vx.Fatalf("child for %s failed without a Go crash report: %v\n%s", witness(spec), err, short(es, 2000))
	}
	if lang != "" {
		// a fatal crash inside the pipeline (a compiler pass recursing on a cyclic alias…) is C04/C06's subject
		res := evalResult{Counters: map[string]int{"context:fatal-not-judged (C04/C06) @ " + lang: 1}}
		if dump {
			res.Real = short(es, 3000)
		}
		return res
	}
	res := evalResult{Counters: map[string]int{"clause:crash": 1}}
	res.Findings = append(res.Findings, finding{
		Kind: "crash: " + msg + " in " + dominantCogFrame(es),
		What: fmt.Sprintf("BuilderGenerator.FromAST kills the process (%s, recursing in %s) on schemas %s; the property demands no builder for a cyclic reference and a builder for every other struct", msg, dominantCogFrame(es), witness(spec)),
	})
	if dump {
		res.Real = short(es, 3000)
		res.Model = dumpModel(deriveModel(spec.Build(), map[string]int{}))
	}
	return res
}

func short(s string, n int) string {
	if len(s) > n {
		return s[:n] + "\n…"
	}
	return s
}

func evaluate(spec irgen.SchemaSpec, lang string, dump bool) evalResult {
	cntMu.Lock()
	transitions++
	cntMu.Unlock()
	if hasAliasCycle(spec) {
		cntMu.Lock()
		childRuns++
		cntMu.Unlock()
		return evalInChild(spec, lang, dump)
	}
	return evalLayer(spec, lang, dump)
}

func evalLayer(spec irgen.SchemaSpec, lang string, dump bool) evalResult {
	if lang == "" {
		return evalInProcess(spec, dump)
	}
	return evalContext(spec, lang, dump)
}

func childMain() {
	debug.SetMaxStack(32 << 20) // fail fast on runaway recursion (default limit is 1 GB)
	var req childRequest
	if err := json.NewDecoder(os.Stdin).Decode(&req); err != nil {
		fmt.Fprintln(os.Stderr, "c16-child: bad request:", err)
		os.Exit(3)
	}
	res := evalLayer(req.Spec, req.Lang, req.Dump)
	b, _ := json.Marshal(res)
	os.Stdout.Write(b)
	os.Exit(0)
}

// ---------------------------------------------------------------------------
// driver

type testCase struct {
	family string
	lang   string // "" = direct layer, else the context configuration the schemas go through
	spec   irgen.SchemaSpec
}

// id is the canonical identity of a case: the layer and the schema set.
func (tc testCase) id() string { return caseID(tc.lang, tc.spec) }

func caseID(lang string, spec irgen.SchemaSpec) string {
	if lang == "" {
		return witness(spec)
	}
	return "ctx[" + lang + "] " + witness(spec)
}

type detail struct {
	Family string           `json:"family"`
	Lang   string           `json:"lang,omitempty"`
	Spec   irgen.SchemaSpec `json:"spec"`
}

func main() {
	r := vx.Start("C16")
	if *childFlag {
		childMain()
	}
	if r.Replay != "" {
		replay(r)
	}
	t0 := time.Now()
	dbg := func(format string, a ...any) {
		if os.Getenv("VERIF_C16_DEBUG") != "" {
			fmt.Fprintf(os.Stderr, "[%6.1fs] "+format+"\n", append([]any{time.Since(t0).Seconds()}, a...)...)
		}
	}
	cases, families := enumerate(r.Thorough())
	dbg("enumerated %d cases %v", len(cases), families)

	// Every evaluation is memoised by canonical witness: one execution of the
	// implementation per distinct schema set, whoever asks for it.
	type memo struct {
		once sync.Once
		res  evalResult
	}
	var mu sync.Mutex
	memos := map[string]*memo{}
	counters := map[string]int{}
	var nBuilders, nOptions int
	var failing []testCase // failing cases whose reductions still have to be looked at

	record := func(tc testCase, res evalResult) {
		mu.Lock()
		for k, v := range res.Counters {
			counters[k] += v
		}
		nBuilders += res.Builders
		nOptions += res.Options
		if len(res.Findings) > 0 {
			failing = append(failing, tc)
		}
		mu.Unlock()
		if len(res.Findings) == 0 {
			return
		}
		var parents []string
		for _, red := range reductions(tc.spec) {
			parents = append(parents, caseID(tc.lang, red))
		}
		w := tc.id()
		seen := map[string]bool{}
		for _, f := range res.Findings {
			if seen[f.Kind] {
				continue
			}
			seen[f.Kind] = true
			r.Fail(vx.Failure{Kind: f.Kind, Witness: w, Size: tc.spec.Size(), Parents: parents, What: f.What,
				Detail: detail{Family: tc.family, Lang: tc.lang, Spec: tc.spec}})
		}
	}
	evalMemo := func(tc testCase) *evalResult {
		w := tc.id()
		mu.Lock()
		m := memos[w]
		if m == nil {
			m = &memo{}
			memos[w] = m
		}
		mu.Unlock()
		m.once.Do(func() {
			m.res = evaluate(tc.spec, tc.lang, false)
			record(tc, m.res)
		})
		return &m.res
	}
	parallel := func(n int, f func(i int)) {
		var wg sync.WaitGroup
		ch := make(chan int, 256)
		for w := 0; w < runtime.NumCPU(); w++ {
			wg.Add(1)
			go func() {
				defer wg.Done()
				for i := range ch {
					f(i)
				}
			}()
		}
		for i := 0; i < n; i++ {
			ch <- i
		}
		close(ch)
		wg.Wait()
	}

	// dedupe by canonical witness, keep enumeration order
	var todo []testCase
	{
		seen := map[string]bool{}
		for _, tc := range cases {
			w := tc.id()
			if seen[w] {
				continue
			}
			seen[w] = true
			todo = append(todo, tc)
		}
	}
	enumerated := len(todo)
	order := make([]int, len(todo))
	for i := range order {
		order[i] = i
	}
	if r.Seed != 0 { // VERIF_SEED only permutes the work order
		s := uint64(r.Seed)*2862933555777941757 + 3037000493
		for i := len(order) - 1; i > 0; i-- {
			s = s*6364136223846793005 + 1442695040888963407
			j := int((s >> 33) % uint64(i+1))
			order[i], order[j] = order[j], order[i]
		}
	}
	parallel(len(order), func(i int) { evalMemo(todo[order[i]]) })
	dbg("main sweep done: %d failing cases", len(failing))

	// Minimality is decided by executing the implementation (DESIGN §5.1): for
	// every failing case its one-step reductions are evaluated (memoised, also
	// when they lie outside the enumerated families) in a fixed order until,
	// for each of its failure kinds, a reduction failing the same way is found
	// (the case is then not minimal, and the reduction is examined in turn) or
	// all reductions have been executed (the case is minimal). The set of
	// executed cases is a deterministic function of the enumerated set.
	rounds := 0
	for len(failing) > 0 {
		batch := failing
		failing = nil
		rounds++
		parallel(len(batch), func(i int) {
			tc := batch[i]
			res := evalMemo(tc)
			open := map[string]bool{}
			for _, f := range res.Findings {
				open[f.Kind] = true
			}
			for _, red := range reductions(tc.spec) {
				if len(open) == 0 {
					break
				}
				rr := evalMemo(testCase{family: "reduction", lang: tc.lang, spec: red})
				for _, f := range rr.Findings {
					delete(open, f.Kind)
				}
			}
		})
		dbg("reduction round %d: %d failing cases examined, %d newly failing reductions", rounds, len(batch), len(failing))
	}
	onDemand := len(memos) - enumerated
	evaluated := memos

	// Vacuity guard: every context configuration must have produced contexts that were
	// judged; a layer that silently judged nothing is a harness error, never a pass.
	ctxEnumerated, ctxNotJudged := 0, 0
	for k, n := range families {
		if strings.HasPrefix(k, "ctx:") {
			ctxEnumerated += n
		}
	}
	for k, n := range counters {
		if strings.HasPrefix(k, "context:") && strings.Contains(k, "not-judged") {
			ctxNotJudged += n
		}
	}
	if ctxEnumerated > 0 {
		for _, lang := range contextConfigs {
			if counters["context:judged @ "+lang] == 0 && counters["clause:crash"] == 0 {
				vx.Fatalf("pipeline layer is vacuous: no context of configuration %q was judged (%d not judged)", lang, ctxNotJudged)
			}
		}
	}

	var samples []any
	for _, i := range []int{0, len(todo) / 7, 2 * len(todo) / 7, 3 * len(todo) / 7, 4 * len(todo) / 7, 5 * len(todo) / 7, 6 * len(todo) / 7, len(todo) - 1} {
		if i >= 0 && i < len(todo) {
			samples = append(samples, map[string]any{"family": todo[i].family, "case": todo[i].id()})
		}
	}
	var famList []string
	for k, n := range families {
		famList = append(famList, fmt.Sprintf("%s:%d", k, n))
	}
	sort.Strings(famList)
	r.Finish(map[string]any{
		"states":                         len(evaluated),
		"transitions":                    transitions,
		"traces_validated_against_impl":  transitions,
		"samples":                        samples,
		"exhaustive":                     true,
		"enumerated_schema_sets":         enumerated,
		"cases_per_family_before_dedup":  famList,
		"reductions_evaluated_on_demand": onDemand,
		"child_process_runs":             childRuns,
		"contexts_not_judged":            ctxNotJudged,
		"builders_compared":              nBuilders,
		"options_compared":               nOptions,
		"oracle_clauses_exercised":       counters,
		"explanation":                    "every grammar-I schema set of the listed families is built twice (fresh values), once for cog's own (&ast.BuilderGenerator{}).FromAST — the call `inspect --ir builders` makes before veneers — and once for an independent derivation transcribed from DESIGN Appendix A.2; compared: the set of builders (Package, Name, For), and per field of the resolved struct exactly-once coverage by an option (name, single argument name/type, default, one direct assignment to [field] with argument value and each scalar constraint op+first argument) or a constructor constant (path, value) or nothing (constant reference); schema sets with an alias cycle run in a child process so that a stack overflow is recorded as a crash: finding instead of killing the run",
	}, []string{
		"leniences (statement silent): order of builders and of options; comments, veneer trails, nil checks, builder Properties/Factories; a required non-nullable reference to a constant object that is itself nullable may be covered by an option or by a constructor constant (an optional or nullable reference to a constant is NOT fixed by the schema and must be an option); constraints on assignments of non-scalar fields are not judged; a constant reference may also be covered by a constructor constant equal to its reference value",
		"constraint operators exercised are those of grammar I (minLength, maxLength, >=, <); all other operators go through the same code path",
		"references always use the exact case of the object name; two schemas never share a package name (Schemas are consolidated before builders are derived)",
		"at the pipeline layer a failure of the language/final passes (re-run with builders off) is counted and not judged (C04/C06), a failure of the builder stage on schemas the passes produced is a finding; every configuration must judge at least one context (else harness error); a crash (panic / fatal error) of FromAST is reported under kind `crash:` for visibility; it is property C04's subject but also violates A.2 (unresolved or cyclic reference: no builder, never a crash)",
	})
}

func replay(r *vx.Run) {
	kind, wit, raw := r.ReplayFile()
	var d detail
	if err := json.Unmarshal(raw, &d); err != nil || len(d.Spec.Pkgs) == 0 {
		vx.Fatalf("replay file has no schema spec in detail: %v", err)
	}
	if w := caseID(d.Lang, d.Spec); w != wit {
		vx.Fatalf("replay: spec in detail renders as %q, witness says %q", w, wit)
	}
	fmt.Println("schemas:", wit)
	res := evaluate(d.Spec, d.Lang, true)
	fmt.Println("--- model (Appendix A.2) ---")
	fmt.Println(res.Model)
	if d.Lang == "" {
		fmt.Println("--- real: (&ast.BuilderGenerator{}).FromAST ---")
	} else {
		fmt.Println("--- model above is derived from the schemas of the returned context; real: Builders of codegen.Pipeline.ContextForLanguage(" + d.Lang + ") ---")
	}
	fmt.Println(res.Real)
	fmt.Println("--- comparison ---")
	same := false
	for _, f := range res.Findings {
		fmt.Printf("  [%s] %s\n", f.Kind, f.What)
		if f.Kind == kind {
			same = true
		}
	}
	if len(res.Findings) == 0 {
		fmt.Println("  real and model builders agree")
	}
	if same {
		fmt.Printf("VIOLATION property=C16 replay=%s\n", r.Replay)
		os.Exit(1)
	}
	if len(res.Findings) > 0 {
		fmt.Printf("replay: the recorded kind %q no longer occurs, but other mismatches do\n", kind)
		fmt.Printf("VIOLATION property=C16 replay=%s\n", r.Replay)
		os.Exit(1)
	}
	fmt.Println("replay: no mismatch on this tree")
	os.Exit(0)
}
