//go:build verif

package main

// The reference derivation of DESIGN.md Appendix A.2, written from that text
// and the property statement only (not from internal/ast/builder.go).
//
//   builders(S) = { o ∈ objects(S) | resolve*(o.Type) is a struct }
//   resolve* follows references transitively; unresolved or cyclic → no builder.
//   For such an object with resolved struct T, each field f is covered by exactly one of
//   (a) f.Type concrete scalar                       → constructor assignment f := value
//   (b) f required, not nullable, resolve*(f.Type)
//       concrete scalar                              → constructor assignment with that value
//       (optional or nullable: the value is not fixed by the schema → an option, rule d;
//        A.2's "accept either" lenience was dropped: the statement allows a constant only
//        "when the schema fixes the field's value")
//   (c) f.Type constant reference                    → nothing
//   (d) otherwise one option named f.Name, one argument (f.Name, f.Type), one direct
//       assignment to [f] carrying f's scalar constraints (op + first argument),
//       Default = [f.Type.Default] iff a default is declared.
//   Builder Package and Name are the object's; For is the object.

import (
	"fmt"
	"strings"

	"github.com/grafana/cog/internal/ast"
	"github.com/grafana/cog/verifx/refl"
)

type cover int

const (
	byOption cover = 1 << iota
	byConstant
	byNothing
)

func (c cover) String() string {
	var p []string
	if c&byOption != 0 {
		p = append(p, "option")
	}
	if c&byConstant != 0 {
		p = append(p, "constructor-constant")
	}
	if c&byNothing != 0 {
		p = append(p, "nothing")
	}
	return strings.Join(p, "|")
}

type expField struct {
	field   ast.StructField
	allowed cover
	value   any    // demanded constant when covered by a constructor constant
	rule    string // a, b, b-silent, c, d
	class   string // normalised description of the field for failure kinds
}

type expObject struct {
	pkg     string
	obj     ast.Object
	class   string
	builder bool
	fields  []expField
}

// wantsOption: the model demands an option for at least one field.
func (e expObject) wantsOption() bool {
	for _, f := range e.fields {
		if f.allowed == byOption {
			return true
		}
	}
	return false
}

// locate: an object reference pkg.Name matches an object of that package with
// that name (the enumerated references always use the exact case).
func locate(schemas ast.Schemas, pkg, name string) (ast.Object, bool) {
	var found ast.Object
	ok := false
	for _, s := range schemas {
		if s == nil || s.Package != pkg {
			continue
		}
		s.Objects.Iterate(func(key string, o ast.Object) {
			if !ok && o.Name == name {
				found, ok = o, true
			}
		})
	}
	return found, ok
}

// resolveStar follows references transitively. status: "" (resolved),
// "missing" (a reference that matches no object) or "cycle".
func resolveStar(schemas ast.Schemas, t ast.Type) (ast.Type, string) {
	seen := map[string]bool{}
	for t.Kind == ast.KindRef && t.Ref != nil {
		key := t.Ref.ReferredPkg + "\x00" + t.Ref.ReferredType
		if seen[key] {
			return t, "cycle"
		}
		seen[key] = true
		o, ok := locate(schemas, t.Ref.ReferredPkg, t.Ref.ReferredType)
		if !ok {
			return t, "missing"
		}
		t = o.Type
	}
	return t, ""
}

func isConcreteScalar(t ast.Type) bool {
	return t.Kind == ast.KindScalar && t.Scalar != nil && t.Scalar.Value != nil
}

// kindClass is the normalised class of a type used in failure kinds.
func kindClass(schemas ast.Schemas, t ast.Type) string {
	switch t.Kind {
	case ast.KindScalar:
		switch {
		case isConcreteScalar(t):
			return "constant"
		case t.Scalar != nil && len(t.Scalar.Constraints) > 0:
			return "scalar+constraints"
		}
		return "scalar"
	case ast.KindRef:
		res, status := resolveStar(schemas, t)
		if status != "" {
			return "ref-to-" + status
		}
		return "ref-to-" + kindClass(schemas, res)
	}
	return string(t.Kind)
}

func objectClass(schemas ast.Schemas, t ast.Type) string {
	if t.Kind != ast.KindRef {
		return kindClass(schemas, t)
	}
	res, status := resolveStar(schemas, t)
	switch status {
	case "missing":
		return "dangling-alias"
	case "cycle":
		return "cyclic-alias"
	}
	return "alias-of-" + kindClass(schemas, res)
}

func fieldClass(schemas ast.Schemas, f ast.StructField) string {
	s := "optional "
	if f.Required {
		s = "required "
	}
	if f.Type.Nullable {
		s += "nullable "
	}
	return s + kindClass(schemas, f.Type)
}

func defaultKind(v any) string {
	switch x := v.(type) {
	case nil:
		return "none"
	case []any:
		if len(x) == 0 {
			return "empty list"
		}
		return "list"
	case map[string]any:
		if len(x) == 0 {
			return "empty map"
		}
		return "map"
	case bool:
		if !x {
			return "zero scalar"
		}
	case string:
		if x == "" {
			return "zero scalar"
		}
	case int64:
		if x == 0 {
			return "zero scalar"
		}
	case float64:
		if x == 0 {
			return "zero scalar"
		}
	}
	return "scalar"
}

func deriveModel(schemas ast.Schemas, counters map[string]int) []expObject {
	var out []expObject
	for _, schema := range schemas {
		schema.Objects.Iterate(func(_ string, obj ast.Object) {
			e := expObject{pkg: schema.Package, obj: obj, class: objectClass(schemas, obj.Type)}
			resolved, status := resolveStar(schemas, obj.Type)
			if status == "" && resolved.Kind == ast.KindStruct && resolved.Struct != nil {
				e.builder = true
				counters["object:builder @ "+e.class]++
				for _, f := range resolved.Struct.Fields {
					ef := expField{field: f, class: fieldClass(schemas, f)}
					fres, fstatus := resolveStar(schemas, f.Type)
					switch {
					case isConcreteScalar(f.Type): // (a)
						ef.allowed, ef.value, ef.rule = byConstant, f.Type.Scalar.Value, "a"
					case f.Type.Kind == ast.KindRef && fstatus == "" && isConcreteScalar(fres):
						switch {
						case !f.Required || f.Type.Nullable:
							// "a constructor constant … when the schema fixes the field's value":
							// an optional or nullable field may be absent / null, its value is
							// not fixed, so it must be covered by an option (rule d).
							ef.allowed, ef.rule = byOption, "d-unfixed-constant-ref"
						case !fres.Nullable: // (b)
							ef.allowed, ef.value, ef.rule = byConstant, fres.Scalar.Value, "b"
						default:
							// Lenience: the statement is silent on a required, non-nullable
							// reference to a constant object that is itself declared nullable —
							// either coverage is accepted.
							ef.allowed, ef.value, ef.rule = byConstant|byOption, fres.Scalar.Value, "b-silent"
						}
					case f.Type.Kind == ast.KindConstantRef: // (c)
						ef.allowed, ef.rule = byNothing, "c"
						if f.Type.ConstantReference != nil {
							ef.value = f.Type.ConstantReference.ReferenceValue
						}
					default: // (d)
						ef.allowed, ef.rule = byOption, "d"
					}
					counters["field:rule-"+ef.rule]++
					e.fields = append(e.fields, ef)
				}
			} else {
				counters["object:no-builder @ "+e.class]++
			}
			out = append(out, e)
		})
	}
	return out
}

func dumpModel(objs []expObject) string {
	var b strings.Builder
	for _, o := range objs {
		if !o.builder {
			fmt.Fprintf(&b, "object %s.%s (%s): NO builder\n", o.pkg, o.obj.Name, o.class)
			continue
		}
		fmt.Fprintf(&b, "object %s.%s (%s): builder Package=%q Name=%q For=%s.%s\n", o.pkg, o.obj.Name, o.class, o.pkg, o.obj.Name, o.pkg, o.obj.Name)
		for _, f := range o.fields {
			fmt.Fprintf(&b, "  field %q [%s] rule (%s): covered by %s", f.field.Name, f.class, f.rule, f.allowed)
			if f.allowed&byConstant != 0 {
				fmt.Fprintf(&b, "; constant = %s", refl.Canon(f.value))
			}
			if f.allowed&byOption != 0 {
				fmt.Fprintf(&b, "; option %q(arg %q : %s)", f.field.Name, f.field.Name, typeString(f.field.Type))
				if f.field.Type.Default != nil {
					fmt.Fprintf(&b, " default=[%s]", refl.Canon(f.field.Type.Default))
				}
				if f.field.Type.Kind == ast.KindScalar && f.field.Type.Scalar != nil {
					for _, c := range f.field.Type.Scalar.Constraints {
						fmt.Fprintf(&b, " constraint(%s %s)", c.Op, refl.Canon(firstArg(c)))
					}
				}
			}
			b.WriteString("\n")
		}
	}
	return b.String()
}

func firstArg(c ast.TypeConstraint) any {
	if len(c.Args) == 0 {
		return nil
	}
	return c.Args[0]
}

func typeString(t ast.Type) string {
	s := string(t.Kind)
	switch {
	case t.Kind == ast.KindScalar && t.Scalar != nil:
		s = string(t.Scalar.ScalarKind)
	case t.Kind == ast.KindRef && t.Ref != nil:
		s = "ref(" + t.Ref.ReferredPkg + "." + t.Ref.ReferredType + ")"
	}
	if t.Nullable {
		s += "?"
	}
	return s
}
