//go:build verif

package main

import (
	"fmt"
	"os"

	"github.com/grafana/cog/verifx/gschema"
)

func main() {
	all := gschema.Enumerate(len(os.Args) > 1 && os.Args[1] == "thorough")
	fmt.Println("schemas:", len(all))
	docs, acc, dis := 0, 0, 0
	skip := map[string]int{}
	for i, s := range all {
		vals, skipped := s.Validators()
		for f, why := range skipped {
			skip[f]++
			if i < 400 && len(os.Args) > 2 {
				fmt.Println("  skip", f, why, "::", s)
			}
		}
		for _, d := range s.Documents() {
			docs++
			a, agree := gschema.Accepted(vals, d)
			if !agree {
				dis++
				if len(os.Args) > 2 {
					fmt.Println("  DISAGREE", s, d)
				}
			}
			if a {
				acc++
			}
		}
	}
	fmt.Println("docs", docs, "accepted", acc, "disagreements", dis, "skipped", skip)
	for _, s := range all[:3] {
		for _, f := range gschema.Formats {
			r, err := s.Render(f)
			fmt.Println(f, err, r.Main)
		}
	}
}
