//go:build verif

package bldrun

import "github.com/grafana/cog/verifx/gschema"

// TypeClass is the coarse class of an option's target type (part of the failure kind).
func TypeClass(u *LUnit, t gschema.Term, depth int) string {
	s := ""
	switch t.K {
	case "scalar":
		switch t.A {
		case "string", "bool", "any", "datetime", "bytes", "null":
			s = t.A
		case "float32", "float64":
			s = "number"
		default:
			s = "integer"
		}
		if t.Constr {
			s += "[c]"
		}
	case "array", "map":
		if depth >= 1 {
			s = t.K
		} else {
			s = t.K + " of " + TypeClass(u, t.Sub[len(t.Sub)-1], depth+1)
		}
	case "struct":
		s = "struct"
	case "disj":
		s = "union"
	case "ref":
		r := u.Resolve(t)
		if r.K == "ref" || depth >= 2 {
			s = "ref"
		} else {
			r.Nullable = false
			s = "ref(" + TypeClass(u, r, depth+2) + ")"
		}
	default:
		s = t.K
	}
	if t.Nullable {
		s += "?"
	}
	if t.Default != "" {
		s += "=default"
	}
	return s
}

