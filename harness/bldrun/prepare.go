//go:build verif

// Package bldrun is the shared machinery of the builder checks C09 and C14:
// it renders struct-rooted schemas of grammar G (plain and with one veneer
// rule applied), generates Go (+Python) types, builders and converters with
// the real pipeline (genrun), loads the builder IR of every unit from the REAL
// pipeline (codegen.PipelineFromFile → LoadSchemas → ContextForLanguage), and
// links the generated Go into a reflective driver whose hooks execute builder
// call sequences / converters described by JSON requests.
package bldrun

import (
	"context"
	"fmt"
	"os"
	"path/filepath"
	"sort"
	"strings"

	"github.com/grafana/cog/internal/ast"
	"github.com/grafana/cog/internal/codegen"
	"github.com/grafana/cog/internal/languages"
	"github.com/grafana/cog/internal/tools"
	"github.com/grafana/cog/verifx/genrun"
	"github.com/grafana/cog/verifx/gschema"
	"github.com/grafana/cog/verifx/irgen"
	"github.com/grafana/cog/verifx/vx"
)

// Opts selects what is generated.
type Opts struct {
	Name       string
	Thorough   bool
	Converters bool
	Python     bool
	// Twins adds two-package units (the schema as packages p and q) for the nil-guarded veneer variants.
	Twins bool
	// Only restricts the run to one witness (replay).
	Only string
}

// Variant is one veneer rule applied to the root fields of every schema that
// has a field the rule can rewrite. "" is the plain (unveneered) builder.
type Variant struct {
	Name string
	// Applies decides from the abstract schema whether the rule can change a builder.
	Applies func(s gschema.Schema) bool
	YAML    string
	// Rewrite, when set, post-processes the rendered schema text (no veneer: a flavour of the schema itself).
	Rewrite func(format, text string) string
}

// Only one field of two-field roots is rewritten, so that a rule never
// produces two options of the same name (that would be C17's business).
const rootFields = "[f, a, u, next, children]"

func veneer(rule string) string {
	return "language: all\npackage: p\noptions:\n" + rule
}

func rootHas(s gschema.Schema, pred func(t gschema.Term) bool) bool {
	for i, t := range s.Objs[0].T.Sub {
		if !strings.Contains(rootFields, " "+s.Objs[0].T.Fields[i].Name+",") && !strings.Contains(rootFields, "["+s.Objs[0].T.Fields[i].Name+",") && !strings.Contains(rootFields, " "+s.Objs[0].T.Fields[i].Name+"]") {
			continue
		}
		if pred(t) {
			return true
		}
	}
	return false
}

func (s1 schemaView) resolve(t gschema.Term) gschema.Term {
	for i := 0; i < 4 && t.K == "ref"; i++ {
		n, ok := s1.s.Lookup(strings.TrimPrefix(t.A, gschema.Pkg+"."))
		if !ok {
			break
		}
		t = n
	}
	return t
}

type schemaView struct{ s gschema.Schema }

// Variants of the builder API (DESIGN C09 "veneered builders").
func Variants() []Variant {
	sel := func(kind string) string {
		return "  - " + kind + ": {by_names: {object: Root, options: " + rootFields + "}"
	}
	isStruct := func(s gschema.Schema) func(gschema.Term) bool {
		return func(t gschema.Term) bool { return schemaView{s}.resolve(t).K == "struct" }
	}
	return []Variant{
		{Name: "append", YAML: veneer(sel("array_to_append") + "}\n"),
			Applies: func(s gschema.Schema) bool { return rootHas(s, func(t gschema.Term) bool { return t.K == "array" }) }},
		{Name: "index", YAML: veneer(sel("map_to_index") + "}\n"),
			Applies: func(s gschema.Schema) bool { return rootHas(s, func(t gschema.Term) bool { return t.K == "map" }) }},
		{Name: "fieldopts", YAML: veneer(sel("struct_fields_as_options") + "}\n"),
			Applies: func(s gschema.Schema) bool { return rootHas(s, isStruct(s)) }},
		{Name: "fieldargs", YAML: veneer(sel("struct_fields_as_arguments") + "}\n"),
			Applies: func(s gschema.Schema) bool { return rootHas(s, isStruct(s)) }},
		{Name: "disjopts", YAML: veneer(sel("disjunction_as_options") + ", argument_index: 0}\n"),
			Applies: func(s gschema.Schema) bool {
				return rootHas(s, func(t gschema.Term) bool { return schemaView{s}.resolve(t).K == "disj" })
			}},
		{Name: "unfoldbool", YAML: veneer(sel("unfold_boolean") + ", true_as: yes, false_as: no}\n"),
			Applies: func(s gschema.Schema) bool {
				return rootHas(s, func(t gschema.Term) bool { return t.K == "scalar" && t.A == "bool" })
			}},
	}
}

// ExtraSchemas are struct-rooted members of grammar G that gschema.Enumerate
// does not list but that builders/converters treat specially (nullable
// collections, nested arrays, collections of builders below a wrapper).
func ExtraSchemas() []gschema.Schema {
	str := irgen.S("string")
	refS := irgen.Ref("p.S")
	refP := irgen.Ref("p.P")
	var out []gschema.Schema
	for _, t := range []gschema.Term{
		irgen.Nullable(irgen.Array(str)), irgen.Nullable(irgen.Map(str)),
		irgen.Array(irgen.Array(str)), irgen.Array(irgen.Array(refS)),
		irgen.Nullable(irgen.Array(refS)), irgen.Map(irgen.Array(refS)),
		irgen.Array(irgen.Map(str)), irgen.Map(irgen.Array(str)),
		irgen.Array(irgen.Array(refP)),
	} {
		out = append(out, gschema.Field1(t, true), gschema.Field1(t, false))
	}
	for n := 0; n <= maxShapeConsts; n++ {
		out = append(out, ShapesSchema(n))
	}
	out = append(out, StructDefaultSchemas()...)
	out = append(out, UnionListSchemas()...)
	return out
}

// Schemas is the case set of the tier: the struct-rooted part of grammar G plus ExtraSchemas.
func Schemas(thorough bool, shapeConstants bool) []gschema.Schema {
	seen := map[string]bool{}
	var out []gschema.Schema
	all := append(gschema.Enumerate(thorough), ExtraSchemas()...)
	all = append(all, MixedSchemas(thorough)...)
	all = append(all, DeepSchemas(thorough)...)
	for _, s := range all {
		if !shapeConstants && shapeConsts(s) > 0 {
			continue // the constant members only matter to the converters' choice of a builder (C14)
		}
		if s.Objs[0].T.K != "struct" || seen[s.String()] {
			continue
		}
		seen[s.String()] = true
		out = append(out, s)
	}
	sort.SliceStable(out, func(i, j int) bool { return out[i].Size() < out[j].Size() })
	return out
}

// Case is one (schema, input format, builder variant) pushed through generation.
type Case struct {
	Index   int
	Schema  gschema.Schema
	Format  string
	Variant string
	Unit    genrun.Unit
	Result  *genrun.Result
	// CompileErrs of the generated Go packages of this unit (nil = compiles).
	CompileErrs []string
	InDriver    bool
	API         genrun.GoAPI
	// Go / Py: builder IR of the unit as the real pipeline derives it for that language.
	Go, Py *IR
	// Twin: "" | "p" | "q" - the unit holds the schema twice, as packages p and q
	// (same objects, builders and options); this case judges the named package.
	Twin string
	// Validators: reference validators of the root object (of the rewritten rendering when the variant rewrites it).
	Validators map[string]gschema.Validator
	rewrite    func(format, text string) string
	// Noop: the veneer variant left every builder unchanged (the case duplicates the plain one).
	Noop bool
	// Fallback: the unit did not compile with the standard flags (BlockedWith) and is judged on
	// the output generated with the strict unmarshaller added.
	Fallback    bool
	BlockedWith []string
	// Dup: the veneer variant yields two options of the same name in one builder (not judged here).
	Dup bool
}

// PkgName is the package this case judges.
func (c *Case) PkgName() string {
	if c.Twin == "q" {
		return "q"
	}
	return gschema.Pkg
}

// Key is the driver registry prefix of the case's package.
func (c *Case) Key() string {
	if c.Twin == "q" {
		return c.Unit.ID + "@q"
	}
	return c.Unit.ID
}

// Tag names the builder variant in failure kinds (the judged package of a twin unit is not part of it).
func (c *Case) Tag() string {
	t := c.Variant
	if c.Twin != "" {
		t += "+twin"
	}
	return t
}

// ValidatorsOf builds the reference validators of a schema the way this case renders it.
func (c *Case) ValidatorsOf(s gschema.Schema) map[string]gschema.Validator {
	if c.rewrite == nil {
		v, _ := s.Validators()
		return v
	}
	out := map[string]gschema.Validator{}
	for _, f := range gschema.Formats {
		r, err := s.Render(f)
		if err != nil {
			continue
		}
		if v, err := gschema.NewValidator(f, c.rewrite(f, r.Main), s.Objs[0].Name); err == nil {
			out[f] = v
		}
	}
	return out
}

// Witness is the canonical identity of the case.
func (c *Case) Witness() string {
	f := c.Format
	if c.Variant != "" {
		f += "+" + c.Variant
	}
	if c.Twin != "" {
		f += "+twin-" + c.Twin
	}
	return f + " :: " + c.Schema.String()
}

// Parents: schema reductions in every format (same variant), the same schema
// in earlier formats, and the plain builder of the same schema.
func (c *Case) Parents() []string {
	var out []string
	suffix := ""
	if c.Variant != "" {
		suffix = "+" + c.Variant
	}
	if c.Twin != "" {
		suffix += "+twin-" + c.Twin
	}
	for _, p := range genrun.CaseParents(c.Schema, c.Format) {
		i := strings.Index(p, " :: ")
		out = append(out, p[:i]+suffix+p[i:])
	}
	if c.Twin != "" {
		base := c.Format
		if c.Variant != "" {
			base += "+" + c.Variant
		}
		out = append(out, base+" :: "+c.Schema.String())
	}
	if c.Variant != "" {
		out = append(out, c.Format+" :: "+c.Schema.String())
		out = append(out, genrun.CaseParents(c.Schema, c.Format)...)
	}
	return out
}

func (c *Case) Size() int {
	n := c.Schema.Size() * 10
	for i, f := range gschema.Formats {
		if f == c.Format {
			n += i
		}
	}
	if c.Variant != "" {
		n += 5
	}
	if c.Twin != "" {
		n += 3
	}
	return n
}

// IR is the builder context of one unit for one language.
type IR struct {
	Ctx languages.Context
	Err string
}

func (ir *IR) Builder(name string) (ast.Builder, bool) { return ir.BuilderIn(gschema.Pkg, name) }

// BuilderFor is the builder of the object `object`, when exactly one builder builds it.
func (ir *IR) BuilderFor(pkg, object string) (ast.Builder, bool) {
	if ir == nil {
		return ast.Builder{}, false
	}
	var found []ast.Builder
	for _, b := range ir.Ctx.Builders {
		if b.Package == pkg && b.For.Name == object && b.For.SelfRef.ReferredPkg == pkg {
			found = append(found, b)
		}
	}
	if len(found) != 1 {
		return ast.Builder{}, false
	}
	return found[0], true
}

func (ir *IR) BuilderIn(pkg, name string) (ast.Builder, bool) {
	if ir == nil {
		return ast.Builder{}, false
	}
	for _, b := range ir.Ctx.Builders {
		if b.Package == pkg && b.Name == name {
			return b, true
		}
	}
	return ast.Builder{}, false
}

// LoadIR derives the builder IR of a unit with the real pipeline.
func LoadIR(ws *genrun.Workspace, u genrun.Unit, lang string) *IR {
	ir := &IR{}
	cfg := filepath.Join(ws.Dir, "in", u.ID, "pipeline.yaml")
	p := vx.CatchStack(func() {
		pl, err := codegen.PipelineFromFile(cfg, codegen.Parameters(nil))
		if err != nil {
			ir.Err = err.Error()
			return
		}
		langs, err := pl.OutputLanguages()
		if err != nil {
			ir.Err = err.Error()
			return
		}
		target, ok := langs[lang]
		if !ok {
			ir.Err = "language " + lang + " is not an output of the unit"
			return
		}
		schemas, err := pl.LoadSchemas(context.Background())
		if err != nil {
			ir.Err = err.Error()
			return
		}
		ctx, err := pl.ContextForLanguage(target, schemas)
		if err != nil {
			ir.Err = err.Error()
			return
		}
		ir.Ctx = ctx
	})
	if p != nil {
		ir.Err = "panic: " + p.Value
	}
	return ir
}

// Prepared is a generated, compiled and linked batch.
type Prepared struct {
	WS         *genrun.Workspace
	Cases      []*Case
	Driver     *genrun.Driver
	Skipped    map[string]int
	Validators []map[string]gschema.Validator
	Schemas    []gschema.Schema
	DumpAdded  int
}

// GoName is the exported Go identifier the Go jennies derive from an IR name.
func GoName(n string) string { return tools.UpperCamelCase(n) }

// FindFunc looks a generated function up by its expected name (exact, then case-insensitive).
func FindFunc(api genrun.GoAPI, want string) string {
	if api.HasFunc(want) {
		return want
	}
	for _, f := range api.Funcs {
		if strings.EqualFold(f, want) {
			return f
		}
	}
	return ""
}

// formatsFor: thorough renders every format; quick renders JSON Schema, plus
// OpenAPI and CUE for the schemas whose behaviour depends on what the
// front-end makes of constraints and struct-level defaults.
func formatsFor(s gschema.Schema, thorough bool) []string {
	if thorough {
		return gschema.Formats
	}
	special := false
	if isFamily(s) {
		return []string{"jsonschema"} // what these families exercise is decided after the front-ends
	}
	for _, o := range s.Objs {
		walkTerm(o.T, func(t gschema.Term) {
			if t.Constr || t.Default == StructDefault {
				special = true
			}
		})
	}
	if special {
		return gschema.Formats
	}
	return []string{"jsonschema"}
}

func walkTerm(t gschema.Term, f func(gschema.Term)) {
	f(t)
	for _, s := range t.Sub {
		walkTerm(s, f)
	}
}

// twinVariants: the veneer rules whose assignments go through nil-guards; they
// are also generated as two-package units (same objects, builders and options in p and q).
var twinVariants = map[string]bool{"fieldopts": true, "fieldargs": true, "index": true, "append": true, "": false}

func unitLetter(i int) string { return string(rune('a' + i)) }

// twinRender adds package q (a copy of package p) to a rendering.
func twinRender(r gschema.Rendered) (map[string]string, string) {
	files := map[string]string{}
	for name, text := range r.Files {
		files[name] = text
		qn := strings.NewReplacer("p.json", "q.json", "p/", "q/").Replace(name)
		files[qn] = strings.Replace(text, "package p\n", "package q\n", 1)
	}
	second := strings.NewReplacer("/p.json", "/q.json", "package: p", "package: q", "%DIR%/p'", "%DIR%/q'").Replace(r.InputYAML)
	return files, r.InputYAML + "\n  " + second
}

// Prepare renders, generates, loads the IR, compiles and links.
func Prepare(ws *genrun.Workspace, o Opts) (*Prepared, error) {
	p := &Prepared{WS: ws, Skipped: map[string]int{}}
	p.Schemas = Schemas(o.Thorough, o.Converters)
	variants := append([]Variant{{Name: ""}}, Variants()...)
	variants = append(variants, ScenarioVariants()...)
	variants = append(variants, BoundsVariant())
	variants = append(variants, FamilyVariants()...)
	var units []genrun.Unit
	haveUnit := map[string]bool{}
	for i, s := range p.Schemas {
		vals, _ := s.Validators()
		p.Validators = append(p.Validators, vals)
		for _, f := range formatsFor(s, o.Thorough) {
			r, err := s.Render(f)
			if err != nil {
				p.Skipped[f]++
				continue
			}
			for vi, v := range variants {
				if v.Name != "" && !v.Applies(s) {
					continue
				}
				rv := r
				if v.Rewrite != nil {
					rv.Files = map[string]string{}
					for n, t := range r.Files {
						rv.Files[n] = v.Rewrite(f, t)
					}
					rv.Main = v.Rewrite(f, r.Main)
					if rv.Main == r.Main {
						continue // nothing to rewrite in this rendering
					}
				}
				twins := []string{""}
				// quick: two-package units for the JSON Schema rendering of one-member roots only
				if o.Twins && twinVariants[v.Name] && (o.Thorough || f == "jsonschema" && len(s.Objs[0].T.Sub) == 1 && !isFamily(s)) {
					twins = []string{"", "p", "q"}
				}
				for _, tw := range twins {
					c := &Case{Index: i, Schema: s, Format: f, Variant: v.Name, Twin: tw, rewrite: v.Rewrite, Validators: vals}
					if v.Rewrite != nil {
						c.Validators = c.ValidatorsOf(s)
					}
					if o.Only != "" && c.Witness() != o.Only {
						continue
					}
					u := genrun.Unit{ID: fmt.Sprintf("s%04d%s%s", i, f[:1], unitLetter(vi)), Files: rv.Files, InputYAML: rv.InputYAML,
						Types: true, Builders: true, Converters: o.Converters,
						Go: &genrun.GoOpts{JSONMarshaller: true, Validate: true}}
					if o.Python {
						u.Python, u.PythonJSON = true, true
					}
					if v.YAML != "" {
						u.VeneersYAML = map[string]string{"v.yaml": v.YAML}
					}
					if tw != "" {
						u.ID += "t"
						u.Files, u.InputYAML = twinRender(rv)
						if v.YAML != "" {
							u.VeneersYAML["w.yaml"] = strings.Replace(v.YAML, "package: p\n", "package: q\n", 1)
						}
					}
					c.Unit = u
					p.Cases = append(p.Cases, c)
					if !haveUnit[u.ID] {
						haveUnit[u.ID] = true
						units = append(units, u)
					}
				}
			}
		}
	}
	results := ws.Generate(units)
	irCache := map[string]*IR{}
	loadIR := func(u genrun.Unit, lang string) *IR {
		k := u.ID + "/" + lang
		if ir, ok := irCache[k]; ok {
			return ir
		}
		ir := LoadIR(ws, u, lang)
		irCache[k] = ir
		return ir
	}
	plainIR := map[string]string{}
	noopVariant := map[string]bool{}
	for _, c := range p.Cases {
		c.Result = results[c.Unit.ID]
		if c.Result.Status != "ok" {
			continue
		}
		c.Go = loadIR(c.Unit, "go")
		if o.Python {
			c.Py = loadIR(c.Unit, "python")
		}
		key := fmt.Sprintf("%d/%s", c.Index, c.Format)
		if c.Twin != "" {
			if noopVariant[key+"/"+c.Variant] {
				c.Noop = true
			}
			continue
		}
		sig := vx.JSON(c.Go.Ctx.Builders)
		if c.Py != nil {
			sig += vx.JSON(c.Py.Ctx.Builders)
		}
		if c.Variant == "" {
			plainIR[key] = sig
		} else if plainIR[key] == sig {
			c.Noop = true
		} else if dupOptions(c.Go) || dupOptions(c.Py) {
			c.Noop, c.Dup = true, true
		}
		if c.Noop {
			noopVariant[key+"/"+c.Variant] = true
		}
	}
	addDump := func(ids []string) {
		if !o.Converters {
			return
		}
		// The converters call cog.Dump, which the Go runtime jenny never
		// emits (known C02 finding): supply it so that the unit compiles.
		for _, id := range ids {
			dir := filepath.Join(ws.Dir, "out/go", id, "cog")
			if _, err := os.Stat(dir); err != nil {
				continue
			}
			if hasDump(dir) {
				continue
			}
			os.WriteFile(filepath.Join(dir, "dump_verif.go"), []byte(DumpSource(o.repo())), 0o644)
			p.DumpAdded++
		}
	}
	var liveIDs []string
	for _, c := range p.Cases {
		if c.Noop {
			os.RemoveAll(filepath.Join(ws.Dir, "out/go", c.Unit.ID))
			os.RemoveAll(filepath.Join(ws.Dir, "out/python", c.Unit.ID))
		} else if c.Result.Status == "ok" {
			liveIDs = append(liveIDs, c.Unit.ID)
		}
	}
	addDump(liveIDs)
	errs := ws.BuildGo()
	unitErrs := func(id string) []string {
		var out []string
		prefix := "verifgen/" + id + "/"
		for imp, e := range errs {
			if strings.HasPrefix(imp, prefix) {
				out = append(out, e...)
			}
		}
		sort.Strings(out)
		return out
	}
	// Units whose Go does not compile with {json marshaller, validate} are
	// generated once more with the strict unmarshaller added (the unused
	// imports of union types disappear then): if that compiles the case is
	// judged on it (Fallback), otherwise it stays blocked_by=C02.
	retryOf := map[string]genrun.Unit{}
	var retryUnits []genrun.Unit
	for _, c := range p.Cases {
		if c.Result.Status != "ok" || c.Noop {
			continue
		}
		if e := unitErrs(c.Unit.ID); len(e) > 0 {
			c.CompileErrs = e
			if _, done := retryOf[c.Unit.ID]; !done {
				u := c.Unit
				u.ID += "x"
				g := *u.Go
				g.StrictUnmarshaller = true
				u.Go = &g
				retryOf[c.Unit.ID] = u
				retryUnits = append(retryUnits, u)
			}
		}
	}
	if len(retryUnits) > 0 {
		res2 := ws.Generate(retryUnits)
		var again []string
		for _, u := range retryUnits {
			if res2[u.ID].Status == "ok" {
				again = append(again, u.ID)
			}
		}
		addDump(again)
		errs = ws.BuildGo()
		for _, c := range p.Cases {
			u, ok := retryOf[c.Unit.ID]
			if !ok || len(c.CompileErrs) == 0 {
				continue
			}
			r := res2[u.ID]
			if r.Status != "ok" || len(unitErrs(u.ID)) > 0 {
				continue
			}
			c.BlockedWith = c.CompileErrs
			c.CompileErrs = nil
			c.Unit, c.Result, c.Fallback = u, r, true
			c.Go = loadIR(c.Unit, "go")
			if o.Python {
				c.Py = loadIR(c.Unit, "python")
			}
		}
	}
	var pkgs []genrun.DriverPkg
	for _, c := range p.Cases {
		if c.Result.Status != "ok" || c.Noop {
			continue
		}
		prefix := "verifgen/" + c.Unit.ID + "/"
		if len(c.CompileErrs) > 0 {
			continue
		}
		rel := c.Unit.ID + "/" + c.PkgName()
		if _, err := os.Stat(filepath.Join(ws.Dir, "out/go", rel)); err != nil {
			continue
		}
		api, err := ws.ParseGoAPI(rel)
		if err != nil {
			continue
		}
		c.API = api
		c.InDriver = true
		// the generic registry assumes zero-argument constructors: builder
		// constructors (which may take arguments) are registered by regBuilder only
		regAPI := api
		regAPI.Funcs = nil
		for _, f := range api.Funcs {
			if !(strings.HasPrefix(f, "New") && strings.HasSuffix(f, "Builder")) {
				regAPI.Funcs = append(regAPI.Funcs, f)
			}
		}
		dp := genrun.DriverPkg{Key: c.Key(), Import: prefix + c.PkgName(), API: regAPI}
		var extra strings.Builder
		for _, b := range c.Go.Ctx.Builders {
			if b.Package != c.PkgName() {
				continue
			}
			if fn := FindFunc(api, "New"+GoName(b.Name)+"Builder"); fn != "" {
				fmt.Fprintf(&extra, "\tregBuilder(%q, %s.%s)\n", c.Key()+"."+b.Name, dp.Alias(), fn)
			}
			if o.Converters {
				if fn := FindFunc(api, GoName(b.Name)+"Converter"); fn != "" {
					fmt.Fprintf(&extra, "\tregConverter(%q, %s.%s)\n", c.Key()+"."+b.Name, dp.Alias(), fn)
				}
			}
		}
		dp.Extra = extra.String()
		pkgs = append(pkgs, dp)
	}
	if e, ok := errs["verifgen/?"]; ok {
		return nil, fmt.Errorf("go build reported errors outside any package: %v", e)
	}
	d, err := ws.BuildDriver(pkgs, map[string]string{"bld_hooks.go": goHooksSrc})
	if err != nil {
		return nil, err
	}
	p.Driver = d
	return p, nil
}

func dupOptions(ir *IR) bool {
	if ir == nil {
		return false
	}
	for _, b := range ir.Ctx.Builders {
		seen := map[string]bool{}
		for _, o := range b.Options {
			k := strings.ToLower(strings.ReplaceAll(o.Name, "_", ""))
			if seen[k] {
				return true
			}
			seen[k] = true
		}
	}
	return false
}

func (o Opts) repo() string {
	if r := os.Getenv("VERIF_REPO"); r != "" {
		return r
	}
	return "/repo"
}

func hasDump(dir string) bool {
	ents, _ := os.ReadDir(dir)
	for _, e := range ents {
		b, _ := os.ReadFile(filepath.Join(dir, e.Name()))
		if strings.Contains(string(b), "func Dump(") {
			return true
		}
	}
	return false
}

// DumpSource extracts the Dump helpers of testdata/generated/cog/runtime.go
// (the only place cog.Dump exists) as a file of package cog.
func DumpSource(repo string) string {
	b, err := os.ReadFile(filepath.Join(repo, "testdata/generated/cog/runtime.go"))
	if err != nil {
		vx.Fatalf("cog.Dump source: %v", err)
	}
	src := string(b)
	i := strings.Index(src, "func Dump(")
	if i < 0 {
		vx.Fatalf("cog.Dump not found in testdata/generated/cog/runtime.go")
	}
	return "package cog\n\nimport (\n\t\"fmt\"\n\t\"reflect\"\n\t\"strings\"\n)\n\n" + src[i:]
}
