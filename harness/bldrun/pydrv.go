//go:build verif

package bldrun

import (
	"bytes"
	"encoding/json"
	"os"
	"path/filepath"
	"sync"
	"time"

	"github.com/grafana/cog/verifx/genrun"
	"github.com/grafana/cog/verifx/vx"
)

// pySrc drives the generated Python builders: ONE long-lived interpreter,
// JSONL protocol, every unit imported under its own top-level package name
// (<ws>/out/python is on sys.path; see genrun/pyrun.go for the layout).
//
// Specs: {"j": "<json text>"} a plain value; {"b": "<Builder>", "calls": [{"m": name, "args": [spec…]}]}
// a builder; [spec…] a list; {"map": {k: spec}} a dict.
//
// ops: bld {"unit", "spec"} → {"json"} | {"exc": {type, msg, stage: option|nested|build|encode, call}} | {"problem"}
//      default {"unit", "class"} → {"json"}
const pySrc = `import sys, json, importlib, re, typing, inspect

root = sys.argv[1]
sys.path.insert(0, root)
_cache = {}


class Problem(Exception):
    pass


class Raised(Exception):
    def __init__(self, stage, call, exc):
        self.stage, self.call, self.exc = stage, call, exc


def describe(e):
    return {"type": type(e).__name__, "msg": str(e).split("\n")[0][:300]}


_pkg = "p"


def load(unit):
    key = unit + "/" + _pkg
    if key not in _cache:
        try:
            models = importlib.import_module(unit + ".models." + _pkg)
            enc = importlib.import_module(unit + ".cog.encoder").JSONEncoder
            try:
                builders = importlib.import_module(unit + ".builders." + _pkg)
            except ModuleNotFoundError:
                builders = None
            _cache[key] = (models, builders, enc, None)
        except BaseException as e:
            if isinstance(e, (KeyboardInterrupt, SystemExit)):
                raise
            _cache[key] = (None, None, None, describe(e))
    return _cache[key]


def norm(s):
    return re.sub(r"[^a-z0-9]", "", s.lower())


def find_attr(obj, name, what):
    cands = [name, name + "_val"]
    snake = re.sub(r"(?<=[a-z0-9])([A-Z])", r"_\1", name).lower()
    cands += [snake, snake + "_val"]
    for c in cands:
        if hasattr(obj, c):
            return getattr(obj, c)
    n = norm(name)
    hits = [a for a in dir(obj) if not a.startswith("_") and norm(a) in (n, n + "val")]
    if len(hits) == 1:
        return getattr(obj, hits[0])
    raise Problem("no " + what + " " + name + " (have " + ",".join(a for a in dir(obj) if not a.startswith("_"))[:200] + ")")


def accepts_none(hint):
    if hint is typing.Any or hint is object or hint is type(None):
        return True
    if typing.get_origin(hint) is typing.Union:
        return any(accepts_none(h) for h in typing.get_args(hint))
    return False


def check_none(m, args):
    # None may only be passed where the annotation of the parameter admits it
    try:
        hints = typing.get_type_hints(m)
        names = [n for n in inspect.signature(m).parameters]
    except Exception:
        return
    for n, a in zip(names, args):
        if a is None and n in hints and not accepts_none(hints[n]):
            raise Problem("None is not admitted by the annotation of parameter " + n)


def arg(unit, spec):
    if isinstance(spec, list):
        return [arg(unit, s) for s in spec]
    if "j" in spec:
        return json.loads(spec["j"])
    if "map" in spec:
        return {k: arg(unit, s) for k, s in spec["map"].items()}
    if "b" in spec:
        try:
            return construct(unit, spec)
        except Raised as r:
            raise Raised("nested", r.call, r.exc)
    raise Problem("bad spec")


def construct(unit, spec):
    models, builders, enc, err = load(unit)
    if err is not None:
        raise Problem("import: " + err["type"] + ": " + err["msg"])
    if builders is None:
        raise Problem("the unit has no builders module")
    cls = find_attr(builders, spec["b"], "builder class")
    try:
        b = cls()
    except Exception as e:
        raise Raised("constructor", -1, e)
    for i, c in enumerate(spec.get("calls") or []):
        args = [arg(unit, a) for a in (c.get("args") or [])]
        m = find_attr(b, c["m"], "option")
        if any(a is None for a in args):
            check_none(m, args)
        try:
            r = m(*args)
        except Exception as e:
            raise Raised("option", i, e)
        if r is not None and isinstance(r, cls):
            b = r
    return b


def handle(req):
    global _pkg
    op = req.get("op")
    unit = req["unit"]
    _pkg = req.get("pkg") or "p"
    models, builders, enc, err = load(unit)
    if err is not None:
        return {"problem": "import: " + err["type"] + ": " + err["msg"], "import_error": err}
    if op == "default":
        try:
            cls = find_attr(models, req["class"], "class")
            return {"json": json.dumps(cls(), cls=enc)}
        except Problem as p:
            return {"problem": str(p)}
        except Exception as e:
            return {"exc": dict(describe(e), stage="constructor")}
    if op == "bld":
        try:
            b = construct(unit, req["spec"])
        except Problem as p:
            return {"problem": str(p)}
        except Raised as r:
            return {"exc": dict(describe(r.exc), stage=r.stage, call=r.call)}
        try:
            obj = b.build()
        except Exception as e:
            return {"exc": dict(describe(e), stage="build")}
        try:
            return {"json": json.dumps(obj, cls=enc)}
        except Exception as e:
            return {"exc": dict(describe(e), stage="encode")}
    return {"problem": "unknown op " + str(op)}


def main():
    out = sys.stdout
    for line in sys.stdin:
        line = line.strip()
        if not line:
            continue
        try:
            resp = handle(json.loads(line))
        except RecursionError as e:
            resp = {"exc": dict(describe(e), stage="option")}
        except Exception as e:
            resp = {"error": "driver: " + type(e).__name__ + ": " + str(e)}
        out.write(json.dumps(resp))
        out.write("\n")
        out.flush()


main()
`

// PyDriver is the running Python interpreter.
type PyDriver struct {
	mu sync.Mutex
	wk *vx.Worker
}

// StartPython writes the driver script into the workspace and returns a handle on one python3 process.
func StartPython(w *genrun.Workspace) *PyDriver {
	script := filepath.Join(w.Dir, "bld_pydriver.py")
	if err := os.WriteFile(script, []byte(pySrc), 0o644); err != nil {
		vx.Fatalf("writing the python driver: %v", err)
	}
	root := filepath.Join(w.Dir, "out/python")
	os.MkdirAll(root, 0o755)
	return &PyDriver{wk: &vx.Worker{Bin: "python3", Args: []string{"-u", "-B", script, root}, Env: []string{"PYTHONHASHSEED=0"}, Timeout: 60 * time.Second}}
}

func (d *PyDriver) Do(req map[string]any) (resp map[string]any, died bool) {
	d.mu.Lock()
	defer d.mu.Unlock()
	b, _ := json.Marshal(req)
	out, died := d.wk.Do(b)
	if died {
		return nil, true
	}
	dec := json.NewDecoder(bytes.NewReader(out))
	dec.UseNumber()
	if err := dec.Decode(&resp); err != nil {
		vx.Fatalf("python driver: bad answer %q: %v", out, err)
	}
	if e, _ := resp["error"].(string); len(e) > 7 && e[:7] == "driver:" {
		vx.Fatalf("python driver: %s", e)
	}
	return resp, false
}

func (d *PyDriver) Close() { d.wk.Close() }
