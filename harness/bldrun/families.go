//go:build verif

package bldrun

import (
	"sort"
	"strings"

	"github.com/grafana/cog/verifx/gschema"
	"github.com/grafana/cog/verifx/irgen"
)

// Families of schemas and veneer combinations added to the space of C09/C14
// because the single-rule, one-member shapes could not contain them:
//
//   - "mixed": Root{f: {a: X, b: Y}} — a struct whose two members are of
//     different classes (constrained scalar next to a list, a map, a
//     reference, an enum, ...), in both orders: what struct_fields_as_options
//     and struct_fields_as_arguments derive for one member must not leak into
//     its neighbour;
//   - "deep": Root{f: {g: {a, b}}} and Root{f: {g: {h: {a, b}}}} with the
//     struct_fields_as_* rules applied level after level, so that options
//     write through paths of three and four segments;
//   - lists of unions with array_to_append and disjunction_as_options combined
//     (one appending option per branch), with documents whose items alternate
//     between the branches;
//   - builders of nested objects renamed by the `rename` builder veneer.

func structAB(x, y gschema.Term, optional bool) gschema.Term {
	return irgen.StructN([]irgen.Field{{Name: "a", Required: !optional}, {Name: "b", Required: !optional}}, []gschema.Term{x, y})
}

func constrained(t gschema.Term) gschema.Term { t.Constr = true; return t }

// MixedSchemas: Root{f: {a: X, b: Y}}.
func MixedSchemas(thorough bool) []gschema.Schema {
	scalars := []gschema.Term{constrained(irgen.S("string")), constrained(irgen.S("int64")), irgen.S("string")}
	others := append(append([]gschema.Term{}, scalars...),
		irgen.Array(irgen.S("string")), irgen.Ref(gschema.Pkg+".S"), irgen.Enum("str"))
	if thorough {
		others = append(others, irgen.Map(irgen.S("int64")), irgen.Ref(gschema.Pkg+".E"), irgen.S("bool"), constrained(irgen.S("float64")), irgen.Array(constrained(irgen.S("int64"))), irgen.Ref(gschema.Pkg+".P"), irgen.S("any"))
	}
	seen := map[string]bool{}
	var out []gschema.Schema
	add := func(x, y gschema.Term, optional bool) {
		s := gschema.WithSupport(gschema.Obj{Name: "Root", T: irgen.Struct1("f", true, structAB(x, y, optional))})
		if !seen[s.String()] {
			seen[s.String()] = true
			out = append(out, s)
		}
	}
	for _, x := range scalars {
		for _, y := range others {
			add(x, y, false)
			add(y, x, false)
			if thorough {
				add(x, y, true)
				add(y, x, true)
			}
		}
	}
	return out
}

// DeepSchemas: the struct {a, b} two and three levels below Root.f.
func DeepSchemas(thorough bool) []gschema.Schema {
	str := irgen.S("string")
	pairs := [][2]gschema.Term{{str, str}, {str, irgen.S("int64")}, {constrained(irgen.S("int64")), constrained(str)}, {constrained(str), irgen.Array(str)}}
	var out []gschema.Schema
	for _, p := range pairs {
		for _, optional := range []bool{false, true} {
			if optional && !thorough {
				continue
			}
			leaf := structAB(p[0], p[1], false)
			d2 := irgen.Struct1("g", !optional, leaf)
			d3 := irgen.Struct1("g", !optional, irgen.Struct1("h", !optional, leaf))
			out = append(out, gschema.WithSupport(gschema.Obj{Name: "Root", T: irgen.Struct1("f", !optional, d2)}))
			out = append(out, gschema.WithSupport(gschema.Obj{Name: "Root", T: irgen.Struct1("f", !optional, d3)}))
		}
	}
	return out
}

// UnionListSchemas: lists whose items are a union.
func UnionListSchemas() []gschema.Schema {
	disc := gschema.Term{K: "disj", Sub: []gschema.Term{irgen.Ref(gschema.Pkg + ".S"), irgen.Ref(gschema.Pkg + ".T")}, Disc: true}
	var out []gschema.Schema
	for _, u := range []gschema.Term{disc, irgen.Disj(irgen.S("string"), irgen.S("bool"))} {
		out = append(out, gschema.Field1(irgen.Array(u), true), gschema.Field1(irgen.Array(u), false))
	}
	return out
}

// structDepth: how many anonymous structs are nested through the members named f, g, h of the root.
func structDepth(s gschema.Schema) int {
	t := s.Objs[0].T
	d := 0
	for _, name := range []string{"f", "g", "h"} {
		if t.K != "struct" {
			break
		}
		found := false
		for i, f := range t.Fields {
			if f.Name == name && t.Sub[i].K == "struct" {
				t, found = t.Sub[i], true
				break
			}
		}
		if !found {
			break
		}
		d++
	}
	return d
}

func isFamily(s gschema.Schema) bool {
	t := s.Objs[0].T
	if len(t.Sub) != 1 || t.Fields[0].Name != "f" || t.Sub[0].K != "struct" {
		return false
	}
	in := t.Sub[0]
	if len(in.Fields) == 2 && in.Fields[0].Name == "a" {
		return true // mixed
	}
	return structDepth(s) >= 2 && strings.Contains(s.Objs[0].T.String(), "a:") // deep
}

func ruleOn(kind, option, extra string) string {
	return "  - " + kind + ": {by_names: {object: Root, options: [" + option + "]}" + extra + "}\n"
}

// FamilyVariants are the rule combinations the families need.
func FamilyVariants() []Variant {
	hasUnionList := func(s gschema.Schema) bool {
		return rootHas(s, func(t gschema.Term) bool {
			return t.K == "array" && schemaView{s}.resolve(t.Sub[0]).K == "disj"
		})
	}
	nestedNamed := func(s gschema.Schema) bool {
		if len(s.Objs[0].T.Sub) != 1 {
			return false
		}
		for _, o := range s.Objs[1:] {
			if (o.Name == "S" || o.Name == "P" || o.Name == "T") && o.T.K == "struct" {
				return true
			}
		}
		return false
	}
	return []Variant{
		{Name: "fieldopts-deep", Applies: func(s gschema.Schema) bool { return structDepth(s) >= 2 },
			YAML: veneer(ruleOn("struct_fields_as_options", "f", "") + ruleOn("struct_fields_as_options", "g", "") + ruleOn("struct_fields_as_options", "h", ""))},
		{Name: "fieldargs-deep2", Applies: func(s gschema.Schema) bool { return structDepth(s) == 2 },
			YAML: veneer(ruleOn("struct_fields_as_options", "f", "") + ruleOn("struct_fields_as_arguments", "g", ""))},
		{Name: "fieldargs-deep3", Applies: func(s gschema.Schema) bool { return structDepth(s) == 3 },
			YAML: veneer(ruleOn("struct_fields_as_options", "f", "") + ruleOn("struct_fields_as_options", "g", "") + ruleOn("struct_fields_as_arguments", "h", ""))},
		{Name: "append+disjopts", Applies: hasUnionList,
			YAML: veneer("  - array_to_append: {by_names: {object: Root, options: " + rootFields + "}}\n" +
				"  - disjunction_as_options: {by_names: {object: Root, options: " + rootFields + "}, argument_index: 0}\n")},
		{Name: "renamed", Applies: nestedNamed,
			YAML: "language: all\npackage: p\nbuilders:\n" +
				"  - rename: {by_object: S, as: Section}\n  - rename: {by_object: P, as: Point}\n  - rename: {by_object: T, as: Tab}\n"},
	}
}

// NameCheckedVariants: variants in which every argument is named after the member it is assigned to.
var NameCheckedVariants = map[string]bool{"": true, "fieldopts": true, "fieldargs": true, "fieldopts-deep": true,
	"fieldargs-deep2": true, "fieldargs-deep3": true, "renamed": true, "xbounds": true}

// unionListDocs: for a one-member root holding a list of a union, documents
// whose items alternate between the branches (the alphabet product only
// holds lists of at most two items, taken from the first branch).
func unionListDocs(c *Case) []Doc {
	root := c.Schema.Objs[0].T
	if len(root.Sub) != 1 {
		return nil
	}
	t := root.Sub[0]
	if t.K != "array" {
		return nil
	}
	u := schemaView{c.Schema}.resolve(t.Sub[0])
	if u.K != "disj" || len(u.Sub) < 2 {
		return nil
	}
	var first []string
	for _, b := range u.Sub[:2] {
		vals := c.Schema.Values(b, 2)
		if len(vals) == 0 {
			return nil
		}
		first = append(first, Text(vals[0]))
	}
	name := Text(root.Fields[0].Name)
	mk := func(items ...string) string { return "{" + name + ":[" + strings.Join(items, ",") + "]}" }
	return []Doc{
		{mk(first[0], first[1]), "union items: first branch, second branch"},
		{mk(first[1], first[0]), "union items: second branch, first branch"},
		{mk(first[0], first[1], first[0], first[1]), "union items: alternating branches"},
	}
}

var _ = sort.Strings
