//go:build verif

package bldrun

import (
	"github.com/grafana/cog/verifx/gschema"
	"github.com/grafana/cog/verifx/irgen"
)

// Multi-rule veneer scenarios: several builders for ONE type, told apart by a
// constant their constructors initialise (the `duplicate` + `initialize` +
// `omit` builder veneers), with and without a constructor argument
// (`promote_options_to_constructor`, listed before or after `initialize`).
// The type is used as a member, as an array item and as a map value of Root,
// so the converter has to choose a builder in each of those positions.

// ShapesSchema is Root{main?: Shape, shapes?: [Shape], named?: {string: Shape}}, Shape{kind: string, size?: int64, label?: string}.
func ShapesSchema() gschema.Schema {
	shape := irgen.Ref(gschema.Pkg + ".Shape")
	return gschema.Schema{Objs: []gschema.Obj{
		{Name: "Root", T: irgen.StructN(
			[]irgen.Field{{Name: "main"}, {Name: "shapes"}, {Name: "named"}},
			[]gschema.Term{shape, irgen.Array(shape), irgen.Map(shape)})},
		{Name: "Shape", T: irgen.StructN(
			[]irgen.Field{{Name: "kind", Required: true}, {Name: "size"}, {Name: "label"}},
			[]gschema.Term{irgen.S("string"), irgen.S("int64"), irgen.S("string")})},
	}}
}

func isShapes(s gschema.Schema) bool { return s.String() == ShapesSchema().String() }

const (
	shapesHead = "language: all\npackage: p\nbuilders:\n" +
		"  - duplicate: {by_name: Shape, as: Circle}\n" +
		"  - duplicate: {by_name: Shape, as: Square}\n" +
		"  - omit: {by_name: Shape}\n"
	shapesInit = "  - initialize: {by_name: Circle, set: [{property: kind, value: circle}]}\n" +
		"  - initialize: {by_name: Square, set: [{property: kind, value: square}]}\n"
	shapesPromote = "  - promote_options_to_constructor: {by_name: Circle, options: [size]}\n" +
		"  - promote_options_to_constructor: {by_name: Square, options: [size]}\n"
	shapesTail = "options:\n  - omit: {by_builder: Circle.kind}\n  - omit: {by_builder: Square.kind}\n"
)

// ScenarioVariants are the rule combinations applied to ShapesSchema.
func ScenarioVariants() []Variant {
	return []Variant{
		{Name: "kinds", Applies: isShapes, YAML: shapesHead + shapesInit + shapesTail},
		{Name: "kinds+ctorarg-before-init", Applies: isShapes, YAML: shapesHead + shapesPromote + shapesInit + shapesTail},
		{Name: "kinds+ctorarg-after-init", Applies: isShapes, YAML: shapesHead + shapesInit + shapesPromote + shapesTail},
	}
}

// DocsFor lists the candidate documents of a case, simplest first: the
// alphabet product of the schema, except for the scenario schemas, whose
// documents use each builder's constant in each position.
func DocsFor(c *Case) []string {
	if !isShapes(c.Schema) {
		return c.Schema.Documents()
	}
	return []string{
		`{"main":{"kind":"circle","size":1}}`,
		`{"main":{"kind":"square","size":1}}`,
		`{"shapes":[{"kind":"circle","size":2}]}`,
		`{"shapes":[{"kind":"square","size":3}]}`,
		`{"shapes":[{"kind":"circle","size":2},{"kind":"square","size":3,"label":"sq"}]}`,
		`{"named":{"a":{"kind":"circle","size":7}}}`,
		`{"named":{"a":{"kind":"square","size":7}}}`,
		`{"main":{"kind":"square","size":1},"shapes":[{"kind":"circle","size":2},{"kind":"square","size":3,"label":"sq"}],"named":{"a":{"kind":"square","size":7}}}`,
		`{"main":{"kind":"square","label":"no size"}}`,
	}
}
