//go:build verif

package bldrun

import (
	"encoding/json"
	"fmt"
	"regexp"
	"strings"

	"github.com/grafana/cog/verifx/gschema"
	"github.com/grafana/cog/verifx/irgen"
)

// ---- several builders for one type ---------------------------------------------------------
//
// Multi-rule veneer scenarios: several builders for ONE type, told apart by a
// constant their constructors initialise (the `duplicate` + `initialize` +
// `omit` builder veneers), with and without a constructor argument
// (`promote_options_to_constructor`, listed before or after `initialize`).
// The type is used as a member, as an array item and as a map value of Root,
// so the converter has to choose a builder in each of those positions. Shape
// additionally carries 0..4 constant members (constructor assignments that
// exist before the veneers add theirs).

const maxShapeConsts = 4

// ShapesSchema is Root{main?: Shape, shapes?: [Shape], named?: {string: Shape}},
// Shape{kind: string, c1..cn: constants, size?: int64, label?: string}.
func ShapesSchema(consts int) gschema.Schema {
	shape := irgen.Ref(gschema.Pkg + ".Shape")
	fields := []irgen.Field{{Name: "kind", Required: true}}
	types := []gschema.Term{irgen.S("string")}
	for i := 1; i <= consts; i++ {
		fields = append(fields, irgen.Field{Name: fmt.Sprintf("c%d", i), Required: true})
		types = append(types, gschema.Term{K: "const", A: fmt.Sprintf("disc:v%d", i)})
	}
	fields = append(fields, irgen.Field{Name: "size"}, irgen.Field{Name: "label"})
	types = append(types, irgen.S("int64"), irgen.S("string"))
	return gschema.Schema{Objs: []gschema.Obj{
		{Name: "Root", T: irgen.StructN(
			[]irgen.Field{{Name: "main"}, {Name: "shapes"}, {Name: "named"}},
			[]gschema.Term{shape, irgen.Array(shape), irgen.Map(shape)})},
		{Name: "Shape", T: irgen.StructN(fields, types)},
	}}
}

// shapeConsts: -1 when s is not a shapes schema, else its number of constant members.
func shapeConsts(s gschema.Schema) int {
	for n := 0; n <= maxShapeConsts; n++ {
		if s.String() == ShapesSchema(n).String() {
			return n
		}
	}
	return -1
}

func isShapes(s gschema.Schema) bool { return shapeConsts(s) >= 0 }

const (
	shapesHead = "language: all\npackage: p\nbuilders:\n" +
		"  - duplicate: {by_name: Shape, as: Circle}\n" +
		"  - duplicate: {by_name: Shape, as: Square}\n" +
		"  - omit: {by_name: Shape}\n"
	shapesInit = "  - initialize: {by_name: Circle, set: [{property: kind, value: circle}]}\n" +
		"  - initialize: {by_name: Square, set: [{property: kind, value: square}]}\n"
	shapesPromote = "  - promote_options_to_constructor: {by_name: Circle, options: [size]}\n" +
		"  - promote_options_to_constructor: {by_name: Square, options: [size]}\n"
	shapesTail = "options:\n  - omit: {by_builder: Circle.kind}\n  - omit: {by_builder: Square.kind}\n"
)

// ScenarioVariants are the rule combinations applied to the shapes schemas.
func ScenarioVariants() []Variant {
	return []Variant{
		{Name: "kinds", Applies: isShapes, YAML: shapesHead + shapesInit + shapesTail},
		{Name: "kinds+ctorarg-before-init", Applies: isShapes, YAML: shapesHead + shapesPromote + shapesInit + shapesTail},
		{Name: "kinds+ctorarg-after-init", Applies: isShapes, YAML: shapesHead + shapesInit + shapesPromote + shapesTail},
	}
}

// Doc is a candidate document; Label (scenario documents only) names the class
// of value it stands for and becomes part of the failure kind.
type Doc struct{ Text, Label string }

func shapeDocs(consts int) []Doc {
	sh := func(kind string, rest string) string {
		s := `{"kind":"` + kind + `"`
		for i := 1; i <= consts; i++ {
			s += fmt.Sprintf(`,"c%d":"v%d"`, i, i)
		}
		if rest != "" {
			s += "," + rest
		}
		return s + "}"
	}
	return []Doc{
		{`{"main":` + sh("circle", `"size":1`) + `}`, "first kind as member"},
		{`{"main":` + sh("square", `"size":1`) + `}`, "second kind as member"},
		{`{"shapes":[` + sh("circle", `"size":2`) + `]}`, "first kind as array item"},
		{`{"shapes":[` + sh("square", `"size":3`) + `]}`, "second kind as array item"},
		{`{"shapes":[` + sh("circle", `"size":2`) + `,` + sh("square", `"size":3,"label":"sq"`) + `]}`, "both kinds as array items"},
		{`{"named":{"a":` + sh("circle", `"size":7`) + `}}`, "first kind as map value"},
		{`{"named":{"a":` + sh("square", `"size":7`) + `}}`, "second kind as map value"},
		{`{"main":` + sh("square", `"size":1`) + `,"shapes":[` + sh("circle", `"size":2`) + `,` + sh("square", `"size":3,"label":"sq"`) + `],"named":{"a":` + sh("square", `"size":7`) + `}}`, "both kinds everywhere"},
		{`{"main":` + sh("square", `"label":"no size"`) + `}`, "promoted member absent"},
	}
}

// ---- struct-level defaults overriding member-level defaults ------------------------------------
//
// Root{f: Rng | *{from: "x"}} with Rng{from: string | *"d", to: string | *"d"}: the
// member f declares a default for the whole struct that overrides the default
// Rng declares for its own member. Judged plain and under the fieldargs /
// fieldopts veneers (f is one of the rewritten root members).

// StructDefault is the Term.Default flavour "a struct default giving member `from`".
const StructDefault = "structdef"

func init() {
	prev := gschema.DefaultHook
	gschema.DefaultHook = func(s gschema.Schema, t gschema.Term) (any, bool) {
		if t.Default == StructDefault {
			return map[string]any{"from": "x"}, true
		}
		if prev != nil {
			return prev(s, t)
		}
		return nil, false
	}
}

// StructDefaultSchemas: required and optional member f.
func StructDefaultSchemas() []gschema.Schema {
	from := irgen.S("string")
	from.Default = "scalar" // "d"
	rng := gschema.Obj{Name: "Rng", T: irgen.StructN([]irgen.Field{{Name: "from", Required: true}, {Name: "to", Required: true}}, []gschema.Term{from, from})}
	f := irgen.Ref(gschema.Pkg + ".Rng")
	f.Default = StructDefault
	var out []gschema.Schema
	for _, req := range []bool{true, false} {
		out = append(out, gschema.Schema{Objs: []gschema.Obj{{Name: "Root", T: irgen.Struct1("f", req, f)}, rng}})
	}
	return out
}

func isStructDefault(s gschema.Schema) bool {
	for _, x := range StructDefaultSchemas() {
		if x.String() == s.String() {
			return true
		}
	}
	return false
}

var structDefaultDocs = []Doc{
	{`{"f":{"from":"x","to":"t"}}`, "member at the struct-level default"},
	{`{"f":{"from":"d","to":"t"}}`, "member at the member-level default"},
	{`{"f":{"from":"zzz","to":"t"}}`, "member at neither default"},
	{`{"f":{"from":"zzz","to":"d"}}`, "other member at its default"},
	{`{"f":{"from":"x","to":"d"}}`, "every member at the builder's default"},
	{`{}`, "absent"},
}

// DocsFor lists the candidate documents of a case, simplest first: the
// alphabet product of the schema, except for the scenario schemas, whose
// documents are chosen to use each builder / each default in each position.
func DocsFor(c *Case) []Doc {
	switch {
	case isShapes(c.Schema):
		return shapeDocs(shapeConsts(c.Schema))
	case isStructDefault(c.Schema):
		return structDefaultDocs
	}
	out := unionListDocs(c)
	for _, d := range c.Schema.Documents() {
		out = append(out, Doc{Text: d})
	}
	return out
}

// ---- other numeric bounds ------------------------------------------------------------------------
//
// Grammar G constrains integers to [0, 5[ (inclusive minimum, exclusive
// maximum). The "xbounds" flavour rewrites every rendering to ]0, 5]
// (exclusive minimum, inclusive maximum); the reference validators are built
// from the rewritten text.

var (
	reJSBounds  = regexp.MustCompile(`"minimum":\s*0,(\s*)"exclusiveMaximum":\s*5`)
	reOABounds  = regexp.MustCompile(`"minimum":\s*0,(\s*)"maximum":\s*5,(\s*)"exclusiveMaximum":\s*true`)
	reCueBounds = regexp.MustCompile(`>=0 & <5`)
)

func BoundsVariant() Variant {
	return Variant{
		Name: "xbounds",
		Applies: func(s gschema.Schema) bool {
			found := false
			for _, o := range s.Objs {
				walkTerm(o.T, func(t gschema.Term) {
					if t.K == "scalar" && t.Constr && t.A != "string" && !strings.HasPrefix(t.A, "float") {
						found = true
					}
				})
			}
			return found
		},
		Rewrite: func(format, text string) string {
			switch format {
			case "jsonschema":
				return reJSBounds.ReplaceAllString(text, `"exclusiveMinimum": 0,${1}"maximum": 5`)
			case "openapi":
				return reOABounds.ReplaceAllString(text, `"minimum": 0,${1}"exclusiveMinimum": true,${2}"maximum": 5`)
			case "cue":
				return reCueBounds.ReplaceAllString(text, ">0 & <=5")
			}
			return text
		},
	}
}

var _ = json.Marshal
