//go:build verif

package bldrun

import (
	"encoding/base64"
	"encoding/json"
	"fmt"
	"sort"
	"strings"
	"time"

	"github.com/grafana/cog/verifx/gschema"
)

// Parse decodes a JSON text keeping numbers exact.
func Parse(text string) (any, error) {
	dec := json.NewDecoder(strings.NewReader(text))
	dec.UseNumber()
	var v any
	err := dec.Decode(&v)
	return v, err
}

func Text(v any) string {
	b, err := json.Marshal(v)
	if err != nil {
		return "!json:" + err.Error()
	}
	return string(b)
}

// Clone deep-copies a JSON value.
func Clone(v any) any {
	switch x := v.(type) {
	case map[string]any:
		o := make(map[string]any, len(x))
		for k, e := range x {
			o[k] = Clone(e)
		}
		return o
	case []any:
		o := make([]any, len(x))
		for i, e := range x {
			o[i] = Clone(e)
		}
		return o
	}
	return v
}

// IsEmpty: null, an empty array or an empty object.
func IsEmpty(v any) bool { return isEmpty(v) }

func isEmpty(v any) bool {
	switch x := v.(type) {
	case nil:
		return true
	case map[string]any:
		return len(x) == 0
	case []any:
		return len(x) == 0
	}
	return false
}

// Lenient normalises a JSON value for the comparisons of C09/C14: object
// members that are null, an empty array or an empty object are dropped (an
// absent member, null and an empty collection are not distinguished: the
// generated Go types tag optional members `omitempty`, which is C01's
// business), date-times are compared as instants.
func Lenient(v any) any {
	switch x := v.(type) {
	case map[string]any:
		o := map[string]any{}
		for k, e := range x {
			n := Lenient(e)
			if isEmpty(n) {
				continue
			}
			o[k] = n
		}
		return o
	case []any:
		o := make([]any, len(x))
		for i, e := range x {
			o[i] = Lenient(e)
		}
		return o
	case string:
		if len(x) >= 20 && x[4] == '-' && x[10] == 'T' {
			if t, err := time.Parse(time.RFC3339Nano, x); err == nil {
				return "@" + t.UTC().Format(time.RFC3339Nano)
			}
		}
	}
	return v
}

// Canon is the canonical text of the lenient form (exact numbers, sorted keys).
func Canon(v any) string {
	c, err := gschema.CanonJSON(Text(Lenient(v)))
	if err != nil {
		return "!canon:" + err.Error()
	}
	return c
}

type JPath []string

func (p JPath) String() string { return strings.Join(p, ".") }

// Get returns the value at path (nil, false when absent).
func Get(v any, p JPath) (any, bool) {
	for _, k := range p {
		m, ok := v.(map[string]any)
		if !ok {
			return nil, false
		}
		v, ok = m[k]
		if !ok {
			return nil, false
		}
	}
	return v, true
}

// DiffPaths lists the paths (object members only; arrays and scalars are
// leaves) at which the lenient forms of a and b differ.
func DiffPaths(a, b any) []JPath {
	var out []JPath
	var rec func(x, y any, at JPath)
	rec = func(x, y any, at JPath) {
		mx, okx := x.(map[string]any)
		my, oky := y.(map[string]any)
		if okx && oky {
			keys := map[string]bool{}
			for k := range mx {
				keys[k] = true
			}
			for k := range my {
				keys[k] = true
			}
			var ks []string
			for k := range keys {
				ks = append(ks, k)
			}
			sort.Strings(ks)
			for _, k := range ks {
				rec(mx[k], my[k], append(append(JPath{}, at...), k))
			}
			return
		}
		if Canon(x) != Canon(y) && !sameBytes(x, y) && !sameBytes(y, x) {
			out = append(out, at)
		}
	}
	rec(Lenient(a), Lenient(b), nil)
	return out
}

// sameBytes: encoding/json writes a []uint8 as a base64 string; a list of
// small numbers and the base64 text of the same bytes are the same value.
func sameBytes(list, text any) bool {
	l, ok := list.([]any)
	s, ok2 := text.(string)
	if !ok || !ok2 {
		return false
	}
	raw, err := base64.StdEncoding.DecodeString(s)
	if err != nil || len(raw) != len(l) {
		return false
	}
	for i, e := range l {
		if Canon(e) != fmt.Sprint(int(raw[i])) {
			return false
		}
	}
	return true
}

// HasPrefix reports whether p starts with q.
func (p JPath) HasPrefix(q JPath) bool {
	if len(q) > len(p) {
		return false
	}
	for i := range q {
		if p[i] != q[i] {
			return false
		}
	}
	return true
}

// ValueClass names the JSON kind of a value.
func ValueClass(v any) string {
	switch x := v.(type) {
	case nil:
		return "null"
	case map[string]any:
		if len(x) == 0 {
			return "empty object"
		}
		return "object"
	case []any:
		if len(x) == 0 {
			return "empty array"
		}
		return "array"
	case string:
		if x == "" {
			return "empty string"
		}
		return "string"
	case bool:
		return "bool"
	}
	return "number"
}

func short(s string, n int) string {
	if len(s) > n {
		return s[:n] + "…"
	}
	return s
}

var _ = fmt.Sprint
