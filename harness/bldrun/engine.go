//go:build verif

package bldrun

import (
	"fmt"
	"sort"
	"strings"
	"sync"

	"github.com/grafana/cog/internal/ast"
	"github.com/grafana/cog/verifx/genrun"
	"github.com/grafana/cog/verifx/gschema"
	"github.com/grafana/cog/verifx/irgen"
)

// LUnit is one case seen through one target language: the builder IR of that
// language bound to the abstract source schema.
type LUnit struct {
	C    *Case
	Lang string // "go" | "python"
	IR   *IR
	// ObjTerm binds IR object names to the source term they were derived from
	// (named objects, anonymous structs and disjunctions that a pass named).
	ObjTerm map[string]gschema.Term
	E       *Engine

	mu       sync.Mutex
	defaults map[string]any
	valid    map[string]map[string]gschema.Validator
}

// Engine runs builder call sequences on the generated code.
type Engine struct {
	P  *Prepared
	Py *PyDriver

	mu     sync.Mutex
	Counts map[string]int
}

func NewEngine(p *Prepared, py *PyDriver) *Engine {
	return &Engine{P: p, Py: py, Counts: map[string]int{}}
}

func (e *Engine) Bump(k string) { e.mu.Lock(); e.Counts[k]++; e.mu.Unlock() }

func (e *Engine) Unit(c *Case, lang string) *LUnit {
	ir := c.Go
	if lang == "python" {
		ir = c.Py
	}
	u := &LUnit{C: c, Lang: lang, IR: ir, E: e, ObjTerm: map[string]gschema.Term{}, defaults: map[string]any{}, valid: map[string]map[string]gschema.Validator{}}
	u.bind()
	return u
}

func (u *LUnit) object(name string) (ast.Object, bool) {
	return u.IR.Ctx.LocateObject(u.C.PkgName(), name)
}

func refName(a string) string { return strings.TrimPrefix(a, gschema.Pkg+".") }

// Resolve follows references to named objects.
func (u *LUnit) Resolve(t gschema.Term) gschema.Term {
	for i := 0; i < 5 && t.K == "ref"; i++ {
		n, ok := u.C.Schema.Lookup(refName(t.A))
		if !ok {
			break
		}
		nullable := t.Nullable
		t = n
		t.Nullable = t.Nullable || nullable
	}
	return t
}

func (u *LUnit) bind() {
	for _, o := range u.C.Schema.Objs {
		u.ObjTerm[o.Name] = o.T
	}
	for _, o := range u.C.Schema.Objs {
		if obj, ok := u.object(o.Name); ok {
			u.bindType(obj.Type, o.T, 0)
		}
	}
}

func (u *LUnit) bindType(it ast.Type, t gschema.Term, depth int) {
	if depth > 6 {
		return
	}
	switch t.K {
	case "struct":
		st := it
		if it.IsRef() && it.AsRef().ReferredPkg == u.C.PkgName() {
			name := it.AsRef().ReferredType
			if _, named := u.C.Schema.Lookup(name); named {
				return
			}
			if _, done := u.ObjTerm[name]; done {
				return
			}
			obj, ok := u.object(name)
			if !ok {
				return
			}
			u.ObjTerm[name] = t
			st = obj.Type
		}
		if !st.IsStruct() {
			return
		}
		for i, f := range t.Fields {
			if sf, ok := st.AsStruct().FieldByName(f.Name); ok {
				u.bindType(sf.Type, t.Sub[i], depth+1)
			}
		}
	case "disj":
		if it.IsRef() && it.AsRef().ReferredPkg == u.C.PkgName() {
			name := it.AsRef().ReferredType
			if _, named := u.C.Schema.Lookup(name); !named {
				if _, done := u.ObjTerm[name]; !done {
					u.ObjTerm[name] = t
				}
			}
		}
	case "array":
		if it.IsArray() {
			u.bindType(it.AsArray().ValueType, t.Sub[0], depth+1)
		}
	case "map":
		if it.IsMap() {
			u.bindType(it.AsMap().ValueType, t.Sub[1], depth+1)
		}
	}
}

// Builders of package p, in IR order.
func (u *LUnit) Builders() []ast.Builder {
	var out []ast.Builder
	for _, b := range u.IR.Ctx.Builders {
		if b.Package == u.C.PkgName() {
			out = append(out, b)
		}
	}
	return out
}

// BuilderTerm is the source term of the object a builder builds (struct or disjunction).
func (u *LUnit) BuilderTerm(b ast.Builder) (gschema.Term, bool) {
	t, ok := u.ObjTerm[b.For.Name]
	if !ok {
		return gschema.Term{}, false
	}
	t = u.Resolve(t)
	return t, t.K == "struct" || t.K == "disj"
}

// SelfTerm is a term denoting "a value of the builder's object".
func (u *LUnit) SelfTerm(b ast.Builder) gschema.Term {
	if _, named := u.C.Schema.Lookup(b.For.Name); named {
		return irgen.Ref(gschema.Pkg + "." + b.For.Name)
	}
	return u.ObjTerm[b.For.Name]
}

// disjFieldTerm: the branch term behind field `name` of the struct a pass generated for a disjunction.
func (u *LUnit) disjFieldTerm(objName string, disj gschema.Term, field string) (gschema.Term, bool) {
	obj, ok := u.object(objName)
	if !ok || !obj.Type.IsStruct() {
		return gschema.Term{}, false
	}
	fields := obj.Type.AsStruct().Fields
	if len(fields) != len(disj.Sub) {
		return gschema.Term{}, false
	}
	for i, f := range fields {
		if f.Name == field {
			return disj.Sub[i], true
		}
	}
	return gschema.Term{}, false
}

// step descends one path item from term cur (the term of the value that holds the item).
func (u *LUnit) step(cur gschema.Term, holder ast.Type, item ast.PathItem) (gschema.Term, bool) {
	cur = u.Resolve(cur)
	if item.Identifier == "" && item.Index != nil {
		if cur.K != "map" {
			return cur, false
		}
		return cur.Sub[1], true
	}
	switch cur.K {
	case "struct":
		for i, f := range cur.Fields {
			if f.Name == item.Identifier {
				t := cur.Sub[i]
				if item.Index != nil {
					t = u.Resolve(t)
					if t.K != "map" {
						return t, false
					}
					t = t.Sub[1]
				}
				return t, true
			}
		}
	case "disj":
		if holder.IsRef() {
			return u.disjFieldTerm(holder.AsRef().ReferredType, cur, item.Identifier)
		}
	}
	return cur, false
}

// TermAt is the source term of the position an assignment path designates inside builder b's object.
func (u *LUnit) TermAt(b ast.Builder, path ast.Path) (gschema.Term, bool) {
	cur, ok := u.ObjTerm[b.For.Name]
	if !ok {
		return cur, false
	}
	holder := b.For.SelfRef.AsType()
	for _, item := range path {
		cur, ok = u.step(cur, holder, item)
		if !ok {
			return cur, false
		}
		holder = item.Type
	}
	return cur, true
}

// ArgInfo describes one argument of an option.
type ArgInfo struct {
	Name string
	Type ast.Type
	Term gschema.Term
	// IsKey: the argument is the index of a map assignment.
	IsKey bool
}

// OptionArgs binds every argument of an option to the source term of the position it is written to.
func (u *LUnit) OptionArgs(b ast.Builder, opt ast.Option) ([]ArgInfo, error) {
	terms := map[string]gschema.Term{}
	keys := map[string]bool{}
	for _, a := range opt.Assignments {
		for _, item := range a.Path {
			if item.Index != nil && item.Index.Argument != nil {
				keys[item.Index.Argument.Name] = true
			}
		}
		target, ok := u.TermAt(b, a.Path)
		if !ok {
			return nil, fmt.Errorf("path %s of option %s is not bound to the source schema", a.Path.String(), opt.Name)
		}
		if a.Method == ast.AppendAssignment {
			rt := u.Resolve(target)
			if rt.K != "array" {
				return nil, fmt.Errorf("append into %s", rt.String())
			}
			target = rt.Sub[0]
		}
		if arg := a.Value.Argument; arg != nil {
			if _, done := terms[arg.Name]; !done {
				terms[arg.Name] = target
			}
		}
		if env := a.Value.Envelope; env != nil {
			for _, ev := range env.Values {
				if ev.Value.Argument == nil {
					continue
				}
				cur, holder, ok := target, env.Type, true
				for _, item := range ev.Path {
					cur, ok = u.step(cur, holder, item)
					if !ok {
						return nil, fmt.Errorf("envelope path %s of option %s is not bound", ev.Path.String(), opt.Name)
					}
					holder = item.Type
				}
				if _, done := terms[ev.Value.Argument.Name]; !done {
					terms[ev.Value.Argument.Name] = cur
				}
			}
		}
	}
	var out []ArgInfo
	for _, arg := range opt.Args {
		ai := ArgInfo{Name: arg.Name, Type: arg.Type}
		if keys[arg.Name] {
			ai.IsKey = true
			ai.Term = irgen.S("string")
		} else if t, ok := terms[arg.Name]; ok {
			ai.Term = t
		} else {
			return nil, fmt.Errorf("argument %s of option %s is assigned nowhere", arg.Name, opt.Name)
		}
		out = append(out, ai)
	}
	return out, nil
}

// ---- validity of values ------------------------------------------------------------------

func stripConstr(t gschema.Term) gschema.Term {
	t.Constr = false
	if len(t.Sub) > 0 {
		sub := make([]gschema.Term, len(t.Sub))
		for i, s := range t.Sub {
			sub[i] = stripConstr(s)
		}
		t.Sub = sub
	}
	return t
}

func (u *LUnit) validators(t gschema.Term, strip bool) map[string]gschema.Validator {
	key := t.String()
	if strip {
		key = "~" + key
	}
	u.mu.Lock()
	v, ok := u.valid[key]
	u.mu.Unlock()
	if ok {
		return v
	}
	objs := []gschema.Obj{{Name: "Arg", T: irgen.Struct1("v", true, t)}}
	objs = append(objs, u.C.Schema.Objs...)
	if strip {
		for i := range objs {
			objs[i].T = stripConstr(objs[i].T)
		}
	}
	v = u.C.ValidatorsOf(gschema.Schema{Objs: objs})
	u.mu.Lock()
	u.valid[key] = v
	u.mu.Unlock()
	return v
}

// Classify decides with the reference validators whether v is a value of
// term t: "valid", "violating" (rejected, but accepted once every constraint
// of the schema is dropped: a constraint violation), "ill-typed" (rejected
// even without constraints: not expressible in a typed API) or "undecided"
// (the validators disagree).
func (u *LUnit) Classify(t gschema.Term, v any) string {
	doc := Text(map[string]any{"v": v})
	ok, agree := gschema.Accepted(u.validators(t, false), doc)
	if !agree {
		return "undecided"
	}
	if ok {
		return "valid"
	}
	ok, agree = gschema.Accepted(u.validators(t, true), doc)
	if !agree {
		return "undecided"
	}
	if ok {
		return "violating"
	}
	return "ill-typed"
}

// ---- argument specs ----------------------------------------------------------------------

// ErrInexpressible: the value cannot be passed through the builder API (not a failure).
type ErrInexpressible struct{ Why string }

func (e ErrInexpressible) Error() string { return e.Why }

func leaf(v any) map[string]any { return map[string]any{"j": Text(v)} }

func (u *LUnit) builderKey(name string) string {
	if u.Lang == "go" {
		return u.C.Key() + "." + name
	}
	return name
}

// MethodName of an option in the target language (the Python driver resolves its own spelling).
func (u *LUnit) MethodName(opt ast.Option) string {
	if u.Lang == "go" {
		return GoName(opt.Name)
	}
	return opt.Name
}

// Spec turns a JSON value into the argument spec for a parameter of IR type
// it bound to source term t. usesBuilder reports whether a nested builder is involved.
func (u *LUnit) Spec(it ast.Type, t gschema.Term, v any, depth int) (spec any, usesBuilder bool, err error) {
	if depth > 6 {
		return nil, false, ErrInexpressible{"nesting too deep"}
	}
	if !u.IR.Ctx.ResolveToBuilder(it) {
		return leaf(v), false, nil
	}
	rt := u.Resolve(t)
	switch {
	case it.IsArray():
		arr, ok := v.([]any)
		if !ok || rt.K != "array" {
			return nil, false, ErrInexpressible{"a list of builders cannot carry " + ValueClass(v)}
		}
		out := []any{}
		for _, e := range arr {
			s, _, err := u.Spec(it.AsArray().ValueType, rt.Sub[0], e, depth+1)
			if err != nil {
				return nil, false, err
			}
			out = append(out, s)
		}
		return out, true, nil
	case it.IsMap():
		m, ok := v.(map[string]any)
		if !ok || rt.K != "map" {
			return nil, false, ErrInexpressible{"a map of builders cannot carry " + ValueClass(v)}
		}
		out := map[string]any{}
		for k, e := range m {
			s, _, err := u.Spec(it.AsMap().ValueType, rt.Sub[1], e, depth+1)
			if err != nil {
				return nil, false, err
			}
			out[k] = s
		}
		return map[string]any{"map": out}, true, nil
	case it.IsDisjunction():
		// Python keeps unions: pick the branch the value belongs to
		if rt.K != "disj" || len(rt.Sub) != len(it.AsDisjunction().Branches) {
			return nil, false, ErrInexpressible{"union shape differs from the source"}
		}
		i := u.PickBranch(rt, v)
		if i < 0 {
			return nil, false, ErrInexpressible{"no union branch carries " + ValueClass(v)}
		}
		return u.Spec(it.AsDisjunction().Branches[i], rt.Sub[i], v, depth+1)
	case it.IsRef():
		name := it.AsRef().ReferredType
		obj, ok := u.object(name)
		if ok && obj.Type.IsDisjunction() {
			return u.Spec(obj.Type, t, v, depth+1)
		}
		if ok && obj.Type.IsRef() { // alias of a struct
			return u.Spec(obj.Type, t, v, depth+1)
		}
		b, ok := u.IR.BuilderFor(u.C.PkgName(), name)
		if !ok {
			return nil, false, ErrInexpressible{"no builder named " + name}
		}
		if v == nil {
			return nil, false, ErrInexpressible{"null cannot be passed as a builder"}
		}
		calls, err := u.CallsFor(b, v, depth+1)
		if err != nil {
			return nil, false, err
		}
		return map[string]any{"b": u.builderKey(b.Name), "calls": calls}, true, nil
	}
	return nil, false, ErrInexpressible{"builder-typed parameter of kind " + string(it.Kind)}
}

func (u *LUnit) PickBranch(disj gschema.Term, v any) int {
	for i, b := range disj.Sub {
		rb := u.Resolve(b)
		switch x := v.(type) {
		case string:
			if rb.K == "scalar" && (rb.A == "string" || rb.A == "datetime") || rb.K == "enum" && rb.A == "str" || rb.K == "const" && rb.A == "str" {
				return i
			}
		case bool:
			if rb.K == "scalar" && rb.A == "bool" {
				return i
			}
		case []any:
			if rb.K == "array" {
				return i
			}
		case map[string]any:
			if rb.K == "struct" {
				match := true
				for j, f := range rb.Fields {
					if rb.Sub[j].K == "const" && strings.HasPrefix(rb.Sub[j].A, "disc:") {
						if fmt.Sprint(x[f.Name]) != strings.TrimPrefix(rb.Sub[j].A, "disc:") {
							match = false
						}
					}
				}
				if match {
					return i
				}
			}
			if rb.K == "map" {
				return i
			}
		case nil:
			if rb.K == "scalar" && rb.A == "null" {
				return i
			}
		default: // json.Number
			if rb.K == "scalar" && rb.A != "string" && rb.A != "bool" && rb.A != "datetime" && rb.A != "any" && rb.A != "null" || rb.K == "enum" && rb.A == "int" {
				return i
			}
		}
	}
	return -1
}

// plainOptionFor finds the option of b that assigns exactly its single argument to member `field`.
func plainOptionFor(b ast.Builder, field string) (ast.Option, bool) {
	for _, o := range b.Options {
		if len(o.Args) != 1 || len(o.Assignments) != 1 {
			continue
		}
		a := o.Assignments[0]
		if a.Method != ast.DirectAssignment || a.Value.Argument == nil || len(a.Path) != 1 || a.Path[0].Identifier != field || a.Path[0].Index != nil {
			continue
		}
		return o, true
	}
	return ast.Option{}, false
}

// CallsFor expresses a JSON value of b's object as option calls on b's builder.
func (u *LUnit) CallsFor(b ast.Builder, v any, depth int) ([]any, error) {
	bt, ok := u.BuilderTerm(b)
	if !ok {
		return nil, ErrInexpressible{"builder " + b.Name + " is not bound to the source schema"}
	}
	calls := []any{}
	if bt.K == "disj" {
		i := u.PickBranch(bt, v)
		obj, ok := u.object(b.For.Name)
		if i < 0 || !ok || !obj.Type.IsStruct() || len(obj.Type.AsStruct().Fields) != len(bt.Sub) {
			return nil, ErrInexpressible{"no branch of " + b.Name + " carries " + ValueClass(v)}
		}
		field := obj.Type.AsStruct().Fields[i].Name
		opt, ok := plainOptionFor(b, field)
		if !ok {
			return nil, ErrInexpressible{"builder " + b.Name + " has no plain option for branch " + field}
		}
		s, _, err := u.Spec(opt.Args[0].Type, bt.Sub[i], v, depth)
		if err != nil {
			return nil, err
		}
		return append(calls, map[string]any{"m": u.MethodName(opt), "args": []any{s}}), nil
	}
	m, ok := v.(map[string]any)
	if !ok {
		return nil, ErrInexpressible{"builder " + b.Name + " cannot carry " + ValueClass(v)}
	}
	keys := make([]string, 0, len(m))
	for k := range m {
		keys = append(keys, k)
	}
	sort.Strings(keys)
	for _, k := range keys {
		var ft gschema.Term
		found := false
		for i, f := range bt.Fields {
			if f.Name == k {
				ft, found = bt.Sub[i], true
			}
		}
		if !found {
			return nil, ErrInexpressible{"member " + k + " is not a field of " + b.Name}
		}
		opt, ok := plainOptionFor(b, k)
		if !ok {
			if c, isConst := constructorConstant(b, k); isConst && Canon(c) == Canon(m[k]) {
				continue
			}
			return nil, ErrInexpressible{"builder " + b.Name + " has no plain option for member " + k}
		}
		s, _, err := u.Spec(opt.Args[0].Type, ft, m[k], depth)
		if err != nil {
			return nil, err
		}
		calls = append(calls, map[string]any{"m": u.MethodName(opt), "args": []any{s}})
	}
	return calls, nil
}

func NormConst(c any) any {
	v, err := Parse(Text(c))
	if err != nil {
		return c
	}
	return v
}

func constructorConstant(b ast.Builder, field string) (any, bool) {
	for _, a := range b.Constructor.Assignments {
		if a.Value.Constant != nil && len(a.Path) == 1 && a.Path[0].Identifier == field {
			return NormConst(a.Value.Constant), true
		}
	}
	return nil, false
}

// ---- effects -----------------------------------------------------------------------------

// PathStep is one step of the JSON path of an assignment.
type PathStep struct {
	Key  string
	Type ast.Type
}

// Effect is what one assignment of an option is documented to do.
type Effect struct {
	Path   []PathStep
	Method ast.AssignmentMethod
	Value  any
}

func (e Effect) JPath() JPath {
	var p JPath
	for _, s := range e.Path {
		p = append(p, s.Key)
	}
	return p
}

func (u *LUnit) envelopeValue(env *ast.AssignmentEnvelope, args map[string]any) (any, error) {
	isDisjStruct := false
	et := env.Type
	if et.IsRef() {
		if obj, ok := u.object(et.AsRef().ReferredType); ok {
			et = obj.Type
		}
	}
	if et.IsStructGeneratedFromDisjunction() {
		isDisjStruct = true
	}
	out := map[string]any{}
	for _, ev := range env.Values {
		val, err := u.assignedValue(ev.Value, args)
		if err != nil {
			return nil, err
		}
		if isDisjStruct {
			return val, nil // the struct standing for a union encodes as its branch
		}
		cur := out
		for i, item := range ev.Path {
			if i == len(ev.Path)-1 {
				cur[item.Identifier] = val
				break
			}
			next, ok := cur[item.Identifier].(map[string]any)
			if !ok {
				next = map[string]any{}
				cur[item.Identifier] = next
			}
			cur = next
		}
	}
	return out, nil
}

func (u *LUnit) assignedValue(av ast.AssignmentValue, args map[string]any) (any, error) {
	switch {
	case av.Argument != nil:
		v, ok := args[av.Argument.Name]
		if !ok {
			return nil, fmt.Errorf("assignment uses argument %s, which the option does not declare", av.Argument.Name)
		}
		return v, nil
	case av.Envelope != nil:
		return u.envelopeValue(av.Envelope, args)
	default:
		return NormConst(av.Constant), nil
	}
}

// Effects of calling opt with the given argument values (by argument name).
func (u *LUnit) Effects(opt ast.Option, args map[string]any) ([]Effect, error) {
	var out []Effect
	for _, a := range opt.Assignments {
		e := Effect{Method: a.Method}
		for _, item := range a.Path {
			if item.Identifier != "" {
				e.Path = append(e.Path, PathStep{Key: item.Identifier, Type: item.Type})
			}
			if item.Index != nil {
				var key any = item.Index.Constant
				if item.Index.Argument != nil {
					key = args[item.Index.Argument.Name]
				}
				ks, ok := key.(string)
				if !ok {
					return nil, ErrInexpressible{"non-string map key"}
				}
				vt := item.Type
				e.Path = append(e.Path, PathStep{Key: ks, Type: vt})
			}
		}
		v, err := u.assignedValue(a.Value, args)
		if err != nil {
			return nil, err
		}
		e.Value = v
		if e.Method == ast.IndexAssignment {
			e.Method = ast.DirectAssignment // the index is a path step
		}
		out = append(out, e)
	}
	return out, nil
}

// DefaultOf is the JSON of the default-constructed object named `name`.
func (u *LUnit) DefaultOf(name string) any {
	u.mu.Lock()
	v, ok := u.defaults[name]
	u.mu.Unlock()
	if ok {
		return Clone(v)
	}
	var text string
	if u.Lang == "go" {
		resp, died := u.E.P.Driver.Do(map[string]any{"op": "default", "type": u.C.Key() + "." + GoName(name)})
		if !died {
			text, _ = resp["json"].(string)
		}
	} else if u.E.Py != nil {
		resp, died := u.E.Py.Do(map[string]any{"op": "default", "unit": u.C.Unit.ID, "pkg": u.C.PkgName(), "class": name})
		if !died {
			text, _ = resp["json"].(string)
		}
	}
	v, err := Parse(text)
	if err != nil {
		v = map[string]any{}
	}
	u.mu.Lock()
	u.defaults[name] = v
	u.mu.Unlock()
	return Clone(v)
}

func (u *LUnit) emptyFor(t ast.Type) any {
	if t.IsRef() {
		if obj, ok := u.object(t.AsRef().ReferredType); ok && obj.Type.IsStruct() {
			return u.DefaultOf(t.AsRef().ReferredType)
		}
	}
	return map[string]any{}
}

// Apply returns doc with the effects applied in order. Intermediate objects
// that are absent are materialised with their own default constructor (the
// lenience of DESIGN C09: a nil-guard necessarily creates them).
func (u *LUnit) Apply(doc any, effects []Effect) any {
	root, ok := Clone(doc).(map[string]any)
	if !ok {
		root = map[string]any{}
	}
	for _, e := range effects {
		cur := root
		for i, s := range e.Path {
			if i == len(e.Path)-1 {
				if e.Method == ast.AppendAssignment {
					arr, _ := cur[s.Key].([]any)
					cur[s.Key] = append(append([]any{}, arr...), Clone(e.Value))
				} else {
					cur[s.Key] = Clone(e.Value)
				}
				break
			}
			next, ok := cur[s.Key].(map[string]any)
			if !ok {
				next, _ = u.emptyFor(s.Type).(map[string]any)
				if next == nil {
					next = map[string]any{}
				}
				cur[s.Key] = next
			}
			cur = next
		}
	}
	return root
}

// ---- execution ---------------------------------------------------------------------------

// Outcome of running one builder spec.
type Outcome struct {
	Built   any    // JSON of the built object (nil when nothing was built)
	HasJSON bool   //
	Err     string // Go: error of Build(); Python: exception text
	Stage   string // Go: "build"; Python: "option" | "nested" | "build" | "encode"
	Panic   string // the generated code panicked (Go)
	Problem string // the request could not be carried out (harness side: skipped, counted)
	Died    bool
}

func (u *LUnit) Run(b ast.Builder, calls []any) Outcome {
	spec := map[string]any{"b": u.builderKey(b.Name), "calls": calls}
	if u.Lang == "go" {
		return u.runGo(spec)
	}
	return u.runPy(spec)
}

func (u *LUnit) runGo(spec map[string]any) Outcome {
	resp, died := u.E.P.Driver.Do(map[string]any{"op": "bld", "spec": spec})
	if died {
		return Outcome{Died: true}
	}
	var o Outcome
	if p, ok := resp["hook_panic"]; ok {
		o.Panic = fmt.Sprint(p)
		return o
	}
	if p, ok := resp["problem"].(string); ok {
		o.Problem = p
		return o
	}
	if why := echoMismatch(spec, resp["echo"]); why != "" {
		o.Problem = why
		return o
	}
	if e, ok := resp["err"].(string); ok {
		o.Err, o.Stage = e, "build"
	}
	if e, ok := resp["encode_err"].(string); ok {
		o.Problem = "built object does not encode: " + e
		return o
	}
	if j, ok := resp["json"].(string); ok {
		v, err := Parse(j)
		if err == nil {
			o.Built, o.HasJSON = v, true
		}
	}
	return o
}

// echoMismatch compares every plain argument of the top-level calls with what
// the driver actually passed after decoding it into the parameter type (a
// null decoded into a non-pointer parameter silently becomes the zero value,
// an out-of-range number is refused, ...): such values cannot be passed
// through the typed API and are skipped.
func echoMismatch(spec map[string]any, echo any) string {
	calls, _ := spec["calls"].([]any)
	echoes, _ := echo.([]any)
	for i, c := range calls {
		if i >= len(echoes) {
			break
		}
		args, _ := c.(map[string]any)["args"].([]any)
		ea, _ := echoes[i].([]any)
		for k, a := range args {
			if k >= len(ea) {
				break
			}
			if why := echoDiff(a, ea[k]); why != "" {
				return why
			}
		}
	}
	return ""
}

func echoDiff(spec, echo any) string {
	switch s := spec.(type) {
	case map[string]any:
		if j, ok := s["j"].(string); ok {
			e, ok := echo.(string)
			if !ok {
				return ""
			}
			a, err1 := gschema.CanonJSON(j)
			b, err2 := gschema.CanonJSON(e)
			if err1 == nil && err2 == nil && a != b {
				va, _ := Parse(j)
				vb, _ := Parse(e)
				if Canon(va) == Canon(vb) {
					return ""
				}
				return "argument is not representable in the parameter type (decodes to a different value)"
			}
		}
		if m, ok := s["map"].(map[string]any); ok {
			em, _ := echo.(map[string]any)
			for k, v := range m {
				if why := echoDiff(v, em[k]); why != "" {
					return why
				}
			}
		}
	case []any:
		ea, _ := echo.([]any)
		for i, v := range s {
			if i < len(ea) {
				if why := echoDiff(v, ea[i]); why != "" {
					return why
				}
			}
		}
	}
	return ""
}

func (u *LUnit) runPy(spec map[string]any) Outcome {
	resp, died := u.E.Py.Do(map[string]any{"op": "bld", "unit": u.C.Unit.ID, "pkg": u.C.PkgName(), "spec": spec})
	if died {
		return Outcome{Died: true}
	}
	var o Outcome
	if p, ok := resp["problem"].(string); ok {
		o.Problem = p
		return o
	}
	if m, ok := resp["exc"].(map[string]any); ok {
		o.Err = fmt.Sprintf("%v: %v", m["type"], m["msg"])
		o.Stage, _ = m["stage"].(string)
	}
	if j, ok := resp["json"].(string); ok {
		v, err := Parse(j)
		if err == nil {
			o.Built, o.HasJSON = v, true
		}
	}
	return o
}

var _ = genrun.CaseParents
