//go:build verif

package bldrun

// goHooksSrc is the generic glue added to the genrun driver: builders and
// converters are registered per unit (one line each, generated from the
// builder IR) and driven purely by reflection.
//
// Argument specs (JSON):
//
//	"<json text>" or {"j": "<json text>"}  decoded with encoding/json into the parameter type
//	{"b": "<unit>.<Builder>", "ctor": [spec…], "calls": [{"m": "Method", "args": [spec…]}…]}   a nested builder
//	[spec…]                               a slice parameter whose elements need specs (builders)
//	{"map": {"k": spec…}}                 a map parameter whose values need specs (builders)
//
// Ops:
//
//	bld   {"spec": builderSpec}                  → {"json", "err", "err_type", "echo": [[json of every decoded argument of each call]], "problem"}
//	conv  {"key": "<unit>.<Builder>", "type": "<unit>.<Type>", "doc": "<json>"} → {"expr", "input_json", "problem"}
const goHooksSrc = `package main

import (
	"encoding/json"
	"fmt"
	"reflect"
	"strings"
)

var bldCtors = map[string]reflect.Value{}
var convFns = map[string]reflect.Value{}

func regBuilder(key string, f any)   { bldCtors[key] = reflect.ValueOf(f) }
func regConverter(key string, f any) { convFns[key] = reflect.ValueOf(f) }

type bldProblem struct{ msg string }

func (p bldProblem) Error() string { return p.msg }

func isBuilderIface(t reflect.Type) bool {
	if t.Kind() != reflect.Interface || t.NumMethod() == 0 {
		return false
	}
	_, ok := t.MethodByName("Build")
	return ok
}

// decodeArg turns a spec into a value of type t; echo receives the JSON of what was actually passed.
func decodeArg(t reflect.Type, spec any) (reflect.Value, any, error) {
	switch s := spec.(type) {
	case string:
		p := reflect.New(t)
		if err := json.Unmarshal([]byte(s), p.Interface()); err != nil {
			return reflect.Value{}, nil, bldProblem{"argument " + s + " does not decode into " + t.String() + ": " + err.Error()}
		}
		b, err := json.Marshal(p.Elem().Interface())
		if err != nil {
			return reflect.Value{}, nil, bldProblem{"argument does not re-encode: " + err.Error()}
		}
		return p.Elem(), string(b), nil
	case []any:
		if t.Kind() != reflect.Slice {
			return reflect.Value{}, nil, bldProblem{"list spec for parameter type " + t.String()}
		}
		out := reflect.MakeSlice(t, 0, len(s))
		echo := []any{}
		for _, e := range s {
			v, ec, err := decodeArg(t.Elem(), e)
			if err != nil {
				return reflect.Value{}, nil, err
			}
			out = reflect.Append(out, v)
			echo = append(echo, ec)
		}
		return out, echo, nil
	case map[string]any:
		if j, ok := s["j"].(string); ok {
			return decodeArg(t, j)
		}
		if m, ok := s["map"].(map[string]any); ok {
			if t.Kind() != reflect.Map || t.Key().Kind() != reflect.String {
				return reflect.Value{}, nil, bldProblem{"map spec for parameter type " + t.String()}
			}
			out := reflect.MakeMap(t)
			echo := map[string]any{}
			for k, e := range m {
				v, ec, err := decodeArg(t.Elem(), e)
				if err != nil {
					return reflect.Value{}, nil, err
				}
				out.SetMapIndex(reflect.ValueOf(k).Convert(t.Key()), v)
				echo[k] = ec
			}
			return out, echo, nil
		}
		if !isBuilderIface(t) {
			return reflect.Value{}, nil, bldProblem{"builder spec for parameter type " + t.String()}
		}
		b, _, err := construct(s)
		if err != nil {
			return reflect.Value{}, nil, err
		}
		if !b.Type().Implements(t) {
			return reflect.Value{}, nil, bldProblem{"builder " + b.Type().String() + " does not implement " + t.String()}
		}
		return b, map[string]any{"builder": s["b"]}, nil
	}
	return reflect.Value{}, nil, bldProblem{fmt.Sprintf("bad spec %T", spec)}
}

func callWith(f reflect.Value, what string, specs []any) ([]reflect.Value, []any, error) {
	ft := f.Type()
	if ft.NumIn() != len(specs) || ft.IsVariadic() {
		return nil, nil, bldProblem{fmt.Sprintf("%s takes %d parameters %s, %d arguments given", what, ft.NumIn(), ft.String(), len(specs))}
	}
	in := make([]reflect.Value, len(specs))
	echo := make([]any, len(specs))
	for i, s := range specs {
		v, ec, err := decodeArg(ft.In(i), s)
		if err != nil {
			return nil, nil, err
		}
		in[i], echo[i] = v, ec
	}
	return f.Call(in), echo, nil
}

// construct builds the builder described by spec and applies its calls.
func construct(spec map[string]any) (reflect.Value, [][]any, error) {
	key, _ := spec["b"].(string)
	ctor, ok := bldCtors[key]
	if !ok {
		return reflect.Value{}, nil, bldProblem{"no builder constructor registered for " + key}
	}
	ctorArgs, _ := spec["ctor"].([]any)
	out, _, err := callWith(ctor, "constructor of "+key, ctorArgs)
	if err != nil {
		return reflect.Value{}, nil, err
	}
	b := out[0]
	var echoes [][]any
	calls, _ := spec["calls"].([]any)
	for _, c := range calls {
		cm := c.(map[string]any)
		name, _ := cm["m"].(string)
		m := b.MethodByName(name)
		if !m.IsValid() {
			for i := 0; i < b.Type().NumMethod(); i++ {
				if strings.EqualFold(b.Type().Method(i).Name, name) {
					m = b.Method(i)
				}
			}
		}
		if !m.IsValid() {
			return reflect.Value{}, nil, bldProblem{"builder " + key + " has no method " + name}
		}
		args, _ := cm["args"].([]any)
		res, echo, err := callWith(m, "option "+name, args)
		if err != nil {
			return reflect.Value{}, nil, err
		}
		echoes = append(echoes, echo)
		if len(res) == 1 && res[0].Type() == b.Type() {
			b = res[0]
		}
	}
	return b, echoes, nil
}

func buildOf(b reflect.Value, resp map[string]any) {
	out := b.MethodByName("Build").Call(nil)
	if len(out) == 2 && !out[1].IsNil() {
		err := out[1].Interface().(error)
		resp["err"] = err.Error()
		resp["err_type"] = fmt.Sprintf("%T", err)
	}
	j, jerr := json.Marshal(out[0].Interface())
	if jerr != nil {
		resp["encode_err"] = jerr.Error()
	}
	resp["json"] = string(j)
}

func init() {
	hooks["bld"] = func(req map[string]any) map[string]any {
		resp := map[string]any{}
		spec, _ := req["spec"].(map[string]any)
		b, echo, err := construct(spec)
		if err != nil {
			if p, ok := err.(bldProblem); ok {
				resp["problem"] = p.msg
				return resp
			}
			resp["problem"] = err.Error()
			return resp
		}
		resp["echo"] = echo
		buildOf(b, resp)
		return resp
	}
	hooks["conv"] = func(req map[string]any) map[string]any {
		resp := map[string]any{}
		key, _ := req["key"].(string)
		typ, _ := req["type"].(string)
		fn, ok := convFns[key]
		if !ok {
			resp["problem"] = "no converter registered for " + key
			return resp
		}
		mk, ok := registry[typ]
		if !ok {
			resp["problem"] = "unknown type " + typ
			return resp
		}
		v := mk()
		if err := json.Unmarshal([]byte(req["doc"].(string)), v); err != nil {
			resp["problem"] = "document does not decode: " + err.Error()
			return resp
		}
		j, err := json.Marshal(v)
		if err != nil {
			resp["problem"] = "decoded value does not re-encode: " + err.Error()
			return resp
		}
		resp["input_json"] = string(j)
		in := reflect.ValueOf(v).Elem()
		ft := fn.Type()
		if ft.NumIn() != 1 {
			resp["problem"] = "converter signature " + ft.String()
			return resp
		}
		if ft.In(0) == reflect.PointerTo(in.Type()) {
			in = reflect.ValueOf(v)
		} else if ft.In(0) != in.Type() {
			resp["problem"] = "converter takes " + ft.In(0).String() + ", value is " + in.Type().String()
			return resp
		}
		out := fn.Call([]reflect.Value{in})
		resp["expr"] = out[0].String()
		return resp
	}
}
`
